(* C10 -- KeyCache is transparent under any history/interleaving and avoids repeat RPCs.
   Statements only. k_cache_* / k_root_env_* are regenerated from _client.py. *)
From V Require Import Prelude.Base Prelude.Loops gen.Kernels gen.K_cache Model.Cache Spec.GkdiSpec Proofs.C10.

Theorem C10_kernels :
  (forall present a l1 b l2, k_cache_covers present a l1 b l2 = true <-> present = true /\ (a > l1 \/ (a = l1 /\ b >= l2))) /\
  (forall present a x b y, k_cache_store present a x b y = true <-> present = false \/ a > x \/ (a = x /\ b > y)) /\
  k_root_env_l1 = 31 /\ k_root_env_l2 = 31 /\ Z.land k_root_env_flags 1 = 0.
Proof. exact kernels_meaning. Qed.
Print Assumptions C10_kernels.

Theorem C10_root_envelope_wins : k_cache_root_overwrites = true.
Proof. exact root_overwrites. Qed.
Print Assumptions C10_root_envelope_wins.

(* ------------------------------------------------------------------------------------------------
   The state-machine theorems.  Everything is stated for an arbitrary key type K, root-key-data type RK,
   KDF `kdf rkid l0 key a b`, L1 seed function, empty key `nokey`, domain controller oracle `dc` and
   ground truth `truth : Z -> RK` (the real root key data of each root key id).
     top rk sd l0            = l1seed (truth rk) rk sd l0
     key_at rk sd l0 l1 l2   = K2 (kdf rk l0) (top rk sd l0) l1 l2      (GkdiSpec: the MS-GKDI chain key)
     conf sd e               = c_pub e = false /\ e is `conforming` for (c_rk e, sd, c_l0 e)   (positions in 0..31)
     Inv c                   = every loaded root key derives the true L1 seeds, and every cached (rk, sd, l0) |-> e
                               has c_rk e = rk, c_l0 e = l0, conf sd e
   Assumptions on the DC (premises): dc_explicit_ok (a request naming a root key and an explicit position is
   answered for that position) and dc_conforming_ok (every private reply is a conforming envelope of the true
   root key AND carries its L2 key also at L2 = 31: the "DC always sends the L2 key" assumption; replies
   without it are the candidate defect D13 handled under C17, see C10_l2_key_assumption_needed).
   Histories are lists of events {Start call | Finish i-th pending RPC}: all interleavings at await granularity. *)
Notation KDF K := (Z -> Z -> K -> Z -> Z -> K) (only parsing).
Notation SEED K RK := (RK -> Z -> Z -> Z -> K) (only parsing).
Notation DC K := (Z -> option Z -> Z -> Z -> Z -> cenv (K := K)) (only parsing).

(* ---- 1. the invariant ---- *)
Theorem C10_inv_init : forall (K RK : Type) (kdf : KDF K) (l1seed : SEED K RK) (truth : Z -> RK),
  Inv kdf l1seed truth empty_cache.
Proof. exact (@Inv_empty). Qed.
Print Assumptions C10_inv_init.

Theorem C10_inv_load : forall (K RK : Type) (kdf : KDF K) (l1seed : SEED K RK) (truth : Z -> RK) (c : cache) (rk : Z) (d : RK),
  Inv kdf l1seed truth c -> agrees l1seed truth rk d -> Inv kdf l1seed truth (load_key c rk d).
Proof. exact (@Inv_load). Qed.
Print Assumptions C10_inv_load.

Theorem C10_inv_get_key : forall (K RK : Type) (kdf : KDF K) (l1seed : SEED K RK) (nokey : K) (truth : Z -> RK) (c : cache) (sd rk l0 l1 l2 : Z),
  Inv kdf l1seed truth c -> Inv kdf l1seed truth (snd (get_key l1seed nokey c sd rk l0 l1 l2)).
Proof. exact (@Inv_get_key). Qed.
Print Assumptions C10_inv_get_key.

(* what _get_key hands back is the entry now cached for the triple, is conforming for it and covers the request *)
Theorem C10_get_sound : forall (K RK : Type) (kdf : KDF K) (l1seed : SEED K RK) (nokey : K) (truth : Z -> RK)
    (c : cache) (sd rk l0 l1 l2 : Z) (e : cenv) (c1 : cache),
  Inv kdf l1seed truth c -> get_key l1seed nokey c sd rk l0 l1 l2 = (Some e, c1) ->
  Inv kdf l1seed truth c1 /\ find_seed (seeds c1) (rk, sd, l0) = Some e /\ c_rk e = rk /\ c_l0 e = l0 /\
  conf kdf l1seed truth sd e /\ (l1 <= 31 -> l2 <= 31 -> covers_at e l1 l2).
Proof. exact (@get_key_sound). Qed.
Print Assumptions C10_get_sound.

Theorem C10_inv_store_key : forall (K RK : Type) (kdf : KDF K) (l1seed : SEED K RK) (truth : Z -> RK) (c : cache) (sd : Z) (e : cenv),
  Inv kdf l1seed truth c -> conf kdf l1seed truth sd e -> Inv kdf l1seed truth (store_key c sd e).
Proof. exact (@Inv_store_key). Qed.
Print Assumptions C10_inv_store_key.

Theorem C10_inv_unprotect_finish : forall (K RK : Type) (kdf : KDF K) (l1seed : SEED K RK) (truth : Z -> RK)
    (c : cache) (sd l0 l1 l2 : Z) (e : cenv) (n : Z),
  Inv kdf l1seed truth c -> (c_pub e = false -> conf kdf l1seed truth sd e) ->
  Inv kdf l1seed truth (snd (unprotect_finish kdf c sd l0 l1 l2 e n)).
Proof. exact (@Inv_unprotect_finish). Qed.
Print Assumptions C10_inv_unprotect_finish.

Theorem C10_inv_protect_finish : forall (K RK : Type) (kdf : KDF K) (l1seed : SEED K RK) (truth : Z -> RK)
    (c : cache) (sd : Z) (e : cenv) (n : Z),
  Inv kdf l1seed truth c -> (c_pub e = false -> conf kdf l1seed truth sd e) ->
  Inv kdf l1seed truth (snd (protect_finish c sd e n)).
Proof. exact (@Inv_protect_finish). Qed.
Print Assumptions C10_inv_protect_finish.

(* the envelope _get_protection_gke_from_cache builds (no L1 key) is not conforming in general
   (C10_protection_envelope_not_conforming) but _store_key never stores it: the entry _get_key has just
   returned / written for the triple is at or after the requested position *)
Theorem C10_protection_envelope_not_stored : forall (K RK : Type) (kdf : KDF K) (l1seed : SEED K RK) (nokey : K) (truth : Z -> RK)
    (c : cache) (sd rk l0 l1 l2 : Z) (e : cenv) (c1 : cache) (k : K),
  Inv kdf l1seed truth c -> get_key l1seed nokey c sd rk l0 l1 l2 = (Some e, c1) -> derive kdf e l1 l2 = Ok k ->
  store_key c1 sd (prot_env nokey rk l0 l1 l2 (c_pub e) k) = c1.
Proof. exact (@prot_env_not_stored). Qed.
Print Assumptions C10_protection_envelope_not_stored.

Theorem C10_protection_envelope_not_conforming : forall (K RK : Type) (kdf : KDF K) (l1seed : SEED K RK) (nokey : K) (truth : Z -> RK)
    (sd rk l0 l1 l2 : Z) (k : K),
  0 < l1 -> l2 <> 31 -> nokey <> K1 (kdf rk l0) (top l1seed truth rk sd l0) (l1 - 1) ->
  ~ conf kdf l1seed truth sd (prot_env nokey rk l0 l1 l2 false k).
Proof. exact (@prot_env_not_conf). Qed.
Print Assumptions C10_protection_envelope_not_conforming.

(* EVERY event preserves the invariant (WInv w = Inv (w_cache w) /\ every envelope in flight is an admissible DC reply);
   only loads are constrained (ev_true: a loaded root key derives the true L1 seeds) *)
Theorem C10_inv_step : forall (K RK : Type) (kdf : KDF K) (l1seed : SEED K RK) (nokey : K) (dc : DC K) (truth : Z -> RK),
  dc_conforming_ok kdf l1seed dc truth ->
  forall (w : world) (ev : event), WInv kdf l1seed truth w -> ev_true l1seed truth ev -> WInv kdf l1seed truth (step kdf l1seed nokey dc w ev).
Proof. exact (@step_WInv). Qed.
Print Assumptions C10_inv_step.

Theorem C10_inv_reachable : forall (K RK : Type) (kdf : KDF K) (l1seed : SEED K RK) (nokey : K) (dc : DC K) (truth : Z -> RK),
  dc_conforming_ok kdf l1seed dc truth ->
  forall evs : list event, Forall (ev_true l1seed truth) evs -> Inv kdf l1seed truth (w_cache (run_events kdf l1seed nokey dc evs)).
Proof. exact (@Inv_reachable). Qed.
Print Assumptions C10_inv_reachable.

(* ... hence every continuation of every invariant-respecting world, in particular every interleaving from the empty cache *)
Theorem C10_inv_fold : forall (K RK : Type) (kdf : KDF K) (l1seed : SEED K RK) (nokey : K) (dc : DC K) (truth : Z -> RK),
  dc_conforming_ok kdf l1seed dc truth ->
  forall (evs : list event) (w : world), WInv kdf l1seed truth w -> Forall (ev_true l1seed truth) evs ->
  WInv kdf l1seed truth (fold_left (step kdf l1seed nokey dc) evs w).
Proof. exact (@fold_WInv). Qed.
Print Assumptions C10_inv_fold.

(* ---- 2. transparency and termination ----
   good_outcome o: when o_pub o = false, o_key o = Ok (key_at rk sd l0 l1 l2) for the position (l0, l1, l2) = o_pos o
   (in 0..31) of some (rk, sd): never an error, never OutOfFuel.  The per-step theorems name rk and sd. *)
Theorem C10_step_outcomes : forall (K RK : Type) (kdf : KDF K) (l1seed : SEED K RK) (nokey : K) (dc : DC K) (truth : Z -> RK),
  dc_explicit_ok dc ->
  forall (w : world) (ev : event),
  Inv kdf l1seed truth (w_cache w) -> Forall (pend_conf kdf l1seed truth) (w_pending w) -> Forall pend_pos (w_pending w) ->
  ev_adm l1seed truth ev ->
  Forall pend_pos (w_pending (step kdf l1seed nokey dc w ev)) /\
  exists new, w_out (step kdf l1seed nokey dc w ev) = w_out w ++ new /\ Forall (good_outcome kdf l1seed truth) new.
Proof. exact (@step_out). Qed.
Print Assumptions C10_step_outcomes.

Theorem C10_transparent : forall (K RK : Type) (kdf : KDF K) (l1seed : SEED K RK) (nokey : K) (dc : DC K) (truth : Z -> RK),
  dc_explicit_ok dc -> dc_conforming_ok kdf l1seed dc truth ->
  forall evs : list event, Forall (ev_adm l1seed truth) evs ->
  Forall (good_outcome kdf l1seed truth) (w_out (run_events kdf l1seed nokey dc evs)).
Proof. exact (@all_outcomes_good). Qed.
Print Assumptions C10_transparent.

(* a request the cache can serve: no RPC, nothing left pending, exactly the chain key of (rk, sd, l0, l1, l2) *)
Theorem C10_unprotect_served_step : forall (K RK : Type) (kdf : KDF K) (l1seed : SEED K RK) (nokey : K) (dc : DC K) (truth : Z -> RK)
    (w : world) (rk sd l0 l1 l2 : Z),
  Inv kdf l1seed truth (w_cache w) -> served (w_cache w) rk sd l0 l1 l2 -> 0 <= l1 <= 31 -> 0 <= l2 <= 31 ->
  exists c' : cache,
    step kdf l1seed nokey dc w (Start (CUnprotect sd rk l0 l1 l2)) =
    {| w_cache := c'; w_pending := w_pending w;
       w_out := w_out w ++ [{| o_key := Ok (key_at kdf l1seed truth rk sd l0 l1 l2); o_pos := (l0, l1, l2); o_pub := false; o_rpcs := 0 |}] |}.
Proof. exact (@start_unprotect_served). Qed.
Print Assumptions C10_unprotect_served_step.

Theorem C10_protect_served_step : forall (K RK : Type) (kdf : KDF K) (l1seed : SEED K RK) (nokey : K) (dc : DC K) (truth : Z -> RK)
    (w : world) (rk sd l0 l1 l2 : Z),
  Inv kdf l1seed truth (w_cache w) -> served (w_cache w) rk sd l0 l1 l2 -> 0 <= l1 <= 31 -> 0 <= l2 <= 31 ->
  exists c' : cache,
    step kdf l1seed nokey dc w (Start (CProtect sd (Some rk) l0 l1 l2)) =
    {| w_cache := c'; w_pending := w_pending w;
       w_out := w_out w ++ [{| o_key := Ok (key_at kdf l1seed truth rk sd l0 l1 l2); o_pos := (l0, l1, l2); o_pub := false; o_rpcs := 0 |}] |}.
Proof. exact (@start_protect_served). Qed.
Print Assumptions C10_protect_served_step.

(* the completion of an unprotect RPC, whenever it is scheduled: the chain key of the requested position; the position is served from then on *)
Theorem C10_unprotect_rpc_step : forall (K RK : Type) (kdf : KDF K) (l1seed : SEED K RK) (nokey : K) (dc : DC K) (truth : Z -> RK),
  dc_explicit_ok dc -> dc_conforming_ok kdf l1seed dc truth ->
  forall (w : world) (i : nat) (rk sd l0 l1 l2 : Z),
  nth_error (w_pending w) i = Some (PUnprotect sd l0 l1 l2 (dc sd (Some rk) l0 l1 l2)) ->
  0 <= l0 -> 0 <= l1 <= 31 -> 0 <= l2 <= 31 -> c_pub (dc sd (Some rk) l0 l1 l2) = false ->
  exists c' : cache,
    step kdf l1seed nokey dc w (Finish i) =
    {| w_cache := c'; w_pending := remove_nth i (w_pending w);
       w_out := w_out w ++ [{| o_key := Ok (key_at kdf l1seed truth rk sd l0 l1 l2); o_pos := (l0, l1, l2); o_pub := false; o_rpcs := 1 |}] |}
    /\ served c' rk sd l0 l1 l2.
Proof. exact (@finish_unprotect_rpc). Qed.
Print Assumptions C10_unprotect_rpc_step.

(* the synchronous API (get, RPC, store, use in one atomic step) *)
Theorem C10_unprotect_sync : forall (K RK : Type) (kdf : KDF K) (l1seed : SEED K RK) (nokey : K) (dc : DC K) (truth : Z -> RK),
  dc_explicit_ok dc -> dc_conforming_ok kdf l1seed dc truth ->
  forall (c : cache) (sd rk l0 l1 l2 : Z),
  Inv kdf l1seed truth c -> 0 <= l0 -> 0 <= l1 <= 31 -> 0 <= l2 <= 31 ->
  let o := fst (unprotect kdf l1seed nokey dc c sd rk l0 l1 l2) in
  Inv kdf l1seed truth (snd (unprotect kdf l1seed nokey dc c sd rk l0 l1 l2)) /\
  o_pos o = (l0, l1, l2) /\ (o_pub o = false -> o_key o = Ok (key_at kdf l1seed truth rk sd l0 l1 l2)) /\
  (served c rk sd l0 l1 l2 -> o_pub o = false /\ o_rpcs o = 0).
Proof. exact (@unprotect_transparent). Qed.
Print Assumptions C10_unprotect_sync.

Theorem C10_protect_sync : forall (K RK : Type) (kdf : KDF K) (l1seed : SEED K RK) (nokey : K) (dc : DC K) (truth : Z -> RK),
  dc_conforming_ok kdf l1seed dc truth ->
  forall (c : cache) (sd : Z) (rko : option Z) (l0 l1 l2 : Z),
  Inv kdf l1seed truth c -> 0 <= l1 <= 31 -> 0 <= l2 <= 31 ->
  let o := fst (protect kdf l1seed nokey dc c sd rko l0 l1 l2) in
  Inv kdf l1seed truth (snd (protect kdf l1seed nokey dc c sd rko l0 l1 l2)) /\
  good_outcome kdf l1seed truth o /\
  (forall rk : Z, rko = Some rk -> served c rk sd l0 l1 l2 ->
     o = {| o_key := Ok (key_at kdf l1seed truth rk sd l0 l1 l2); o_pos := (l0, l1, l2); o_pub := false; o_rpcs := 0 |}).
Proof. exact (@protect_transparent). Qed.
Print Assumptions C10_protect_sync.

(* literally "the same as with a fresh cache", whenever both runs obtain private key material
   (a cache can hold a private envelope / root key where the DC would now answer with a public key only) *)
Theorem C10_same_as_fresh : forall (K RK : Type) (kdf : KDF K) (l1seed : SEED K RK) (nokey : K) (dc : DC K) (truth : Z -> RK),
  dc_explicit_ok dc -> dc_conforming_ok kdf l1seed dc truth ->
  forall (c : cache) (sd rk l0 l1 l2 : Z),
  Inv kdf l1seed truth c -> 0 <= l0 -> 0 <= l1 <= 31 -> 0 <= l2 <= 31 ->
  let o := fst (unprotect kdf l1seed nokey dc c sd rk l0 l1 l2) in
  let o0 := fst (unprotect kdf l1seed nokey dc empty_cache sd rk l0 l1 l2) in
  o_pub o = false -> o_pub o0 = false -> o_key o = o_key o0 /\ o_pos o = o_pos o0.
Proof. exact (@unprotect_same_as_fresh). Qed.
Print Assumptions C10_same_as_fresh.

(* the sync call is the async one whose RPC completes at once *)
Theorem C10_sync_is_async_unprotect : forall (K RK : Type) (kdf : KDF K) (l1seed : SEED K RK) (nokey : K) (dc : DC K) (w : world) (sd rk l0 l1 l2 : Z),
  w_pending w = [] ->
  step kdf l1seed nokey dc (step kdf l1seed nokey dc w (Start (CUnprotect sd rk l0 l1 l2))) (Finish 0) =
  {| w_cache := snd (unprotect kdf l1seed nokey dc (w_cache w) sd rk l0 l1 l2); w_pending := [];
     w_out := w_out w ++ [fst (unprotect kdf l1seed nokey dc (w_cache w) sd rk l0 l1 l2)] |}.
Proof. exact (@sync_unprotect_as_events). Qed.
Print Assumptions C10_sync_is_async_unprotect.

Theorem C10_sync_is_async_protect : forall (K RK : Type) (kdf : KDF K) (l1seed : SEED K RK) (nokey : K) (dc : DC K) (w : world) (sd : Z) (rko : option Z) (l0 l1 l2 : Z),
  w_pending w = [] ->
  step kdf l1seed nokey dc (step kdf l1seed nokey dc w (Start (CProtect sd rko l0 l1 l2))) (Finish 0) =
  {| w_cache := snd (protect kdf l1seed nokey dc (w_cache w) sd rko l0 l1 l2); w_pending := [];
     w_out := w_out w ++ [fst (protect kdf l1seed nokey dc (w_cache w) sd rko l0 l1 l2)] |}.
Proof. exact (@sync_protect_as_events). Qed.
Print Assumptions C10_sync_is_async_protect.

(* ---- 3. monotone: grows c c' = for every triple the cached position (c_l1, c_l2) never decreases
   lexicographically (pos_le), and loaded root keys stay loaded ---- *)
Theorem C10_monotone_step : forall (K RK : Type) (kdf : KDF K) (l1seed : SEED K RK) (nokey : K) (dc : DC K) (truth : Z -> RK),
  dc_conforming_ok kdf l1seed dc truth ->
  forall (w : world) (ev : event), WInv kdf l1seed truth w -> ev_true l1seed truth ev ->
  grows (w_cache w) (w_cache (step kdf l1seed nokey dc w ev)).
Proof. exact (@step_grows). Qed.
Print Assumptions C10_monotone_step.

Theorem C10_monotone : forall (K RK : Type) (kdf : KDF K) (l1seed : SEED K RK) (nokey : K) (dc : DC K) (truth : Z -> RK),
  dc_conforming_ok kdf l1seed dc truth ->
  forall evs1 evs2 : list event, Forall (ev_true l1seed truth) (evs1 ++ evs2) ->
  grows (w_cache (run_events kdf l1seed nokey dc evs1)) (w_cache (run_events kdf l1seed nokey dc (evs1 ++ evs2))).
Proof. exact (@monotone). Qed.
Print Assumptions C10_monotone.

(* ---- 4. no repeat RPC: served c rk sd l0 l1 l2 = a cached envelope of (rk, sd, l0) covers (l1, l2), or the root key rk is loaded ---- *)
Theorem C10_load_serves : forall (K RK : Type) (c : cache (K := K) (RK := RK)) (rk : Z) (d : RK) (sd l0 l1 l2 : Z),
  served (load_key c rk d) rk sd l0 l1 l2.
Proof. exact (@served_load). Qed.
Print Assumptions C10_load_serves.

Theorem C10_store_serves : forall (K RK : Type) (c : cache (K := K) (RK := RK)) (sd : Z) (e : cenv),
  served (store_key c sd e) (c_rk e) sd (c_l0 e) (c_l1 e) (c_l2 e).
Proof. exact (@served_store). Qed.
Print Assumptions C10_store_serves.

Theorem C10_no_repeat_rpc : forall (K RK : Type) (kdf : KDF K) (l1seed : SEED K RK) (nokey : K) (dc : DC K) (truth : Z -> RK),
  dc_conforming_ok kdf l1seed dc truth ->
  forall (evs1 evs2 : list event) (rk sd l0 l1 l2 l1' l2' : Z),
  Forall (ev_true l1seed truth) (evs1 ++ evs2) ->
  served (w_cache (run_events kdf l1seed nokey dc evs1)) rk sd l0 l1 l2 ->
  l1' < l1 \/ l1' = l1 /\ l2' <= l2 ->
  let w := run_events kdf l1seed nokey dc (evs1 ++ evs2) in
  served (w_cache w) rk sd l0 l1' l2' /\
  w_pending (step kdf l1seed nokey dc w (Start (CUnprotect sd rk l0 l1' l2'))) = w_pending w /\
  w_pending (step kdf l1seed nokey dc w (Start (CProtect sd (Some rk) l0 l1' l2'))) = w_pending w /\
  o_rpcs (fst (unprotect kdf l1seed nokey dc (w_cache w) sd rk l0 l1' l2')) = 0 /\
  o_rpcs (fst (protect kdf l1seed nokey dc (w_cache w) sd (Some rk) l0 l1' l2')) = 0.
Proof. exact (@no_repeat_rpc). Qed.
Print Assumptions C10_no_repeat_rpc.

(* ---- the hypotheses are satisfiable: the reference DC (for every key type and KDF), a toy instance, a concrete history ---- *)
Example C10_ref_dc_explicit : forall (K RK : Type) (kdf : KDF K) (l1seed : SEED K RK) (nokey : K) (truth : Z -> RK)
    (dflt n0 n1 n2 : Z) (authorised : Z -> bool),
  dc_explicit_ok (ref_dc kdf l1seed nokey truth dflt n0 n1 n2 authorised).
Proof. exact (@ref_dc_explicit). Qed.
Example C10_ref_dc_conforming : forall (K RK : Type) (kdf : KDF K) (l1seed : SEED K RK) (nokey : K) (truth : Z -> RK)
    (dflt n0 n1 n2 : Z) (authorised : Z -> bool),
  0 <= n1 <= 31 -> 0 <= n2 <= 31 -> dc_conforming_ok kdf l1seed (ref_dc kdf l1seed nokey truth dflt n0 n1 n2 authorised) truth.
Proof. exact (@ref_dc_conforming). Qed.
Example C10_true_root_key_agrees : forall (K RK : Type) (l1seed : SEED K RK) (truth : Z -> RK) (rk : Z), agrees l1seed truth rk (truth rk).
Proof. exact (@agrees_truth). Qed.
Example C10_toy_history_admissible : Forall (ev_adm Toy.tl1seed Toy.ttruth) Toy.history.
Proof. exact Toy.history_adm. Qed.
(* two concurrent unprotects completing in reverse order, a covered request, a root key load, a request beyond the
   cached envelope, a protect naming the root key (all without RPC), a protect through the DC *)
Example C10_toy_history_outcomes :
  map (fun o => (o_key o, o_pos o, o_rpcs o)) (w_out (Toy.trun Toy.history)) =
  [(Ok (Toy.tkey 1 0 361 3 2), (361, 3, 2), 1); (Ok (Toy.tkey 1 0 361 3 4), (361, 3, 4), 1);
   (Ok (Toy.tkey 1 0 361 2 9), (361, 2, 9), 0); (Ok (Toy.tkey 1 0 361 5 0), (361, 5, 0), 0);
   (Ok (Toy.tkey 1 0 361 7 5), (361, 7, 5), 0); (Ok (Toy.tkey 1 0 361 7 5), (361, 7, 5), 1)].
Proof. exact Toy.history_outcomes. Qed.
Example C10_toy_protection_envelope_not_conforming :
  ~ conf Toy.tkdf Toy.tl1seed Toy.ttruth 0 (prot_env Toy.tnokey 1 361 3 4 false (Toy.tkey 1 0 361 3 4)).
Proof. exact Toy.prot_env_not_conforming. Qed.
(* why C10_same_as_fresh asks both runs to be private: with the root key loaded the cache serves a caller the DC refuses *)
Example C10_fresh_differs_when_dc_refuses :
  o_key (fst (unprotect Toy.tkdf Toy.tl1seed Toy.tnokey Toy.tdc_refuse (load_key empty_cache 1 (Toy.ttruth 1)) 0 1 361 3 4)) = Ok (Toy.tkey 1 0 361 3 4) /\
  o_key (fst (unprotect Toy.tkdf Toy.tl1seed Toy.tnokey Toy.tdc_refuse empty_cache 0 1 361 3 4)) = Raise ValueError.
Proof. exact Toy.fresh_differs_when_dc_refuses. Qed.
(* the hypothesis on loads matters, with or without a cache *)
Example C10_wrong_root_key_wrong_key :
  o_key (fst (unprotect Toy.tkdf Toy.tl1seed Toy.tnokey Toy.tdc (load_key empty_cache 1 777) 0 1 361 3 4)) <> Ok (Toy.tkey 1 0 361 3 4).
Proof. exact Toy.wrong_root_key. Qed.
(* the "DC always sends the L2 key" clause matters: a conforming reply without it makes protect use b"" as key material *)
Example C10_l2_key_assumption_needed :
  let o := fst (protect Toy.tkdf Toy.tl1seed Toy.tnokey ToyD13.dc13 empty_cache 0 None 361 7 31) in
  o_pub o = false /\ o_pos o = (361, 7, 31) /\ o_key o = Ok Toy.tnokey /\ Toy.tnokey <> Toy.tkey 1 0 361 7 31.
Proof. exact ToyD13.l2_key_assumption_needed. Qed.

(* the property is stated for sync and async callers alike: the async public functions are the same programs as the sync
   ones up to await / the async DC helpers (normalised-AST comparison regenerated on every run), so the model's
   Start / Finish events are their common semantics *)
Theorem C10_sync_async_same_source : twin_ncrypt_unprotect_secret = true /\ twin_ncrypt_protect_secret = true.
Proof. exact public_twins. Qed.
Print Assumptions C10_sync_async_same_source.

(* ---- 5. every outcome tied to ITS call; literal comparison with a fresh cache; the L0 guard ----
   C10_transparent concludes good_outcome: "SOME (rk, sd)", and nothing for public-key outcomes.  Stronger: `completed evs` is the
   list of the calls of the history in COMPLETION order (computed alongside the run: a call the model completes at once, or the
   i-th pending call at Finish i), and the i-th completed call and the i-th outcome are `tied`:
     unprotect (sd, rk, l0, l1, l2): o_pos = (l0, l1, l2); o_rpcs = 0 and private, or o_rpcs = 1 and o_pub = c_pub of the DC's reply to
       exactly (sd, Some rk, l0, l1, l2); private => o_key = Ok (key_at rk sd l0 l1 l2) for THAT rk, sd; public => o_key = Raise ValueError;
     protect (sd, rko, l0, l1, l2): served from the cache (o_rpcs = 0, private, o_pos = (l0, l1, l2), rko = Some rk and the key is key_at rk sd ..)
       or o_rpcs = 1 and the outcome IS protect_finish of the DC's reply to (sd, rko, -1, -1, -1) (public or private; a private reply
       carries the chain key of the position it names). *)
Theorem C10_outcomes_tied : forall (K RK : Type) (kdf : KDF K) (l1seed : SEED K RK) (nokey : K) (dc : DC K) (truth : Z -> RK),
  dc_explicit_ok dc -> dc_conforming_ok kdf l1seed dc truth ->
  forall evs : list event, Forall (ev_adm l1seed truth) evs ->
  Forall2 (tied kdf l1seed dc truth) (completed kdf l1seed nokey dc evs) (w_out (run_events kdf l1seed nokey dc evs)).
Proof. exact (@outcomes_tied). Qed.
Print Assumptions C10_outcomes_tied.
Theorem C10_completed_started : forall (K RK : Type) (kdf : KDF K) (l1seed : SEED K RK) (nokey : K) (dc : DC K) (evs : list event),
  Forall (fun cl => In (Start cl) evs) (completed kdf l1seed nokey dc evs).
Proof. exact (@completed_started). Qed.
Print Assumptions C10_completed_started.
(* "the same as with a fresh cache", for every admitted history and every call completed in it (same_as_fresh: unprotect - when both
   runs are private, same key and position as the same call on empty_cache; protect - an RPC outcome IS the fresh-cache outcome, and
   an outcome served from the cache has the fresh-cache key and position when the DC's clock is the caller's (dc_clock)) *)
Theorem C10_history_same_as_fresh : forall (K RK : Type) (kdf : KDF K) (l1seed : SEED K RK) (nokey : K) (dc : DC K) (truth : Z -> RK),
  dc_explicit_ok dc -> dc_conforming_ok kdf l1seed dc truth ->
  forall evs : list event, Forall (ev_adm l1seed truth) evs ->
  Forall2 (same_as_fresh kdf l1seed nokey dc) (completed kdf l1seed nokey dc evs) (w_out (run_events kdf l1seed nokey dc evs)).
Proof. exact (@history_same_as_fresh). Qed.
Print Assumptions C10_history_same_as_fresh.
(* the protect analogue of C10_same_as_fresh *)
Theorem C10_protect_same_as_fresh : forall (K RK : Type) (kdf : KDF K) (l1seed : SEED K RK) (nokey : K) (dc : DC K) (truth : Z -> RK),
  dc_explicit_ok dc -> dc_conforming_ok kdf l1seed dc truth ->
  forall (c : cache) (sd : Z) (rko : option Z) (l0 l1 l2 : Z),
  Inv kdf l1seed truth c -> 0 <= l1 <= 31 -> 0 <= l2 <= 31 -> dc_clock dc sd rko l0 l1 l2 ->
  let o := fst (protect kdf l1seed nokey dc c sd rko l0 l1 l2) in
  let o0 := fst (protect kdf l1seed nokey dc empty_cache sd rko l0 l1 l2) in
  o_pub o = false -> o_pub o0 = false -> o_key o = o_key o0 /\ o_pos o = o_pos o0.
Proof. exact (@protect_same_as_fresh). Qed.
Print Assumptions C10_protect_same_as_fresh.
(* The abstract get_key has no counterpart of the source's L0 guard (`if not 0 <= l0 <= 0x7FFFFFFF: raise ValueError`, regenerated as
   k_cache_l0_guard; the concrete Model/Client.v cc_get_key has it): admitted histories (ev_adm) only contain unprotect / protect
   requests whose L0 the guard lets through; for the others the source raises before touching the cache.  The per-call theorems
   (C10_unprotect_sync, C10_protect_sync, C10_same_as_fresh ..) are stated for the error-free model and say nothing there. *)
Theorem C10_l0_guard : forall l0, l0_in_range l0 <-> 0 <= l0 <= 2147483647.
Proof. exact l0_in_range_iff. Qed.
Print Assumptions C10_l0_guard.
Example C10_toy_history_completed :
  completed Toy.tkdf Toy.tl1seed Toy.tnokey Toy.tdc Toy.history =
  [CUnprotect 0 1 361 3 2; CUnprotect 0 1 361 3 4; CUnprotect 0 1 361 2 9; CUnprotect 0 1 361 5 0;
   CProtect 0 (Some 1) 361 7 5; CProtect 0 None 361 7 5].
Proof. exact Toy.history_completed. Qed.
Example C10_toy_dc_clock : dc_clock Toy.tdc 0 (Some 1) 361 7 5 /\ dc_clock Toy.tdc 0 None 361 7 5.
Proof. exact Toy.history_dc_clock. Qed.

(* ================================================================================================================
   Tie to the source: whole bodies of _client.py functions, regenerated as syntax on every run (gen/F_cache.v) and run in
   the worlds of Flow/World_cache.v.  (Imports are here, not at the top: PyAst and Model.Cache share the names `world`,
   `outcome`.)
   1. sync/async twins: the async body IS the sync body after the syntactic renaming ren_f
      (_async_get_key -> _sync_get_key, async_lookup_dc -> lookup_dc on PCall callee keys; nothing else is touched).
   2. abstract model (Model/Cache.v, the functions the theorems above are about): the four public functions compute
      Cache.unprotect / Cache.protect - the key used (o_key) AND the cache afterwards - for every cache, request, DC oracle.
      In this world `_decrypt_blob` / `_encrypt_blob` are the o_key PROJECTIONS of Cache.unprotect_finish / protect_finish, i.e. of
      the functions under proof (Model/Cache.v has no separate "use the envelope" function): these ties do not check how a key
      is derived from an envelope (that is Model/Client.v decrypt_blob / encrypt_blob, tied in Proofs/Flow_e2e_*.v); they check
      which envelope reaches that call (cached / the DC's reply to exactly the request the model names), for which blob or
      descriptor, whether it is stored first, and the cache left behind.
      No theorem relates Model/Cache.v to Model/Client.v: the abstract and the concrete cache model meet only in the source
      (these ties, the shared k_cache kernels) and in the correspondence runs.
   3. concrete model (Model/Client.v): the four public functions compute unprotect_offline / protect_offline (value and cache
      afterwards) when no DC is reachable, and unprotect_online / protect_online (the same pipelines with the miss branch
      filled in by the network oracles) in general.  _get_protection_gke_from_cache's own body (gen/F_e2e.v) computes value AND
      cache afterwards of protection_gke_from_cache: what the world says when ncrypt_protect_secret calls it.
   3b. a call that RAISES: run_mut gives `Raise e` without the environment, so the ties of 2 and 3 (alift / lift2) say nothing
      about the cache then.  The *_cache_stored / *_abs_cache theorems run the body without its final `return` (exec_block on
      removelast): the cache the store left, whether or not the decrypt / encrypt then raises; *_cache_looked_up run it up to
      the cache lookup: the cache left when the network step raises; *_online_cache_cases: these are exactly the caches the
      model returns.  Not covered: the cache at a raise INSIDE a callee that is itself handed the cache (_get_key,
      _get_protection_gke_from_cache raising in KDFParameters.unpack / compute_l2_key).
   4. KeyCache.__init__, load_key (with its default argument values, regenerated).  load_key_root (the default filling) has no
      counterpart in Model/Client.v: cc_load takes the finished RootKey, which the harness reads back from the real load_key.
      KeyCache._store_key and KeyCache._get_key store through aliases of inner dictionaries
      (`seed_key = self._seed_keys.setdefault(..).setdefault(..)` ... `seed_key[key.l0] = key`): the flow semantics is
      single-owner, the translator refuses both (fail closed) and they have no tie; they stay covered by the kernels
      k_cache_covers / k_cache_store / k_cache_root_overwrites and the correspondence cache.histories.
   ---------------------------------------------------------------------------------------------------------------- *)
From V Require Import Prelude.PyAst Prelude.PyAstMut Prelude.PyWorld gen.F_cache gen.F_e2e.
From V Require Import Model.Types Model.Crypto Model.Gkdi Model.Kek Model.Client Flow.World_cache.
From V Require Import Proofs.Flow_cache_twins Proofs.Flow_cache_abs Proofs.Flow_cache_public Proofs.Flow_cache_class.
From V Require Import Proofs.Flow_cache_gke Proofs.Flow_cache_prefix Proofs.Flow_cache_absprefix.

(* ---- 1. twins ---- *)
Theorem C10_flow_twin_unprotect : k_flow_ncrypt_unprotect_secret = ren_f k_flow_async_ncrypt_unprotect_secret.
Proof. exact flow_twin_unprotect. Qed.
Print Assumptions C10_flow_twin_unprotect.
Theorem C10_flow_twin_protect : k_flow_ncrypt_protect_secret = ren_f k_flow_async_ncrypt_protect_secret.
Proof. exact flow_twin_protect. Qed.
Print Assumptions C10_flow_twin_protect.
(* the renaming is the identity on the sync functions, and the async bodies do differ from the sync ones before it *)
Theorem C10_flow_twin_sync_fixed :
  ren_f k_flow_ncrypt_unprotect_secret = k_flow_ncrypt_unprotect_secret /\
  ren_f k_flow_ncrypt_protect_secret = k_flow_ncrypt_protect_secret.
Proof. exact flow_twin_sync_fixed. Qed.
Print Assumptions C10_flow_twin_sync_fixed.
Theorem C10_flow_twin_differ :
  pf_body k_flow_async_ncrypt_unprotect_secret <> pf_body k_flow_ncrypt_unprotect_secret /\
  pf_body k_flow_async_ncrypt_protect_secret <> pf_body k_flow_ncrypt_protect_secret.
Proof. exact flow_twin_differ. Qed.
Print Assumptions C10_flow_twin_differ.

(* ---- 2. abstract model: value (key material used) and cache afterwards (parameter `cache`) ---- *)
Theorem C10_flow_unprotect_abs : forall (K RK : Type) (kdf : KDF K) (l1seed : SEED K RK) (nokey : K) (dc : DC K) (now0 now1 now2 : Z)
    fuel sd rk l0 l1 l2 server u p a co,
  avalue_and_param 5 (run_mut (AMW kdf l1seed nokey dc now0 now1 now2) fuel k_flow_ncrypt_unprotect_secret
                        [VO (AData sd rk l0 l1 l2); vs_opt server; u; p; a; vacache_opt co])
  = alift (Cache.unprotect kdf l1seed nokey dc (acache_or_new co) sd rk l0 l1 l2).
Proof. exact (@flow_unprotect_abs). Qed.
Print Assumptions C10_flow_unprotect_abs.
Theorem C10_flow_async_unprotect_abs : forall (K RK : Type) (kdf : KDF K) (l1seed : SEED K RK) (nokey : K) (dc : DC K) (now0 now1 now2 : Z)
    fuel sd rk l0 l1 l2 server u p a co,
  avalue_and_param 5 (run_mut (AMW kdf l1seed nokey dc now0 now1 now2) fuel k_flow_async_ncrypt_unprotect_secret
                        [VO (AData sd rk l0 l1 l2); vs_opt server; u; p; a; vacache_opt co])
  = alift (Cache.unprotect kdf l1seed nokey dc (acache_or_new co) sd rk l0 l1 l2).
Proof. exact (@flow_async_unprotect_abs). Qed.
Print Assumptions C10_flow_async_unprotect_abs.
(* (now0, now1, now2) is the position _get_protection_gke_from_cache computes from the clock *)
Theorem C10_flow_protect_abs : forall (K RK : Type) (kdf : KDF K) (l1seed : SEED K RK) (nokey : K) (dc : DC K) (now0 now1 now2 : Z)
    fuel d sd rko server dom u p a co,
  avalue_and_param 8 (run_mut (AMW kdf l1seed nokey dc now0 now1 now2) fuel k_flow_ncrypt_protect_secret
                        [d; VI sd; vz_opt rko; vs_opt server; dom; u; p; a; vacache_opt co])
  = alift (Cache.protect kdf l1seed nokey dc (acache_or_new co) sd rko now0 now1 now2).
Proof. exact (@flow_protect_abs). Qed.
Print Assumptions C10_flow_protect_abs.
Theorem C10_flow_async_protect_abs : forall (K RK : Type) (kdf : KDF K) (l1seed : SEED K RK) (nokey : K) (dc : DC K) (now0 now1 now2 : Z)
    fuel d sd rko server dom u p a co,
  avalue_and_param 8 (run_mut (AMW kdf l1seed nokey dc now0 now1 now2) fuel k_flow_async_ncrypt_protect_secret
                        [d; VI sd; vz_opt rko; vs_opt server; dom; u; p; a; vacache_opt co])
  = alift (Cache.protect kdf l1seed nokey dc (acache_or_new co) sd rko now0 now1 now2).
Proof. exact (@flow_async_protect_abs). Qed.
Print Assumptions C10_flow_async_protect_abs.

(* ---- 3. concrete model ---- *)
(* offline (lookup_dc and _sync_get_key raise): value and cache afterwards are Client.unprotect_offline / protect_offline *)
Theorem C10_flow_unprotect_offline : forall c r1 r2 r3 ns fuel data server u p a co,
  value_and_param 5 (run_mut (MW c r1 r2 r3 ns no_dns no_dc) fuel k_flow_ncrypt_unprotect_secret [VB data; vstr_opt server; u; p; a; vcache_opt co])
  = lift2 (unprotect_offline c (cache_or_new co) data).
Proof. exact flow_unprotect_offline. Qed.
Print Assumptions C10_flow_unprotect_offline.
Theorem C10_flow_async_unprotect_offline : forall c r1 r2 r3 ns fuel data server u p a co,
  value_and_param 5 (run_mut (MW c r1 r2 r3 ns no_dns no_dc) fuel k_flow_async_ncrypt_unprotect_secret [VB data; vstr_opt server; u; p; a; vcache_opt co])
  = lift2 (unprotect_offline c (cache_or_new co) data).
Proof. exact flow_async_unprotect_offline. Qed.
Print Assumptions C10_flow_async_unprotect_offline.
Theorem C10_flow_protect_offline : forall c r1 r2 r3 ns fuel data sid rkid server dom u p a co,
  value_and_param 8 (run_mut (MW c r1 r2 r3 ns no_dns no_dc) fuel k_flow_ncrypt_protect_secret
                       [VB data; VS sid; vbytes_opt rkid; vstr_opt server; dom; u; p; a; vcache_opt co])
  = lift2 (protect_offline c (cache_or_new co) r1 r2 r3 data sid rkid ns).
Proof. exact flow_protect_offline. Qed.
Print Assumptions C10_flow_protect_offline.
Theorem C10_flow_async_protect_offline : forall c r1 r2 r3 ns fuel data sid rkid server dom u p a co,
  value_and_param 8 (run_mut (MW c r1 r2 r3 ns no_dns no_dc) fuel k_flow_async_ncrypt_protect_secret
                       [VB data; VS sid; vbytes_opt rkid; vstr_opt server; dom; u; p; a; vcache_opt co])
  = lift2 (protect_offline c (cache_or_new co) r1 r2 r3 data sid rkid ns).
Proof. exact flow_async_protect_offline. Qed.
Print Assumptions C10_flow_async_protect_offline.
(* the offline models are the online pipelines with the two network oracles raising NeedNetwork *)
Theorem C10_unprotect_online_offline : forall c cache data server u p a,
  unprotect_online c no_dns no_dc cache data server u p a = unprotect_offline c cache data.
Proof. exact unprotect_online_offline. Qed.
Print Assumptions C10_unprotect_online_offline.
Theorem C10_protect_online_offline : forall c r1 r2 r3 ns cache data sid rkid server dom u p a,
  protect_online c r1 r2 r3 ns no_dns no_dc cache data sid rkid server dom u p a = protect_offline c cache r1 r2 r3 data sid rkid ns.
Proof. exact protect_online_offline. Qed.
Print Assumptions C10_protect_online_offline.
(* any network oracles (dns : lookup_dc's arguments -> SrvRecord.target, getkey : _sync_get_key's arguments -> envelope) *)
Theorem C10_flow_unprotect_online_state : forall c r1 r2 r3 ns dns getkey fuel data server u p a co,
  value_and_param 5 (run_mut (MW c r1 r2 r3 ns dns getkey) fuel k_flow_ncrypt_unprotect_secret [VB data; vstr_opt server; u; p; a; vcache_opt co])
  = lift2 (unprotect_online c dns getkey (cache_or_new co) data server u p a).
Proof. exact flow_unprotect_online_state. Qed.
Print Assumptions C10_flow_unprotect_online_state.
Theorem C10_flow_async_unprotect_online_state : forall c r1 r2 r3 ns dns getkey fuel data server u p a co,
  value_and_param 5 (run_mut (MW c r1 r2 r3 ns dns getkey) fuel k_flow_async_ncrypt_unprotect_secret [VB data; vstr_opt server; u; p; a; vcache_opt co])
  = lift2 (unprotect_online c dns getkey (cache_or_new co) data server u p a).
Proof. exact flow_async_unprotect_online_state. Qed.
Print Assumptions C10_flow_async_unprotect_online_state.
Theorem C10_flow_protect_online_state : forall c r1 r2 r3 ns dns getkey fuel data sid rkid server dom u p a co,
  value_and_param 8 (run_mut (MW c r1 r2 r3 ns dns getkey) fuel k_flow_ncrypt_protect_secret
                       [VB data; VS sid; vbytes_opt rkid; vstr_opt server; dom; u; p; a; vcache_opt co])
  = lift2 (protect_online c r1 r2 r3 ns dns getkey (cache_or_new co) data sid rkid server dom u p a).
Proof. exact flow_protect_online_state. Qed.
Print Assumptions C10_flow_protect_online_state.
Theorem C10_flow_async_protect_online_state : forall c r1 r2 r3 ns dns getkey fuel data sid rkid server dom u p a co,
  value_and_param 8 (run_mut (MW c r1 r2 r3 ns dns getkey) fuel k_flow_async_ncrypt_protect_secret
                       [VB data; VS sid; vbytes_opt rkid; vstr_opt server; dom; u; p; a; vcache_opt co])
  = lift2 (protect_online c r1 r2 r3 ns dns getkey (cache_or_new co) data sid rkid server dom u p a).
Proof. exact flow_async_protect_online_state. Qed.
Print Assumptions C10_flow_async_protect_online_state.
(* the same in PyAst's plain `run` (value only) *)
Theorem C10_flow_unprotect_online : forall c r1 r2 r3 ns dns getkey fuel data server u p a co,
  PyAst.run (W c r1 r2 r3 ns dns getkey) fuel k_flow_ncrypt_unprotect_secret [VB data; vstr_opt server; u; p; a; vcache_opt co]
  = lift (fst (unprotect_online c dns getkey (cache_or_new co) data server u p a)).
Proof. exact flow_unprotect_online. Qed.
Print Assumptions C10_flow_unprotect_online.
Theorem C10_flow_async_unprotect_online : forall c r1 r2 r3 ns dns getkey fuel data server u p a co,
  PyAst.run (W c r1 r2 r3 ns dns getkey) fuel k_flow_async_ncrypt_unprotect_secret [VB data; vstr_opt server; u; p; a; vcache_opt co]
  = lift (fst (unprotect_online c dns getkey (cache_or_new co) data server u p a)).
Proof. exact flow_async_unprotect_online. Qed.
Print Assumptions C10_flow_async_unprotect_online.
Theorem C10_flow_protect_online : forall c r1 r2 r3 ns dns getkey fuel data sid rkid server dom u p a co,
  PyAst.run (W c r1 r2 r3 ns dns getkey) fuel k_flow_ncrypt_protect_secret
    [VB data; VS sid; vbytes_opt rkid; vstr_opt server; dom; u; p; a; vcache_opt co]
  = lift (fst (protect_online c r1 r2 r3 ns dns getkey (cache_or_new co) data sid rkid server dom u p a)).
Proof. exact flow_protect_online. Qed.
Print Assumptions C10_flow_protect_online.
Theorem C10_flow_async_protect_online : forall c r1 r2 r3 ns dns getkey fuel data sid rkid server dom u p a co,
  PyAst.run (W c r1 r2 r3 ns dns getkey) fuel k_flow_async_ncrypt_protect_secret
    [VB data; VS sid; vbytes_opt rkid; vstr_opt server; dom; u; p; a; vcache_opt co]
  = lift (fst (protect_online c r1 r2 r3 ns dns getkey (cache_or_new co) data sid rkid server dom u p a)).
Proof. exact flow_async_protect_online. Qed.
Print Assumptions C10_flow_async_protect_online.

(* ---- 4. KeyCache methods ---- *)
Theorem C10_flow_keycache_init : forall c r1 r2 r3 ns dns getkey fuel cc0,
  run_mut (MW c r1 r2 r3 ns dns getkey) fuel k_flow_keycache_init [VO (OCache cc0)] = Ok (VN, [VO (OCache cc_empty)]).
Proof. exact flow_keycache_init. Qed.
Print Assumptions C10_flow_keycache_init.
(* load_key_root: the RootKey built from the arguments with the two defaults of the source filled in
   (KDFParameters("SHA512"), RFC 5114 2.3 DH parameters when secret_algorithm == "DH") *)
Theorem C10_flow_keycache_load_key : forall c r1 r2 r3 ns dns getkey fuel cc key rkid ver kalg kpar salg spar priv pub,
  self_after (run_mut (MW c r1 r2 r3 ns dns getkey) fuel k_flow_keycache_load_key
                [VO (OCache cc); VB key; VB rkid; VI ver; VS kalg; vbytes_opt kpar; VS salg; vbytes_opt spar; VI priv; VI pub])
  = (let* rk := load_key_root key ver kalg kpar salg spar priv pub in Ok (VN, VO (OCache (cc_load cc rkid rk)))).
Proof. exact flow_keycache_load_key. Qed.
Print Assumptions C10_flow_keycache_load_key.
Theorem C10_flow_load_key_defaults : forall c r1 r2 r3 ns dns getkey,
  eval_defaults (W c r1 r2 r3 ns dns getkey) k_flow_keycache_load_key_defaults
  = [("version", Ok (VI 1)); ("kdf_algorithm", Ok (VS STR_KDF_ALG)); ("kdf_parameters", Ok VN);
     ("secret_algorithm", Ok (VS STR_DH)); ("secret_parameters", Ok VN);
     ("private_key_length", Ok (VI 512)); ("public_key_length", Ok (VI 2048))].
Proof. exact flow_load_key_defaults. Qed.
Print Assumptions C10_flow_load_key_defaults.
(* the RootKey load_key(key, root_key_id) stores; Proofs/C01.v ex_rk is this record with rk_secret_params := None (built directly) *)
Theorem C10_load_key_root_defaults : forall key,
  load_key_root key 1 STR_KDF_ALG None STR_DH None 512 2048
  = (let* kp := KDFParameters_pack (ascii_str "SHA512") in
     let* sp := FFCDHParameters_pack default_dh_params in
     Ok {| rk_key := key; rk_version := 1; rk_kdf_alg := STR_KDF_ALG; rk_kdf_params := kp; rk_secret_alg := STR_DH;
           rk_secret_params := Some sp; rk_priv_len := 512; rk_pub_len := 2048 |}).
Proof. exact load_key_root_defaults. Qed.
Print Assumptions C10_load_key_root_defaults.
Theorem C10_flow_keycache_load_key_default_call : forall c r1 r2 r3 ns dns getkey fuel cc key rkid,
  self_after (run_mut (MW c r1 r2 r3 ns dns getkey) fuel k_flow_keycache_load_key
                [VO (OCache cc); VB key; VB rkid; VI 1; VS STR_KDF_ALG; VN; VS STR_DH; VN; VI 512; VI 2048])
  = (let* rk := load_key_root key 1 STR_KDF_ALG None STR_DH None 512 2048 in Ok (VN, VO (OCache (cc_load cc rkid rk)))).
Proof. exact flow_keycache_load_key_default_call. Qed.
Print Assumptions C10_flow_keycache_load_key_default_call.

(* ---- 5. _get_protection_gke_from_cache (gen/F_e2e.v): value and cache afterwards (parameter 2).
   Precondition: root_key_identifier is None or a UUID (16 octets here; the empty octet string is not one) ---- *)
Theorem C10_flow_get_protection_gke_from_cache_state : forall c r1 r2 r3 time_ns dns getkey fuel rkid sd cc,
  rkid <> Some [] ->
  gke_value_and_cache (run_mut (MW c r1 r2 r3 time_ns dns getkey) fuel k_flow_get_protection_gke_from_cache
                         [vbytes_opt rkid; VB sd; VO (OCache cc)])
  = lift_gke_state (protection_gke_from_cache c cc rkid sd time_ns).
Proof. exact flow_get_protection_gke_from_cache_state. Qed.
Print Assumptions C10_flow_get_protection_gke_from_cache_state.
Example C10_flow_gke_precondition_ok : Some (repeat 5 16) <> Some (@nil Z) /\ (@None bytes) <> Some [].
Proof. split; discriminate. Qed.

(* ---- 6. the cache when the call raises (see 3b) ---- *)
(* abstract: body without the final return *)
Theorem C10_flow_unprotect_abs_cache : forall (K RK : Type) (kdf : KDF K) (l1seed : SEED K RK) (nokey : K) (dc : DC K) (now0 now1 now2 : Z)
    fuel sd rk l0 l1 l2 server u p a co,
  acache_local (PyAstMut.exec_block (AMW kdf l1seed nokey dc now0 now1 now2) fuel (removelast (pf_body k_flow_ncrypt_unprotect_secret))
                  (aunprotect_env sd rk l0 l1 l2 server u p a co))
  = Ok (Some (VO (ACache (snd (Cache.unprotect kdf l1seed nokey dc (acache_or_new co) sd rk l0 l1 l2))))).
Proof. exact (@flow_unprotect_abs_cache). Qed.
Print Assumptions C10_flow_unprotect_abs_cache.
Theorem C10_flow_async_unprotect_abs_cache : forall (K RK : Type) (kdf : KDF K) (l1seed : SEED K RK) (nokey : K) (dc : DC K) (now0 now1 now2 : Z)
    fuel sd rk l0 l1 l2 server u p a co,
  acache_local (PyAstMut.exec_block (AMW kdf l1seed nokey dc now0 now1 now2) fuel (removelast (pf_body k_flow_async_ncrypt_unprotect_secret))
                  (aunprotect_env sd rk l0 l1 l2 server u p a co))
  = Ok (Some (VO (ACache (snd (Cache.unprotect kdf l1seed nokey dc (acache_or_new co) sd rk l0 l1 l2))))).
Proof. exact (@flow_async_unprotect_abs_cache). Qed.
Print Assumptions C10_flow_async_unprotect_abs_cache.
(* aprotect_cache: Raise x when protection_gke = Some (Raise x) (compute_l2_key raised inside the callee), else snd (Cache.protect ..) *)
Theorem C10_flow_protect_abs_cache : forall (K RK : Type) (kdf : KDF K) (l1seed : SEED K RK) (nokey : K) (dc : DC K) (now0 now1 now2 : Z)
    fuel d sd rko server dom u p a co,
  acache_local (PyAstMut.exec_block (AMW kdf l1seed nokey dc now0 now1 now2) fuel (removelast (pf_body k_flow_ncrypt_protect_secret))
                  (aprotect_env d sd rko server dom u p a co))
  = aprotect_cache kdf l1seed nokey dc now0 now1 now2 (acache_or_new co) sd rko.
Proof. exact (@flow_protect_abs_cache). Qed.
Print Assumptions C10_flow_protect_abs_cache.
Theorem C10_flow_async_protect_abs_cache : forall (K RK : Type) (kdf : KDF K) (l1seed : SEED K RK) (nokey : K) (dc : DC K) (now0 now1 now2 : Z)
    fuel d sd rko server dom u p a co,
  acache_local (PyAstMut.exec_block (AMW kdf l1seed nokey dc now0 now1 now2) fuel (removelast (pf_body k_flow_async_ncrypt_protect_secret))
                  (aprotect_env d sd rko server dom u p a co))
  = aprotect_cache kdf l1seed nokey dc now0 now1 now2 (acache_or_new co) sd rko.
Proof. exact (@flow_async_protect_abs_cache). Qed.
Print Assumptions C10_flow_async_protect_abs_cache.
(* concrete: body without the final return / up to the cache lookup *)
Theorem C10_flow_unprotect_cache_stored : forall c r1 r2 r3 ns dns getkey fuel data server u p a co,
  cache_local (PyAstMut.exec_block (MW c r1 r2 r3 ns dns getkey) fuel (removelast (pf_body k_flow_ncrypt_unprotect_secret)) (unprotect_env data server u p a co))
  = lift_cache (unprotect_stored c dns getkey (cache_or_new co) data server u p a).
Proof. exact flow_unprotect_cache_stored. Qed.
Print Assumptions C10_flow_unprotect_cache_stored.
Theorem C10_flow_async_unprotect_cache_stored : forall c r1 r2 r3 ns dns getkey fuel data server u p a co,
  cache_local (PyAstMut.exec_block (MW c r1 r2 r3 ns dns getkey) fuel (removelast (pf_body k_flow_async_ncrypt_unprotect_secret)) (unprotect_env data server u p a co))
  = lift_cache (unprotect_stored c dns getkey (cache_or_new co) data server u p a).
Proof. exact flow_async_unprotect_cache_stored. Qed.
Print Assumptions C10_flow_async_unprotect_cache_stored.
Theorem C10_flow_unprotect_cache_looked_up : forall c r1 r2 r3 ns dns getkey fuel data server u p a co,
  cache_local (PyAstMut.exec_block (MW c r1 r2 r3 ns dns getkey) fuel (firstn 4 (pf_body k_flow_ncrypt_unprotect_secret)) (unprotect_env data server u p a co))
  = lift_cache (unprotect_looked_up c (cache_or_new co) data).
Proof. exact flow_unprotect_cache_looked_up. Qed.
Print Assumptions C10_flow_unprotect_cache_looked_up.
Theorem C10_flow_async_unprotect_cache_looked_up : forall c r1 r2 r3 ns dns getkey fuel data server u p a co,
  cache_local (PyAstMut.exec_block (MW c r1 r2 r3 ns dns getkey) fuel (firstn 4 (pf_body k_flow_async_ncrypt_unprotect_secret)) (unprotect_env data server u p a co))
  = lift_cache (unprotect_looked_up c (cache_or_new co) data).
Proof. exact flow_async_unprotect_cache_looked_up. Qed.
Print Assumptions C10_flow_async_unprotect_cache_looked_up.
Theorem C10_flow_protect_cache_stored : forall c r1 r2 r3 ns dns getkey fuel data sid rkid server dom u p a co,
  cache_local (PyAstMut.exec_block (MW c r1 r2 r3 ns dns getkey) fuel (removelast (pf_body k_flow_ncrypt_protect_secret)) (protect_env data sid rkid server dom u p a co))
  = lift_cache (protect_stored c ns dns getkey (cache_or_new co) sid rkid server dom u p a).
Proof. exact flow_protect_cache_stored. Qed.
Print Assumptions C10_flow_protect_cache_stored.
Theorem C10_flow_async_protect_cache_stored : forall c r1 r2 r3 ns dns getkey fuel data sid rkid server dom u p a co,
  cache_local (PyAstMut.exec_block (MW c r1 r2 r3 ns dns getkey) fuel (removelast (pf_body k_flow_async_ncrypt_protect_secret)) (protect_env data sid rkid server dom u p a co))
  = lift_cache (protect_stored c ns dns getkey (cache_or_new co) sid rkid server dom u p a).
Proof. exact flow_async_protect_cache_stored. Qed.
Print Assumptions C10_flow_async_protect_cache_stored.
Theorem C10_flow_protect_cache_looked_up : forall c r1 r2 r3 ns dns getkey fuel data sid rkid server dom u p a co,
  cache_local (PyAstMut.exec_block (MW c r1 r2 r3 ns dns getkey) fuel (firstn 7 (pf_body k_flow_ncrypt_protect_secret)) (protect_env data sid rkid server dom u p a co))
  = lift_cache (protect_looked_up c ns (cache_or_new co) sid rkid).
Proof. exact flow_protect_cache_looked_up. Qed.
Print Assumptions C10_flow_protect_cache_looked_up.
Theorem C10_flow_async_protect_cache_looked_up : forall c r1 r2 r3 ns dns getkey fuel data sid rkid server dom u p a co,
  cache_local (PyAstMut.exec_block (MW c r1 r2 r3 ns dns getkey) fuel (firstn 7 (pf_body k_flow_async_ncrypt_protect_secret)) (protect_env data sid rkid server dom u p a co))
  = lift_cache (protect_looked_up c ns (cache_or_new co) sid rkid).
Proof. exact flow_async_protect_cache_looked_up. Qed.
Print Assumptions C10_flow_async_protect_cache_looked_up.
(* the model's cache afterwards is the stored one if the pipeline gets that far, else the looked-up one, else the initial one *)
Theorem C10_unprotect_online_cache_cases : forall c dns getkey cache data server u p a,
  snd (unprotect_online c dns getkey cache data server u p a)
  = match unprotect_stored c dns getkey cache data server u p a with
    | Ok cc2 => cc2
    | Raise _ => match unprotect_looked_up c cache data with Ok cc1 => cc1 | Raise _ => cache end
    end.
Proof. exact unprotect_online_cache_cases. Qed.
Print Assumptions C10_unprotect_online_cache_cases.
Theorem C10_protect_online_cache_cases : forall c r1 r2 r3 ns dns getkey cache data sid rkid server dom u p a,
  snd (protect_online c r1 r2 r3 ns dns getkey cache data sid rkid server dom u p a)
  = match protect_stored c ns dns getkey cache sid rkid server dom u p a with
    | Ok cc2 => cc2
    | Raise _ => match protect_looked_up c ns cache sid rkid with
                 | Ok cc1 => cc1
                 | Raise _ => match SecDesc.get_target_sd sid with Ok sd => protection_lookup_cache c cache rkid sd ns | Raise _ => cache end
                 end
    end.
Proof. exact protect_online_cache_cases. Qed.
Print Assumptions C10_protect_online_cache_cases.

(* ================================================================================================================
   Refinement: the concrete cache model (Model/Client.v ccache, cc_get_key, cc_store_key, cc_load; the unprotect pipeline
   unprotect_online of Proofs/Flow_cache_public.v, which the flow ties above connect to the source) refines the abstract state
   machine the theorems of this file are about, under abs : ccache -> Cache.cache with
     K := res bytes, RK := root_key, kdf := akdf c h = Chain.kdfK c h (the concrete chain step over compute_kdf_context),
     l1seed := al1seed c = compute_l1_key with the hash the root key's own KDF parameters name, nokey := Ok [],
   root key ids / security descriptors numbered by an injective code : bytes -> Z (left inverse dec).
   Side conditions (all about inputs the source rejects or raises on, where the error-free abstract model goes on):
   l0_ok (0 <= L0 <= 2^31 - 1, the source's own guard), good_roots (loaded root keys name a supported hash), asks (the blob
   parses and its SID yields a target SD), net_ok (the network answers; adc is the abstraction of its answer).
   PARTIAL: the protect path is proved per step only (C10_refine_protect_partial) under two further hypotheses that depend on
   the cache contents (the callee _get_protection_gke_from_cache does not raise; a cached envelope it finds names the hash h);
   histories and the two corollaries below are for {load_key, unprotect} histories.
   ---------------------------------------------------------------------------------------------------------------- *)
From V Require Import gen.Consts gen.K_gkdi Model.Chain Model.KeyId Model.SecDesc Model.Blob Model.Interval.
From V Require Import Proofs.C10Refine Proofs.C10RefineEx.

Theorem C10_refine_code : forall b, dec (code b) = b.
Proof. exact dec_code. Qed.
Print Assumptions C10_refine_code.
(* (1) *)
Theorem C10_refine_init_load : abs cc_empty = Cache.empty_cache /\
  forall cc rkid rk, abs (cc_load cc rkid rk) = Cache.load_key (abs cc) (code rkid) rk.
Proof. exact (conj abs_empty abs_load). Qed.
Print Assumptions C10_refine_init_load.
(* (2) *)
Theorem C10_refine_store_key : forall cc sd e, abs (cc_store_key cc sd e) = Cache.store_key (abs cc) (code sd) (abs_env e).
Proof. exact abs_store_key. Qed.
Print Assumptions C10_refine_store_key.
Theorem C10_refine_get_key : forall c cc sd rkid l0 l1 l2, l0_ok l0 -> good_roots cc ->
  exists o cc', cc_get_key c cc sd rkid l0 l1 l2 = Ok (o, cc') /\
    Cache.get_key (al1seed c) anokey (abs cc) (code sd) (code rkid) l0 l1 l2 = (option_map abs_env o, abs cc').
Proof. exact abs_get_key. Qed.
Print Assumptions C10_refine_get_key.
(* (3) one unprotect call: cache afterwards, and the served / RPC decision (o_rpcs = 0: the call is the offline function for
   every network oracle; o_rpcs = 1: the concrete lookup missed) *)
Theorem C10_refine_unprotect : forall c h dns getkey adc cc data server u p a b sd,
  asks data b sd -> good_roots cc -> net_ok dns getkey adc b sd server u p a ->
  let kid := b_key_identifier b in
  let astep := Cache.unprotect (akdf c h) (al1seed c) anokey adc (abs cc) (code sd) (code (kid_rkid kid)) (kid_l0 kid) (kid_l1 kid) (kid_l2 kid) in
  abs (snd (unprotect_online c dns getkey cc data server u p a)) = snd astep /\
  (Cache.o_rpcs (fst astep) = 0 \/ Cache.o_rpcs (fst astep) = 1) /\
  (Cache.o_rpcs (fst astep) = 0 ->
     forall dns' getkey', unprotect_online c dns' getkey' cc data server u p a = unprotect_offline c cc data) /\
  (Cache.o_rpcs (fst astep) = 1 ->
     exists cc1, cc_get_key c cc sd (kid_rkid kid) (kid_l0 kid) (kid_l1 kid) (kid_l2 kid) = Ok (None, cc1)).
Proof. exact unprotect_refines. Qed.
Print Assumptions C10_refine_unprotect.
(* full statement wanted: as C10_refine_unprotect, with hypotheses on inputs only; proved with the two cache-dependent hypotheses *)
Theorem C10_refine_protect_partial : forall c h dns getkey adc cc r1 r2 r3 ns data sid rkid server dom u p a sd o cc1 n0 n1 n2,
  get_target_sd sid = Ok sd -> good_roots cc -> Interval.interval_of_time_ns ns = (n0, n1, n2) -> l0_ok n0 ->
  protection_gke_from_cache c cc rkid sd ns = Ok (o, cc1) ->
  (forall rid rk cc', rkid = Some rid -> cc_get_key c cc sd rid n0 n1 n2 = Ok (Some rk, cc') ->
     exists n, KDFParameters_unpack (gke_kdf_params rk) = Ok n /\ hash_algorithm n = Ok h) ->
  (exists e, envelope_for dns getkey None server dom [VB sd; vbytes_opt rkid; VI (-1); VI (-1); VI (-1); u; p; a] = Ok e /\
             adc (code sd) (option_map code rkid) (-1) (-1) (-1) = abs_env e) ->
  let astep := Cache.protect (akdf c h) (al1seed c) anokey adc (abs cc) (code sd) (option_map code rkid) n0 n1 n2 in
  abs (snd (protect_online c r1 r2 r3 ns dns getkey cc data sid rkid server dom u p a)) = snd astep /\
  (Cache.o_rpcs (fst astep) = 0 <-> o <> None).
Proof. exact protect_refines_partial. Qed.
Print Assumptions C10_refine_protect_partial.
(* histories of concrete calls (load_key, sync unprotect against the DC cdc) = the abstract machine on the abstract events *)
Theorem C10_refine_history : forall c h cdc evs, Forall cev_ok evs ->
  Cache.w_cache (Cache.run_events (akdf c h) (al1seed c) anokey (adc_of cdc) (flat_map aevents evs)) = abs (crun c cdc evs) /\
  Cache.w_pending (Cache.run_events (akdf c h) (al1seed c) anokey (adc_of cdc) (flat_map aevents evs)) = [] /\
  good_roots (crun c cdc evs).
Proof. exact crun_refines. Qed.
Print Assumptions C10_refine_history.
Theorem C10_refine_dc_explicit : forall cdc, cdc_explicit cdc -> dc_explicit_ok (adc_of cdc).
Proof. exact adc_explicit. Qed.
Print Assumptions C10_refine_dc_explicit.

(* ---- corollaries for the concrete model ---- *)
Theorem C10_concrete_served_no_rpc : forall c cc data b sd l1 l2, asks data b sd -> good_roots cc ->
  let kid := b_key_identifier b in
  kid_l1 kid = l1 -> kid_l2 kid = l2 ->
  c_served cc (kid_rkid kid) sd (kid_l0 kid) l1 l2 ->
  forall dns getkey server u p a, unprotect_online c dns getkey cc data server u p a = unprotect_offline c cc data.
Proof. exact served_no_rpc. Qed.
Print Assumptions C10_concrete_served_no_rpc.
(* C10_no_repeat_rpc transferred: once (root key id, target SD, L0) is served at (l1, l2), after ANY further valid history every
   unprotect of a blob at or before that position is the offline function, for all network oracles (the network is not consulted).
   cev_ok: loads of supported root keys, blobs that parse; cev_true: loads of the true root keys *)
Theorem C10_concrete_no_repeat_rpc : forall c h cdc ctruth,
  dc_conforming_ok (akdf c h) (al1seed c) (adc_of cdc) (atruth ctruth) ->
  forall evs1 evs2 rkid sd l0 l1 l2 l1' l2',
  Forall cev_ok (evs1 ++ evs2) -> Forall (cev_true ctruth) (evs1 ++ evs2) ->
  c_served (crun c cdc evs1) rkid sd l0 l1 l2 -> l1' < l1 \/ (l1' = l1 /\ l2' <= l2) ->
  let cc := crun c cdc (evs1 ++ evs2) in
  c_served cc rkid sd l0 l1' l2' /\
  forall data b, asks data b sd ->
    kid_rkid (b_key_identifier b) = rkid -> kid_l0 (b_key_identifier b) = l0 ->
    kid_l1 (b_key_identifier b) = l1' -> kid_l2 (b_key_identifier b) = l2' ->
    forall dns getkey server u p a, unprotect_online c dns getkey cc data server u p a = unprotect_offline c cc data.
Proof. exact concrete_no_repeat_rpc. Qed.
Print Assumptions C10_concrete_no_repeat_rpc.
(* C10_transparent transferred: in every valid history a completed unprotect call decrypts with an envelope (cached, or the DC's
   reply) that is for the blob's L0 and whose L2 key at the blob's position is the MS-GKDI chain key of (root key id, target SD,
   L0, L1, L2) under the true root key; and that key is what get_kek derives the KEK from (last clause) - PROVIDED the envelope's
   own KDF parameters name the hash h the abstract kdf is instantiated with (envelope_hash rk = Ok h: abs_env forgets the KDF
   parameters).  Without that hypothesis the statement would be about a key the call does not derive: C10_refine_ex_wrong_hash. *)
Theorem C10_concrete_transparent : forall c h cdc ctruth,
  dc_conforming_ok (akdf c h) (al1seed c) (adc_of cdc) (atruth ctruth) -> dc_explicit_ok (adc_of cdc) ->
  forall evs data b sd server u p a rk,
  Forall cev_ok evs -> Forall (cev_true ctruth) evs -> asks data b sd ->
  let kid := b_key_identifier b in
  0 <= kid_l1 kid <= 31 -> 0 <= kid_l2 kid <= 31 ->
  unprotect_envelope c dns_of (getkey_of cdc) (crun c cdc evs) data server u p a = Ok rk -> gke_is_public_key rk = false ->
  envelope_hash rk = Ok h ->
  fst (unprotect_online c dns_of (getkey_of cdc) (crun c cdc evs) data server u p a) = decrypt_blob c b rk /\
  gke_l0 rk = kid_l0 kid /\
  Chain.compute_l2_key c h (kid_l1 kid) (kid_l2 kid) rk
  = key_at (akdf c h) (al1seed c) (atruth ctruth) (code (kid_rkid kid)) (code sd) (kid_l0 kid) (kid_l1 kid) (kid_l2 kid) /\
  get_kek c rk kid
  = (let* l2_key := key_at (akdf c h) (al1seed c) (atruth ctruth) (code (kid_rkid kid)) (code sd) (kid_l0 kid) (kid_l1 kid) (kid_l2 kid) in
     if kid_is_public_key kid
     then compute_kek_from_public_key c h l2_key (gke_secret_alg rk) (gke_secret_params rk) (kid_key_info kid) (K_gkdi.k_ceil_priv_get (gke_priv_len rk))
     else Ok (kdf c h l2_key Consts.c_KDS_SERVICE_LABEL (kid_key_info kid) K_gkdi.k_kek_len_nonce_get)).
Proof. exact concrete_transparent. Qed.
Print Assumptions C10_concrete_transparent.

(* ---- the hypotheses are satisfiable, and the conclusions for an instance: guarded symbolic crypto symg, a loaded (true) root
   key, a DC that answers explicitly and only hands out public envelopes, a blob really protected at (361, 31, 23) ---- *)
Example C10_refine_ex_hypotheses :
  (asks rx_B rx_b rx_sd /\ kid_rkid (b_key_identifier rx_b) = rx_rkid /\ kid_l0 (b_key_identifier rx_b) = 361 /\
   kid_l1 (b_key_identifier rx_b) = 31 /\ kid_l2 (b_key_identifier rx_b) = 23) /\
  (Forall cev_ok rx_evs /\ Forall (cev_true rx_truth) rx_evs) /\
  cdc_explicit rx_dc /\
  dc_conforming_ok (akdf C01Lib.symg SHA512) (al1seed C01Lib.symg) (adc_of rx_dc) (atruth rx_truth) /\
  c_served (crun C01Lib.symg rx_dc rx_evs) rx_rkid rx_sd 361 31 31.
Proof. exact (conj rx_asks (conj rx_good (conj rx_dc_explicit (conj rx_dc_conforming rx_served)))). Qed.
Example C10_refine_ex_no_rpc : forall dns getkey server u p a,
  unprotect_online C01Lib.symg dns getkey (crun C01Lib.symg rx_dc rx_evs) rx_B server u p a
  = unprotect_offline C01Lib.symg (crun C01Lib.symg rx_dc rx_evs) rx_B.
Proof. exact rx_no_rpc. Qed.
Example C10_refine_ex_plaintext : fst (unprotect_offline C01Lib.symg (crun C01Lib.symg rx_dc rx_evs) rx_B) = Ok rx_data.
Proof. exact rx_plaintext. Qed.
Example C10_refine_ex_transparent :
  fst (unprotect_online C01Lib.symg dns_of (getkey_of rx_dc) (crun C01Lib.symg rx_dc rx_evs) rx_B None VN VN VN) = decrypt_blob C01Lib.symg rx_b rx_env /\
  gke_l0 rx_env = 361 /\
  Chain.compute_l2_key C01Lib.symg SHA512 31 23 rx_env
  = key_at (akdf C01Lib.symg SHA512) (al1seed C01Lib.symg) (atruth rx_truth) (code rx_rkid) (code rx_sd) 361 31 23.
Proof. exact rx_transparent. Qed.
(* the hash hypothesis of C10_concrete_transparent is needed: the same instance with the abstract kdf at SHA256 (the envelope names
   SHA512) meets every other hypothesis (same public-only DC: C10_refine_ex_conforming_256), and the SHA256 chain key is not the key
   the call derives *)
Example C10_refine_ex_conforming_256 :
  dc_conforming_ok (akdf C01Lib.symg SHA256) (al1seed C01Lib.symg) (adc_of rx_dc) (atruth rx_truth) /\ envelope_hash rx_env = Ok SHA512.
Proof. exact (conj rx_dc_conforming_256 rx_env_hash). Qed.
Example C10_refine_ex_wrong_hash :
  envelope_hash rx_env <> Ok SHA256 /\
  Chain.compute_l2_key C01Lib.symg SHA512 31 23 rx_env
  <> key_at (akdf C01Lib.symg SHA256) (al1seed C01Lib.symg) (atruth rx_truth) (code rx_rkid) (code rx_sd) 361 31 23.
Proof. exact rx_wrong_hash. Qed.
(* a DC whose conformance is NOT vacuous: sx_dc answers with the private (31, 31) seed envelope of the true root key.  No root key
   is loaded; the first unprotect obtains the envelope by RPC and the cache keeps it (the roots stay empty); the next unprotect of
   the blob is served from that RPC-obtained entry: offline function for every network oracle, and the plaintext *)
Example C10_refine_ex_seed_hypotheses :
  dc_conforming_ok (akdf C01Lib.symg SHA512) (al1seed C01Lib.symg) (adc_of sx_dc) (atruth rx_truth) /\
  (Forall cev_ok sx_evs /\ Forall (cev_true rx_truth) sx_evs) /\
  (c_served (crun C01Lib.symg sx_dc sx_evs) rx_rkid rx_sd 361 31 31 /\ cc_roots (crun C01Lib.symg sx_dc sx_evs) = []).
Proof. exact (conj sx_dc_conforming (conj sx_ok sx_served)). Qed.
Example C10_refine_ex_seed_private : gke_is_public_key (sx_dc rx_sd (Some rx_rkid) 361 31 23) = false.
Proof. vm_compute. reflexivity. Qed.
Example C10_refine_ex_seed_no_rpc : forall dns getkey server u p a,
  unprotect_online C01Lib.symg dns getkey (crun C01Lib.symg sx_dc sx_evs) rx_B server u p a
  = unprotect_offline C01Lib.symg (crun C01Lib.symg sx_dc sx_evs) rx_B.
Proof. exact sx_no_rpc. Qed.
Example C10_refine_ex_seed_plaintext : fst (unprotect_offline C01Lib.symg (crun C01Lib.symg sx_dc sx_evs) rx_B) = Ok rx_data.
Proof. exact sx_plaintext. Qed.
