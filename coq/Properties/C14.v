(* C14 -- Replies reassemble identically under any TCP segmentation; EOF is an error.
   Statements only. The transport is (remaining stream, schedule of segment sizes); the
   quantification is over every schedule, every reply and every EOF point, with no bound. *)
From V Require Import Prelude.Base Prelude.PyInt Prelude.PySlice Model.Recv Proofs.C14 gen.K_client Proofs.C14Kernels.

(* sync: whatever the segmentation (including inside the 16-byte header), exactly the reply's
   bytes are reassembled, the rest of the stream is untouched, in at most len(reply) reads *)
Theorem C14_sync_any_split : forall reply rest sch, wf_reply reply ->
  exists sch' reads, sync_recv_pdu {| stream := reply ++ rest; sched := sch |} =
    (Ok (reply, {| stream := rest; sched := sch' |}), reads) /\ (reads <= length reply)%nat.
Proof. exact sync_any_split. Qed.
Print Assumptions C14_sync_any_split.

(* sync: the connection ends after k < len(reply) bytes (k = 0 included): EOFError after at most k+1 reads -- no spin, no block *)
Theorem C14_sync_eof : forall reply k sch, wf_reply reply -> (k < length reply)%nat ->
  exists reads, sync_recv_pdu {| stream := firstn k reply; sched := sch |} = (Raise EOFError, reads)
    /\ (reads <= k + 1)%nat.
Proof. exact sync_eof. Qed.
Print Assumptions C14_sync_eof.

(* async (readexactly law): the same bytes / IncompleteReadError *)
Theorem C14_async_whole : forall reply rest, wf_reply reply -> async_recv_pdu (reply ++ rest) = Ok (reply, rest).
Proof. exact async_whole. Qed.
Print Assumptions C14_async_whole.

Theorem C14_async_eof : forall reply k, wf_reply reply -> (k < length reply)%nat ->
  async_recv_pdu (firstn k reply) = Raise IncompleteRead.
Proof. exact async_eof. Qed.
Print Assumptions C14_async_eof.

(* hence both flavours hand the same bytes to the PDU decoder, for every segmentation *)
Theorem C14_same_pdu : forall reply rest sch, wf_reply reply ->
  exists sch' reads, fst (sync_recv_pdu {| stream := reply ++ rest; sched := sch |}) = Ok (reply, {| stream := rest; sched := sch' |})
    /\ async_recv_pdu (reply ++ rest) = Ok (reply, rest) /\ (reads <= length reply)%nat.
Proof. exact same_pdu. Qed.
Print Assumptions C14_same_pdu.

(* non-vacuity: a 28-byte RESPONSE PDU *)
Example C14_wf_example :
  wf_reply [5;0;2;3; 16;0;0;0; 28;0; 0;0; 1;0;0;0;  4;0;0;0; 0;0; 0;0;  1;2;3;4].
Proof. split; [vm_compute; discriminate|reflexivity]. Qed.

(* ---- tie to the source. The two receive functions fill their buffer through memoryview aliases, which the flow semantics cannot
   express, so they are tied by kernels: the regenerated loop guard and requested size of the sync header loop, the two sizes the
   async reader asks for, and the statement skeleton of both functions (send, header read with the EOF test right after each read,
   buffer of exactly frag_len octets, header copied to its front, body read into the remaining view until it is empty with the EOF
   test, nothing else before _process_response) ---- *)
Theorem C14_kernels :
  (forall n, k_recv_hdr_guard n = (n <? 16)) /\ (forall n, k_recv_hdr_want n = 16 - n) /\
  k_recv_async_hdr_want = 16 /\ (forall n, k_recv_async_body_want n = n - 16) /\
  k_recv_sync_shape = true /\ k_recv_async_shape = true.
Proof. exact recv_kernels. Qed.
Print Assumptions C14_kernels.

(* the source's header loop, written with the regenerated guard and size, is the model's read-exactly loop: from any partial header,
   and in particular the model's header read from the empty one *)
Theorem C14_header_loop_is_model : forall fuel header t reads,
  hdr_loop_src fuel header t reads = recv_exactly fuel (16 - len header) header t reads.
Proof. exact hdr_loop_src_is_recv_exactly. Qed.
Print Assumptions C14_header_loop_is_model.
Theorem C14_header_loop_from_empty : forall fuel t, hdr_loop_src fuel [] t 0 = recv_exactly fuel 16 [] t 0.
Proof. exact sync_header_loop. Qed.
Print Assumptions C14_header_loop_from_empty.

