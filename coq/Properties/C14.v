(* C14 -- Replies reassemble identically under any TCP segmentation; EOF is an error.
   Statements only. The transport is (remaining stream, schedule of segment sizes); the
   quantification is over every schedule, every reply and every EOF point, with no bound. *)
From V Require Import Prelude.Base Prelude.PyInt Prelude.PySlice Model.Recv Proofs.C14.

(* sync: whatever the segmentation (including inside the 16-byte header), exactly the reply's
   bytes are reassembled, the rest of the stream is untouched, in at most len(reply) reads *)
Theorem C14_sync_any_split : forall reply rest sch, wf_reply reply ->
  exists sch' reads, sync_recv_pdu {| stream := reply ++ rest; sched := sch |} =
    (Ok (reply, {| stream := rest; sched := sch' |}), reads) /\ (reads <= length reply)%nat.
Proof. exact sync_any_split. Qed.
Print Assumptions C14_sync_any_split.

(* sync: the connection ends after k < len(reply) bytes (k = 0 included): EOFError after at most k+1 reads -- no spin, no block *)
Theorem C14_sync_eof : forall reply k sch, wf_reply reply -> (k < length reply)%nat ->
  exists reads, sync_recv_pdu {| stream := firstn k reply; sched := sch |} = (Raise EOFError, reads)
    /\ (reads <= k + 1)%nat.
Proof. exact sync_eof. Qed.
Print Assumptions C14_sync_eof.

(* async (readexactly law): the same bytes / IncompleteReadError *)
Theorem C14_async_whole : forall reply rest, wf_reply reply -> async_recv_pdu (reply ++ rest) = Ok (reply, rest).
Proof. exact async_whole. Qed.
Print Assumptions C14_async_whole.

Theorem C14_async_eof : forall reply k, wf_reply reply -> (k < length reply)%nat ->
  async_recv_pdu (firstn k reply) = Raise IncompleteRead.
Proof. exact async_eof. Qed.
Print Assumptions C14_async_eof.

(* hence both flavours hand the same bytes to the PDU decoder, for every segmentation *)
Theorem C14_same_pdu : forall reply rest sch, wf_reply reply ->
  exists sch' reads, fst (sync_recv_pdu {| stream := reply ++ rest; sched := sch |}) = Ok (reply, {| stream := rest; sched := sch' |})
    /\ async_recv_pdu (reply ++ rest) = Ok (reply, rest) /\ (reads <= length reply)%nat.
Proof. exact same_pdu. Qed.
Print Assumptions C14_same_pdu.

(* non-vacuity: a 28-byte RESPONSE PDU *)
Example C14_wf_example :
  wf_reply [5;0;2;3; 16;0;0;0; 28;0; 0;0; 1;0;0;0;  4;0;0;0; 0;0; 0;0;  1;2;3;4].
Proof. split; [vm_compute; discriminate|reflexivity]. Qed.
