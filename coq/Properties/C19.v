(* C19 -- every encryption uses fresh CEK, nonce and key-identifier randomness. Statements only; proofs in Proofs/C19.v.
   Model: Model/Client.v; the three os.urandom draws of a protect call are the arguments r1 r2 r3 (CEK, GCM nonce,
   key-identifier randomness, in call order). That the implementation makes exactly these draws, in this order and of
   these sizes, is checked by the harness (counter-stream RNG), not here.
   C19_in_blob: in the emitted blob the draws are used unmodified and nowhere else. C19_fresh_sequence: over a history
   of protect / unprotect calls fed from a stream rnd with a cursor, the windows of different protect calls are disjoint;
   under the RNG hypothesis "distinct draws are distinct strings" CEKs, nonces and key-identifier nonces of any two calls
   differ, no (key, nonce) pair repeats, and (IdealLaws: injectivity of ideal AES-GCM / AES-KW) ciphertexts and wrapped
   keys of two calls differ even for equal plaintexts. Hypotheses of C19_in_blob as in C01 (Properties/C01.v). *)
From Coq Require Import String.
From V Require Import Prelude.Base Prelude.PyInt Prelude.PyStr.
From V Require Import Model.Types Model.Crypto Model.Sym Model.KeyId Model.Gkdi Model.Kek Model.SecDesc Model.Blob Model.CryptoWrap Model.Interval Model.Client.
From V Require Import Spec.GkdiSpec Spec.KekSpec.
From V Require Import gen.K_e2e.
From V Require Import Proofs.BlobPkcs7 Proofs.BlobMain Proofs.C01Lib Proofs.C01 Proofs.C19.

Theorem C19_in_blob : forall (c : Crypto) (h : hash) (rk : root_key) (rkid : bytes) (s : sid) (sid : pystr) (time_ns l0 l1 l2 : Z)
    (cache : ccache) (r1 r2 r3 data blob : bytes) (cache1 : ccache),
  rk_hash rk = Ok h -> rk_kdf_alg rk = STR_KDF_ALG -> len rkid = 16 ->
  sid_parse sid = Ok s -> sid_okb sid = true -> 0 <= time_ns -> interval_of_time_ns time_ns = (l0, l1, l2) ->
  kdf_nonempty c -> cache_ok c h rk rkid (target_sd s) l0 cache -> len r2 = 12 -> len r3 = 32 ->
  (forall kek w, derived_kek c h rk rkid (target_sd s) l0 l1 l2 r3 = Ok kek -> kw_wrap c kek r1 = Ok w -> len w < U32) ->
  (forall ct, gcm_enc c r1 r2 data = Ok ct -> len ct < U32) ->
  protect_offline c cache r1 r2 r3 data sid (Some rkid) time_ns = (Ok blob, cache1) ->
  exists b e0 kek p,
    blob_unpack blob = Ok b /\
    (* the GCM nonce is the second draw *)
    gcm_parameters r2 = Ok p /\ b_enc_content_parameters b = Some p /\ gcm_iv_of_parameters (b_enc_content_parameters b) = Ok r2 /\
    (* the key-identifier nonce is the third draw (nonce mode) *)
    kid_key_info (b_key_identifier b) = r3 /\ kid_is_public_key (b_key_identifier b) = false /\
    (* the CEK is the first draw: key of the content encryption and the value wrapped under the MS-GKDI KEK *)
    derived_kek c h rk rkid (target_sd s) l0 l1 l2 r3 = Ok kek /\
    Ok (b_enc_content b) = gcm_enc c r1 r2 data /\ Ok (b_enc_cek b) = kw_wrap c kek r1 /\
    (* nothing else: every other field is a field of the cache entry e0, the clock indices or the arguments *)
    cc_find_seed (cc_seeds cache1) (rkid, target_sd s, l0) = Some e0 /\
    b = emitted_blob (emitted_kid (gke_flags e0) l0 l1 l2 rkid r3 (gke_domain e0) (gke_forest e0)) sid (b_enc_cek b) (b_enc_content b) p.
Proof. exact in_blob. Qed.
Print Assumptions C19_in_blob.

(* ... and the cache after the call (hence e0) does not depend on the draws or the plaintext *)
Theorem C19_cache_independent_of_draws : forall c cache r1 r2 r3 data r1' r2' r3' data' sid rkid time_ns,
  snd (protect_offline c cache r1 r2 r3 data sid rkid time_ns) = snd (protect_offline c cache r1' r2' r3' data' sid rkid time_ns).
Proof. exact cache_independent_of_draws. Qed.
Print Assumptions C19_cache_independent_of_draws.

(* histories: protect_many (Proofs/C19.v) runs protect / unprotect calls threading the cache and a cursor into rnd;
   trace lists (cursor, result) of the protect calls. The k-th protect call starts at cur + 3k and its result is
   protect_offline applied to rnd cursor, rnd (cursor + 1), rnd (cursor + 2) in this order *)
Theorem C19_windows : forall c rnd ops cur cache k e, nth_error (trace c rnd cur cache ops) k = Some e ->
  fst e = (cur + 3 * k)%nat /\
  exists cache_k a, In (Protect a) ops /\
    snd e = fst (protect_offline c cache_k (rnd (fst e)) (rnd (fst e + 1)%nat) (rnd (fst e + 2)%nat) (a_data a) (a_sid a) (a_rkid a) (a_time a)).
Proof. exact trace_windows. Qed.
Print Assumptions C19_windows.

Theorem C19_windows_disjoint : forall c rnd ops cur cache i j ei ej, i <> j ->
  nth_error (trace c rnd cur cache ops) i = Some ei -> nth_error (trace c rnd cur cache ops) j = Some ej ->
  (forall x y, In x (window (fst ei)) -> In y (window (fst ej)) -> x <> y) /\ (i < j -> fst ei + 3 <= fst ej)%nat.
Proof. exact windows_disjoint. Qed.
Print Assumptions C19_windows_disjoint.

Theorem C19_fresh_sequence : forall c rnd ops cur cache i j ei ej, rnd_distinct rnd -> i <> j ->
  nth_error (trace c rnd cur cache ops) i = Some ei -> nth_error (trace c rnd cur cache ops) j = Some ej ->
  let cek k := rnd k in let nonce k := rnd (k + 1)%nat in let kid_nonce k := rnd (k + 2)%nat in
  cek (fst ei) <> cek (fst ej) /\ nonce (fst ei) <> nonce (fst ej) /\ kid_nonce (fst ei) <> kid_nonce (fst ej) /\
  (cek (fst ei), nonce (fst ei)) <> (cek (fst ej), nonce (fst ej)) /\
  (forall x y, In x (window (fst ei)) -> In y (window (fst ej)) -> rnd x <> rnd y).
Proof. exact fresh_sequence. Qed.
Print Assumptions C19_fresh_sequence.

(* the RNG hypothesis only for the draws the history makes *)
Theorem C19_fresh_sequence_bounded : forall c rnd ops cur cache i j ei ej,
  rnd_distinct_below rnd (snd (protect_many c rnd cur cache ops)) -> i <> j ->
  nth_error (trace c rnd cur cache ops) i = Some ei -> nth_error (trace c rnd cur cache ops) j = Some ej ->
  let cek k := rnd k in let nonce k := rnd (k + 1)%nat in let kid_nonce k := rnd (k + 2)%nat in
  cek (fst ei) <> cek (fst ej) /\ nonce (fst ei) <> nonce (fst ej) /\ kid_nonce (fst ei) <> kid_nonce (fst ej) /\
  (cek (fst ei), nonce (fst ei)) <> (cek (fst ej), nonce (fst ej)) /\
  (forall x y, In x (window (fst ei)) -> In y (window (fst ej)) -> rnd x <> rnd y).
Proof. exact fresh_sequence_bounded. Qed.
Print Assumptions C19_fresh_sequence_bounded.

(* equal plaintexts give different ciphertexts (and different wrapped keys) *)
Theorem C19_distinct_ciphertexts : forall c, IdealLaws c -> forall k n p ct k' n' p' ct',
  gcm_enc c k n p = Ok ct -> gcm_enc c k' n' p' = Ok ct' -> (k, n) <> (k', n') -> ct <> ct'.
Proof. exact distinct_ciphertexts. Qed.
Print Assumptions C19_distinct_ciphertexts.
Theorem C19_distinct_wrapped_ceks : forall c, IdealLaws c -> forall k x w k' x' w',
  kw_wrap c k x = Ok w -> kw_wrap c k' x' = Ok w' -> x <> x' -> w <> w'.
Proof. exact distinct_wrapped_ceks. Qed.
Print Assumptions C19_distinct_wrapped_ceks.

(* the two halves together, over a whole history: cache_inv (the root key is loaded, every cache entry sits under the key its
   envelope names, every entry of this root key conforms to its chain) is kept by every protect and unprotect call whatever
   their arguments (C19_cache_inv_kept); hence, when every protect call of the history is a well-formed nonce-mode call for this
   root key (call_ok: accepted SID, time >= 0, draws of 12 and 32 bytes, outputs shorter than 2^32), the blobs of any two
   successful protect calls -- also with identical arguments, also with unprotect calls of arbitrary bytes in between --
   carry different GCM nonces, key-identifier nonces, wrapped CEKs and ciphertexts *)
Theorem C19_cache_inv_kept : forall c h rk rkid, rk_hash rk = Ok h -> rk_kdf_alg rk = STR_KDF_ALG ->
  forall cache, cache_inv c h rk rkid cache ->
  (forall r1 r2 r3 data sid rid time_ns, cache_inv c h rk rkid (snd (protect_offline c cache r1 r2 r3 data sid rid time_ns))) /\
  (forall bs, cache_inv c h rk rkid (snd (unprotect_offline c cache bs))).
Proof. exact cache_inv_kept. Qed.
Print Assumptions C19_cache_inv_kept.

Theorem C19_fresh_blobs : forall c h rk rkid, rk_hash rk = Ok h -> rk_kdf_alg rk = STR_KDF_ALG -> len rkid = 16 -> kdf_nonempty c ->
  IdealLaws c ->
  forall rnd ops cur cache i j ci cj Bi Bj,
  cache_inv c h rk rkid cache ->
  (forall a k, In (Protect a) ops -> (k < length (trace c rnd cur cache ops))%nat ->
     call_ok c h rk rkid (rnd (cur + 3 * k)%nat) (rnd (cur + 3 * k + 1)%nat) (rnd (cur + 3 * k + 2)%nat) a) ->
  rnd_distinct_below rnd (snd (protect_many c rnd cur cache ops)) -> i <> j ->
  nth_error (trace c rnd cur cache ops) i = Some (ci, Ok Bi) -> nth_error (trace c rnd cur cache ops) j = Some (cj, Ok Bj) ->
  exists bi bj ni nj, blob_unpack Bi = Ok bi /\ blob_unpack Bj = Ok bj /\
    gcm_iv_of_parameters (b_enc_content_parameters bi) = Ok ni /\ gcm_iv_of_parameters (b_enc_content_parameters bj) = Ok nj /\ ni <> nj /\
    kid_key_info (b_key_identifier bi) <> kid_key_info (b_key_identifier bj) /\
    b_enc_cek bi <> b_enc_cek bj /\ b_enc_content bi <> b_enc_content bj /\ Bi <> Bj.
Proof. exact fresh_blobs. Qed.
Print Assumptions C19_fresh_blobs.

(* Public-key mode: the key identifier carries the ephemeral public key g^x mod p (DH) or x*G (ECDH) of the third draw x.
   Full statement (NOT proved): under rnd_distinct the key_info fields of any two protect calls in public-key mode are
   distinct. It needs injectivity of x |-> g^x mod p on the drawn range (resp. of scalar multiplication), which is a
   property of the group, not of the library. What is proved (C03_agree_dh / C03_agree_ecdh) is that key_info is the
   public key of exactly that draw. *)
Theorem C19_pubkey_partial : forall c h top es ep rnd seed kl p g,
  envelope_hash es = Ok h -> envelope_hash ep = Ok h -> gke_is_public_key es = false -> gke_is_public_key ep = true ->
  gke_l0 es = gke_l0 ep -> gke_rkid es = gke_rkid ep -> gke_secret_alg es = STR_DH -> gke_secret_alg ep = STR_DH ->
  gke_priv_len es = gke_priv_len ep -> GkdiLib.u32b (gke_priv_len ep) = true -> 0 <= gke_l1 ep <= 31 -> 0 <= gke_l2 ep <= 31 ->
  conforming (Kek.KDFof c h ep) top (C02.env_of es) -> covers (C02.env_of es) (gke_l1 ep) (gke_l2 ep) ->
  K2 (Kek.KDFof c h ep) top (gke_l1 ep) (gke_l2 ep) = Ok seed ->
  0 < p -> GkdiLib.u32b kl = true -> GkdiStructs.fitsb kl p = true -> GkdiStructs.fitsb kl g = true ->
  let nbytes := bytes_of_bits (gke_priv_len ep) in
  let y := OS2IP (kdf c h seed KDS_SERVICE (lit16z "DH") nbytes) in let x := OS2IP (rnd nbytes) in
  wfb (kdf c h seed KDS_SERVICE (lit16z "DH") nbytes) = true -> wfb (rnd nbytes) = true ->
  (* since the repair of D16: the envelope carries the group's DH parameters and the group public value is a valid element *)
  Kek.dh_group_params (gke_secret_params ep) kl p g -> dh_pub_valid p (dh_public p g y) ->
  gke_l2_key ep = concat (GkdiStructs.ffk_field_list {| ffk_key_length := kl; ffk_field_order := p; ffk_generator := g; ffk_public_key := dh_public p g y |}) ->
  exists kek kid, new_kek c rnd ep = Ok (kek, kid) /\
    kid_key_info kid = concat (GkdiStructs.ffk_field_list {| ffk_key_length := kl; ffk_field_order := p; ffk_generator := g; ffk_public_key := dh_public p g x |}).
Proof. exact pubkey_key_info. Qed.
Print Assumptions C19_pubkey_partial.

(* the draw sites in the current source (regenerated kernels): AESGCM.generate_key(256) then os.urandom(12), both returned
   unmodified by cek_generate; in _encrypt_blob the CEK flows only into content_encrypt and cek_encrypt, the nonce only into
   the GCM parameters SEQUENCE { OCTET STRING, INTEGER 16 }, and (kek, key_identifier) = key.new_kek() *)
Theorem C19_draw_sites : k_cek_generate_draws = (256, 12) /\ k_encrypt_blob_flow = true.
Proof. exact draw_sites. Qed.
Print Assumptions C19_draw_sites.

(* ---- instances ---- *)
Example C19_example_rnd : rnd_distinct ex_rnd.
Proof. exact ex_rnd_distinct. Qed.
(* three protect calls (two with identical arguments) and an unprotect call: cursors 0, 3, 6; nonce and key_info read
   back from each blob are draws 1,2 / 4,5 / 7,8 *)
Example C19_example_trace :
  map fst ex_trace = [0%nat; 3%nat; 6%nat] /\
  map (fun e => blob_draws (snd e)) ex_trace =
    [Some (Ok (ex_rnd 1), ex_rnd 2); Some (Ok (ex_rnd 4), ex_rnd 5); Some (Ok (ex_rnd 7), ex_rnd 8)].
Proof. exact ex_trace_draws. Qed.
Example C19_example_in_blob : exists blob cache1 b e0 kek p,
  protect_offline symg ex_cache ex_r1 ex_r2 ex_r3 [1; 2; 3] ex_sid (Some ex_rkid) ex_time = (Ok blob, cache1) /\
  blob_unpack blob = Ok b /\ gcm_parameters ex_r2 = Ok p /\ b_enc_content_parameters b = Some p /\
  gcm_iv_of_parameters (b_enc_content_parameters b) = Ok ex_r2 /\ kid_key_info (b_key_identifier b) = ex_r3 /\
  derived_kek symg SHA512 ex_rk ex_rkid (target_sd (parsed ex_sid)) 361 31 23 ex_r3 = Ok kek /\
  Ok (b_enc_content b) = gcm_enc symg ex_r1 ex_r2 [1; 2; 3] /\ Ok (b_enc_cek b) = kw_wrap symg kek ex_r1 /\
  cc_find_seed (cc_seeds cache1) (ex_rkid, target_sd (parsed ex_sid), 361) = Some e0.
Proof. exact ex_in_blob. Qed.
(* the history of C19_example_trace meets every hypothesis of C19_fresh_blobs (ex_cache_inv, ex_calls_ok, ex_rnd_distinct, symg_ideal) *)
Example C19_example_fresh_blobs : forall i j ci cj Bi Bj, i <> j ->
  nth_error ex_trace i = Some (ci, Ok Bi) -> nth_error ex_trace j = Some (cj, Ok Bj) ->
  exists bi bj ni nj, blob_unpack Bi = Ok bi /\ blob_unpack Bj = Ok bj /\
    gcm_iv_of_parameters (b_enc_content_parameters bi) = Ok ni /\ gcm_iv_of_parameters (b_enc_content_parameters bj) = Ok nj /\ ni <> nj /\
    kid_key_info (b_key_identifier bi) <> kid_key_info (b_key_identifier bj) /\
    b_enc_cek bi <> b_enc_cek bj /\ b_enc_content bi <> b_enc_content bj /\ Bi <> Bj.
Proof. exact ex_fresh_blobs. Qed.

(* ---- the encrypt-side source tied to the model (flows).  WR c rnd_cek rnd_iv rnd_kek time_ns is the world in which
   AESGCM.generate_key(256), os.urandom(12) and the os.urandom inside key.new_kek() return these values (Flow/World_e2e.v):
   the regenerated cek_generate makes exactly the first two draws, of these sizes and in this order, and the regenerated
   _encrypt_blob is Model/Client.v encrypt_blob of the three draws. *)
From V Require Import Prelude.PyAst Prelude.PyWorld gen.F_e2e Flow.World_e2e Proofs.Flow_e2e_enc.
Theorem C19_flow_cek_encrypt : forall c fuel a p kek v,
  run (W c) fuel k_flow_cek_encrypt [VO (OOid a); vopt_bytes p; VB kek; VB v] = (let* b := cek_encrypt c a p kek v in Ok (VB b)).
Proof. exact flow_cek_encrypt. Qed.
Print Assumptions C19_flow_cek_encrypt.
Theorem C19_flow_content_encrypt : forall c fuel a p cek v,
  run (W c) fuel k_flow_content_encrypt [VO (OOid a); vopt_bytes p; VB cek; VB v] = (let* b := content_encrypt c a p cek v in Ok (VB b)).
Proof. exact flow_content_encrypt. Qed.
Print Assumptions C19_flow_content_encrypt.
Theorem C19_flow_cek_generate : forall c rnd_cek rnd_iv rnd_kek time_ns fuel a,
  run (WR c rnd_cek rnd_iv rnd_kek time_ns) fuel k_flow_cek_generate [VO (OOid a)]
  = (let* (k, iv) := cek_generate a rnd_cek rnd_iv in Ok (VT [VB k; VB iv])).
Proof. exact flow_cek_generate. Qed.
Print Assumptions C19_flow_cek_generate.
Theorem C19_flow_encrypt_blob : forall c rnd_cek rnd_iv rnd_kek time_ns fuel data key sid,
  run (WR c rnd_cek rnd_iv rnd_kek time_ns) fuel k_flow_encrypt_blob [VB data; VO (OEnv key); VO (OSid sid)]
  = (let* b := encrypt_blob c rnd_cek rnd_iv rnd_kek data key sid in Ok (VB b)).
Proof. exact flow_encrypt_blob. Qed.
Print Assumptions C19_flow_encrypt_blob.
