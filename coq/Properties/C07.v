(* C07 -- ASN.1 DER primitives: minimal encoding, exact decoding, exact consumption. Statements only.
   Model: Model/Asn1.v (function-for-function after _asn1.py, kernels k_* / constants c_* regenerated
   from the source). Spec: Spec/DerSpec.v (X.690 relations der_ident, der_len, der_int, der_oid and the
   strict reader strict_parse). P n = 256^n. tag_wf t: class in 0..3, number >= 0. tag_readable t: a
   universal tag has one of the numbers of TypeTagNumber (0..36), the only ones the reader admits.
   Content lengths are below 256^126 (X.690 8.1.3.5: at most 126 length octets). *)
From V Require Import Prelude.Base Prelude.PyInt Prelude.PySlice Prelude.PyStr gen.K_asn1 gen.C_asn1 Model.Asn1 Spec.DerSpec.
From V Require Import Proofs.Asn1Lib Proofs.Asn1Hdr Proofs.Asn1Tlv Proofs.Asn1Int Proofs.Asn1Oid Proofs.Asn1Str Proofs.Asn1Tree Proofs.DerFacts Proofs.C07.

(* ---- identifier and length octets: every class, every number below and above 30, both forms of length *)
Theorem C07_header_roundtrip : forall t c rest, tag_wf t -> tag_readable t -> len c < P 126 ->
  exists ib lb, pack_tlv t c = Ok (ib ++ lb ++ c) /\ der_ident t ib /\ der_len (len c) lb /\
    read_asn1_header (ib ++ lb ++ c ++ rest) = Ok (mk_header t (len ib + len lb) (len c)).
Proof. exact header_roundtrip. Qed.
Print Assumptions C07_header_roundtrip.

(* the header reader accepts every DER header, not only the writer's *)
Theorem C07_header_reads_der : forall t ib n lb rest, der_ident t ib -> der_len n lb -> tag_readable t ->
  read_asn1_header (ib ++ lb ++ rest) = Ok (mk_header t (len ib + len lb) n).
Proof. exact read_header_der. Qed.
Print Assumptions C07_header_reads_der.

(* minimal = unique *)
Theorem C07_len_unique : forall n b1 b2, der_len n b1 -> der_len n b2 -> b1 = b2.
Proof. exact der_len_unique. Qed.
Print Assumptions C07_len_unique.
Theorem C07_ident_unique : forall t b1 b2, der_ident t b1 -> der_ident t b2 -> b1 = b2.
Proof. exact der_ident_unique. Qed.
Print Assumptions C07_ident_unique.
Theorem C07_int_unique : forall z b1 b2, der_int z b1 -> der_int z b2 -> b1 = b2.
Proof. exact der_int_unique. Qed.
Print Assumptions C07_int_unique.
Theorem C07_oid_unique : forall arcs b1 b2, der_oid arcs b1 -> der_oid arcs b2 -> b1 = b2.
Proof. exact der_oid_unique. Qed.
Print Assumptions C07_oid_unique.

(* ---- INTEGER: for ALL z the writer's content octets are the minimal two's-complement encoding *)
Theorem C07_int_encode : forall z : Z, exists bs, pack_int_content z = Ok bs /\ der_int z bs.
Proof. exact pack_int_content_der. Qed.
Print Assumptions C07_int_encode.
(* the reader computes the two's-complement value of any non-empty content (D1: including FF 00 00) *)
Theorem C07_int_decode : forall raw, wfb raw = true -> raw <> [] -> read_int_content raw = Ok (tc_val raw).
Proof. exact read_int_content_tc. Qed.
Print Assumptions C07_int_decode.
Theorem C07_int_roundtrip : forall z c t rest, pack_int_content z = Ok c -> len c < P 126 ->
  match t with Some x => tag_ok x | None => True end ->
  exists bs, pack_integer z t = Ok bs /\ read_integer (bs ++ rest) t None = Ok (z, rest).
Proof. exact read_integer_pack_tag. Qed.
Print Assumptions C07_int_roundtrip.
Theorem C07_enumerated_roundtrip : forall z c rest, pack_int_content z = Ok c -> len c < P 126 ->
  exists bs, pack_enumerated z None = Ok bs /\ read_enumerated (bs ++ rest) None None = Ok (z, rest).
Proof. exact read_enumerated_pack. Qed.
Print Assumptions C07_enumerated_roundtrip.
(* D2: no content octets is a deliberate ValueError *)
Theorem C07_empty_content_refused : read_int_content [] = Raise ValueError /\ read_oid_content [] = Raise ValueError.
Proof. exact empty_content_refused. Qed.
Print Assumptions C07_empty_content_refused.

(* ---- OBJECT IDENTIFIER: everything the writer accepts with first arc <= 2; arcs of any size *)
Theorem C07_oid_encode : forall a b rest, 0 <= a <= 2 -> 0 <= b <= 39 -> Forall (fun x => 0 <= x) rest ->
  exists bs, encode_oid (a :: b :: rest) = Ok bs /\ der_oid (a :: b :: rest) bs.
Proof. exact encode_oid_der. Qed.
Print Assumptions C07_oid_encode.
Theorem C07_oid_roundtrip : forall a b rest c suffix, 0 <= a <= 2 -> 0 <= b <= 39 -> Forall (fun x => 0 <= x) rest ->
  encode_oid (a :: b :: rest) = Ok c -> len c < P 126 ->
  exists bs, pack_object_identifier (a :: b :: rest) None = Ok bs /\
    read_object_identifier (bs ++ suffix) None None = Ok (a :: b :: rest, suffix).
Proof. exact read_oid_pack. Qed.
Print Assumptions C07_oid_roundtrip.
(* domain limit of the code, stated: a second arc above 39 (legal under arc 2) is refused, not mis-encoded *)
Theorem C07_oid_refused : forall a b rest, 39 < b \/ 39 < a -> encode_oid (a :: b :: rest) = Raise ValueError.
Proof. exact encode_oid_refuses. Qed.
Print Assumptions C07_oid_refused.

(* ---- booleans and strings *)
Theorem C07_boolean_roundtrip : forall v rest,
  exists bs, pack_boolean v None = Ok bs /\ read_boolean (bs ++ rest) None None = Ok (v, rest) /\ bs = [1; 1; if v then 255 else 0].
Proof. exact read_boolean_pack. Qed.
Print Assumptions C07_boolean_roundtrip.
Theorem C07_octet_string_roundtrip : forall b t rest, match t with Some x => tag_ok x | None => True end -> len b < P 126 ->
  exists bs, pack_octet_string b t = Ok bs /\ read_octet_string (bs ++ rest) t None = Ok (b, rest).
Proof. exact read_octet_string_pack. Qed.
Print Assumptions C07_octet_string_roundtrip.
Theorem C07_utf8_roundtrip : forall s c rest, utf8_encode s = Ok c -> len c < P 126 ->
  exists bs, pack_utf8_string s None = Ok bs /\ read_utf8_string (bs ++ rest) None None = Ok (s, rest).
Proof. exact read_utf8_pack. Qed.
Print Assumptions C07_utf8_roundtrip.
Theorem C07_time_roundtrip : forall s c rest, utf8_encode s = Ok c -> len c < P 126 ->
  exists bs, pack_generalized_time s None = Ok bs /\ read_generalized_time (bs ++ rest) None None = Ok (s, rest).
Proof. exact read_gentime_pack. Qed.
Print Assumptions C07_time_roundtrip.
Theorem C07_sequence_roundtrip : forall body t rest, match t with Some x => tag_ok x | None => True end -> len body < P 126 ->
  exists bs, pack_tlv (opt_tag t seq_tag) body = Ok bs /\ read_sequence (bs ++ rest) t None = Ok (body, rest).
Proof. exact read_sequence_pack. Qed.
Print Assumptions C07_sequence_roundtrip.
Theorem C07_set_roundtrip : forall body t rest, match t with Some x => tag_ok x | None => True end -> len body < P 126 ->
  exists bs, pack_tlv (opt_tag t set_tag) body = Ok bs /\ read_set (bs ++ rest) t None = Ok (body, rest).
Proof. exact read_set_pack. Qed.
Print Assumptions C07_set_roundtrip.

(* ---- exact consumption: the value octets, the consumed count, and the view after the read *)
Theorem C07_exact_consumption : forall ty t c rest exp, tag_wf t -> tag_readable t -> len c < P 126 -> expected_of exp ty = t ->
  exists bs, pack_tlv t c = Ok bs /\ validate_tag (bs ++ rest) exp ty None = Ok (c, len bs) /\
             read_raw ty (bs ++ rest) exp None = Ok (c, rest).
Proof. exact exact_consumption. Qed.
Print Assumptions C07_exact_consumption.
Theorem C07_wrong_tag_refused : forall ty t c rest exp, tag_wf t -> tag_readable t -> len c < P 126 -> expected_of exp ty <> t ->
  exists bs, pack_tlv t c = Ok bs /\ validate_tag (bs ++ rest) exp ty None = Raise ValueError.
Proof. exact wrong_tag_refused. Qed.
Print Assumptions C07_wrong_tag_refused.

(* ---- nesting and concatenation: any depth, sequences and sets, any tags *)
Theorem C07_nested : forall t, wf_tree t -> exists bs, encode t = Ok bs /\ strict_parse bs = Some [t].
Proof. exact nested. Qed.
Print Assumptions C07_nested.
Theorem C07_concat : forall ts, wf_trees ts -> exists bs, encode_list ts = Ok bs /\ strict_parse bs = Some ts.
Proof. exact concat_parse. Qed.
Print Assumptions C07_concat.
(* the code's own reader on a concatenation: each content in order, nothing left but the suffix *)
Theorem C07_concat_reader : forall ts, wf_trees ts -> readable_roots ts -> forall rest,
  exists bs cs, encode_list ts = Ok bs /\ map_res content_of ts = Ok cs /\ read_each ts (bs ++ rest) = Ok (cs, rest).
Proof. exact concat_read. Qed.
Print Assumptions C07_concat_reader.

(* any tree of admissible tags whose encoding succeeds below 256^126 octets is well-formed, hence read back *)
Theorem C07_nested_from_encode : forall x bs, shape_ok x -> encode x = Ok bs -> len bs < P 126 ->
  wf_tree x /\ strict_parse bs = Some [x].
Proof. exact nested_from_encode. Qed.
Print Assumptions C07_nested_from_encode.

(* ---- the hypotheses are satisfiable; boundary examples *)
Example C07_ex_tree : wf_tree ex_tree /\ exists bs, encode ex_tree = Ok bs /\ len bs = 145.
Proof. split; [exact ex_tree_wf|]. eexists. split; [vm_compute; reflexivity|reflexivity]. Qed.
Example C07_ex_m65536 : pack_integer (-65536) None = Ok [2; 3; 255; 0; 0] /\ read_integer [2; 3; 255; 0; 0; 9] None None = Ok (-65536, [9]).
Proof. split; reflexivity. Qed.
Example C07_ex_lengths :
  map (fun n => match pack_octet_string (repeat 0 n) None with Ok b => firstn 5 b | Raise _ => [] end) [127; 128; 255; 256; 65535; 65536]%nat
  = [[4; 127; 0; 0; 0]; [4; 129; 128; 0; 0]; [4; 129; 255; 0; 0]; [4; 130; 1; 0; 0]; [4; 130; 255; 255; 0]; [4; 131; 1; 0; 0]].
Proof. vm_compute. reflexivity. Qed.
Example C07_ex_tags :
  map (fun n => pack_tlv (mk_tag 1 n true) []) [30; 31; 127; 128; 16384]
  = [Ok [126; 0]; Ok [127; 31; 0]; Ok [127; 127; 0]; Ok [127; 129; 0; 0]; Ok [127; 129; 128; 0; 0]].
Proof. vm_compute. reflexivity. Qed.
Example C07_ex_tag_hyp : tag_wf (mk_tag 2 16384 true) /\ tag_readable (mk_tag 2 16384 true) /\ len (repeat 0 65536) < P 126.
Proof. split; [split; cbn; lia|]. split; [intros H; discriminate H|]. apply small_lt_P126. vm_compute. reflexivity. Qed.
Example C07_ex_oid : encode_oid [1; 2; 840; 113549; 1; 7; 3] = Ok [42; 134; 72; 134; 247; 13; 1; 7; 3].
Proof. vm_compute. reflexivity. Qed.

(* ---- tie to the source (flows): whole functions of _asn1.py, regenerated as syntax on every run (gen/F_asn1.v) and run in
   the world Flow/World_asn1.v (what every name / attribute / callee / method means, in terms of Model/Asn1.v), ARE the model
   functions the theorems above are about.  `run` is Prelude/PyAst.v's interpreter; `run_mut` (Prelude/PyAstMut.v) also
   returns the parameters afterwards, so a method tie states the reader / writer after the call (first element).
   A tag argument is `vopt_tag t` (None or an ASN1Tag), a header `vopt_header h`, a hint `vopt_str s` (None or a str: it only
   feeds message texts); Python bools are ints; a dotted-decimal str is its arcs (OOid).  Loops: the interpreter's fuel must
   exceed the model's own bound.  _read_asn1_integer needs octets (wfb). ---- *)
From V Require Import Prelude.PyAst.
From V Require Import Prelude.PyWorld Prelude.PyAstMut gen.F_asn1 Flow.World_asn1.
From V Require Import Proofs.Flow_asn1_pack Proofs.Flow_asn1_b128 Proofs.Flow_asn1_tlv Proofs.Flow_asn1_hdr Proofs.Flow_asn1_read
  Proofs.Flow_asn1_int Proofs.Flow_asn1_oid Proofs.Flow_asn1_reader Proofs.Flow_asn1_writer.
Local Open Scope string_scope.
Local Open Scope list_scope.
Local Open Scope Z_scope.

Theorem C07_flow_universal_tag : forall fuel cls (n : Z) (b : bool),
  run W fuel k_flow_universal_tag [cls; VI n; vb b] = Ok (VO (OTag (universal_tag n b))).
Proof. exact flow_universal_tag. Qed.
Print Assumptions C07_flow_universal_tag.
Theorem C07_flow_pack_asn1_boolean : forall fuel (v : Z) t,
  run W fuel k_flow_pack_asn1_boolean [VI v; vopt_tag t] = lift_b (pack_boolean (negb (v =? 0)) t).
Proof. exact flow_pack_asn1_boolean. Qed.
Print Assumptions C07_flow_pack_asn1_boolean.
Theorem C07_flow_pack_asn1_octet_string : forall fuel b t,
  run W fuel k_flow_pack_asn1_octet_string [VB b; vopt_tag t] = lift_b (pack_octet_string b t).
Proof. exact flow_pack_asn1_octet_string. Qed.
Print Assumptions C07_flow_pack_asn1_octet_string.
Theorem C07_flow_pack_asn1_utf8_string : forall fuel s t,
  run W fuel k_flow_pack_asn1_utf8_string [VS s; vopt_tag t] = lift_b (pack_utf8_string s t).
Proof. exact flow_pack_asn1_utf8_string. Qed.
Print Assumptions C07_flow_pack_asn1_utf8_string.
Theorem C07_flow_pack_asn1_generalized_time : forall fuel s t,
  run W fuel k_flow_pack_asn1_generalized_time [VS s; vopt_tag t] = lift_b (pack_generalized_time s t).
Proof. exact flow_pack_asn1_generalized_time. Qed.
Print Assumptions C07_flow_pack_asn1_generalized_time.
Theorem C07_flow_pack_asn1_object_identifier : forall fuel arcs t,
  run W fuel k_flow_pack_asn1_object_identifier [VO (OOid arcs); vopt_tag t] = lift_b (pack_object_identifier arcs t).
Proof. exact flow_pack_asn1_object_identifier. Qed.
Print Assumptions C07_flow_pack_asn1_object_identifier.
Theorem C07_flow_pack_asn1_enumerated : forall fuel v t,
  run W fuel k_flow_pack_asn1_enumerated [VI v; vopt_tag t] = lift_b (pack_enumerated v t).
Proof. exact flow_pack_asn1_enumerated. Qed.
Print Assumptions C07_flow_pack_asn1_enumerated.
(* num >= 0 terminates within bits_fuel num iterations; a negative num never reaches 0 (>> is arithmetic): both sides OutOfFuel *)
Theorem C07_flow_pack_asn1_octet_number : forall fuel num,
  (bits_fuel num < fuel)%nat ->
  run W fuel k_flow_pack_asn1_octet_number [VI num] = lift_b (pack_octet_number num).
Proof. exact flow_pack_asn1_octet_number. Qed.
Print Assumptions C07_flow_pack_asn1_octet_number.
Theorem C07_flow_unpack_asn1_octet_number : forall fuel data,
  (Datatypes.length data < fuel)%nat ->
  run W fuel k_flow_unpack_asn1_octet_number [VB data] =
  (let* (i, idx) := unpack_octet_number data in Ok (VT [VI i; VI idx])).
Proof. exact flow_unpack_asn1_octet_number. Qed.
Print Assumptions C07_flow_unpack_asn1_octet_number.
Theorem C07_flow_pack_asn1 : forall fuel tc (cz : Z) tn data,
  (bits_fuel (len data) < fuel)%nat ->
  run W fuel k_flow_pack_asn1 [VI tc; VI cz; VI tn; VB data] = lift_b (pack_asn1 tc (negb (cz =? 0)) tn data).
Proof. exact flow_pack_asn1. Qed.
Print Assumptions C07_flow_pack_asn1.
Theorem C07_flow_read_asn1_header : forall fuel data,
  run W fuel k_flow_read_asn1_header [VB data] = (let* h := read_asn1_header data in Ok (inj_header h)).
Proof. exact flow_read_asn1_header. Qed.
Print Assumptions C07_flow_read_asn1_header.
Theorem C07_flow_validate_tag : forall fuel data exp ty h hint,
  run W fuel k_flow_validate_tag [VB data; vopt_tag exp; VO (OTag ty); vopt_header h; vopt_str hint] =
  (let* r := validate_tag data exp ty h in Ok (inj_raw r)).
Proof. exact flow_validate_tag. Qed.
Print Assumptions C07_flow_validate_tag.
Theorem C07_flow_read_asn1_octet_string : forall fuel data t h hint,
  run W fuel k_flow_read_asn1_octet_string [VB data; vopt_tag t; vopt_header h; vopt_str hint] =
  (let* r := validate_tag data t (universal_tag c_tag_octet_string false) h in Ok (inj_raw r)).
Proof. exact flow_read_asn1_octet_string. Qed.
Print Assumptions C07_flow_read_asn1_octet_string.
Theorem C07_flow_read_asn1_sequence : forall fuel data t h hint,
  run W fuel k_flow_read_asn1_sequence [VB data; vopt_tag t; vopt_header h; vopt_str hint] =
  (let* r := validate_tag data t (universal_tag c_tag_sequence true) h in Ok (inj_raw r)).
Proof. exact flow_read_asn1_sequence. Qed.
Print Assumptions C07_flow_read_asn1_sequence.
Theorem C07_flow_read_asn1_set : forall fuel data t h hint,
  run W fuel k_flow_read_asn1_set [VB data; vopt_tag t; vopt_header h; vopt_str hint] =
  (let* r := validate_tag data t (universal_tag c_tag_set true) h in Ok (inj_raw r)).
Proof. exact flow_read_asn1_set. Qed.
Print Assumptions C07_flow_read_asn1_set.
Theorem C07_flow_read_asn1_boolean : forall fuel data t h hint,
  run W fuel k_flow_read_asn1_boolean [VB data; vopt_tag t; vopt_header h; vopt_str hint] =
  (let* r := m_read_boolean data t h in Ok (inj_bool r)).
Proof. exact flow_read_asn1_boolean. Qed.
Print Assumptions C07_flow_read_asn1_boolean.
Theorem C07_flow_read_asn1_utf8_string : forall fuel data t h hint,
  run W fuel k_flow_read_asn1_utf8_string [VB data; vopt_tag t; vopt_header h; vopt_str hint] =
  (let* r := m_read_str c_tag_utf8 data t h in Ok (inj_str r)).
Proof. exact flow_read_asn1_utf8_string. Qed.
Print Assumptions C07_flow_read_asn1_utf8_string.
Theorem C07_flow_read_asn1_generalized_time : forall fuel data t h hint,
  run W fuel k_flow_read_asn1_generalized_time [VB data; vopt_tag t; vopt_header h; vopt_str hint] =
  (let* r := m_read_str c_tag_gentime data t h in Ok (inj_str r)).
Proof. exact flow_read_asn1_generalized_time. Qed.
Print Assumptions C07_flow_read_asn1_generalized_time.
Theorem C07_flow_read_asn1_enumerated : forall fuel data t h hint,
  run W fuel k_flow_read_asn1_enumerated [VB data; vopt_tag t; vopt_header h; vopt_str hint] =
  (let* r := m_read_enumerated data t h in Ok (inj_int r)).
Proof. exact flow_read_asn1_enumerated. Qed.
Print Assumptions C07_flow_read_asn1_enumerated.
Theorem C07_flow_read_asn1_integer : forall fuel data t h hint,
  wfb data = true ->
  run W fuel k_flow_read_asn1_integer [VB data; vopt_tag t; vopt_header h; vopt_str hint] =
  (let* r := m_read_integer data t h in Ok (inj_int r)).
Proof. exact flow_read_asn1_integer. Qed.
Print Assumptions C07_flow_read_asn1_integer.
Theorem C07_flow_pack_asn1_integer : forall fuel value t,
  (bits_fuel (Z.abs value) < fuel)%nat ->
  run W fuel k_flow_pack_asn1_integer [VI value; vopt_tag t] = lift_b (pack_integer value t).
Proof. exact flow_pack_asn1_integer. Qed.
Print Assumptions C07_flow_pack_asn1_integer.
Theorem C07_flow_encode_object_identifier : forall fuel arcs,
  Forall (fun c => (bits_fuel c < fuel)%nat) (oid_cmps arcs) ->
  run W fuel k_flow_encode_object_identifier [VO (OOid arcs)] = lift_b (encode_oid arcs).
Proof. exact flow_encode_object_identifier. Qed.
Print Assumptions C07_flow_encode_object_identifier.
(* each arc consumes at least one octet: at most len(data) iterations *)
Theorem C07_flow_read_asn1_object_identifier : forall fuel data t h hint,
  (Datatypes.length data < fuel)%nat ->
  run W fuel k_flow_read_asn1_object_identifier [VB data; vopt_tag t; vopt_header h; vopt_str hint] =
  (let* r := m_read_object_identifier data t h in Ok (inj_oid r)).
Proof. exact flow_read_asn1_object_identifier. Qed.
Print Assumptions C07_flow_read_asn1_object_identifier.
Theorem C07_flow_reader_init : forall fuel data,
  run_mut MW fuel k_flow_reader_init [VO ONewReader; VB data] = Ok (VN, [VO (OReader data); VB data]).
Proof. exact flow_reader_init. Qed.
Print Assumptions C07_flow_reader_init.
Theorem C07_flow_reader_bool : forall fuel view,
  run_mut MW fuel k_flow_reader_bool [VO (OReader view)] = Ok (vb (reader_bool view), [VO (OReader view)]).
Proof. exact flow_reader_bool. Qed.
Print Assumptions C07_flow_reader_bool.
Theorem C07_flow_reader_peek_header : forall fuel view,
  run_mut MW fuel k_flow_reader_peek_header [VO (OReader view)] =
  (let* h := peek_header view in Ok (inj_header h, [VO (OReader view)])).
Proof. exact flow_reader_peek_header. Qed.
Print Assumptions C07_flow_reader_peek_header.
Theorem C07_flow_reader_skip_value : forall fuel view h,
  run_mut MW fuel k_flow_reader_skip_value [VO (OReader view); inj_header h] =
  Ok (VN, [VO (OReader (skip_value view h)); inj_header h]).
Proof. exact flow_reader_skip_value. Qed.
Print Assumptions C07_flow_reader_skip_value.
Theorem C07_flow_reader_get_remaining_data : forall fuel view,
  run_mut MW fuel k_flow_reader_get_remaining_data [VO (OReader view)] =
  Ok (VB (fst (get_remaining_data view)), [VO (OReader (snd (get_remaining_data view)))]).
Proof. exact flow_reader_get_remaining_data. Qed.
Print Assumptions C07_flow_reader_get_remaining_data.
Theorem C07_flow_reader_read_boolean : forall fuel view t h hint,
  run_mut MW fuel k_flow_reader_read_boolean [VO (OReader view); vopt_tag t; vopt_header h; vopt_str hint] =
  (let* (v, rest) := read_boolean view t h in Ok (vb v, [VO (OReader rest); vopt_tag t; vopt_header h; vopt_str hint])).
Proof. exact flow_reader_read_boolean. Qed.
Print Assumptions C07_flow_reader_read_boolean.
Theorem C07_flow_reader_read_integer : forall fuel view t h hint,
  run_mut MW fuel k_flow_reader_read_integer [VO (OReader view); vopt_tag t; vopt_header h; vopt_str hint] =
  (let* (v, rest) := read_integer view t h in Ok (VI v, [VO (OReader rest); vopt_tag t; vopt_header h; vopt_str hint])).
Proof. exact flow_reader_read_integer. Qed.
Print Assumptions C07_flow_reader_read_integer.
(* enum_type: an IntEnum class given by its member values; a non-member raises ValueError (the reader has advanced) *)
Theorem C07_flow_reader_read_enumerated : forall fuel view ms t h hint,
  run_mut MW fuel k_flow_reader_read_enumerated [VO (OReader view); VO (OEnum ms); vopt_tag t; vopt_header h; vopt_str hint] =
  (let* (v, rest) := read_enumerated view t h in
  if existsb (Z.eqb v) ms then Ok (VI v, [VO (OReader rest); VO (OEnum ms); vopt_tag t; vopt_header h; vopt_str hint])
  else Raise ValueError).
Proof. exact flow_reader_read_enumerated. Qed.
Print Assumptions C07_flow_reader_read_enumerated.
Theorem C07_flow_reader_read_object_identifier : forall fuel view t h hint,
  run_mut MW fuel k_flow_reader_read_object_identifier [VO (OReader view); vopt_tag t; vopt_header h; vopt_str hint] =
  (let* (v, rest) := read_object_identifier view t h in
  Ok (VO (OOid v), [VO (OReader rest); vopt_tag t; vopt_header h; vopt_str hint])).
Proof. exact flow_reader_read_object_identifier. Qed.
Print Assumptions C07_flow_reader_read_object_identifier.
Theorem C07_flow_reader_read_utf8_string : forall fuel view t h hint,
  run_mut MW fuel k_flow_reader_read_utf8_string [VO (OReader view); vopt_tag t; vopt_header h; vopt_str hint] =
  (let* (v, rest) := read_utf8_string view t h in Ok (VS v, [VO (OReader rest); vopt_tag t; vopt_header h; vopt_str hint])).
Proof. exact flow_reader_read_utf8_string. Qed.
Print Assumptions C07_flow_reader_read_utf8_string.
Theorem C07_flow_reader_read_generalized_time : forall fuel view t h hint,
  run_mut MW fuel k_flow_reader_read_generalized_time [VO (OReader view); vopt_tag t; vopt_header h; vopt_str hint] =
  (let* (v, rest) := read_generalized_time view t h in Ok (VS v, [VO (OReader rest); vopt_tag t; vopt_header h; vopt_str hint])).
Proof. exact flow_reader_read_generalized_time. Qed.
Print Assumptions C07_flow_reader_read_generalized_time.
Theorem C07_flow_reader_read_octet_string : forall fuel view t h hint,
  run_mut MW fuel k_flow_reader_read_octet_string [VO (OReader view); vopt_tag t; vopt_header h; vopt_str hint] =
  (let* (v, rest) := read_octet_string view t h in Ok (VB v, [VO (OReader rest); vopt_tag t; vopt_header h; vopt_str hint])).
Proof. exact flow_reader_read_octet_string. Qed.
Print Assumptions C07_flow_reader_read_octet_string.
Theorem C07_flow_reader_read_sequence : forall fuel view t h hint,
  run_mut MW fuel k_flow_reader_read_sequence [VO (OReader view); vopt_tag t; vopt_header h; vopt_str hint] =
  (let* (v, rest) := read_sequence view t h in
  Ok (VO (OReader v), [VO (OReader rest); vopt_tag t; vopt_header h; vopt_str hint])).
Proof. exact flow_reader_read_sequence. Qed.
Print Assumptions C07_flow_reader_read_sequence.
Theorem C07_flow_reader_read_set : forall fuel view t h hint,
  run_mut MW fuel k_flow_reader_read_set [VO (OReader view); vopt_tag t; vopt_header h; vopt_str hint] =
  (let* (v, rest) := read_set view t h in
  Ok (VO (OReader v), [VO (OReader rest); vopt_tag t; vopt_header h; vopt_str hint])).
Proof. exact flow_reader_read_set. Qed.
Print Assumptions C07_flow_reader_read_set.
Theorem C07_flow_model_read_boolean : forall view t h,
  read_boolean view t h = (let* (v, c) := m_read_boolean view t h in Ok (v, advance view c)).
Proof. exact flow_model_read_boolean. Qed.
Print Assumptions C07_flow_model_read_boolean.
Theorem C07_flow_model_read_integer : forall view t h,
  read_integer view t h = (let* (v, c) := m_read_integer view t h in Ok (v, advance view c)).
Proof. exact flow_model_read_integer. Qed.
Print Assumptions C07_flow_model_read_integer.
Theorem C07_flow_model_read_enumerated : forall view t h,
  read_enumerated view t h = (let* (v, c) := m_read_enumerated view t h in Ok (v, advance view c)).
Proof. exact flow_model_read_enumerated. Qed.
Print Assumptions C07_flow_model_read_enumerated.
Theorem C07_flow_model_read_object_identifier : forall view t h,
  read_object_identifier view t h = (let* (v, c) := m_read_object_identifier view t h in Ok (v, advance view c)).
Proof. exact flow_model_read_object_identifier. Qed.
Print Assumptions C07_flow_model_read_object_identifier.
Theorem C07_flow_model_read_utf8_string : forall view t h,
  read_utf8_string view t h = (let* (v, c) := m_read_str c_tag_utf8 view t h in Ok (v, advance view c)).
Proof. exact flow_model_read_utf8_string. Qed.
Print Assumptions C07_flow_model_read_utf8_string.
Theorem C07_flow_model_read_generalized_time : forall view t h,
  read_generalized_time view t h = (let* (v, c) := m_read_str c_tag_gentime view t h in Ok (v, advance view c)).
Proof. exact flow_model_read_generalized_time. Qed.
Print Assumptions C07_flow_model_read_generalized_time.
(* __init__ on a fresh object (object.__new__(ASN1Writer)) *)
Theorem C07_flow_writer_init : forall fuel t p,
  run_mut MW fuel k_flow_writer_init [VO ONewWriter; vopt_tag t; vopt_writer p] =
  Ok (VN, [VO (OWriter (Writer [] t p)); vopt_tag t; vopt_writer p]).
Proof. exact flow_writer_init. Qed.
Print Assumptions C07_flow_writer_init.
Theorem C07_flow_writer_enter : forall fuel w,
  run_mut MW fuel k_flow_writer_enter [VO (OWriter w)] = Ok (VO (OWriter w), [VO (OWriter w)]).
Proof. exact flow_writer_enter. Qed.
Print Assumptions C07_flow_writer_enter.
(* __exit__: nothing for a root writer; a child appends its TLV to (its snapshot of) the parent: writer_exit *)
Theorem C07_flow_writer_exit : forall fuel w a b c,
  run_mut MW fuel k_flow_writer_exit [VO (OWriter w); a; b; c] =
  match wr_parent w with
  | Some p => let* p' := writer_exit w p in
  Ok (VN, [VO (OWriter (Writer (wr_data w) (wr_tag w) (Some p'))); a; b; c])
  | None => Ok (VN, [VO (OWriter w); a; b; c])
  end.
Proof. exact flow_writer_exit. Qed.
Print Assumptions C07_flow_writer_exit.
Theorem C07_flow_writer_push_sequence : forall fuel w t,
  run_mut MW fuel k_flow_writer_push_sequence [VO (OWriter w); vopt_tag t] =
  Ok (VO (OWriter (writer_push (opt_tag t seq_tag) w)), [VO (OWriter w); VO (OTag (opt_tag t seq_tag))]).
Proof. exact flow_writer_push_sequence. Qed.
Print Assumptions C07_flow_writer_push_sequence.
Theorem C07_flow_writer_push_set : forall fuel w t,
  run_mut MW fuel k_flow_writer_push_set [VO (OWriter w); vopt_tag t] =
  Ok (VO (OWriter (writer_push (opt_tag t set_tag) w)), [VO (OWriter w); VO (OTag (opt_tag t set_tag))]).
Proof. exact flow_writer_push_set. Qed.
Print Assumptions C07_flow_writer_push_set.
Theorem C07_flow_writer_write_raw : forall fuel w b,
  run_mut MW fuel k_flow_writer_write_raw [VO (OWriter w); VB b] = Ok (VN, [VO (OWriter (wr_extend w b)); VB b]).
Proof. exact flow_writer_write_raw. Qed.
Print Assumptions C07_flow_writer_write_raw.
Theorem C07_flow_writer_get_data : forall fuel w,
  run_mut MW fuel k_flow_writer_get_data [VO (OWriter w)] = (let* d := writer_get_data w in Ok (VB d, [VO (OWriter w)])).
Proof. exact flow_writer_get_data. Qed.
Print Assumptions C07_flow_writer_get_data.
Theorem C07_flow_writer_write_boolean : forall fuel w v t,
  run_mut MW fuel k_flow_writer_write_boolean [VO (OWriter w); VI v; vopt_tag t] =
  (let* w' := writer_write (pack_boolean (negb (v =? 0)) t) w in Ok (VN, [VO (OWriter w'); VI v; vopt_tag t])).
Proof. exact flow_writer_write_boolean. Qed.
Print Assumptions C07_flow_writer_write_boolean.
Theorem C07_flow_writer_write_integer : forall fuel w v t,
  run_mut MW fuel k_flow_writer_write_integer [VO (OWriter w); VI v; vopt_tag t] =
  (let* w' := writer_write (pack_integer v t) w in Ok (VN, [VO (OWriter w'); VI v; vopt_tag t])).
Proof. exact flow_writer_write_integer. Qed.
Print Assumptions C07_flow_writer_write_integer.
Theorem C07_flow_writer_write_enumerated : forall fuel w v t,
  run_mut MW fuel k_flow_writer_write_enumerated [VO (OWriter w); VI v; vopt_tag t] =
  (let* w' := writer_write (pack_enumerated v t) w in Ok (VN, [VO (OWriter w'); VI v; vopt_tag t])).
Proof. exact flow_writer_write_enumerated. Qed.
Print Assumptions C07_flow_writer_write_enumerated.
Theorem C07_flow_writer_write_octet_string : forall fuel w b t,
  run_mut MW fuel k_flow_writer_write_octet_string [VO (OWriter w); VB b; vopt_tag t] =
  (let* w' := writer_write (pack_octet_string b t) w in Ok (VN, [VO (OWriter w'); VB b; vopt_tag t])).
Proof. exact flow_writer_write_octet_string. Qed.
Print Assumptions C07_flow_writer_write_octet_string.
Theorem C07_flow_writer_write_object_identifier : forall fuel w arcs t,
  run_mut MW fuel k_flow_writer_write_object_identifier [VO (OWriter w); VO (OOid arcs); vopt_tag t] =
  (let* w' := writer_write (pack_object_identifier arcs t) w in Ok (VN, [VO (OWriter w'); VO (OOid arcs); vopt_tag t])).
Proof. exact flow_writer_write_object_identifier. Qed.
Print Assumptions C07_flow_writer_write_object_identifier.
Theorem C07_flow_writer_write_utf8_string : forall fuel w s t,
  run_mut MW fuel k_flow_writer_write_utf8_string [VO (OWriter w); VS s; vopt_tag t] =
  (let* w' := writer_write (pack_utf8_string s t) w in Ok (VN, [VO (OWriter w'); VS s; vopt_tag t])).
Proof. exact flow_writer_write_utf8_string. Qed.
Print Assumptions C07_flow_writer_write_utf8_string.
Theorem C07_flow_writer_write_generalized_time : forall fuel w s t,
  run_mut MW fuel k_flow_writer_write_generalized_time [VO (OWriter w); VS s; vopt_tag t] =
  (let* w' := writer_write (pack_generalized_time s t) w in Ok (VN, [VO (OWriter w'); VS s; vopt_tag t])).
Proof. exact flow_writer_write_generalized_time. Qed.
Print Assumptions C07_flow_writer_write_generalized_time.
Theorem C07_asn1_exit_is_exit : forall child owner,
  asn1_exit (VO (OWriter child)) (Some (VO (OWriter owner))) =
  (let* o' := writer_exit child owner in Ok (Some (VO (OWriter o')))).
Proof. exact asn1_exit_is_exit. Qed.
Print Assumptions C07_asn1_exit_is_exit.

