(* C07 -- ASN.1 DER primitives. Statements only (filled in as the proofs land). *)
From V Require Import Prelude.Base Model.Asn1.

Theorem C07_example_int_m65536 : pack_int_content (-65536) = Ok [255; 0; 0] /\ read_int_content [255; 0; 0] = Ok (-65536).
Proof. split; reflexivity. Qed.
Print Assumptions C07_example_int_m65536.
