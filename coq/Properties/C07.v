(* C07 -- ASN.1 DER primitives: minimal encoding, exact decoding, exact consumption. Statements only.
   Model: Model/Asn1.v (function-for-function after _asn1.py, kernels k_* / constants c_* regenerated
   from the source). Spec: Spec/DerSpec.v (X.690 relations der_ident, der_len, der_int, der_oid and the
   strict reader strict_parse). P n = 256^n. tag_wf t: class in 0..3, number >= 0. tag_readable t: a
   universal tag has one of the numbers of TypeTagNumber (0..36), the only ones the reader admits.
   Content lengths are below 256^126 (X.690 8.1.3.5: at most 126 length octets). *)
From V Require Import Prelude.Base Prelude.PyInt Prelude.PySlice Prelude.PyStr gen.K_asn1 gen.C_asn1 Model.Asn1 Spec.DerSpec.
From V Require Import Proofs.Asn1Lib Proofs.Asn1Hdr Proofs.Asn1Tlv Proofs.Asn1Int Proofs.Asn1Oid Proofs.Asn1Str Proofs.Asn1Tree Proofs.DerFacts Proofs.C07.

(* ---- identifier and length octets: every class, every number below and above 30, both forms of length *)
Theorem C07_header_roundtrip : forall t c rest, tag_wf t -> tag_readable t -> len c < P 126 ->
  exists ib lb, pack_tlv t c = Ok (ib ++ lb ++ c) /\ der_ident t ib /\ der_len (len c) lb /\
    read_asn1_header (ib ++ lb ++ c ++ rest) = Ok (mk_header t (len ib + len lb) (len c)).
Proof. exact header_roundtrip. Qed.
Print Assumptions C07_header_roundtrip.

(* the header reader accepts every DER header, not only the writer's *)
Theorem C07_header_reads_der : forall t ib n lb rest, der_ident t ib -> der_len n lb -> tag_readable t ->
  read_asn1_header (ib ++ lb ++ rest) = Ok (mk_header t (len ib + len lb) n).
Proof. exact read_header_der. Qed.
Print Assumptions C07_header_reads_der.

(* minimal = unique *)
Theorem C07_len_unique : forall n b1 b2, der_len n b1 -> der_len n b2 -> b1 = b2.
Proof. exact der_len_unique. Qed.
Print Assumptions C07_len_unique.
Theorem C07_ident_unique : forall t b1 b2, der_ident t b1 -> der_ident t b2 -> b1 = b2.
Proof. exact der_ident_unique. Qed.
Print Assumptions C07_ident_unique.
Theorem C07_int_unique : forall z b1 b2, der_int z b1 -> der_int z b2 -> b1 = b2.
Proof. exact der_int_unique. Qed.
Print Assumptions C07_int_unique.
Theorem C07_oid_unique : forall arcs b1 b2, der_oid arcs b1 -> der_oid arcs b2 -> b1 = b2.
Proof. exact der_oid_unique. Qed.
Print Assumptions C07_oid_unique.

(* ---- INTEGER: for ALL z the writer's content octets are the minimal two's-complement encoding *)
Theorem C07_int_encode : forall z : Z, exists bs, pack_int_content z = Ok bs /\ der_int z bs.
Proof. exact pack_int_content_der. Qed.
Print Assumptions C07_int_encode.
(* the reader computes the two's-complement value of any non-empty content (D1: including FF 00 00) *)
Theorem C07_int_decode : forall raw, wfb raw = true -> raw <> [] -> read_int_content raw = Ok (tc_val raw).
Proof. exact read_int_content_tc. Qed.
Print Assumptions C07_int_decode.
Theorem C07_int_roundtrip : forall z c t rest, pack_int_content z = Ok c -> len c < P 126 ->
  match t with Some x => tag_ok x | None => True end ->
  exists bs, pack_integer z t = Ok bs /\ read_integer (bs ++ rest) t None = Ok (z, rest).
Proof. exact read_integer_pack_tag. Qed.
Print Assumptions C07_int_roundtrip.
Theorem C07_enumerated_roundtrip : forall z c rest, pack_int_content z = Ok c -> len c < P 126 ->
  exists bs, pack_enumerated z None = Ok bs /\ read_enumerated (bs ++ rest) None None = Ok (z, rest).
Proof. exact read_enumerated_pack. Qed.
Print Assumptions C07_enumerated_roundtrip.
(* D2: no content octets is a deliberate ValueError *)
Theorem C07_empty_content_refused : read_int_content [] = Raise ValueError /\ read_oid_content [] = Raise ValueError.
Proof. exact empty_content_refused. Qed.
Print Assumptions C07_empty_content_refused.

(* ---- OBJECT IDENTIFIER: everything the writer accepts with first arc <= 2; arcs of any size *)
Theorem C07_oid_encode : forall a b rest, 0 <= a <= 2 -> 0 <= b <= 39 -> Forall (fun x => 0 <= x) rest ->
  exists bs, encode_oid (a :: b :: rest) = Ok bs /\ der_oid (a :: b :: rest) bs.
Proof. exact encode_oid_der. Qed.
Print Assumptions C07_oid_encode.
Theorem C07_oid_roundtrip : forall a b rest c suffix, 0 <= a <= 2 -> 0 <= b <= 39 -> Forall (fun x => 0 <= x) rest ->
  encode_oid (a :: b :: rest) = Ok c -> len c < P 126 ->
  exists bs, pack_object_identifier (a :: b :: rest) None = Ok bs /\
    read_object_identifier (bs ++ suffix) None None = Ok (a :: b :: rest, suffix).
Proof. exact read_oid_pack. Qed.
Print Assumptions C07_oid_roundtrip.
(* domain limit of the code, stated: a second arc above 39 (legal under arc 2) is refused, not mis-encoded *)
Theorem C07_oid_refused : forall a b rest, 39 < b \/ 39 < a -> encode_oid (a :: b :: rest) = Raise ValueError.
Proof. exact encode_oid_refuses. Qed.
Print Assumptions C07_oid_refused.

(* ---- booleans and strings *)
Theorem C07_boolean_roundtrip : forall v rest,
  exists bs, pack_boolean v None = Ok bs /\ read_boolean (bs ++ rest) None None = Ok (v, rest) /\ bs = [1; 1; if v then 255 else 0].
Proof. exact read_boolean_pack. Qed.
Print Assumptions C07_boolean_roundtrip.
Theorem C07_octet_string_roundtrip : forall b t rest, match t with Some x => tag_ok x | None => True end -> len b < P 126 ->
  exists bs, pack_octet_string b t = Ok bs /\ read_octet_string (bs ++ rest) t None = Ok (b, rest).
Proof. exact read_octet_string_pack. Qed.
Print Assumptions C07_octet_string_roundtrip.
Theorem C07_utf8_roundtrip : forall s c rest, utf8_encode s = Ok c -> len c < P 126 ->
  exists bs, pack_utf8_string s None = Ok bs /\ read_utf8_string (bs ++ rest) None None = Ok (s, rest).
Proof. exact read_utf8_pack. Qed.
Print Assumptions C07_utf8_roundtrip.
Theorem C07_time_roundtrip : forall s c rest, utf8_encode s = Ok c -> len c < P 126 ->
  exists bs, pack_generalized_time s None = Ok bs /\ read_generalized_time (bs ++ rest) None None = Ok (s, rest).
Proof. exact read_gentime_pack. Qed.
Print Assumptions C07_time_roundtrip.
Theorem C07_sequence_roundtrip : forall body t rest, match t with Some x => tag_ok x | None => True end -> len body < P 126 ->
  exists bs, pack_tlv (opt_tag t seq_tag) body = Ok bs /\ read_sequence (bs ++ rest) t None = Ok (body, rest).
Proof. exact read_sequence_pack. Qed.
Print Assumptions C07_sequence_roundtrip.
Theorem C07_set_roundtrip : forall body t rest, match t with Some x => tag_ok x | None => True end -> len body < P 126 ->
  exists bs, pack_tlv (opt_tag t set_tag) body = Ok bs /\ read_set (bs ++ rest) t None = Ok (body, rest).
Proof. exact read_set_pack. Qed.
Print Assumptions C07_set_roundtrip.

(* ---- exact consumption: the value octets, the consumed count, and the view after the read *)
Theorem C07_exact_consumption : forall ty t c rest exp, tag_wf t -> tag_readable t -> len c < P 126 -> expected_of exp ty = t ->
  exists bs, pack_tlv t c = Ok bs /\ validate_tag (bs ++ rest) exp ty None = Ok (c, len bs) /\
             read_raw ty (bs ++ rest) exp None = Ok (c, rest).
Proof. exact exact_consumption. Qed.
Print Assumptions C07_exact_consumption.
Theorem C07_wrong_tag_refused : forall ty t c rest exp, tag_wf t -> tag_readable t -> len c < P 126 -> expected_of exp ty <> t ->
  exists bs, pack_tlv t c = Ok bs /\ validate_tag (bs ++ rest) exp ty None = Raise ValueError.
Proof. exact wrong_tag_refused. Qed.
Print Assumptions C07_wrong_tag_refused.

(* ---- nesting and concatenation: any depth, sequences and sets, any tags *)
Theorem C07_nested : forall t, wf_tree t -> exists bs, encode t = Ok bs /\ strict_parse bs = Some [t].
Proof. exact nested. Qed.
Print Assumptions C07_nested.
Theorem C07_concat : forall ts, wf_trees ts -> exists bs, encode_list ts = Ok bs /\ strict_parse bs = Some ts.
Proof. exact concat_parse. Qed.
Print Assumptions C07_concat.
(* the code's own reader on a concatenation: each content in order, nothing left but the suffix *)
Theorem C07_concat_reader : forall ts, wf_trees ts -> readable_roots ts -> forall rest,
  exists bs cs, encode_list ts = Ok bs /\ map_res content_of ts = Ok cs /\ read_each ts (bs ++ rest) = Ok (cs, rest).
Proof. exact concat_read. Qed.
Print Assumptions C07_concat_reader.

(* any tree of admissible tags whose encoding succeeds below 256^126 octets is well-formed, hence read back *)
Theorem C07_nested_from_encode : forall x bs, shape_ok x -> encode x = Ok bs -> len bs < P 126 ->
  wf_tree x /\ strict_parse bs = Some [x].
Proof. exact nested_from_encode. Qed.
Print Assumptions C07_nested_from_encode.

(* ---- the hypotheses are satisfiable; boundary examples *)
Example C07_ex_tree : wf_tree ex_tree /\ exists bs, encode ex_tree = Ok bs /\ len bs = 145.
Proof. split; [exact ex_tree_wf|]. eexists. split; [vm_compute; reflexivity|reflexivity]. Qed.
Example C07_ex_m65536 : pack_integer (-65536) None = Ok [2; 3; 255; 0; 0] /\ read_integer [2; 3; 255; 0; 0; 9] None None = Ok (-65536, [9]).
Proof. split; reflexivity. Qed.
Example C07_ex_lengths :
  map (fun n => match pack_octet_string (repeat 0 n) None with Ok b => firstn 5 b | Raise _ => [] end) [127; 128; 255; 256; 65535; 65536]%nat
  = [[4; 127; 0; 0; 0]; [4; 129; 128; 0; 0]; [4; 129; 255; 0; 0]; [4; 130; 1; 0; 0]; [4; 130; 255; 255; 0]; [4; 131; 1; 0; 0]].
Proof. vm_compute. reflexivity. Qed.
Example C07_ex_tags :
  map (fun n => pack_tlv (mk_tag 1 n true) []) [30; 31; 127; 128; 16384]
  = [Ok [126; 0]; Ok [127; 31; 0]; Ok [127; 127; 0]; Ok [127; 129; 0; 0]; Ok [127; 129; 128; 0; 0]].
Proof. vm_compute. reflexivity. Qed.
Example C07_ex_tag_hyp : tag_wf (mk_tag 2 16384 true) /\ tag_readable (mk_tag 2 16384 true) /\ len (repeat 0 65536) < P 126.
Proof. split; [split; cbn; lia|]. split; [intros H; discriminate H|]. apply small_lt_P126. vm_compute. reflexivity. Qed.
Example C07_ex_oid : encode_oid [1; 2; 840; 113549; 1; 7; 3] = Ok [42; 134; 72; 134; 247; 13; 1; 7; 3].
Proof. vm_compute. reflexivity. Qed.
