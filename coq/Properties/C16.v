(* C16 -- Key material is accepted only from replies sealed by the security context.
   Statements only; the security context's unwrap is an arbitrary function (the theorems hold
   for every context). Guards, offsets and slice shapes are regenerated from _rpc/_client.py. *)
From V Require Import Prelude.Base Prelude.PyInt Prelude.PySlice gen.K_client gen.C_client gen.C_rpc.
From V Require Import Model.Pdu Model.Request Model.Seal Proofs.C16.

Theorem C16_guards :
  (forall a o n, k_unwrap_guard a o n = true <-> a = true /\ o = true /\ n <> 0) /\
  (forall f a, k_sec_trailer_offset f a = f - (a + 8)) /\ k_unwrap_trailer_len = 8.
Proof. exact guards_meaning. Qed.
Print Assumptions C16_guards.

(* on an authenticated sealed call a reply without security trailer is refused *)
Theorem C16_rejects_unsealed : forall a o n, k_reject_unsealed a o n = true <-> a = true /\ o = true /\ n = 0.
Proof. exact reject_meaning. Qed.
Print Assumptions C16_rejects_unsealed.

(* the Response handed to the caller was decoded from the reply with the plaintext the security context
   returned written over the sealed region; without a successful unwrap nothing is accepted *)
Theorem C16_sealed_only : forall (unwrap : unwrap_fn) o0 o1 sign hdr resp r,
  process_response unwrap true (Some (o0, o1)) sign hdr resp = Ok r ->
  h_auth_len hdr <> 0 /\
  let a := unwrap_slices hdr o0 sign resp in
  exists dec, unwrap (ua_header a) (ua_body a) (ua_trailer a) (ua_signature a) sign = Ok dec /\
    exists body h st,
      pdu_split (assign_slice resp o0 (h_frag_len hdr - (h_auth_len hdr + 8)) dec) = Ok (body, h, st) /\
      h_packet_type h = c_PT_RESPONSE /\ response_unpack body h st = Ok r.
Proof. exact sealed_only. Qed.
Print Assumptions C16_sealed_only.

Theorem C16_no_trailer_rejected : forall (unwrap : unwrap_fn) o0 o1 sign hdr resp,
  h_auth_len hdr = 0 -> exists e, process_response unwrap true (Some (o0, o1)) sign hdr resp = Raise e.
Proof. exact no_trailer_rejected. Qed.
Print Assumptions C16_no_trailer_rejected.

(* whatever the context refuses (altered ciphertext, signature, and -- under header signing -- header or trailer) is refused *)
Theorem C16_unwrap_failure_rejected : forall (unwrap : unwrap_fn) o0 o1 sign hdr resp e,
  h_auth_len hdr <> 0 ->
  (let a := unwrap_slices hdr o0 sign resp in
   unwrap (ua_header a) (ua_body a) (ua_trailer a) (ua_signature a) sign = Raise e) ->
  process_response unwrap true (Some (o0, o1)) sign hdr resp = Raise e.
Proof. exact unwrap_failure_rejected. Qed.
Print Assumptions C16_unwrap_failure_rejected.

(* the regions given to the context: header, sealed body, trailer header, signature, and the negotiated sign flag *)
Theorem C16_unwrap_regions : forall hdr o0 sign resp,
  let a := unwrap_slices hdr o0 sign resp in
  let off := h_frag_len hdr - (h_auth_len hdr + 8) in
  ua_header a = slice None (Some o0) resp /\ ua_body a = slice (Some o0) (Some off) resp /\
  ua_trailer a = slice (Some off) (Some (off + 8)) resp /\ ua_signature a = slice (Some (off + 8)) None resp /\ ua_sign a = sign.
Proof. exact unwrap_regions. Qed.
Print Assumptions C16_unwrap_regions.

(* ---- flows: the functions of the source themselves, regenerated as syntax on every run (gen/F_client.v) and run in the world
   Flow/World_client.v (dataclasses := the records of Model/Pdu.v ..; PDU.unpack := RpcDispatch.pdu_unpack; a PDU class := its packet type;
   the security context := an arbitrary unwrap function), ARE the model functions the theorems above are about. ---- *)
From V Require Import Prelude.PyAst Prelude.PyWorld gen.F_client Model.RpcDispatch Model.Conversation Flow.World_client Proofs.Flow_client_seal.

Theorem C16_flow_auth_unwrap : forall wrap (unwrap : unwrap_fn) sch fuel ap h b t sg (sign : bool),
  run (WC wrap unwrap sch) fuel k_flow_auth_unwrap [VO (OAuthP ap); VB h; VB b; VB t; VB sg; vb sign]
  = (let* d := unwrap h b t sg sign in Ok (VB d)).
Proof. exact flow_auth_unwrap. Qed.
Print Assumptions C16_flow_auth_unwrap.

(* _process_response(self, response, pdu_header, Response, encrypt_offsets) IS Seal.process_response, the function of C16_sealed_only,
   for every client, reply, header and offsets (Model/Seal.v decodes every registered PDU type before the class checks, as the source does) *)
Theorem C16_flow_process_response : forall wrap (unwrap : unwrap_fn) sch fuel c resp hdr offs,
  run (WC wrap unwrap sch) fuel k_flow_process_response [VO (OSelf c); VB resp; VO (OHdr hdr); VI c_PT_RESPONSE; offv offs]
  = (let* r := process_response unwrap (is_some (cl_auth c)) offs (cl_sign c) hdr resp in Ok (VO (OPdu (PResponse r)))).
Proof. exact flow_process_response. Qed.
Print Assumptions C16_flow_process_response.

(* a concrete accepted reply (28 octets, stub 01 02 03 04) on an anonymous connection *)
Example C16_flow_process_response_example : forall (unwrap : unwrap_fn) sign hdr,
  exists r, process_response unwrap false None sign hdr
              [5; 0; 2; 3; 16; 0; 0; 0; 28; 0; 0; 0; 1; 0; 0; 0; 4; 0; 0; 0; 0; 0; 0; 0; 1; 2; 3; 4] = Ok r /\ rs_stub_data r = [1; 2; 3; 4].
Proof. intros. eexists. split; [vm_compute; reflexivity|reflexivity]. Qed.

(* ... for EVERY resp_type (a PDU class := its packet type): Seal.process_pdu_as, the same checks in the same order; this is what
   _send_pdu hands back during bind() as well (resp_type = BindAck / AlterContextResponse: C15_send_pdu_classification) *)
Theorem C16_flow_process_response_as : forall wrap (unwrap : unwrap_fn) sch fuel c resp hdr k offs,
  run (WC wrap unwrap sch) fuel k_flow_process_response [VO (OSelf c); VB resp; VO (OHdr hdr); VI k; offv offs]
  = (let* q := process_pdu_as k unwrap (is_some (cl_auth c)) offs (cl_sign c) hdr resp in Ok (VO (OPdu q))).
Proof. exact flow_process_response_as. Qed.
Print Assumptions C16_flow_process_response_as.
Theorem C16_process_response_is_as : forall (unwrap : unwrap_fn) auth offs sign hdr resp,
  process_response unwrap auth offs sign hdr resp
  = (let* q := process_pdu_as c_PT_RESPONSE unwrap auth offs sign hdr resp in
     match q with PResponse r => Ok r | _ => Raise ValueError end).
Proof. exact process_response_is_as. Qed.
Print Assumptions C16_process_response_is_as.

(* =====================================================================================================
   The headline clause: THE STUB RETURNED TO THE CALLER IS THE PLAINTEXT THE SECURITY CONTEXT UNSEALED.
   Shape of the real call (Conversation.receive_response / _send_pdu): hdr is the header decoded from the reply itself, the reply has the
   frag_len octets the client read, the stub offset is the client's 24 (a RESPONSE without object UUID), and the context's unwrap keeps the
   body length on success (hypothesis on the abstract unwrap; met by the toy context: C16_toy_context).  Then rs_stub_data r is exactly
   the octets unwrap returned for (24-octet header, region up to the security trailer, trailer header, signature).  (The declared auth
   padding is then stripped by _process_get_key_result: C13_reply_strip on this value.)
   Side condition: the declared lengths leave room for the 24 header octets in front of the security trailer (24 <= frag_len - auth_len - 8);
   the degenerate accepted reply with 23 (an empty stub) is not covered: PARTIAL.
   ===================================================================================================== *)
From V Require Import Model.Toy Proofs.C16Stub.
Theorem C16_stub_is_unsealed_plaintext : forall (unwrap : unwrap_fn) o1 sign hdr resp r,
  (forall h b t sg s d, unwrap h b t sg s = Ok d -> len d = len b) ->
  wfb resp = true ->
  pdu_header_unpack resp = Ok hdr ->
  h_frag_len hdr = len resp ->
  24 <= h_frag_len hdr - (h_auth_len hdr + 8) ->
  process_response unwrap true (Some (24, o1)) sign hdr resp = Ok r ->
  let a := unwrap_slices hdr 24 sign resp in
  exists dec, unwrap (ua_header a) (ua_body a) (ua_trailer a) (ua_signature a) sign = Ok dec /\ rs_stub_data r = dec.
Proof. exact stub_is_unsealed_plaintext. Qed.
Print Assumptions C16_stub_is_unsealed_plaintext.

(* IDEAL context (DESIGN: "any alteration of body / signature, and of header / trailer under signing, is rejected"): when unwrap succeeds
   only on what the peer's context produced for this sequence number (ideal_unwrap sealed_by unwrap; sealed_by h d t s b sg = "the peer's
   wrap turned plaintext d, with header h and trailer t covered iff s, into sealed body b and signature sg"), a reply whose
   (header, body, trailer, signature) is NOT such an output for any plaintext is rejected *)
Theorem C16_altered_rejected_ideal : forall (sealed_by : sealed_rel) (unwrap : unwrap_fn) o0 o1 sign hdr resp,
  ideal_unwrap sealed_by unwrap ->
  (let a := unwrap_slices hdr o0 sign resp in
   forall d, ~ sealed_by (ua_header a) d (ua_trailer a) sign (ua_body a) (ua_signature a)) ->
  exists e, process_response unwrap true (Some (o0, o1)) sign hdr resp = Raise e.
Proof. exact altered_rejected_ideal. Qed.
Print Assumptions C16_altered_rejected_ideal.

(* both hypotheses are met by the toy context of the correspondence checks, for every sequence number *)
Example C16_toy_context : forall seq,
  (forall h b t sg s d, toy_unwrap seq h b t sg s = Ok d -> len d = len b) /\
  ideal_unwrap (fun h d t s b sg => toy_wrap seq (len sg) h d t s = (b, sg)) (toy_unwrap seq).
Proof. intro seq. split; [exact (toy_unwrap_keeps_length seq)|exact (toy_unwrap_ideal seq)]. Qed.

(* a sealed reply under the toy context (sequence number 3, header signing on): 24 header octets, 16 sealed stub octets, trailer, 16-octet
   signature; all hypotheses of C16_stub_is_unsealed_plaintext hold and the caller gets the 16 plaintext octets; flipping one bit of the
   sealed body makes it a reply the context did not produce, and it is refused *)
Definition ex16_plain : bytes := [1; 2; 3; 4; 5; 6; 7; 8; 9; 10; 11; 12; 13; 14; 15; 16].
Definition ex16_hdr24 : bytes := [5; 0; 2; 3; 16; 0; 0; 0; 64; 0; 16; 0; 1; 0; 0; 0; 16; 0; 0; 0; 0; 0; 0; 0].
Definition ex16_trailer : bytes := [10; 6; 0; 0; 0; 0; 0; 0].
Definition ex16_reply : bytes :=
  ex16_hdr24 ++ fst (toy_wrap 3 16 ex16_hdr24 ex16_plain ex16_trailer true) ++ ex16_trailer
  ++ snd (toy_wrap 3 16 ex16_hdr24 ex16_plain ex16_trailer true).
Example C16_stub_example :
  exists hdr r, pdu_header_unpack ex16_reply = Ok hdr /\ wfb ex16_reply = true /\ h_frag_len hdr = len ex16_reply /\
    24 <= h_frag_len hdr - (h_auth_len hdr + 8) /\
    process_response (toy_unwrap 3) true (Some (24, 40)) true hdr ex16_reply = Ok r /\ rs_stub_data r = ex16_plain /\
    (exists e, process_response (toy_unwrap 3) true (Some (24, 40)) true hdr
                 (ex16_hdr24 ++ [Z.lxor 1 (nth 0 (fst (toy_wrap 3 16 ex16_hdr24 ex16_plain ex16_trailer true)) 0)]
                  ++ tl (fst (toy_wrap 3 16 ex16_hdr24 ex16_plain ex16_trailer true)) ++ ex16_trailer
                  ++ snd (toy_wrap 3 16 ex16_hdr24 ex16_plain ex16_trailer true)) = Raise e).
Proof.
  eexists. eexists. split; [vm_compute; reflexivity|]. split; [vm_compute; reflexivity|]. split; [vm_compute; reflexivity|].
  split; [vm_compute; discriminate|]. split; [vm_compute; reflexivity|]. split; [reflexivity|].
  eexists. vm_compute. reflexivity.
Qed.
