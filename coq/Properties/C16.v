(* C16 -- Key material is accepted only from replies sealed by the security context.
   Statements only; the security context's unwrap is an arbitrary function (the theorems hold
   for every context). Guards, offsets and slice shapes are regenerated from _rpc/_client.py. *)
From V Require Import Prelude.Base Prelude.PyInt Prelude.PySlice gen.K_client gen.C_client gen.C_rpc.
From V Require Import Model.Pdu Model.Request Model.Seal Proofs.C16.

Theorem C16_guards :
  (forall a o n, k_unwrap_guard a o n = true <-> a = true /\ o = true /\ n <> 0) /\
  (forall f a, k_sec_trailer_offset f a = f - (a + 8)) /\ k_unwrap_trailer_len = 8.
Proof. exact guards_meaning. Qed.
Print Assumptions C16_guards.

(* on an authenticated sealed call a reply without security trailer is refused *)
Theorem C16_rejects_unsealed : forall a o n, k_reject_unsealed a o n = true <-> a = true /\ o = true /\ n = 0.
Proof. exact reject_meaning. Qed.
Print Assumptions C16_rejects_unsealed.

(* the Response handed to the caller was decoded from the reply with the plaintext the security context
   returned written over the sealed region; without a successful unwrap nothing is accepted *)
Theorem C16_sealed_only : forall (unwrap : unwrap_fn) o0 o1 sign hdr resp r,
  process_response unwrap true (Some (o0, o1)) sign hdr resp = Ok r ->
  h_auth_len hdr <> 0 /\
  let a := unwrap_slices hdr o0 sign resp in
  exists dec, unwrap (ua_header a) (ua_body a) (ua_trailer a) (ua_signature a) sign = Ok dec /\
    exists body h st,
      pdu_split (assign_slice resp o0 (h_frag_len hdr - (h_auth_len hdr + 8)) dec) = Ok (body, h, st) /\
      h_packet_type h = c_PT_RESPONSE /\ response_unpack body h st = Ok r.
Proof. exact sealed_only. Qed.
Print Assumptions C16_sealed_only.

Theorem C16_no_trailer_rejected : forall (unwrap : unwrap_fn) o0 o1 sign hdr resp,
  h_auth_len hdr = 0 -> exists e, process_response unwrap true (Some (o0, o1)) sign hdr resp = Raise e.
Proof. exact no_trailer_rejected. Qed.
Print Assumptions C16_no_trailer_rejected.

(* whatever the context refuses (altered ciphertext, signature, and -- under header signing -- header or trailer) is refused *)
Theorem C16_unwrap_failure_rejected : forall (unwrap : unwrap_fn) o0 o1 sign hdr resp e,
  h_auth_len hdr <> 0 ->
  (let a := unwrap_slices hdr o0 sign resp in
   unwrap (ua_header a) (ua_body a) (ua_trailer a) (ua_signature a) sign = Raise e) ->
  process_response unwrap true (Some (o0, o1)) sign hdr resp = Raise e.
Proof. exact unwrap_failure_rejected. Qed.
Print Assumptions C16_unwrap_failure_rejected.

(* the regions given to the context: header, sealed body, trailer header, signature, and the negotiated sign flag *)
Theorem C16_unwrap_regions : forall hdr o0 sign resp,
  let a := unwrap_slices hdr o0 sign resp in
  let off := h_frag_len hdr - (h_auth_len hdr + 8) in
  ua_header a = slice None (Some o0) resp /\ ua_body a = slice (Some o0) (Some off) resp /\
  ua_trailer a = slice (Some off) (Some (off + 8)) resp /\ ua_signature a = slice (Some (off + 8)) None resp /\ ua_sign a = sign.
Proof. exact unwrap_regions. Qed.
Print Assumptions C16_unwrap_regions.

(* ---- flows: the functions of the source themselves, regenerated as syntax on every run (gen/F_client.v) and run in the world
   Flow/World_client.v (dataclasses := the records of Model/Pdu.v ..; PDU.unpack := RpcDispatch.pdu_unpack; a PDU class := its packet type;
   the security context := an arbitrary unwrap function), ARE the model functions the theorems above are about. ---- *)
From V Require Import Prelude.PyAst Prelude.PyWorld gen.F_client Model.RpcDispatch Model.Conversation Flow.World_client Proofs.Flow_client_seal.

Theorem C16_flow_auth_unwrap : forall wrap (unwrap : unwrap_fn) sch fuel ap h b t sg (sign : bool),
  run (WC wrap unwrap sch) fuel k_flow_auth_unwrap [VO (OAuthP ap); VB h; VB b; VB t; VB sg; vb sign]
  = (let* d := unwrap h b t sg sign in Ok (VB d)).
Proof. exact flow_auth_unwrap. Qed.
Print Assumptions C16_flow_auth_unwrap.

(* _process_response(self, response, pdu_header, Response, encrypt_offsets) IS Seal.process_response, the function of C16_sealed_only,
   for every client, reply, header and offsets (Model/Seal.v decodes every registered PDU type before the class checks, as the source does) *)
Theorem C16_flow_process_response : forall wrap (unwrap : unwrap_fn) sch fuel c resp hdr offs,
  run (WC wrap unwrap sch) fuel k_flow_process_response [VO (OSelf c); VB resp; VO (OHdr hdr); VI c_PT_RESPONSE; offv offs]
  = (let* r := process_response unwrap (is_some (cl_auth c)) offs (cl_sign c) hdr resp in Ok (VO (OPdu (PResponse r)))).
Proof. exact flow_process_response. Qed.
Print Assumptions C16_flow_process_response.

(* a concrete accepted reply (28 octets, stub 01 02 03 04) on an anonymous connection *)
Example C16_flow_process_response_example : forall (unwrap : unwrap_fn) sign hdr,
  exists r, process_response unwrap false None sign hdr
              [5; 0; 2; 3; 16; 0; 0; 0; 28; 0; 0; 0; 1; 0; 0; 0; 4; 0; 0; 0; 0; 0; 0; 0; 1; 2; 3; 4] = Ok r /\ rs_stub_data r = [1; 2; 3; 4].
Proof. intros. eexists. split; [vm_compute; reflexivity|reflexivity]. Qed.
