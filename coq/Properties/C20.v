(* C20 -- DC discovery asks the right SRV name and picks the best record. Statements only.
   k_srv_* are regenerated from _dns.py; twin_lookup_dc records the normalised-AST comparison of
   lookup_dc and async_lookup_dc. *)
From V Require Import Prelude.Base gen.Kernels Model.Types Model.Dns Proofs.C20.
From Coq Require Import Permutation.

(* for every non-empty answer list: a record of the answer (dots stripped) with the lowest priority and, among those, the highest weight *)
Theorem C20_best : forall l r, get_highest_answer l = Ok r ->
  In r (map conv l) /\
  forall a, In a l -> srv_priority r <= srv_priority a /\ (srv_priority a = srv_priority r -> srv_weight a <= srv_weight r).
Proof. exact best. Qed.
Print Assumptions C20_best.

Theorem C20_total : forall l, l <> [] -> exists r, get_highest_answer l = Ok r.
Proof. exact nonempty_ok. Qed.
Print Assumptions C20_total.

(* port / weight / priority unchanged, target = target without its trailing dots *)
Theorem C20_fields : forall a, srv_port (conv a) = srv_port a /\ srv_weight (conv a) = srv_weight a /\
  srv_priority (conv a) = srv_priority a /\ srv_target (conv a) = rstrip [46] (srv_target a).
Proof. exact conv_fields. Qed.
Print Assumptions C20_fields.

Theorem C20_rstrip : forall chars s, exists suffix, s = rstrip chars s ++ suffix /\ forallb (in_chars chars) suffix = true
  /\ match rev (rstrip chars s) with [] => True | c :: _ => in_chars chars c = false end.
Proof. exact rstrip_spec. Qed.
Print Assumptions C20_rstrip.

(* any order of the answer set selects the same (priority, weight) *)
Theorem C20_perm : forall l1 l2 r1 r2, Permutation l1 l2 -> get_highest_answer l1 = Ok r1 -> get_highest_answer l2 = Ok r2 ->
  srv_priority r1 = srv_priority r2 /\ srv_weight r1 = srv_weight r2.
Proof. exact perm_same. Qed.
Print Assumptions C20_perm.

(* "_ldap._tcp.dc._msdcs." ++ domain, or the bare prefix when no (or an empty) domain is given; SRV type; search list on *)
Theorem C20_name : forall d, query_name d = match d with Some (c :: r) => prefix ++ [46] ++ c :: r | _ => prefix end.
Proof. exact name_spec. Qed.
Print Assumptions C20_name.

Theorem C20_query_args : k_srv_rdtype = [83; 82; 86] /\ k_srv_search = true.
Proof. split; reflexivity. Qed.
Print Assumptions C20_query_args.

(* the sync and async lookups are the same program up to await / resolver flavour *)
Theorem C20_sync_async_same_source : twin_lookup_dc = true.
Proof. reflexivity. Qed.
Print Assumptions C20_sync_async_same_source.

Example C20_example :
  let l := [ {| srv_target := [97; 46]; srv_port := 1; srv_weight := 5; srv_priority := 1 |};
             {| srv_target := [98; 46; 46]; srv_port := 2; srv_weight := 9; srv_priority := 0 |};
             {| srv_target := [99]; srv_port := 3; srv_weight := 10; srv_priority := 0 |} ] in
  get_highest_answer l = Ok {| srv_target := [99]; srv_port := 3; srv_weight := 10; srv_priority := 0 |}.
Proof. reflexivity. Qed.

(* ---- lookup_dc / async_lookup_dc tied to the model (flows).  W resolve is the world of Flow/World_core.v: the DNS resolver
   (outside the library) is a function from the queried name to the answer set; _get_highest_answer as a callee is Model/Dns.v
   get_highest_answer; C20_flow_get_highest_answer below shows that this is what its own regenerated body computes. *)
From V Require Import Prelude.PyAst Prelude.PyWorld gen.Flows Flow.World_core Proofs.Flow_core_dns.
Theorem C20_flow_lookup_dc : forall resolve fuel domain,
  run (W resolve) fuel k_flow_lookup_dc [vopt_str domain]
  = (let* l := resolve (query_name domain) in let* r := get_highest_answer l in Ok (VO (OSrv r))).
Proof. exact flow_lookup_dc. Qed.
Print Assumptions C20_flow_lookup_dc.
Theorem C20_flow_async_lookup_dc : forall resolve fuel domain,
  run (W resolve) fuel k_flow_async_lookup_dc [vopt_str domain]
  = (let* l := resolve (query_name domain) in let* r := get_highest_answer l in Ok (VO (OSrv r))).
Proof. exact flow_async_lookup_dc. Qed.
Print Assumptions C20_flow_async_lookup_dc.
(* the async twin computes what the sync function computes, for every resolver and argument *)
Theorem C20_flow_lookup_dc_twin : forall resolve fuel domain,
  run (W resolve) fuel k_flow_async_lookup_dc [vopt_str domain] = run (W resolve) fuel k_flow_lookup_dc [vopt_str domain].
Proof. exact flow_lookup_dc_twin. Qed.
Print Assumptions C20_flow_lookup_dc_twin.

(* ---- _get_highest_answer itself: the regenerated body (the loop building SrvRecords with the trailing dots stripped, then
   sorted(answers, key=lambda a: (a.priority, -a.weight))[0], the sort desugared by the translator into sorted/key(answers,
   [key for a in answers]) and given the meaning "stable insertion sort under Python's tuple order" by the world) computes the
   model's selection function, for every answer set (an empty one: IndexError on both sides). A change of the loop, of the
   record construction, of the sort key or of the element picked changes the regenerated term and breaks this tie. *)
From V Require Import Proofs.Flow_core_gha.
Theorem C20_flow_get_highest_answer : forall resolve fuel l,
  run (W resolve) fuel k_flow_get_highest_answer [VO (OAnswer l)]
  = (let* r := get_highest_answer l in Ok (VO (OSrv r))).
Proof. exact flow_get_highest_answer. Qed.
Print Assumptions C20_flow_get_highest_answer.
(* the world's sort really sorts: its first element is the first minimiser of the keys (the fact the tie rests on) *)
Theorem C20_sorted_head_is_first_minimiser : forall (A : Type) (l : list (A * (Z * Z))) best d,
  hd d (isort_k (best :: l)) = pick_k best l.
Proof. exact @hd_isort_pick. Qed.
Print Assumptions C20_sorted_head_is_first_minimiser.
(* the world's sort on a concrete list with equal keys (what CPython's sorted gives: [c; d; b; a], the equal keys of c and d in
   their original order) *)
Example C20_sorted_key_example :
  sorted_key [VI 1; VI 2; VI 3; VI 4] [VT [VI 1; VI (-5)]; VT [VI 0; VI (-9)]; VT [VI 0; VI (-10)]; VT [VI 0; VI (-10)]]
  = Some [VI 3; VI 4; VI 2; VI 1].
Proof. reflexivity. Qed.

(* ---- the world's sorted/key is a stable sort: a permutation of its input, ordered by the keys, equal keys in their original order
   (what the documentation of sorted() promises; CPython's implementation of it is not verified) *)
From V Require Import Proofs.Flow_core_sort.
From Coq Require Import Sorting.Sorted Sorting.Permutation.
Theorem C20_world_sort_is_permutation : forall (A : Type) (l : list (A * (Z * Z))), Permutation (isort_k l) l.
Proof. exact @isort_k_perm. Qed.
Print Assumptions C20_world_sort_is_permutation.
Theorem C20_world_sort_is_ordered : forall (A : Type) (l : list (A * (Z * Z))),
  StronglySorted (fun x y => key_lt (snd y) (snd x) = false) (isort_k l).
Proof. exact @isort_k_sorted. Qed.
Print Assumptions C20_world_sort_is_ordered.
Theorem C20_world_sort_is_stable : forall (A : Type) (l : list (A * (Z * Z))) k,
  List.filter (fun e => eqk (snd e) k) (isort_k l) = List.filter (fun e => eqk (snd e) k) l.
Proof. exact @isort_k_stable. Qed.
Print Assumptions C20_world_sort_is_stable.
