(* C15 -- Bind/auth handshake relays tokens faithfully and fails closed. Statements only.
   The guards and flag expressions (names k_...) are regenerated from _rpc/_client.py / _client.py. *)
From V Require Import Prelude.Base Prelude.PySlice gen.K_client gen.C_client Model.Handshake Proofs.C15.

(* the regenerated guards mean: loop while incomplete; stop on an empty token; offer header signing
   iff it is still on; ACCEPTANCE = 0 selects contexts; an ack without PFC_SUPPORT_HEADER_SIGN switches signing off *)
Theorem C15_guards :
  (forall c, k_bind_loop_guard c = negb c) /\
  (forall t, k_bind_break t = true <-> t = []) /\
  (forall b, k_alter_flags b c_PFC_SUPPORT_HEADER_SIGN c_PFC_NONE = if b then 4 else 0) /\
  (forall r, k_ack_accepted r c_ACCEPTANCE = true <-> r = 0) /\
  (forall fl, k_ack_clears_sign fl c_PFC_SUPPORT_HEADER_SIGN = true <-> Z.land fl 4 = 0) /\
  (forall r, k_bind_result_accepted r c_ACCEPTANCE = true <-> r = 0).
Proof. exact guards_meaning. Qed.
Print Assumptions C15_guards.

(* a request is issued (process_bind_result passes) only on a presentation context the bind_ack accepted *)
Theorem C15_context : forall requested results desired,
  process_bind_result requested results desired = Ok tt ->
  exists i, (i < length results)%nat /\ nth i results 1 = c_ACCEPTANCE /\ index requested (Z.of_nat i) = Ok desired.
Proof. exact bind_result_sound. Qed.
Print Assumptions C15_context.

(* fail closed, one exchange: EOF, bind_nak, fault or a PDU of another type is an error; exactly the one PDU was sent *)
Theorem C15_exchange_fail_closed : forall p e s,
  match server s with
  | [] => fst (send_pdu p e s) = Raise EOFError
  | r :: _ => expected r e = false -> fst (send_pdu p e s) = Raise ValueError
  end /\ trace (snd (send_pdu p e s)) = trace s ++ [p].
Proof. exact send_pdu_fail_closed. Qed.
Print Assumptions C15_exchange_fail_closed.

(* sync and async bind / request are the same program up to await and _wrap_sync *)
Theorem C15_sync_async_same_source : twin_SyncRpcClient_bind = true /\ twin_SyncRpcClient_request = true.
Proof. split; reflexivity. Qed.
Print Assumptions C15_sync_async_same_source.

(* =====================================================================================================
   Whole runs of bind(): bind_run auth legs srv ctxs = (r, s), for ALL provider scripts `legs` and ALL
   server scripts `srv` (no bound on either; the proofs are inductions over both).
   Vocabulary (Proofs/C15.v): is_alter p (p is an AlterContext), alter_token / sent_ctxs / sent_flags (fields of a
   PDU sent), reply_token (auth_value of an ack, None for other PDUs), has_flag a (a is an ack whose
   packet_flags has PFC_SUPPORT_HEADER_SIGN, Z.land flags 4 <> 0), expected a e (a DECODES -- every result code of an ack is a member of ContextResultCode, Handshake.reply_decodes; an ack with another
   code is refused with ValueError while it is decoded, like a PDU of the wrong kind -- and is the kind of ack awaited),
   expect_at k (bind_ack for reply 0, alter_context_resp afterwards), fed_all consumed = None :: [Some (token or b"") of each reply].
   ===================================================================================================== *)

(* 1. tokens out: one Bind carrying the first leg's token and the offered contexts, then only AlterContext PDUs whose
   tokens are the tokens of the next legs, in order, each once (a prefix of the remaining legs), all non-empty, and
   whose contexts are exactly those the bind_ack accepted. (The Bind carries the first token even when it is empty:
   on the wire that is a security trailer with auth_len = 0, which PDU.unpack reads back as "no trailer"; the
   correspondence harness does not enumerate an empty FIRST token.) *)
Theorem C15_tokens_out : forall l ls srv ctxs r s, bind_run true (l :: ls) srv ctxs = (r, s) ->
  exists alters n,
    trace s = SBind 4 (Some (leg_token l)) ctxs :: alters /\ (n <= length ls)%nat /\
    Forall is_alter alters /\
    map alter_token alters = map leg_token (firstn n ls) /\
    Forall (fun t => t <> []) (map alter_token alters) /\
    (alters = [] \/
     exists rs fl tk rest acc, srv = RBindAck rs fl tk :: rest /\ accepted_contexts ctxs rs 0 = Ok acc /\
       Forall (fun p => sent_ctxs p = acc) alters).
Proof. exact tokens_out. Qed.
Print Assumptions C15_tokens_out.

(* 2. tokens in: step() receives None and then, in order, the token (or b"") of each reply consumed; there is one
   step per PDU sent, plus one exactly when the last step (not the first) produced an empty token; every PDU
   sent consumed one reply, except a last one answered by EOF. *)
Theorem C15_tokens_in : forall l ls srv ctxs r s, bind_run true (l :: ls) srv ctxs = (r, s) ->
  exists consumed, srv = consumed ++ server s /\
    steps s = firstn (length (steps s)) (fed_all consumed) /\
    (length (steps s) <= S (length consumed))%nat /\
    (length (steps s) = length (trace s) \/ length (steps s) = S (length (trace s))) /\
    (length (steps s) = S (length (trace s)) <->
       (2 <= length (steps s))%nat /\
       exists lg, nth_error (l :: ls) (length (steps s) - 1) = Some lg /\ leg_token lg = []) /\
    (length consumed = length (trace s) \/
     (S (length consumed) = length (trace s) /\ r = Raise EOFError /\ server s = [])).
Proof. exact tokens_in. Qed.
Print Assumptions C15_tokens_in.

(* 3. stops: one leg per step; every leg used before the last step was incomplete, so there is no step after the
   first complete leg; no PDU is sent for, or after, a later leg whose token is empty. *)
Theorem C15_stops : forall l ls srv ctxs r s, bind_run true (l :: ls) srv ctxs = (r, s) ->
  (length (steps s) <= length (l :: ls))%nat /\
  (forall i lg, (S i < length (steps s))%nat -> nth_error (l :: ls) i = Some lg -> leg_complete lg = false) /\
  (forall i lg, nth_error (l :: ls) i = Some lg -> leg_complete lg = true -> (length (steps s) <= S i)%nat) /\
  (forall i lg, (1 <= i)%nat -> nth_error (l :: ls) i = Some lg -> leg_token lg = [] -> (length (trace s) <= i)%nat).
Proof. exact stops. Qed.
Print Assumptions C15_stops.

(* 4. header signing: `processed` are the acks that went through _process_bind_ack (all replies consumed, except a
   last one that raised); signing is on at the end iff every one of them carried the flag; the Bind offers the flag
   (4, before FIRST|LAST are or-ed in) and PDU j offers it iff the first j acks all carried it, i.e. the state just before. *)
Theorem C15_header_sign : forall l ls srv ctxs r s, bind_run true (l :: ls) srv ctxs = (r, s) ->
  exists processed extra,
    srv = processed ++ extra ++ server s /\
    (extra = [] \/ exists rp e, extra = [rp] /\ r = Raise e) /\
    (forall k a, nth_error processed k = Some a -> expected a (expect_at k) = true) /\
    (length processed <= length (trace s) <= S (length processed))%nat /\
    ((exists v, r = Ok v) -> length processed = length (trace s)) /\
    sign s = forallb has_flag processed /\
    (exists tk, nth_error (trace s) 0 = Some (SBind 4 tk ctxs)) /\
    (forall j p, nth_error (trace s) j = Some p ->
       sent_flags p = if forallb has_flag (firstn j processed) then 4 else 0).
Proof. exact header_sign. Qed.
Print Assumptions C15_header_sign.

(* 5. fail closed, whole runs: if reply k (0-based) of those consumed is not the awaited acknowledgement (bind_nak,
   fault, response, or the other ack type) the run is ValueError, it was the last reply read and exactly k+1 PDUs
   were sent; if a PDU got no reply (EOF) the run is EOFError and that PDU was the last. *)
Theorem C15_fail_closed : forall l ls srv ctxs r s consumed,
  bind_run true (l :: ls) srv ctxs = (r, s) -> srv = consumed ++ server s ->
  (length consumed <= length (trace s))%nat /\
  (forall k rp, nth_error consumed k = Some rp -> expected rp (expect_at k) = false ->
     r = Raise ValueError /\ length (trace s) = S k /\ length consumed = S k) /\
  ((length consumed < length (trace s))%nat ->
     r = Raise EOFError /\ server s = [] /\ length (trace s) = S (length consumed)).
Proof. exact fail_closed. Qed.
Print Assumptions C15_fail_closed.

(* ... and these are the only ways it fails: EOF; a last reply of the wrong kind; an ack of the right kind whose
   result vector is shorter than the contexts it answers (IndexError, not a deliberate error class);
   or a provider that neither completes nor yields an empty token before its script ends (KeyError: outside the property). *)
Theorem C15_error_causes : forall l ls srv ctxs e s, bind_run true (l :: ls) srv ctxs = (Raise e, s) ->
  exists consumed, srv = consumed ++ server s /\
    ((e = EOFError /\ server s = []) \/
     (e = ValueError /\ exists c0 rp, consumed = c0 ++ [rp] /\ expected rp (expect_at (length c0)) = false) \/
     (e = IndexError /\ exists c0 a cx, consumed = c0 ++ [a] /\ expected a (expect_at (length c0)) = true /\
        accepted_contexts cx (reply_results a) 0 = Raise IndexError) \/
     (e = KeyError /\ Forall (fun lg => leg_complete lg = false) (l :: ls) /\ Forall (fun lg => leg_token lg <> []) ls)).
Proof. exact error_causes. Qed.
Print Assumptions C15_error_causes.

(* a successful authenticated bind returns the bind_ack's result vector *)
Theorem C15_result : forall l ls srv ctxs r s, bind_run true (l :: ls) srv ctxs = (r, s) ->
  forall v, r = Ok v -> exists fl tk rest, srv = RBindAck v fl tk :: rest.
Proof. exact result_is_bind_ack. Qed.
Print Assumptions C15_result.

(* 6. anonymous bind: exactly one Bind, flags 0, no token, no step, no signing; the result is the bind_ack's (when it decodes: every
   result code a ContextResultCode member) or the error *)
Theorem C15_anonymous : forall legs srv ctxs r s, bind_run false legs srv ctxs = (r, s) ->
  trace s = [SBind 0 None ctxs] /\ steps s = [] /\ sign s = false /\
  match srv with
  | [] => r = Raise EOFError /\ server s = []
  | RBindAck rs _ _ :: rest => r = (if forallb result_code_ok rs then Ok rs else Raise ValueError) /\ server s = rest
  | _ :: rest => r = Raise ValueError /\ server s = rest
  end.
Proof. exact anonymous. Qed.
Print Assumptions C15_anonymous.

(* "the contexts the bind_ack accepted" (acc in C15_tokens_out) are exactly the offered contexts whose result is
   ACCEPTANCE (0), in order: accepted_of ctxs results = map fst (filter (result = 0) (combine ctxs results)) *)
Theorem C15_accepted_contexts : forall ctxs results acc,
  accepted_contexts ctxs results 0 = Ok acc ->
  (length ctxs <= length results)%nat /\ acc = accepted_of ctxs results.
Proof. exact accepted_contexts_exact. Qed.
Print Assumptions C15_accepted_contexts.

(* ---- concrete runs (the hypotheses above are met by each of them) ---- *)
Definition lg (t : bytes) (c : bool) : leg := {| leg_token := t; leg_complete := c |}.
Definition T1 : bytes := [84; 49].   Definition T2 : bytes := [84; 50].   Definition T3 : bytes := [84; 51].
Definition S1 : bytes := [83; 49].   Definition S2 : bytes := [83; 50].

(* three legs, header signing kept; contexts 0 and 1 offered, only 0 accepted *)
Example C15_ex_three_legs :
  bind_run true [lg T1 false; lg T2 false; lg T3 true]
    [RBindAck [0; 2] 7 (Some S1); RAlterResp [0] 7 (Some S2); RAlterResp [0] 7 None] [0; 1]
  = (Ok [0; 2],
     {| trace := [SBind 4 (Some T1) [0; 1]; SAlter 4 T2 [0]; SAlter 4 T3 [0]];
        steps := [None; Some S1; Some S2]; sign := true; server := [] |}).
Proof. vm_compute. reflexivity. Qed.

(* the second ack lacks PFC_SUPPORT_HEADER_SIGN: the flag is still offered in the PDU before it, not afterwards *)
Example C15_ex_second_ack_without_flag :
  bind_run true [lg T1 false; lg T2 false; lg T3 true]
    [RBindAck [0; 2] 7 (Some S1); RAlterResp [0] 3 (Some S2); RAlterResp [0] 7 None] [0; 1]
  = (Ok [0; 2],
     {| trace := [SBind 4 (Some T1) [0; 1]; SAlter 4 T2 [0]; SAlter 0 T3 [0]];
        steps := [None; Some S1; Some S2]; sign := false; server := [] |}).
Proof. vm_compute. reflexivity. Qed.

(* an empty final token: the last step is made, no PDU follows, the third reply is never read *)
Example C15_ex_empty_final_token :
  bind_run true [lg T1 false; lg T2 false; lg [] true]
    [RBindAck [0; 2] 7 (Some S1); RAlterResp [0] 7 (Some S2); RAlterResp [0] 7 None] [0; 1]
  = (Ok [0; 2],
     {| trace := [SBind 4 (Some T1) [0; 1]; SAlter 4 T2 [0]];
        steps := [None; Some S1; Some S2]; sign := true; server := [RAlterResp [0] 7 None] |}).
Proof. vm_compute. reflexivity. Qed.

(* a bind_nak as second reply: ValueError, exactly two PDUs, the third leg is never stepped *)
Example C15_ex_bind_nak_second :
  bind_run true [lg T1 false; lg T2 false; lg T3 true]
    [RBindAck [0; 2] 7 (Some S1); RBindNak; RAlterResp [0] 7 None] [0; 1]
  = (Raise ValueError,
     {| trace := [SBind 4 (Some T1) [0; 1]; SAlter 4 T2 [0]];
        steps := [None; Some S1]; sign := true; server := [RAlterResp [0] 7 None] |}).
Proof. vm_compute. reflexivity. Qed.

(* an ack without a security trailer, or with an empty auth_value, is fed to step() as b"" *)
Example C15_ex_no_token_is_empty :
  snd (bind_run true [lg T1 false; lg T2 false; lg T3 true]
         [RBindAck [0] 7 None; RAlterResp [0] 7 (Some []); RAlterResp [0] 7 None] [0])
  = {| trace := [SBind 4 (Some T1) [0]; SAlter 4 T2 [0]; SAlter 4 T3 [0]];
       steps := [None; Some []; Some []]; sign := true; server := [] |}.
Proof. vm_compute. reflexivity. Qed.

(* corner of 1.: the FIRST token is sent in the Bind even when it is empty (only later empty tokens stop the loop) *)
Example C15_ex_empty_first_token :
  bind_run true [lg [] false; lg T2 true] [RBindAck [0] 7 (Some S1); RAlterResp [0] 7 None] [0]
  = (Ok [0],
     {| trace := [SBind 4 (Some []) [0]; SAlter 4 T2 [0]]; steps := [None; Some S1]; sign := true; server := [] |}).
Proof. vm_compute. reflexivity. Qed.

(* an alter_context_resp where the bind_ack is awaited (and EOF after the Bind) *)
Example C15_ex_wrong_ack_type :
  bind_run true [lg T1 true] [RAlterResp [0] 7 None] [0]
  = (Raise ValueError, {| trace := [SBind 4 (Some T1) [0]]; steps := [None]; sign := true; server := [] |})
  /\ bind_run true [lg T1 true] [] [0]
  = (Raise EOFError, {| trace := [SBind 4 (Some T1) [0]]; steps := [None]; sign := true; server := [] |}).
Proof. split; vm_compute; reflexivity. Qed.

(* a result vector shorter than the contexts it answers surfaces as IndexError (see C15_error_causes) *)
Example C15_ex_short_result_vector :
  fst (bind_run true [lg T1 false; lg T2 true] [RBindAck [0] 7 (Some S1)] [0; 1]) = Raise IndexError
  /\ fst (bind_run true [lg T1 false; lg T2 true] [RBindAck [0; 0] 7 (Some S1); RAlterResp [0] 7 None] [0; 1]) = Raise IndexError.
Proof. split; vm_compute; reflexivity. Qed.

Example C15_ex_accepted_of : accepted_of [5; 7; 9] [0; 2; 0; 0] = [5; 9] /\ accepted_contexts [5; 7; 9] [0; 2; 0; 0] 0 = Ok [5; 9].
Proof. split; vm_compute; reflexivity. Qed.

Example C15_ex_anonymous :
  bind_run false [] [RBindAck [0; 2] 3 None; RFault] [0; 1]
  = (Ok [0; 2], {| trace := [SBind 0 None [0; 1]]; steps := []; sign := false; server := [RFault] |}).
Proof. vm_compute. reflexivity. Qed.

(* ---- flows: the functions of the source themselves, regenerated as syntax on every run (gen/F_client.v) and run in the world
   Flow/World_client_hs.v (a ContextElement is its id, an ack is Handshake.reply's triple, a Bind/AlterContext PDU is Handshake.sent,
   the client is Handshake.st plus the provider's remaining legs), ARE the model functions the theorems above are about.
   run_self (Proofs/FlowClientLib.v) = PyAst.run that also reports the final value of the local "self". ---- *)
From V Require Import Prelude.PyAst Prelude.PyWorld gen.F_client Flow.World_client_hs Proofs.FlowClientLib Proofs.Flow_client_hs.

Theorem C15_flow_process_bind_result : forall fuel requested a results flags tok desired,
  run WH fuel k_flow_process_bind_result [VL (map ctxv requested); VO (OAck a results flags tok); VI desired]
  = (let* _ := process_bind_result requested results desired in Ok VN).
Proof. exact flow_process_bind_result. Qed.
Print Assumptions C15_flow_process_bind_result.

(* _create_bind: the PDU (flags before FIRST|LAST, token, contexts) and self._sign_header afterwards *)
Theorem C15_flow_create_bind : forall fuel c ids tok,
  run_self WH fuel k_flow_create_bind [VO (OSelf c); VL (map ctxv ids); trailerv tok]
  = Ok (VO (OSent (fst (create_bind_hs ids tok (cn_st c)))), Some (VO (OSelf (with_st c (snd (create_bind_hs ids tok (cn_st c))))))).
Proof. exact flow_create_bind. Qed.
Print Assumptions C15_flow_create_bind.

Theorem C15_flow_create_alter_context : forall fuel c ids t,
  run_self WH fuel k_flow_create_alter_context [VO (OSelf c); VL (map ctxv ids); VO (OTrailer t)]
  = Ok (VO (OSent (create_alter_hs ids t (cn_st c))), Some (VO (OSelf c))).
Proof. exact flow_create_alter_context. Qed.
Print Assumptions C15_flow_create_alter_context.

Theorem C15_flow_process_bind_ack : forall fuel c a rs fl tk ids,
  run_self WH fuel k_flow_process_bind_ack [VO (OSelf c); VO (OAck a rs fl tk); VL (map ctxv ids)]
  = match process_bind_ack rs fl tk ids (cn_st c) with
    | (Ok (acc, tk'), s') => Ok (VT [VL (map ctxv acc); tokv tk'], Some (VO (OSelf (with_st c s'))))
    | (Raise e, _) => Raise e
    end.
Proof. exact flow_process_bind_ack. Qed.
Print Assumptions C15_flow_process_bind_ack.

(* AsyncRpcClient.bind is Handshake.bind_run, for every provider script and every server script: same error or same result vector,
   and on an authenticated success the client's state (PDUs sent, step arguments, sign flag, replies left) is the model's.
   fuel: one iteration of the `while` per leg after the first. *)
Theorem C15_flow_async_bind : forall fuel auth (legs : list leg) srv ids,
  (List.length legs <= fuel)%nat ->
  match bind_run auth legs srv ids with
  | (Ok rs, s) => exists fl tk o,
      run_self WH fuel k_flow_async_bind [VO (OSelf (conn0 auth legs srv)); VL (map ctxv ids)] = Ok (VO (OAck false rs fl tk), o)
      /\ (auth = true -> exists c', o = Some (VO (OSelf c')) /\ cn_st c' = s)
  | (Raise e, _) => run_self WH fuel k_flow_async_bind [VO (OSelf (conn0 auth legs srv)); VL (map ctxv ids)] = Raise e
  end.
Proof. exact flow_async_bind. Qed.
Print Assumptions C15_flow_async_bind.
Theorem C15_flow_async_bind_run : forall fuel auth (legs : list leg) srv ids,
  (List.length legs <= fuel)%nat ->
  (let* v := run WH fuel k_flow_async_bind [VO (OSelf (conn0 auth legs srv)); VL (map ctxv ids)] in Ok (ack_results v))
  = fst (bind_run auth legs srv ids).
Proof. exact flow_async_bind_run. Qed.
Print Assumptions C15_flow_async_bind_run.

(* SyncRpcClient.bind is AsyncRpcClient.bind with every `await self._wrap_sync(a.m, args..)` replaced by `a.m(args..)`, and nothing else
   (theorem about the two regenerated terms; strengthens the twin kernel of C15_sync_async_same_source) *)
Theorem C15_flow_bind_twin :
  pf_params k_flow_sync_bind = pf_params k_flow_async_bind /\
  pf_body k_flow_sync_bind = map unwrap_sync_stmt (pf_body k_flow_async_bind).
Proof. exact flow_bind_twin. Qed.
Print Assumptions C15_flow_bind_twin.

Example C15_flow_bind_example :
  run_self WH 3 k_flow_async_bind [VO (OSelf (conn0 true [lg T1 false; lg T2 false; lg T3 true]
      [RBindAck [0; 2] 7 (Some S1); RAlterResp [0] 7 (Some S2); RAlterResp [0] 7 None])); VL (map ctxv [0; 1])]
  = Ok (VO (OAck false [0; 2] 7 (Some S1)),
        Some (VO (OSelf {| cn_auth := true; cn_legs := []; cn_complete := true;
                           cn_st := {| trace := [SBind 4 (Some T1) [0; 1]; SAlter 4 T2 [0]; SAlter 4 T3 [0]];
                                       steps := [None; Some S1; Some S2]; sign := true; server := [] |} |}))).
Proof. vm_compute. reflexivity. Qed.

(* the anonymous bind returns from inside `if not self._auth:` (run_self does not observe the client then): the statements up to and including
   `bind_ack = await self._send_pdu(bind, BindAck)`, after which bind_ack is returned at once, leave the client in the model's final state *)
Theorem C15_flow_async_bind_anonymous_state : forall fuel (legs : list leg) srv ids,
  match bind_run false legs srv ids with
  | (Ok rs, s) => exists env' c' fl tk,
      exec_block WH fuel (firstn 4 (pf_body k_flow_async_bind)) [("self", VO (OSelf (conn0 false legs srv))); ("contexts", VL (map ctxv ids))]
        = Ok (Next env')
      /\ lookup "self" env' = Some (VO (OSelf c')) /\ cn_st c' = s /\ lookup "bind_ack" env' = Some (VO (OAck false rs fl tk))
  | (Raise e, _) =>
      exec_block WH fuel (firstn 4 (pf_body k_flow_async_bind)) [("self", VO (OSelf (conn0 false legs srv))); ("contexts", VL (map ctxv ids))]
        = Raise e
  end.
Proof. exact flow_async_bind_anonymous_state. Qed.
Print Assumptions C15_flow_async_bind_anonymous_state.

(* =====================================================================================================
   7. PROGRESS (the theorems 1-5 above are upper bounds: what is sent / fed / stepped AT MOST; this is the lower bound).
   A leg ENDS the handshake when the context is complete after it, or -- for every leg but the first, whose token goes into the Bind
   whatever it is -- when it yields an empty token (stops_here).  A bind() that returns has stepped the provider exactly up to and
   including the FIRST such leg: tokens are fed back for as long as the context is incomplete and tokens keep coming, and no longer.
   (A bind_run that returned `Ok rs` right after the first ack, without the alter loop, would satisfy 1-5 and C15_result; it violates
   both statements below whenever the first leg is incomplete: C15_progress_excludes_early_return.)
   ===================================================================================================== *)
From V Require Import Proofs.C15Progress.

Theorem C15_progress : forall l ls srv ctxs rs s, bind_run true (l :: ls) srv ctxs = (Ok rs, s) ->
  exists lg, nth_error (l :: ls) (List.length (steps s) - 1) = Some lg /\
    (leg_complete lg = true \/ ((2 <= List.length (steps s))%nat /\ leg_token lg = [])).
Proof. exact progress. Qed.
Print Assumptions C15_progress.

(* with C15_stops (no step after a complete leg, no PDU for a later empty token) this pins the number of legs stepped *)
Theorem C15_leg_count : forall l ls srv ctxs rs s, bind_run true (l :: ls) srv ctxs = (Ok rs, s) ->
  stop_index false (l :: ls) = Some (List.length (steps s) - 1)%nat /\ (1 <= List.length (steps s))%nat.
Proof. exact leg_count. Qed.
Print Assumptions C15_leg_count.

Example C15_ex_leg_count :
  stop_index false [lg T1 false; lg T2 false; lg T3 true] = Some 2%nat /\          (* C15_ex_three_legs: three steps *)
  stop_index false [lg T1 false; lg T2 false; lg [] true] = Some 2%nat /\          (* C15_ex_empty_final_token: three steps, two PDUs *)
  stop_index false [lg [] false; lg T2 true] = Some 1%nat /\                       (* an empty FIRST token does not stop *)
  stop_index false [lg T1 true; lg T2 true] = Some 0%nat /\
  stop_index false [lg T1 false; lg T2 false] = None.                              (* never completes: bind cannot return Ok (KeyError) *)
Proof. repeat split; reflexivity. Qed.

(* the early-return mutant: on legs [T1 incomplete; T2 complete] it would return after the bind_ack with one step made; that outcome
   meets neither conclusion, while bind_run makes the two steps *)
Example C15_progress_excludes_early_return :
  let legs := [lg T1 false; lg T2 true] in
  let s_mut := {| trace := [SBind 4 (Some T1) [0]]; steps := [None]; sign := true; server := [RAlterResp [0] 7 None] |} in
  ~ (exists x, nth_error legs (List.length (steps s_mut) - 1) = Some x /\
       (leg_complete x = true \/ ((2 <= List.length (steps s_mut))%nat /\ leg_token x = []))) /\
  stop_index false legs <> Some (List.length (steps s_mut) - 1)%nat /\
  List.length (steps (snd (bind_run true legs [RBindAck [0] 7 (Some S1); RAlterResp [0] 7 None] [0]))) = 2%nat.
Proof.
  cbn. split; [|split; [discriminate|reflexivity]].
  intros (x & Hx & [Hc|[Hn _]]); [inversion Hx; subst; discriminate|lia].
Qed.

(* =====================================================================================================
   8. "A request is only issued on a context the server accepted", composed: bind() and then _process_bind_result (the order in
   _sync_get_key / _async_get_key: C17_flow_sync_get_key) -- the context id the request will carry is one that the bind_ack of THIS
   server accepted.  The same fact about the whole conversation of Model/Conversation.v (both connections, stated on the transcript:
   a REQUEST is on the wire only if ..) is C17_request_on_accepted_context in Properties/C17.v.
   ===================================================================================================== *)
Theorem C15_request_context : forall auth legs srv ids desired rs s,
  bind_run auth legs srv ids = (Ok rs, s) -> process_bind_result ids rs desired = Ok tt ->
  exists fl tk rest i, srv = RBindAck rs fl tk :: rest /\ (i < List.length rs)%nat /\ nth i rs 1 = c_ACCEPTANCE /\
    PySlice.index ids (Z.of_nat i) = Ok desired.
Proof. exact bind_then_result. Qed.
Print Assumptions C15_request_context.

(* =====================================================================================================
   9. Handshake.send_pdu's classification of a reply IS the class check of the source's _process_response: Model/Seal.process_pdu_as
   (tied to the regenerated RpcClient._process_response for every resp_type: C16_flow_process_response_as) at resp_type = BindAck /
   AlterContextResponse and encrypt_offsets = None (the bind stage), applied to the PDU the reply octets decode to.  reply_of_pdu is what
   Handshake.v keeps of a decoded PDU (result codes, packet_flags, auth_value; Request / Bind / AlterContext count as "another type").
   ===================================================================================================== *)
From V Require Import Model.Pdu Model.Request Model.Bind Model.RpcDispatch Model.Seal Proofs.C15Classify.
Theorem C15_send_pdu_classification : forall (unwrap : unwrap_fn) auth sign hdr resp p t sent e s rest,
  pdu_unpack (S (length resp)) resp = Ok (p, t) -> server s = reply_of_pdu p :: rest ->
  fst (send_pdu sent e s)
  = (let* q := process_pdu_as (expect_ptype e) unwrap auth None sign hdr resp in Ok (triple_of_pdu q)).
Proof. exact send_pdu_classification. Qed.
Print Assumptions C15_send_pdu_classification.

(* =====================================================================================================
   10. SyncRpcClient.bind, SEMANTICALLY (not only through the twin theorem): `self._auth.step(..)` is a method call on an attribute of the
   local `self`; the interpreter writes the provider back into `self` along the attribute path (PyAst.place_set), and Flow/World_client_hs.v
   says what storing a provider into self._auth means (its remaining legs, ctx.complete and the log of step() arguments ARE that part of the
   client's state).  So the sync flavour is Handshake.bind_run exactly like the async one: same statements, same fuel.
   ===================================================================================================== *)
Theorem C15_flow_sync_bind : forall fuel auth (legs : list leg) srv ids,
  (List.length legs <= fuel)%nat ->
  match bind_run auth legs srv ids with
  | (Ok rs, s) => exists fl tk o,
      run_self WH fuel k_flow_sync_bind [VO (OSelf (conn0 auth legs srv)); VL (map ctxv ids)] = Ok (VO (OAck false rs fl tk), o)
      /\ (auth = true -> exists c', o = Some (VO (OSelf c')) /\ cn_st c' = s)
  | (Raise e, _) => run_self WH fuel k_flow_sync_bind [VO (OSelf (conn0 auth legs srv)); VL (map ctxv ids)] = Raise e
  end.
Proof. exact flow_sync_bind. Qed.
Print Assumptions C15_flow_sync_bind.
Theorem C15_flow_sync_bind_run : forall fuel auth (legs : list leg) srv ids,
  (List.length legs <= fuel)%nat ->
  (let* v := run WH fuel k_flow_sync_bind [VO (OSelf (conn0 auth legs srv)); VL (map ctxv ids)] in Ok (ack_results v))
  = fst (bind_run auth legs srv ids).
Proof. exact flow_sync_bind_run. Qed.
Print Assumptions C15_flow_sync_bind_run.
Theorem C15_flow_sync_bind_anonymous_state : forall fuel (legs : list leg) srv ids,
  match bind_run false legs srv ids with
  | (Ok rs, s) => exists env' c' fl tk,
      exec_block WH fuel (firstn 4 (pf_body k_flow_sync_bind)) [("self", VO (OSelf (conn0 false legs srv))); ("contexts", VL (map ctxv ids))]
        = Ok (Next env')
      /\ lookup "self" env' = Some (VO (OSelf c')) /\ cn_st c' = s /\ lookup "bind_ack" env' = Some (VO (OAck false rs fl tk))
  | (Raise e, _) =>
      exec_block WH fuel (firstn 4 (pf_body k_flow_sync_bind)) [("self", VO (OSelf (conn0 false legs srv))); ("contexts", VL (map ctxv ids))]
        = Raise e
  end.
Proof. exact flow_sync_bind_anonymous_state. Qed.
Print Assumptions C15_flow_sync_bind_anonymous_state.

Example C15_flow_sync_bind_example :
  run_self WH 3 k_flow_sync_bind [VO (OSelf (conn0 true [lg T1 false; lg T2 false; lg T3 true]
      [RBindAck [0; 2] 7 (Some S1); RAlterResp [0] 7 (Some S2); RAlterResp [0] 7 None])); VL (map ctxv [0; 1])]
  = Ok (VO (OAck false [0; 2] 7 (Some S1)),
        Some (VO (OSelf {| cn_auth := true; cn_legs := []; cn_complete := true;
                           cn_st := {| trace := [SBind 4 (Some T1) [0; 1]; SAlter 4 T2 [0]; SAlter 4 T3 [0]];
                                       steps := [None; Some S1; Some S2]; sign := true; server := [] |} |}))).
Proof. vm_compute. reflexivity. Qed.

(* an ack carrying a result code outside ContextResultCode (here 7) does not decode: ValueError while the reply is read, the handshake
   stops there -- the client does not go on with a context the server never accepted (seeded change: a `_missing_` hook mapping unknown
   codes to ACCEPTANCE) *)
Example C15_ex_unknown_result_code :
  bind_run true [lg T1 false; lg T2 true] [RBindAck [7; 0] 7 (Some S1); RAlterResp [0] 7 None] [0; 1]
  = (Raise ValueError, {| trace := [SBind 4 (Some T1) [0; 1]]; steps := [None]; sign := true; server := [RAlterResp [0] 7 None] |})
  /\ fst (bind_run false [] [RBindAck [0; 4] 3 None] [0; 1]) = Raise ValueError
  /\ expected (RBindAck [7; 0] 7 (Some S1)) EBindAck = false.
Proof. repeat split; vm_compute; reflexivity. Qed.
