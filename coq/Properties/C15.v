(* C15 -- Bind/auth handshake relays tokens faithfully and fails closed. Statements only.
   The guards and flag expressions (names k_...) are regenerated from _rpc/_client.py / _client.py. *)
From V Require Import Prelude.Base Prelude.PySlice gen.K_client gen.C_client Model.Handshake Proofs.C15.

(* the regenerated guards mean: loop while incomplete; stop on an empty token; offer header signing
   iff it is still on; ACCEPTANCE = 0 selects contexts; an ack without PFC_SUPPORT_HEADER_SIGN switches signing off *)
Theorem C15_guards :
  (forall c, k_bind_loop_guard c = negb c) /\
  (forall t, k_bind_break t = true <-> t = []) /\
  (forall b, k_alter_flags b c_PFC_SUPPORT_HEADER_SIGN c_PFC_NONE = if b then 4 else 0) /\
  (forall r, k_ack_accepted r c_ACCEPTANCE = true <-> r = 0) /\
  (forall fl, k_ack_clears_sign fl c_PFC_SUPPORT_HEADER_SIGN = true <-> Z.land fl 4 = 0) /\
  (forall r, k_bind_result_accepted r c_ACCEPTANCE = true <-> r = 0).
Proof. exact guards_meaning. Qed.
Print Assumptions C15_guards.

(* a request is issued (process_bind_result passes) only on a presentation context the bind_ack accepted *)
Theorem C15_context : forall requested results desired,
  process_bind_result requested results desired = Ok tt ->
  exists i, (i < length results)%nat /\ nth i results 1 = c_ACCEPTANCE /\ index requested (Z.of_nat i) = Ok desired.
Proof. exact bind_result_sound. Qed.
Print Assumptions C15_context.

(* fail closed, one exchange: EOF, bind_nak, fault or a PDU of another type is an error; exactly the one PDU was sent *)
Theorem C15_exchange_fail_closed : forall p e s,
  match server s with
  | [] => fst (send_pdu p e s) = Raise EOFError
  | r :: _ => expected r e = false -> fst (send_pdu p e s) = Raise ValueError
  end /\ trace (snd (send_pdu p e s)) = trace s ++ [p].
Proof. exact send_pdu_fail_closed. Qed.
Print Assumptions C15_exchange_fail_closed.

(* sync and async bind / request are the same program up to await and _wrap_sync *)
Theorem C15_sync_async_same_source : twin_SyncRpcClient_bind = true /\ twin_SyncRpcClient_request = true.
Proof. split; reflexivity. Qed.
Print Assumptions C15_sync_async_same_source.
