(* C02 -- Derived group keys equal the MS-GKDI chain from any covering seed material.
   k_compute_l2_key is the statement-level translation of _gkdi.compute_l2_key regenerated on
   every run; kdf is universally quantified (every root key, SD, L0 and hash enter through it
   and through `top` = Key(SD, RK, L0, 31, -1)). Statements only. *)
From V Require Import Prelude.Base Prelude.Loops gen.Kernels Spec.GkdiSpec.
From V Require Import Model.Crypto Model.Types Model.Chain Proofs.C02.

Theorem C02_chain : forall (K : Type) (kdf : K -> Z -> Z -> K) (top : K) (fuel : nat) (e : env) (l1 l2 : Z),
  conforming kdf top e -> 0 <= l1 <= 31 -> 0 <= l2 <= 31 -> covers e l1 l2 -> (32 <= fuel)%nat ->
  k_compute_l2_key kdf fuel l1 l2 (e_l1 e) (e_l2 e) (e_l1key e) (e_l2key e) = Ok (K2 kdf top l1 l2).
Proof. exact @chain. Qed.
Print Assumptions C02_chain.

(* non-covering seed material or an out-of-range request: an error for every fuel -- neither a key nor a loop *)
Theorem C02_noncover : forall (K : Type) (kdf : K -> Z -> Z -> K) (fuel : nat) (l1 l2 a b : Z) (k1 k2 : K),
  ~ (0 <= l1 <= 31 /\ 0 <= l2 <= 31 /\ (a > l1 \/ (a = l1 /\ b >= l2))) ->
  k_compute_l2_key kdf fuel l1 l2 a b k1 k2 = Raise ValueError.
Proof. exact @noncover. Qed.
Print Assumptions C02_noncover.

(* starting from the root key itself: the (31,31) envelope the library derives *)
Theorem C02_from_root : forall (K : Type) (kdf : K -> Z -> Z -> K) (top nokey : K) (fuel : nat) (l1 l2 : Z),
  0 <= l1 <= 31 -> 0 <= l2 <= 31 -> (32 <= fuel)%nat ->
  k_compute_l2_key kdf fuel l1 l2 31 31 top nokey = Ok (K2 kdf top l1 l2).
Proof. intros K kdf top nokey fuel. exact (chain_from_root kdf top fuel nokey). Qed.
Print Assumptions C02_from_root.

(* the executable model function used in the correspondence, for every Crypto record and hash *)
Theorem C02_model_chain : forall (c : Crypto) (h : hash) (top : res bytes) (e : envelope) (l1 l2 : Z),
  conforming (kdfK c h (gke_rkid e) (gke_l0 e)) top (env_of e) ->
  0 <= l1 <= 31 -> 0 <= l2 <= 31 -> covers (env_of e) l1 l2 ->
  compute_l2_key c h l1 l2 e = K2 (kdfK c h (gke_rkid e) (gke_l0 e)) top l1 l2.
Proof. exact model_chain. Qed.
Print Assumptions C02_model_chain.

Theorem C02_model_noncover : forall (c : Crypto) (h : hash) (e : envelope) (l1 l2 : Z),
  ~ (0 <= l1 <= 31 /\ 0 <= l2 <= 31 /\ (gke_l1 e > l1 \/ (gke_l1 e = l1 /\ gke_l2 e >= l2))) ->
  compute_l2_key c h l1 l2 e = Raise ValueError.
Proof. exact model_noncover. Qed.
Print Assumptions C02_model_noncover.

(* non-vacuity: a conforming envelope at (5, 7) covering (3, 30) exists for any kdf *)
Example C02_conforming_example : forall (kdf : Z -> Z -> Z -> Z),
  let e := {| e_l1 := 5; e_l2 := 7; e_l1key := K1 kdf 0 4; e_l2key := K2 kdf 0 5 7 |} in
  conforming kdf 0 e /\ covers e 3 30.
Proof. intros kdf e. unfold conforming, covers, e; cbn [e_l1 e_l2 e_l1key e_l2key]. repeat split; try lia. Qed.
