(* C02 -- Derived group keys equal the MS-GKDI chain from any covering seed material.
   k_compute_l2_key is the statement-level translation of _gkdi.compute_l2_key regenerated on
   every run; kdf is universally quantified (every root key, SD, L0 and hash enter through it
   and through `top` = Key(SD, RK, L0, 31, -1)). Statements only. *)
From V Require Import Prelude.Base Prelude.Loops gen.Kernels Spec.GkdiSpec.
From V Require Import Model.Crypto Model.Types Model.Chain Proofs.C02.

Theorem C02_chain : forall (K : Type) (kdf : K -> Z -> Z -> K) (top : K) (fuel : nat) (e : env) (l1 l2 : Z),
  conforming kdf top e -> 0 <= l1 <= 31 -> 0 <= l2 <= 31 -> covers e l1 l2 -> (32 <= fuel)%nat ->
  k_compute_l2_key kdf fuel l1 l2 (e_l1 e) (e_l2 e) (e_l1key e) (e_l2key e) = Ok (K2 kdf top l1 l2).
Proof. exact @chain. Qed.
Print Assumptions C02_chain.

(* non-covering seed material or an out-of-range request: an error for every fuel -- neither a key nor a loop *)
Theorem C02_noncover : forall (K : Type) (kdf : K -> Z -> Z -> K) (fuel : nat) (l1 l2 a b : Z) (k1 k2 : K),
  ~ (0 <= l1 <= 31 /\ 0 <= l2 <= 31 /\ (a > l1 \/ (a = l1 /\ b >= l2))) ->
  k_compute_l2_key kdf fuel l1 l2 a b k1 k2 = Raise ValueError.
Proof. exact @noncover. Qed.
Print Assumptions C02_noncover.

(* starting from the root key itself: the (31,31) envelope the library derives *)
Theorem C02_from_root : forall (K : Type) (kdf : K -> Z -> Z -> K) (top nokey : K) (fuel : nat) (l1 l2 : Z),
  0 <= l1 <= 31 -> 0 <= l2 <= 31 -> (32 <= fuel)%nat ->
  k_compute_l2_key kdf fuel l1 l2 31 31 top nokey = Ok (K2 kdf top l1 l2).
Proof. intros K kdf top nokey fuel. exact (chain_from_root kdf top fuel nokey). Qed.
Print Assumptions C02_from_root.

(* the executable model function used in the correspondence, for every Crypto record and hash *)
Theorem C02_model_chain : forall (c : Crypto) (h : hash) (top : res bytes) (e : envelope) (l1 l2 : Z),
  conforming (kdfK c h (gke_rkid e) (gke_l0 e)) top (env_of e) ->
  0 <= l1 <= 31 -> 0 <= l2 <= 31 -> covers (env_of e) l1 l2 ->
  compute_l2_key c h l1 l2 e = K2 (kdfK c h (gke_rkid e) (gke_l0 e)) top l1 l2.
Proof. exact model_chain. Qed.
Print Assumptions C02_model_chain.

Theorem C02_model_noncover : forall (c : Crypto) (h : hash) (e : envelope) (l1 l2 : Z),
  ~ (0 <= l1 <= 31 /\ 0 <= l2 <= 31 /\ (gke_l1 e > l1 \/ (gke_l1 e = l1 /\ gke_l2 e >= l2))) ->
  compute_l2_key c h l1 l2 e = Raise ValueError.
Proof. exact model_noncover. Qed.
Print Assumptions C02_model_noncover.

(* non-vacuity: a conforming envelope at (5, 7) covering (3, 30) exists for any kdf *)
Example C02_conforming_example : forall (kdf : Z -> Z -> Z -> Z),
  let e := {| e_l1 := 5; e_l2 := 7; e_l1key := K1 kdf 0 4; e_l2key := K2 kdf 0 5 7 |} in
  conforming kdf 0 e /\ covers e 3 30.
Proof. intros kdf e. unfold conforming, covers, e; cbn [e_l1 e_l2 e_l1key e_l2key]. repeat split; try lia. Qed.

(* ---- tie to the source (group "chain"): the whole bodies of _gkdi.compute_kdf_context, compute_l1_key and compute_l2_key,
   regenerated as syntax on every run (gen/F_gkdi.v) and run in the world Flow/World_gkdi_keys.v (kdf := the Crypto
   record; compute_kdf_context as a callee := the model function), ARE the model functions the theorems above are about.
   `u` is os.urandom (a parameter of the world, not used by these three functions). ---- *)
From V Require Import Prelude.PyAst Prelude.PyWorld gen.F_gkdi Flow.World_gkdi_keys Proofs.Flow_gkdi_keys_chain.
Theorem C02_flow_compute_kdf_context : forall c u fuel g l0 l1 l2,
  run (W c u) fuel k_flow_compute_kdf_context [VO (OUuid g); VI l0; VI l1; VI l2]
  = (let* b := compute_kdf_context g l0 l1 l2 in Ok (VB b)).
Proof. exact flow_compute_kdf_context. Qed.
Print Assumptions C02_flow_compute_kdf_context.
Theorem C02_flow_compute_l1_key : forall c u fuel sd g l0 rk h,
  run (W c u) fuel k_flow_compute_l1_key [VB sd; VO (OUuid g); VI l0; VB rk; VO (OHash h)]
  = (let* b := compute_l1_key c h sd g l0 rk in Ok (VB b)).
Proof. exact flow_compute_l1_key. Qed.
Print Assumptions C02_flow_compute_l1_key.
(* compute_l2_key, against the regenerated kernel the model instantiates (K := res bytes, kdf := kdfK): for every kernel
   fuel n that suffices and every interpreter fuel above it *)
Theorem C02_flow_compute_l2_key_kernel : forall c u h l1 l2 e (n fuel : nat), (n < fuel)%nat ->
  k_compute_l2_key (kdfK c h (gke_rkid e) (gke_l0 e)) n l1 l2 (gke_l1 e) (gke_l2 e) (Ok (gke_l1_key e)) (Ok (gke_l2_key e))
    <> Raise OutOfFuel ->
  run (W c u) fuel k_flow_compute_l2_key [VO (OHash h); VI l1; VI l2; VO (OEnv e)]
  = (let* b := match k_compute_l2_key (kdfK c h (gke_rkid e) (gke_l0 e)) n l1 l2 (gke_l1 e) (gke_l2 e)
                       (Ok (gke_l1_key e)) (Ok (gke_l2_key e)) with Ok r => r | Raise x => Raise x end in Ok (VB b)).
Proof. exact flow_l2_kernel. Qed.
Print Assumptions C02_flow_compute_l2_key_kernel.
(* against the model function: whenever the model's own fuel (L2_FUEL) suffices, every larger interpreter fuel gives the
   model's answer *)
Theorem C02_flow_compute_l2_key : forall c u fuel h l1 l2 e,
  (L2_FUEL < fuel)%nat -> compute_l2_key c h l1 l2 e <> Raise OutOfFuel ->
  run (W c u) fuel k_flow_compute_l2_key [VO (OHash h); VI l1; VI l2; VO (OEnv e)]
  = (let* b := compute_l2_key c h l1 l2 e in Ok (VB b)).
Proof. exact flow_compute_l2_key. Qed.
Print Assumptions C02_flow_compute_l2_key.
(* which it does for every envelope with indices up to 100 (MS-GKDI: up to 31), whatever is requested *)
Theorem C02_flow_l2_fuel_enough : forall c h l1 l2 e,
  gke_l1 e <= 100 -> gke_l2 e <= 100 -> compute_l2_key c h l1 l2 e <> Raise OutOfFuel.
Proof. exact l2_fuel_enough. Qed.
Print Assumptions C02_flow_l2_fuel_enough.

(* composed with C02_model_chain / C02_noncover: what the SOURCE computes, with the loops run by the interpreter *)
Theorem C02_flow_chain : forall c u fuel h (top : res bytes) e l1 l2,
  conforming (kdfK c h (gke_rkid e) (gke_l0 e)) top (env_of e) ->
  0 <= l1 <= 31 -> 0 <= l2 <= 31 -> covers (env_of e) l1 l2 -> (L2_FUEL < fuel)%nat ->
  run (W c u) fuel k_flow_compute_l2_key [VO (OHash h); VI l1; VI l2; VO (OEnv e)]
  = (let* b := K2 (kdfK c h (gke_rkid e) (gke_l0 e)) top l1 l2 in Ok (VB b)).
Proof. exact flow_compute_l2_key_chain. Qed.
Print Assumptions C02_flow_chain.
Theorem C02_flow_noncover : forall c u fuel h e l1 l2,
  ~ (0 <= l1 <= 31 /\ 0 <= l2 <= 31 /\ (gke_l1 e > l1 \/ (gke_l1 e = l1 /\ gke_l2 e >= l2))) -> (0 < fuel)%nat ->
  run (W c u) fuel k_flow_compute_l2_key [VO (OHash h); VI l1; VI l2; VO (OEnv e)] = Raise ValueError.
Proof. exact flow_compute_l2_key_noncover. Qed.
Print Assumptions C02_flow_noncover.

(* ---- the top of the chain, from the ROOT KEY BYTES (Spec/GkdiRootSpec.v, written from MS-GKDI 3.1.4.1.2 and SP800-108:
   context = RootKeyId || L0 || L1 || L2 as signed 32-bit little-endian, label "KDS service\0" in UTF-16-LE, 64 octets;
   L0 seed from the root key with (L0,-1,-1); L1(31) from the L0 seed with (L0,31,-1) || target SD; then down the L1 and
   L2 chains).  res_of maps a specification value to Ok and "an index has no signed 32-bit encoding" to OverflowError. ---- *)
From V Require Import Prelude.PyInt gen.Consts Spec.GkdiRootSpec Proofs.C02Root Proofs.C02RootFlow.

(* the KDF context, for ALL arguments: the specified bytes, or OverflowError exactly when an index is out of range *)
Theorem C02_kdf_context_layout : forall rkid l0 l1 l2,
  compute_kdf_context rkid l0 l1 l2 = res_of (kdf_context rkid l0 l1 l2).
Proof. exact kdf_context_layout. Qed.
Print Assumptions C02_kdf_context_layout.
Theorem C02_kdf_context_in_range : forall rkid l0 l1 l2, i32 l0 -> i32 l1 -> i32 l2 ->
  exists a b c, i32le l0 = Some a /\ i32le l1 = Some b /\ i32le l2 = Some c /\
    compute_kdf_context rkid l0 l1 l2 = Ok (rkid ++ a ++ b ++ c) /\ len (rkid ++ a ++ b ++ c) = len rkid + 12.
Proof. exact kdf_context_in_range. Qed.
Print Assumptions C02_kdf_context_in_range.
Theorem C02_kdf_context_out_of_range : forall rkid l0 l1 l2, ~ (i32 l0 /\ i32 l1 /\ i32 l2) ->
  compute_kdf_context rkid l0 l1 l2 = Raise OverflowError.
Proof. exact kdf_context_out_of_range. Qed.
Print Assumptions C02_kdf_context_out_of_range.
(* the model's signed encoder is two's complement; the label constant regenerated from the library is the specified one *)
Theorem C02_i32le : forall z, to_bytes_le_signed 4 z = res_of (i32le z).
Proof. exact i32le_spec. Qed.
Print Assumptions C02_i32le.
Theorem C02_label : kds_label = c_KDS_SERVICE_LABEL.
Proof. exact label_spec. Qed.
Print Assumptions C02_label.
Example C02_i32le_examples : i32le (-1) = Some [255; 255; 255; 255] /\ i32le 31 = Some [31; 0; 0; 0] /\
  i32le 361 = Some [105; 1; 0; 0] /\ i32le (-2147483648) = Some [0; 0; 0; 128] /\ i32le 2147483648 = None.
Proof. exact i32le_examples. Qed.

(* compute_l1_key is the specification's L1 key at index 31 derived from the root key, for ALL arguments *)
Theorem C02_root : forall (c : Crypto) (h : hash) (root_key target_sd rkid : bytes) (l0 : Z),
  compute_l1_key c h target_sd rkid l0 root_key = res_of (L1_31 (kdf c) h root_key target_sd rkid l0).
Proof. exact root_l1. Qed.
Print Assumptions C02_root.

(* the abstract chain of the theorems above, started at top := compute_l1_key(..), is the byte-level hierarchy *)
Theorem C02_root_K2 : forall (c : Crypto) (h : hash) (root_key target_sd rkid : bytes) (l0 i j : Z),
  K2 (kdfK c h rkid l0) (compute_l1_key c h target_sd rkid l0 root_key) i j = res_of (L2 (kdf c) h root_key target_sd rkid l0 i j).
Proof. exact K2_spec. Qed.
Print Assumptions C02_root_K2.

(* composition with C02_model_chain: from ANY conforming envelope covering the request, the key at (l1, l2) is the
   specification's iterated KDF from the root key bytes *)
Theorem C02_root_chain : forall (c : Crypto) (h : hash) (root_key target_sd : bytes) (e : envelope) (l1 l2 : Z),
  conforming (kdfK c h (gke_rkid e) (gke_l0 e)) (compute_l1_key c h target_sd (gke_rkid e) (gke_l0 e) root_key) (env_of e) ->
  0 <= l1 <= 31 -> 0 <= l2 <= 31 -> covers (env_of e) l1 l2 ->
  compute_l2_key c h l1 l2 e = res_of (L2 (kdf c) h root_key target_sd (gke_rkid e) (gke_l0 e) l1 l2).
Proof. exact root_chain. Qed.
Print Assumptions C02_root_chain.
(* in particular from the (31, 31) envelope whose L1 key the library derived from the root key *)
Theorem C02_root_envelope_chain : forall (c : Crypto) (h : hash) (root_key target_sd : bytes) (e : envelope) (l1 l2 : Z),
  gke_l1 e = 31 -> gke_l2 e = 31 ->
  compute_l1_key c h target_sd (gke_rkid e) (gke_l0 e) root_key = Ok (gke_l1_key e) ->
  0 <= l1 <= 31 -> 0 <= l2 <= 31 ->
  compute_l2_key c h l1 l2 e = res_of (L2 (kdf c) h root_key target_sd (gke_rkid e) (gke_l0 e) l1 l2).
Proof. exact root_envelope_chain. Qed.
Print Assumptions C02_root_envelope_chain.
(* non-vacuity: with L0 in the signed 32-bit range every key of the hierarchy exists (nothing is OverflowError) *)
Theorem C02_root_defined : forall (c : Crypto) (h : hash) (root_key target_sd rkid : bytes) (l0 i j : Z),
  i32 l0 -> 0 <= i <= 31 -> 0 <= j <= 31 -> exists k, L2 (kdf c) h root_key target_sd rkid l0 i j = Some k.
Proof. exact L2_defined. Qed.
Print Assumptions C02_root_defined.

(* the same for what the SOURCE computes (interpreter runs of the regenerated bodies) *)
Theorem C02_flow_root : forall c u fuel sd g l0 rk h,
  run (W c u) fuel k_flow_compute_l1_key [VB sd; VO (OUuid g); VI l0; VB rk; VO (OHash h)]
  = (let* b := res_of (L1_31 (kdf c) h rk sd g l0) in Ok (VB b)).
Proof. exact flow_root_l1. Qed.
Print Assumptions C02_flow_root.
Theorem C02_flow_root_chain : forall c u fuel h root_key target_sd e l1 l2,
  conforming (kdfK c h (gke_rkid e) (gke_l0 e)) (compute_l1_key c h target_sd (gke_rkid e) (gke_l0 e) root_key) (env_of e) ->
  0 <= l1 <= 31 -> 0 <= l2 <= 31 -> covers (env_of e) l1 l2 -> (L2_FUEL < fuel)%nat ->
  run (W c u) fuel k_flow_compute_l2_key [VO (OHash h); VI l1; VI l2; VO (OEnv e)]
  = (let* b := res_of (L2 (kdf c) h root_key target_sd (gke_rkid e) (gke_l0 e) l1 l2) in Ok (VB b)).
Proof. exact flow_root_chain. Qed.
Print Assumptions C02_flow_root_chain.
