(* C08 -- SID and target security descriptor bytes follow MS-DTYP for every SID; near-miss strings are
   rejected with ValueError. Statements only. *)
From V Require Import Prelude.Base Prelude.PyInt gen.K_sd gen.C_sd Model.Types Model.SecDesc Spec.Dtyp.
From V Require Import Proofs.SecDescRegex Proofs.SecDescK.

(* the regex in sid_to_bytes is the pattern ^S-([0-9])-([0-9]+)(?:-[0-9]+){1,15}\Z the grammar theorems are about *)
Theorem C08_regex : k_sid_regex = expected_regex.
Proof. exact regex_is_expected. Qed.
Print Assumptions C08_regex.

(* the explicit range tests of sid_to_bytes *)
Theorem C08_range_tests : (forall a, k_sid_auth_bad a = negb (a <? 2 ^ 48)) /\ (forall x, k_sid_sub_bad x = negb (x <? 2 ^ 32)).
Proof. exact (conj auth_range_test sub_range_test). Qed.
Print Assumptions C08_range_tests.
