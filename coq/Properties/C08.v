(* C08 -- SID and target security descriptor bytes follow MS-DTYP for every SID; near-miss strings are
   rejected with ValueError. Statements only; proofs in Proofs/SecDesc*.v.
   Model/SecDesc.v models sid_to_bytes / ace_to_bytes / acl_to_bytes / sd_to_bytes / SIDDescriptor.get_target_sd;
   its regex literal, range tests, widths, byte orders, header length, control bits, offset arithmetic, owner /
   group / Everyone strings and masks are regenerated from the source (gen/K_sd.v); Spec/Dtyp.v is the independent
   strict parser written from MS-DTYP 2.4.2.2 / 2.4.4 / 2.4.5 / 2.4.6. *)
From V Require Import Prelude.Base Prelude.PyInt gen.K_sd gen.C_sd Model.Types Model.SecDesc Spec.Dtyp.
From V Require Import Proofs.SecDescRegex Proofs.SecDescK Proofs.SecDescStr Proofs.SecDescLayout Proofs.SecDescMain Proofs.SecDescZeros.

(* ---- K: what the regenerated source fragments are ----------------------------------------------------------- *)

(* the regex in sid_to_bytes is the pattern ^S-([0-9])-([0-9]+)(?:-[0-9]+){1,15}\Z the grammar theorems are about *)
Theorem C08_regex : k_sid_regex =
  [94; 83; 45; 40; 91; 48; 45; 57; 93; 41; 45; 40; 91; 48; 45; 57; 93; 43; 41; 40; 63; 58; 45; 91; 48; 45; 57; 93; 43; 41;
   123; 49; 44; 49; 53; 125; 92; 90].
Proof. exact regex_is_expected. Qed.
Print Assumptions C08_regex.

(* the explicit range tests of sid_to_bytes: authority < 2^48, every sub-authority < 2^32 *)
Theorem C08_range_tests : (forall a, k_sid_auth_bad a = negb (a <? 2 ^ 48)) /\ (forall x, k_sid_sub_bad x = negb (x <? 2 ^ 32)).
Proof. exact (conj auth_range_test sub_range_test). Qed.
Print Assumptions C08_range_tests.

(* split on "-", sub-authorities from index 3, authority 8 bytes big-endian (two top bytes overwritten), sub-authorities and
   mask 4 bytes little-endian, 20-byte header, SELF_RELATIVE | SACL_PRESENT | DACL_PRESENT bits, running offsets,
   owner = group = "S-1-5-18", ACEs (value, 3) and ("S-1-1-0", 2) *)
Theorem C08_kernel_constants :
  k_sid_split_sep = [45] /\ k_sid_first_sub = 3 /\
  k_sid_auth_width = 8 /\ k_sid_auth_order = [98; 105; 103] /\
  k_sid_sub_width = 4 /\ k_sid_sub_order = [108; 105; 116; 116; 108; 101] /\
  k_ace_mask_width = 4 /\ k_ace_mask_order = [108; 105; 116; 116; 108; 101] /\
  k_sd_header_len = 20 /\ k_sd_control0 = 32768 /\ k_sd_sacl_off0 = 0 /\ k_sd_dacl_off0 = 0 /\
  k_sd_control_sacl k_sd_control0 = 32768 + 16 /\ k_sd_control_dacl k_sd_control0 = 32768 + 4 /\
  k_sd_control_dacl (k_sd_control_sacl k_sd_control0) = 32768 + 16 + 4 /\
  (forall o n, k_sd_off_sacl o n = o + n) /\ (forall o n, k_sd_off_dacl o n = o + n) /\ (forall o n, k_sd_off_owner o n = o + n) /\
  k_tsd_owner = [83; 45; 49; 45; 53; 45; 49; 56] /\ k_tsd_group = [83; 45; 49; 45; 53; 45; 49; 56] /\
  k_tsd_everyone = [83; 45; 49; 45; 49; 45; 48] /\ k_tsd_mask_target = 3 /\ k_tsd_mask_everyone = 2.
Proof. exact kernel_constants. Qed.
Print Assumptions C08_kernel_constants.

(* the model reproduces the byte vectors the current implementation computed at regeneration time (gen/C_sd.v): the test
   suite's 5-sub-authority SID, an ACE, a two-ACE ACL, an SD with SACL and DACL, a target SD *)
Theorem C08_vectors :
  sid_to_bytes str_sid5 = Ok c_sd_vec_sid /\
  ace_to_bytes k_tsd_everyone 2 = Ok c_sd_vec_ace /\
  (let* a1 := ace_to_bytes k_tsd_owner 1 in let* a2 := ace_to_bytes k_tsd_everyone 2 in acl_to_bytes [a1; a2]) = Ok c_sd_vec_acl /\
  (let* a1 := ace_to_bytes k_tsd_owner 1 in let* a2 := ace_to_bytes k_tsd_everyone 2 in sd_to_bytes k_tsd_owner str_admins [a1] [a2]) = Ok c_sd_vec_sd_sacl /\
  get_target_sd str_target = Ok c_sd_vec_target.
Proof. exact vectors. Qed.
Print Assumptions C08_vectors.

(* ---- the entry points in terms of the structured functions ----------------------------------------------------- *)

(* ProtectionDescriptor.parse(value).get_target_sd() = target_sd of the parsed SID, or the parser's exception *)
Theorem C08_entry_points : forall str,
  sid_to_bytes str = (let* s := sid_parse str in Ok (sid_bytes s)) /\
  get_target_sd str = (let* s := sid_parse str in Ok (target_sd s)).
Proof. exact (fun str => conj eq_refl (get_target_sd_spec str)). Qed.
Print Assumptions C08_entry_points.

(* ---- P ------------------------------------------------------------------------------------------------------------ *)

(* For every SID with 1..15 sub-authorities, revision 0..9, authority < 2^48, sub-authorities < 2^32 (wf_sid), the independent
   parser decodes the target SD to: SELF_RELATIVE | DACL_PRESENT, owner and group LOCAL_SYSTEM, no SACL, a DACL of revision 2
   with exactly [ACCESS_ALLOWED mask 3 for the SID; ACCESS_ALLOWED mask 2 for Everyone]. Success of the strict parser means:
   reserved bytes zero, AceSize / AclSize / AceCount add up exactly, every offset inside the buffer behind the header, regions
   disjoint and covering the buffer; sd_gkdi_order: components contiguous in the order Dacl, Owner, Group. *)
Theorem C08_layout : forall s, wf_sid s = true ->
  parse_sd (target_sd s) = Some
    {| sd_control := SE_SELF_RELATIVE + SE_DACL_PRESENT;
       sd_owner := Some LOCAL_SYSTEM; sd_group := Some LOCAL_SYSTEM;
       sd_sacl := None;
       sd_dacl := Some {| l_rev := ACL_REVISION;
                          l_aces := [ {| a_type := ACCESS_ALLOWED_ACE_TYPE; a_flags := 0; a_mask := 3;
                                         a_sid := {| d_rev := sid_rev s; d_auth := sid_auth s; d_subs := sid_subs s |} |};
                                      {| a_type := ACCESS_ALLOWED_ACE_TYPE; a_flags := 0; a_mask := 2; a_sid := EVERYONE |} ] |};
       sd_gkdi_order := true |}.
Proof. exact layout. Qed.
Print Assumptions C08_layout.

(* the binary SID alone: revision, count, 48-bit big-endian authority, little-endian sub-authorities, nothing left over *)
Theorem C08_sid_layout : forall s rest, wf_sid s = true ->
  parse_sid (sid_bytes s ++ rest) = Some ({| d_rev := sid_rev s; d_auth := sid_auth s; d_subs := sid_subs s |}, rest)
  /\ len (sid_bytes s) = 8 + 4 * len (sid_subs s).
Proof. exact (fun s rest H => conj (parse_sid_app s rest H) (len_sid_bytes s)). Qed.
Print Assumptions C08_sid_layout.

Example C08_layout_hyp : wf_sid {| sid_rev := 1; sid_auth := 5; sid_subs := [21; 4151808797; 3430561092; 2843464588; 1104] |} = true
  /\ wf_sid {| sid_rev := 9; sid_auth := 2 ^ 48 - 1; sid_subs := repeat (2 ^ 32 - 1) 15 |} = true.
Proof. split; reflexivity. Qed.

(* distinct SIDs give distinct SID bytes and distinct target SDs *)
Theorem C08_injective : forall s1 s2, wf_sid s1 = true -> wf_sid s2 = true ->
  (sid_bytes s1 = sid_bytes s2 -> s1 = s2) /\ (target_sd s1 = target_sd s2 -> s1 = s2).
Proof. exact (fun s1 s2 H1 H2 => conj (sid_bytes_inj s1 s2 H1 H2) (target_sd_inj s1 s2 H1 H2)). Qed.
Print Assumptions C08_injective.

(* the canonical string of every SID of the domain is accepted and parses back to it *)
Theorem C08_parse_print : forall s, wf_sid s = true -> sid_parse (sid_print s) = Ok s.
Proof. exact parse_print. Qed.
Print Assumptions C08_parse_print.

(* the recogniser accepts exactly the grammar S-d-d+(-d+){1,15} over ASCII digits, whole string *)
Theorem C08_grammar : forall str, sid_match str = true <->
  exists (r : Z) (a : pystr) (subs : list pystr),
    is_digit r = true /\ digit_str a = true /\ (1 <= length subs <= 15)%nat /\ forallb digit_str subs = true /\
    str = [83; 45; r; 45] ++ a ++ concat (map (cons 45) subs).
Proof. exact sid_match_iff. Qed.
Print Assumptions C08_grammar.

(* Every rejection is ValueError (for sid_to_bytes and for get_target_sd). Every accepted string is in the grammar, its
   numbers are in range and written with at most 4300 digits each (short_str: CPython's int() refuses longer decimal strings,
   leading zeros counted), the result carries exactly the values of its parts (so zero-padded parts denote the same SID), the
   result is in the domain of C08_layout, and its canonical string parses to the same SID. *)
Theorem C08_rejects : forall str,
  (forall e, sid_parse str = Raise e -> e = ValueError) /\
  (forall e, get_target_sd str = Raise e -> e = ValueError) /\
  (forall s, sid_parse str = Ok s ->
     (exists (r : Z) (a : pystr) (subs : list pystr),
        str = [83; 45; r; 45] ++ a ++ concat (map (cons 45) subs) /\
        is_digit r = true /\ digit_str a = true /\ (1 <= length subs <= 15)%nat /\ forallb digit_str subs = true /\
        sid_rev s = r - 48 /\ sid_auth s = dec_val 0 a /\ sid_subs s = map (dec_val 0) subs /\
        dec_val 0 a < 2 ^ 48 /\ forallb (fun p => dec_val 0 p <? 2 ^ 32) subs = true /\
        short_str a = true /\ forallb short_str subs = true)
     /\ wf_sid s = true /\ sid_parse (sid_print s) = Ok s).
Proof.
  exact (fun str => conj (sid_parse_raises str) (conj (get_target_sd_raises str)
    (fun s H => conj (sid_parse_accepts str s H) (conj (sid_parse_wf str s H) (parse_print s (sid_parse_wf str s H)))))).
Qed.
Print Assumptions C08_rejects.

(* conversely every string of the grammar whose numbers are in range and written with at most 4300 digits each is accepted:
   leading zeros are NOT rejected (Windows accepts them too) up to that length *)
Theorem C08_accepts : forall (r : Z) (a : pystr) (subs : list pystr),
  is_digit r = true -> digit_str a = true -> (1 <= length subs <= 15)%nat -> forallb digit_str subs = true ->
  dec_val 0 a < 2 ^ 48 -> forallb (fun p => dec_val 0 p <? 2 ^ 32) subs = true ->
  short_str a = true -> forallb short_str subs = true ->
  sid_parse ([83; 45; r; 45] ++ a ++ concat (map (cons 45) subs)) =
    Ok {| sid_rev := r - 48; sid_auth := dec_val 0 a; sid_subs := map (dec_val 0) subs |}.
Proof. exact sid_parse_complete. Qed.
Print Assumptions C08_accepts.

(* and a string of the grammar one of whose numeric parts has more than 4300 digits is refused with ValueError whatever its
   value (int() raises before the range tests): a non-canonical spelling only, the canonical string of a SID of the domain
   has at most 15 digits per part (C08_parse_print) *)
Theorem C08_int_digit_limit : forall (r : Z) (a : pystr) (subs : list pystr),
  is_digit r = true -> digit_str a = true -> (1 <= length subs <= 15)%nat -> forallb digit_str subs = true ->
  short_str a && forallb short_str subs = false ->
  sid_parse ([83; 45; r; 45] ++ a ++ concat (map (cons 45) subs)) = Raise ValueError.
Proof. exact sid_parse_too_long. Qed.
Print Assumptions C08_int_digit_limit.

(* "S-1-5-" 0{4298} "18" (4300 digits) is S-1-5-18; one more zero (4301 digits) is refused; the same in the authority *)
Example C08_ex_digit_limit :
  short_str (repeat 48 4298 ++ [49; 56]) = true /\ short_str (repeat 48 4299 ++ [49; 56]) = false /\
  sid_parse ([83; 45; 49; 45; 53; 45] ++ repeat 48 4298 ++ [49; 56]) = Ok {| sid_rev := 1; sid_auth := 5; sid_subs := [18] |} /\
  sid_parse ([83; 45; 49; 45; 53; 45] ++ repeat 48 4299 ++ [49; 56]) = Raise ValueError /\
  sid_parse ([83; 45; 49; 45] ++ repeat 48 4299 ++ [53; 45; 49; 56]) = Ok {| sid_rev := 1; sid_auth := 5; sid_subs := [18] |} /\
  sid_parse ([83; 45; 49; 45] ++ repeat 48 4300 ++ [53; 45; 49; 56]) = Raise ValueError.
Proof. repeat split; vm_compute; reflexivity. Qed.

(* an accepted string is the canonical string of its SID up to leading zeros of its numeric parts: sid_print of the result is
   the accepted string with every part stripped of leading '0' (strip0 keeps the last character, so "000" -> "0") *)
Theorem C08_leading_zeros : forall str s, sid_parse str = Ok s ->
  exists (r : Z) (a : pystr) (subs : list pystr),
    str = [83; 45; r; 45] ++ a ++ concat (map (cons 45) subs) /\
    sid_print s = [83; 45; r; 45] ++ strip0 a ++ concat (map (fun p => 45 :: strip0 p) subs).
Proof. exact accepted_up_to_zeros. Qed.
Print Assumptions C08_leading_zeros.

Example C08_strip0_ex : strip0 [48; 48; 49; 48] = [49; 48] /\ strip0 [48; 48; 48] = [48] /\ strip0 [53] = [53].
Proof. repeat split; reflexivity. Qed.

(* ---- the property's near-miss list ----------------------------------------------------------------------------------- *)
(* "S-1-5": no sub-authority *)
Example C08_ex_n0 : sid_parse [83; 45; 49; 45; 53] = Raise ValueError /\ get_target_sd [83; 45; 49; 45; 53] = Raise ValueError.
Proof. split; vm_compute; reflexivity. Qed.

(* "S-1-5-1-2-...-16": sixteen sub-authorities *)
Example C08_ex_n16 : sid_parse [83; 45; 49; 45; 53; 45; 49; 45; 50; 45; 51; 45; 52; 45; 53; 45; 54; 45; 55; 45; 56; 45; 57; 45; 49; 48; 45; 49; 49; 45; 49; 50; 45; 49; 51; 45; 49; 52; 45; 49; 53; 45; 49; 54] = Raise ValueError /\ get_target_sd [83; 45; 49; 45; 53; 45; 49; 45; 50; 45; 51; 45; 52; 45; 53; 45; 54; 45; 55; 45; 56; 45; 57; 45; 49; 48; 45; 49; 49; 45; 49; 50; 45; 49; 51; 45; 49; 52; 45; 49; 53; 45; 49; 54] = Raise ValueError.
Proof. split; vm_compute; reflexivity. Qed.

(* "S-1-5-4294967296": sub-authority 2^32 (was OverflowError) *)
Example C08_ex_sub_2_32 : sid_parse [83; 45; 49; 45; 53; 45; 52; 50; 57; 52; 57; 54; 55; 50; 57; 54] = Raise ValueError /\ get_target_sd [83; 45; 49; 45; 53; 45; 52; 50; 57; 52; 57; 54; 55; 50; 57; 54] = Raise ValueError.
Proof. split; vm_compute; reflexivity. Qed.

(* "S-1-281474976710656-1": authority 2^48 (was silently truncated to 0) *)
Example C08_ex_auth_2_48 : sid_parse [83; 45; 49; 45; 50; 56; 49; 52; 55; 52; 57; 55; 54; 55; 49; 48; 54; 53; 54; 45; 49] = Raise ValueError /\ get_target_sd [83; 45; 49; 45; 50; 56; 49; 52; 55; 52; 57; 55; 54; 55; 49; 48; 54; 53; 54; 45; 49] = Raise ValueError.
Proof. split; vm_compute; reflexivity. Qed.

(* "S-1-18446744073709551616-1": authority 2^64 (was OverflowError) *)
Example C08_ex_auth_2_64 : sid_parse [83; 45; 49; 45; 49; 56; 52; 52; 54; 55; 52; 52; 48; 55; 51; 55; 48; 57; 53; 53; 49; 54; 49; 54; 45; 49] = Raise ValueError /\ get_target_sd [83; 45; 49; 45; 49; 56; 52; 52; 54; 55; 52; 52; 48; 55; 51; 55; 48; 57; 53; 53; 49; 54; 49; 54; 45; 49] = Raise ValueError.
Proof. split; vm_compute; reflexivity. Qed.

(* "S-1-5-18446744073709551616": sub-authority 2^64 *)
Example C08_ex_sub_2_64 : sid_parse [83; 45; 49; 45; 53; 45; 49; 56; 52; 52; 54; 55; 52; 52; 48; 55; 51; 55; 48; 57; 53; 53; 49; 54; 49; 54] = Raise ValueError /\ get_target_sd [83; 45; 49; 45; 53; 45; 49; 56; 52; 52; 54; 55; 52; 52; 48; 55; 51; 55; 48; 57; 53; 53; 49; 54; 49; 54] = Raise ValueError.
Proof. split; vm_compute; reflexivity. Qed.

(* "S-1-5-18\n": trailing newline (was accepted as S-1-5-18) *)
Example C08_ex_newline : sid_parse [83; 45; 49; 45; 53; 45; 49; 56; 10] = Raise ValueError /\ get_target_sd [83; 45; 49; 45; 53; 45; 49; 56; 10] = Raise ValueError.
Proof. split; vm_compute; reflexivity. Qed.

(* "S-1-5-" U+0661 U+0662: Arabic-Indic digits (was accepted as S-1-5-12) *)
Example C08_ex_arabic_indic : sid_parse [83; 45; 49; 45; 53; 45; 1633; 1634] = Raise ValueError /\ get_target_sd [83; 45; 49; 45; 53; 45; 1633; 1634] = Raise ValueError.
Proof. split; vm_compute; reflexivity. Qed.

(* "S-" U+FF11 "-5-18": fullwidth digit as revision *)
Example C08_ex_fullwidth_rev : sid_parse [83; 45; 65297; 45; 53; 45; 49; 56] = Raise ValueError /\ get_target_sd [83; 45; 65297; 45; 53; 45; 49; 56] = Raise ValueError.
Proof. split; vm_compute; reflexivity. Qed.

(* "S-1-5-+18": sign *)
Example C08_ex_plus : sid_parse [83; 45; 49; 45; 53; 45; 43; 49; 56] = Raise ValueError /\ get_target_sd [83; 45; 49; 45; 53; 45; 43; 49; 56] = Raise ValueError.
Proof. split; vm_compute; reflexivity. Qed.

(* "S-1-5--18": sign / empty part *)
Example C08_ex_minus : sid_parse [83; 45; 49; 45; 53; 45; 45; 49; 56] = Raise ValueError /\ get_target_sd [83; 45; 49; 45; 53; 45; 45; 49; 56] = Raise ValueError.
Proof. split; vm_compute; reflexivity. Qed.

(* "S-1-5- 18": blank inside *)
Example C08_ex_blank_inner : sid_parse [83; 45; 49; 45; 53; 45; 32; 49; 56] = Raise ValueError /\ get_target_sd [83; 45; 49; 45; 53; 45; 32; 49; 56] = Raise ValueError.
Proof. split; vm_compute; reflexivity. Qed.

(* " S-1-5-18": leading blank *)
Example C08_ex_blank_lead : sid_parse [32; 83; 45; 49; 45; 53; 45; 49; 56] = Raise ValueError /\ get_target_sd [32; 83; 45; 49; 45; 53; 45; 49; 56] = Raise ValueError.
Proof. split; vm_compute; reflexivity. Qed.

(* "S-1-5-18 ": trailing blank *)
Example C08_ex_blank_trail : sid_parse [83; 45; 49; 45; 53; 45; 49; 56; 32] = Raise ValueError /\ get_target_sd [83; 45; 49; 45; 53; 45; 49; 56; 32] = Raise ValueError.
Proof. split; vm_compute; reflexivity. Qed.

(* "S-1-5-": empty last part *)
Example C08_ex_empty_last : sid_parse [83; 45; 49; 45; 53; 45] = Raise ValueError /\ get_target_sd [83; 45; 49; 45; 53; 45] = Raise ValueError.
Proof. split; vm_compute; reflexivity. Qed.

(* "S-1--18": empty authority *)
Example C08_ex_empty_auth : sid_parse [83; 45; 49; 45; 45; 49; 56] = Raise ValueError /\ get_target_sd [83; 45; 49; 45; 45; 49; 56] = Raise ValueError.
Proof. split; vm_compute; reflexivity. Qed.

(* "S--5-18": empty revision *)
Example C08_ex_empty_rev : sid_parse [83; 45; 45; 53; 45; 49; 56] = Raise ValueError /\ get_target_sd [83; 45; 45; 53; 45; 49; 56] = Raise ValueError.
Proof. split; vm_compute; reflexivity. Qed.

(* "S-10-5-18": two-digit revision *)
Example C08_ex_rev2 : sid_parse [83; 45; 49; 48; 45; 53; 45; 49; 56] = Raise ValueError /\ get_target_sd [83; 45; 49; 48; 45; 53; 45; 49; 56] = Raise ValueError.
Proof. split; vm_compute; reflexivity. Qed.

(* "s-1-5-18": lower-case prefix *)
Example C08_ex_lower : sid_parse [115; 45; 49; 45; 53; 45; 49; 56] = Raise ValueError /\ get_target_sd [115; 45; 49; 45; 53; 45; 49; 56] = Raise ValueError.
Proof. split; vm_compute; reflexivity. Qed.

(* the empty string *)
Example C08_ex_empty : sid_parse [] = Raise ValueError /\ get_target_sd [] = Raise ValueError.
Proof. split; vm_compute; reflexivity. Qed.

(* leading zeros are accepted, as Windows does, and denote the same SID: "S-1-05-018" *)
Example C08_ex_leading_zeros : sid_parse [83; 45; 49; 45; 48; 53; 45; 48; 49; 56] = Ok {| sid_rev := 1; sid_auth := 5; sid_subs := [18] |}
  /\ sid_parse [83; 45; 49; 45; 48; 53; 45; 48; 49; 56] = sid_parse [83; 45; 49; 45; 53; 45; 49; 56] /\ get_target_sd [83; 45; 49; 45; 48; 53; 45; 48; 49; 56] = get_target_sd [83; 45; 49; 45; 53; 45; 49; 56].
Proof. repeat split; vm_compute; reflexivity. Qed.

(* the largest SID of the property's domain is accepted: S-9-(2^48-1)-(2^32-1) x 15 *)
Example C08_ex_max : sid_parse [83; 45; 57; 45; 50; 56; 49; 52; 55; 52; 57; 55; 54; 55; 49; 48; 54; 53; 53; 45; 52; 50; 57; 52; 57; 54; 55; 50; 57; 53; 45; 52; 50; 57; 52; 57; 54; 55; 50; 57; 53; 45; 52; 50; 57; 52; 57; 54; 55; 50; 57; 53; 45; 52; 50; 57; 52; 57; 54; 55; 50; 57; 53; 45; 52; 50; 57; 52; 57; 54; 55; 50; 57; 53; 45; 52; 50; 57; 52; 57; 54; 55; 50; 57; 53; 45; 52; 50; 57; 52; 57; 54; 55; 50; 57; 53; 45; 52; 50; 57; 52; 57; 54; 55; 50; 57; 53; 45; 52; 50; 57; 52; 57; 54; 55; 50; 57; 53; 45; 52; 50; 57; 52; 57; 54; 55; 50; 57; 53; 45; 52; 50; 57; 52; 57; 54; 55; 50; 57; 53; 45; 52; 50; 57; 52; 57; 54; 55; 50; 57; 53; 45; 52; 50; 57; 52; 57; 54; 55; 50; 57; 53; 45; 52; 50; 57; 52; 57; 54; 55; 50; 57; 53; 45; 52; 50; 57; 52; 57; 54; 55; 50; 57; 53] = Ok {| sid_rev := 9; sid_auth := 2 ^ 48 - 1; sid_subs := repeat (2 ^ 32 - 1) 15 |}.
Proof. vm_compute; reflexivity. Qed.

(* ---- flows: the source functions themselves, regenerated as syntax (gen/F_sd.v), compute the model functions above ------ *)
(* World: Flow/World_sd.v. re.compile / .match := the model's recogniser sid_match for the pattern k_sid_regex (C08_regex,
   C08_grammar); int() on a str := py_int (ASCII digits, at most 4300 of them); .split("-") := split_on; data[i] = v := set_item (bytearray item store);
   sid_to_bytes / acl_to_bytes as callees := the model functions tied below. No hypothesis on the arguments other than their
   Python classes (str, int, list of bytes, Optional list of bytes); any fuel (the only loop is a `for`). *)
From V Require Import Prelude.PyAst Prelude.PyWorld gen.F_sd Flow.World_sd Proofs.Flow_sd_enc.
Theorem C08_flow_sid_to_bytes : forall fuel s,
  run W fuel k_flow_sid_to_bytes [VS s] = lift (sid_to_bytes s).
Proof. exact flow_sid_to_bytes. Qed.
Print Assumptions C08_flow_sid_to_bytes.

Theorem C08_flow_ace_to_bytes : forall fuel sid access_mask,
  run W fuel k_flow_ace_to_bytes [VS sid; VI access_mask] = lift (ace_to_bytes sid access_mask).
Proof. exact flow_ace_to_bytes. Qed.
Print Assumptions C08_flow_ace_to_bytes.

Theorem C08_flow_acl_to_bytes : forall fuel aces,
  run W fuel k_flow_acl_to_bytes [vlist aces] = lift (acl_to_bytes aces).
Proof. exact flow_acl_to_bytes. Qed.
Print Assumptions C08_flow_acl_to_bytes.

(* sacl / dacl : Optional[List[bytes]]; None and [] both take the `if sacl:` else-branch (acl_of maps both to []) *)
Theorem C08_flow_sd_to_bytes : forall fuel owner group sacl dacl,
  run W fuel k_flow_sd_to_bytes [VS owner; VS group; vacl sacl; vacl dacl]
  = lift (sd_to_bytes owner group (acl_of sacl) (acl_of dacl)).
Proof. exact flow_sd_to_bytes. Qed.
Print Assumptions C08_flow_sd_to_bytes.

(* SIDDescriptor.get_target_sd (_blob.py; flow listed in vlib/ktab/asn1.py under C05 and C08, world Flow/World_cms.v whose
   callees ace_to_bytes / sd_to_bytes are the model functions tied above; lemma in Proofs/Flow_cms_sd.v): the method computes
   Model.SecDesc.get_target_sd of the descriptor's SID string, the function C08_entry_points / C08_layout are about *)
From V Require Import Prelude.PyAstMut gen.F_asn1.
From V Require Flow.World_cms Proofs.Flow_cms_sd.
Theorem C08_flow_get_target_sd : forall fuel sid,
  run_mut World_cms.MW fuel k_flow_SIDDescriptor_get_target_sd [VO (World_cms.OSidDesc sid)]
  = let* b := get_target_sd sid in Ok (VB b, [VO (World_cms.OSidDesc sid)]).
Proof. exact Flow_cms_sd.flow_SIDDescriptor_get_target_sd. Qed.
Print Assumptions C08_flow_get_target_sd.
