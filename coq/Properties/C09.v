(* C09 -- Encryption names the group key of the interval containing the current time.
   Statements only; k_now/k_l0/k_l1/k_l2 are regenerated from _get_protection_gke_from_cache. *)
From V Require Import Prelude.Base gen.Kernels Model.Interval Proofs.C09.
From V Require Import Model.Types Model.Crypto Model.KeyId Model.Kek Model.SecDesc Model.Blob Model.Client Proofs.BlobPkcs7 Proofs.BlobMain Proofs.C01Lib Proofs.C01 Proofs.C09Propagates.

(* t is FILETIME (100 ns units since 1601); B = 3.6e11 *)
Theorem C09_interval : forall t, 0 <= t ->
  k_l0 t = t / (1024 * B) /\ k_l1 t = (t / (32 * B)) mod 32 /\ k_l2 t = (t / B) mod 32.
Proof. exact interval_floor. Qed.
Print Assumptions C09_interval.

(* never a past or future interval: the named interval contains t, indices in range *)
Theorem C09_contains : forall t, 0 <= t ->
  let p := 1024 * k_l0 t + 32 * k_l1 t + k_l2 t in
  B * p <= t < B * (p + 1) /\ 0 <= k_l0 t /\ 0 <= k_l1 t < 32 /\ 0 <= k_l2 t < 32.
Proof. exact interval_contains. Qed.
Print Assumptions C09_contains.

Theorem C09_unique : forall t a b c, 0 <= t -> 0 <= b < 32 -> 0 <= c < 32 ->
  B * (1024 * a + 32 * b + c) <= t < B * (1024 * a + 32 * b + c + 1) ->
  (a, b, c) = (k_l0 t, k_l1 t, k_l2 t).
Proof. exact interval_unique. Qed.
Print Assumptions C09_unique.

(* the clock conversion, and the composed model function from time.time_ns() *)
Theorem C09_from_clock : forall ns, 0 <= ns ->
  let t := ns / 100 + 116444736000000000 in
  interval_of_time_ns ns = (t / (1024 * B), (t / (32 * B)) mod 32, (t / B) mod 32).
Proof. exact model_interval. Qed.
Print Assumptions C09_from_clock.

(* non-vacuity: one tick before an L0 boundary *)
Example C09_boundary_example :
  let t := 362 * (1024 * B) - 1 in 0 <= t /\ t / (1024 * B) = 361 /\ (t / (32 * B)) mod 32 = 31 /\ (t / B) mod 32 = 31.
Proof. vm_compute. intuition discriminate. Qed.

(* ---- the source function tied to the model (flow): the regenerated _get_protection_gke_from_cache, run in the world of
   Flow/World_e2e.v in which time.time_ns() returns time_ns, returns the envelope Model/Client.v protection_gke_from_cache
   returns, whose (l0, l1, l2) are interval_of_time_ns time_ns (the cache after the call is not a return value) *)
From V Require Import Prelude.PyAst Prelude.PyWorld gen.F_e2e Model.Client Flow.World_e2e Proofs.Flow_e2e_gke.
(* ---- last clause of the property: the key identifier PLACED IN A NEW BLOB names that interval. For every successful offline protect
   call at time_ns (hypotheses of C01_roundtrip_offline), the blob parses back to a key identifier whose (L0, L1, L2) is the interval
   of time_ns and whose root key id is the requested one ---- *)
Theorem C09_propagates : forall (c : Crypto) (h : hash) (rk : root_key) (rkid : bytes) (s : sid) (sid : pystr) (time_ns l0 l1 l2 : Z),
  rk_hash rk = Ok h -> rk_kdf_alg rk = STR_KDF_ALG -> len rkid = 16 -> sid_parse sid = Ok s -> sid_okb sid = true ->
  0 <= time_ns -> interval_of_time_ns time_ns = (l0, l1, l2) -> kdf_nonempty c ->
  forall (cache : ccache) (r1 r2 r3 data blob : bytes) (cache1 : ccache),
  cache_ok c h rk rkid (target_sd s) l0 cache -> len r2 = 12 -> len r3 = 32 ->
  (forall kek w, derived_kek c h rk rkid (target_sd s) l0 l1 l2 r3 = Ok kek -> kw_wrap c kek r1 = Ok w -> len w < U32) ->
  (forall ct, gcm_enc c r1 r2 data = Ok ct -> len ct < U32) ->
  protect_offline c cache r1 r2 r3 data sid (Some rkid) time_ns = (Ok blob, cache1) ->
  exists b, blob_unpack blob = Ok b /\
    kid_l0 (b_key_identifier b) = l0 /\ kid_l1 (b_key_identifier b) = l1 /\ kid_l2 (b_key_identifier b) = l2 /\
    kid_rkid (b_key_identifier b) = rkid.
Proof. exact propagates. Qed.
Print Assumptions C09_propagates.

Theorem C09_flow_get_protection_gke_from_cache : forall c rnd_cek rnd_iv rnd_kek time_ns fuel rkid target_sd cache,
  run (WR c rnd_cek rnd_iv rnd_kek time_ns) fuel k_flow_get_protection_gke_from_cache [vopt_uuid rkid; VB target_sd; VO (OCache cache)]
  = (let* (e, _) := protection_gke_from_cache c cache rkid target_sd time_ns in Ok (vopt_env e)).
Proof. exact flow_get_protection_gke_from_cache. Qed.
Print Assumptions C09_flow_get_protection_gke_from_cache.
