(* C09 -- Encryption names the group key of the interval containing the current time.
   Statements only; k_now/k_l0/k_l1/k_l2 are regenerated from _get_protection_gke_from_cache. *)
From V Require Import Prelude.Base gen.Kernels Model.Interval Proofs.C09.

(* t is FILETIME (100 ns units since 1601); B = 3.6e11 *)
Theorem C09_interval : forall t, 0 <= t ->
  k_l0 t = t / (1024 * B) /\ k_l1 t = (t / (32 * B)) mod 32 /\ k_l2 t = (t / B) mod 32.
Proof. exact interval_floor. Qed.
Print Assumptions C09_interval.

(* never a past or future interval: the named interval contains t, indices in range *)
Theorem C09_contains : forall t, 0 <= t ->
  let p := 1024 * k_l0 t + 32 * k_l1 t + k_l2 t in
  B * p <= t < B * (p + 1) /\ 0 <= k_l0 t /\ 0 <= k_l1 t < 32 /\ 0 <= k_l2 t < 32.
Proof. exact interval_contains. Qed.
Print Assumptions C09_contains.

Theorem C09_unique : forall t a b c, 0 <= t -> 0 <= b < 32 -> 0 <= c < 32 ->
  B * (1024 * a + 32 * b + c) <= t < B * (1024 * a + 32 * b + c + 1) ->
  (a, b, c) = (k_l0 t, k_l1 t, k_l2 t).
Proof. exact interval_unique. Qed.
Print Assumptions C09_unique.

(* the clock conversion, and the composed model function from time.time_ns() *)
Theorem C09_from_clock : forall ns, 0 <= ns ->
  let t := ns / 100 + 116444736000000000 in
  interval_of_time_ns ns = (t / (1024 * B), (t / (32 * B)) mod 32, (t / B) mod 32).
Proof. exact model_interval. Qed.
Print Assumptions C09_from_clock.

(* non-vacuity: one tick before an L0 boundary *)
Example C09_boundary_example :
  let t := 362 * (1024 * B) - 1 in 0 <= t /\ t / (1024 * B) = 361 /\ (t / (32 * B)) mod 32 = 31 /\ (t / B) mod 32 = 31.
Proof. vm_compute. intuition discriminate. Qed.

(* ---- the source function tied to the model (flow): the regenerated _get_protection_gke_from_cache, run in the world of
   Flow/World_e2e.v in which time.time_ns() returns time_ns, returns the envelope Model/Client.v protection_gke_from_cache
   returns, whose (l0, l1, l2) are interval_of_time_ns time_ns (the cache after the call is not a return value) *)
From V Require Import Prelude.PyAst Prelude.PyWorld gen.F_e2e Model.Client Flow.World_e2e Proofs.Flow_e2e_gke.
Theorem C09_flow_get_protection_gke_from_cache : forall c rnd_cek rnd_iv rnd_kek time_ns fuel rkid target_sd cache,
  run (WR c rnd_cek rnd_iv rnd_kek time_ns) fuel k_flow_get_protection_gke_from_cache [vopt_uuid rkid; VB target_sd; VO (OCache cache)]
  = (let* (e, _) := protection_gke_from_cache c cache rkid target_sd time_ns in Ok (vopt_env e)).
Proof. exact flow_get_protection_gke_from_cache. Qed.
Print Assumptions C09_flow_get_protection_gke_from_cache.
