(* C18 -- endpoint-mapper replies: right port if well-formed, bounded work for any reply. Statements only. *)
From V Require Import Prelude.Base gen.K_rpc gen.C_rpc Proofs.RpcKernels.

(* the count guard regenerated from EptMapResult.unpack admits exactly the counts whose referent array fits *)
Theorem C18_count_guard : forall tower_count n,
  k_eptres_count_guard (k_referent_skip tower_count) n = false <-> 48 + 8 * tower_count <= n.
Proof. exact (fun c n => eq_ind_r (fun x => k_eptres_count_guard x n = false <-> 48 + 8 * c <= n) (count_guard_spec (8 * c) n) (referent_skip_spec c)). Qed.
Print Assumptions C18_count_guard.
