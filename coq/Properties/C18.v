(* C18 -- endpoint-mapper replies: right port if well-formed, bounded work for any reply. Statements only.
   ndr64_eptmap_reply (Spec/Ndr64Epm.v) is the independent NDR64 reference marshaller of an ept_map reply
   (running-offset alignment, C706 tower encoding); wf_reply: the entry handle is a context handle, counts and
   lengths fit their wire widths, every floor's lhs/rhs fit their 2-octet counts, UUID floors carry a UUID. *)
From V Require Import Prelude.Base Prelude.PyInt Spec.Ndr64Epm gen.K_rpc gen.C_rpc.
From V Require Import Model.Pdu Model.Request Model.RpcLoop Model.Bind Model.Epm.
From V Require Import Proofs.RpcKernels Proofs.RpcEpm Proofs.RpcC18 Proofs.RpcExamples Proofs.RpcTotal.

(* the count guard regenerated from EptMapResult.unpack admits exactly the counts whose referent array fits *)
Theorem C18_count_guard : forall tower_count n,
  k_eptres_count_guard (k_referent_skip tower_count) n = false <-> 48 + 8 * tower_count <= n.
Proof. exact (fun c n => eq_ind_r (fun x => k_eptres_count_guard x n = false <-> 48 + 8 * c <= n) (count_guard_spec (8 * c) n) (referent_skip_spec c)). Qed.
Print Assumptions C18_count_guard.

(* every well-formed reply (any number of towers, floors of known or unknown protocols, hence every tower
   length and alignment padding, any max_towers / status): all towers and floors are decoded as sent, and the
   client returns the port of the first TCP floor in tower order; non-zero status or no TCP floor: ValueError *)
Theorem C18_port : forall h max_towers towers status fuel, wf_reply h max_towers towers status = true ->
  (length (ndr64_eptmap_reply h max_towers towers status) <= fuel)%nat ->
  ept_map_result_unpack fuel (ndr64_eptmap_reply h max_towers towers status)
    = Ok ({| er_entry_handle := h; er_towers := map (map floor_of_spec) towers; er_status := status |}, tower_ticks towers)
  /\ process_ept_map_result fuel (ndr64_eptmap_reply h max_towers towers status)
    = if status =? 0 then match spec_tcp_port towers with Some p => Ok (p, tower_ticks towers) | None => Raise ValueError end
      else Raise ValueError.
Proof. exact c18_reply. Qed.
Print Assumptions C18_port.

(* a decoded floor is exactly the (protocol, lhs, rhs) sent; it is a TCP floor iff its identifier is 0x07 *)
Theorem C18_floor_as_sent : forall p l r, fl_protocol (floor_of_spec (p, l, r)) = p /\ fl_lhs (floor_of_spec (p, l, r)) = l
  /\ fl_rhs (floor_of_spec (p, l, r)) = r
  /\ floor_tcp_port (floor_of_spec (p, l, r)) = if p =? tcp_protocol_id then Some (be_val r) else None.
Proof. exact (fun p l r => conj eq_refl (conj eq_refl (conj eq_refl (floor_tcp_port_spec p l r)))). Qed.
Print Assumptions C18_floor_as_sent.

(* ANY reply (arbitrary octets, any announced tower / floor counts): with fuel = length + 1 the decoder never runs
   out of fuel (it terminates), the loop iterations (towers + floors) are at most the length of the reply, and at
   most length / 8 towers are kept (memory) *)
Theorem C18_linear : forall bs fuel, len bs < Z.of_nat fuel ->
  ept_map_result_unpack fuel bs <> Raise OutOfFuel /\
  forall m t, ept_map_result_unpack fuel bs = Ok (m, t) -> 0 <= t <= len bs /\ 8 * len (er_towers m) <= len bs.
Proof. exact ept_map_result_unpack_total. Qed.
Print Assumptions C18_linear.

Theorem C18_linear_process : forall bs fuel, len bs < Z.of_nat fuel ->
  process_ept_map_result fuel bs <> Raise OutOfFuel /\
  forall port t, process_ept_map_result fuel bs = Ok (port, t) -> 0 <= t <= len bs.
Proof. exact process_ept_map_result_total. Qed.
Print Assumptions C18_linear_process.

Example C18_example : wf_reply None 4 ex_towers 0 = true /\ spec_tcp_port ex_towers = Some 49664
  /\ wf_reply None 4 ex_towers 382312662 = true.
Proof. exact example_reply. Qed.

(* ---- flows: Floor.* and EptMapResult.pack / unpack of _epm.py, regenerated as syntax on every run (gen/F_rpc.v) and run
   in the world Flow/World_rpc.v, ARE the model functions (floor_unpack, ept_map_result_unpack ..) the theorems above are
   about; conventions as in Properties/C12.v. ---- *)
From V Require Import Prelude.PyAst Prelude.PyWorld gen.F_rpc Model.Verification Flow.World_rpc Proofs.Flow_rpc_lib Proofs.Flow_rpc_epm.
From V Require Import Prelude.PySlice.
Local Open Scope list_scope.
Local Open Scope Z_scope.
Theorem C18_flow_floor_pack : forall mf fuel f, run (W mf) fuel k_flow_floor_pack [VO (OFloor f)] = chk (floor_generic_ranges (floor_protocol f) (fl_lhs f) (fl_rhs f)) (floor_generic_pack (floor_protocol f) (fl_lhs f) (fl_rhs f)).
Proof. exact flow_floor_pack. Qed.
Print Assumptions C18_flow_floor_pack.
Theorem C18_flow_floor_pack_generic : forall mf fuel f, fl_kind f = FK_Generic -> run (W mf) fuel k_flow_floor_pack [VO (OFloor f)] = chk (floor_ranges f) (floor_pack f).
Proof. exact flow_floor_pack_generic. Qed.
Print Assumptions C18_flow_floor_pack_generic.
Theorem C18_flow_floor_unpack : forall mf fuel data, run (W mf) fuel k_flow_floor_unpack [VO (OCls CFloor); VB data] = (let* f := floor_unpack data in Ok (VO (OFloor f))).
Proof. exact flow_floor_unpack. Qed.
Print Assumptions C18_flow_floor_unpack.
Theorem C18_flow_tcpfloor_pack : forall mf fuel f port, fl_kind f = FK_TCP port -> run (W mf) fuel k_flow_tcpfloor_pack [VO (OFloor f)] = chk (floor_ranges f) (floor_pack f).
Proof. exact flow_tcpfloor_pack. Qed.
Print Assumptions C18_flow_tcpfloor_pack.
Theorem C18_flow_tcpfloor_unpack : forall mf fuel lhs rhs, run (W mf) fuel k_flow_tcpfloor_unpack [VO (OCls CTCPFloor); VB lhs; VB rhs] = Ok (VO (OFloor (known_floor (FK_TCP (be_val rhs))))).
Proof. exact flow_tcpfloor_unpack. Qed.
Print Assumptions C18_flow_tcpfloor_unpack.
Theorem C18_flow_ipfloor_pack : forall mf fuel f addr, fl_kind f = FK_IP addr -> run (W mf) fuel k_flow_ipfloor_pack [VO (OFloor f)] = chk (floor_ranges f) (floor_pack f).
Proof. exact flow_ipfloor_pack. Qed.
Print Assumptions C18_flow_ipfloor_pack.
Theorem C18_flow_ipfloor_unpack : forall mf fuel lhs rhs, run (W mf) fuel k_flow_ipfloor_unpack [VO (OCls CIPFloor); VB lhs; VB rhs] = Ok (VO (OFloor (known_floor (FK_IP (be_val rhs))))).
Proof. exact flow_ipfloor_unpack. Qed.
Print Assumptions C18_flow_ipfloor_unpack.
Theorem C18_flow_rpccofloor_pack : forall mf fuel f vm, fl_kind f = FK_RPC_CO vm -> run (W mf) fuel k_flow_rpccofloor_pack [VO (OFloor f)] = chk (floor_ranges f) (floor_pack f).
Proof. exact flow_rpccofloor_pack. Qed.
Print Assumptions C18_flow_rpccofloor_pack.
Theorem C18_flow_rpccofloor_unpack : forall mf fuel lhs rhs, run (W mf) fuel k_flow_rpccofloor_unpack [VO (OCls CRPCConnectionOrientedFloor); VB lhs; VB rhs] = Ok (VO (OFloor (known_floor (FK_RPC_CO (le_val rhs))))).
Proof. exact flow_rpccofloor_unpack. Qed.
Print Assumptions C18_flow_rpccofloor_unpack.
Theorem C18_flow_uuidfloor_pack : forall mf fuel f u v vm, fl_kind f = FK_UUID u v vm -> run (W mf) fuel k_flow_uuidfloor_pack [VO (OFloor f)] = chk (floor_ranges f) (floor_pack f).
Proof. exact flow_uuidfloor_pack. Qed.
Print Assumptions C18_flow_uuidfloor_pack.
Theorem C18_flow_uuidfloor_unpack : forall mf fuel lhs rhs, run (W mf) fuel k_flow_uuidfloor_unpack [VO (OCls CUUIDFloor); VB lhs; VB rhs] = (let* u := uuid_of_bytes_le (slice None (Some 16) lhs) in Ok (VO (OFloor (known_floor (FK_UUID u (le_val (slice (Some 16) (Some 18) lhs)) (le_val rhs)))))).
Proof. exact flow_uuidfloor_unpack. Qed.
Print Assumptions C18_flow_uuidfloor_unpack.
Theorem C18_flow_eptmapresult_unpack : forall mf mfuel fuel data, ept_map_result_unpack mfuel data <> Raise OutOfFuel -> run (W mf) fuel k_flow_eptmapresult_unpack [VO (OCls CEptMapResult); VB data] = lift_fst OEptMapResult (ept_map_result_unpack mfuel data).
Proof. exact flow_eptmapresult_unpack. Qed.
Print Assumptions C18_flow_eptmapresult_unpack.
Theorem C18_flow_eptmapresult_pack : forall mf fuel m, ept_map_result_ranges m = true -> run (W mf) fuel k_flow_eptmapresult_pack [VO (OEptMapResult m)] = Ok (VB (ept_map_result_pack m)).
Proof. exact flow_eptmapresult_pack. Qed.
Print Assumptions C18_flow_eptmapresult_pack.
Theorem C18_flow_wf_floor_ranges : forall f, wf_floor f = true -> floor_ranges f = true.
Proof. exact wf_floor_ranges. Qed.
Print Assumptions C18_flow_wf_floor_ranges.
Theorem C18_flow_wf_eptres_ranges : forall m, wf_ept_map_result m = true -> ept_map_result_ranges m = true.
Proof. exact wf_eptres_ranges. Qed.
Print Assumptions C18_flow_wf_eptres_ranges.
Theorem C18_flow_eptmapresult_unpack_total : forall mf mfuel fuel data, len data < Z.of_nat mfuel -> run (W mf) fuel k_flow_eptmapresult_unpack [VO (OCls CEptMapResult); VB data] = lift_fst OEptMapResult (ept_map_result_unpack mfuel data).
Proof. exact flow_eptmapresult_unpack_total. Qed.
Print Assumptions C18_flow_eptmapresult_unpack_total.

(* ---- flow: _client._process_ept_map_result itself (the function C18_port and C18_linear_process are about), regenerated as syntax on
   every run (gen/F_online.v) and run in the world Flow/World_online.v (EptMapResult.unpack := ept_map_result_unpack with the model's loop
   fuel efuel; isinstance(floor, TCPFloor) := the floor is a TCP floor), IS Epm.process_ept_map_result ---- *)
From V Require Import gen.F_online Model.Conversation Flow.World_online Proofs.Flow_online_ept.
Theorem C18_flow_process_ept_map_result : forall wrap unwrap prov legs dc efuel server username password auth_protocol tr fuel rsp,
  run (WO wrap unwrap prov legs dc efuel server username password auth_protocol tr) fuel k_flow_process_ept_map_result [VO (World_online.OResp rsp)]
  = (let* (p, _) := process_ept_map_result efuel (rs_stub_data rsp) in Ok (VI p)).
Proof. exact flow_process_ept_map_result. Qed.
Print Assumptions C18_flow_process_ept_map_result.
