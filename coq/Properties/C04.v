(* C04 -- a modified blob never decrypts to different plaintext. Statements only; proofs in Proofs/C04.v.
   ASSUMED, NOT PROVED: ciphertext integrity (INT-CTXT) of AES key wrap and AES-GCM. It enters as
   * IdealLaws c: decryption succeeds only on images of encryption under the same key (and nonce), and encryption is
     jointly injective (the idealisation of Model/Crypto.v), and
   * the explicit premise NoForgery X w0 ct0 cek0 B' about the modified blob B' (Proofs/C04.v):
       (i)  if the wrapped-key field of B' unwraps under the KEK that get_kek derives while unprotect processes B' with
            the cache X, then that field is w0, the wrapped key of the original blob;
       (ii) if the content of B' decrypts under the original CEK cek0 (any nonce), then it is ct0, the original content;
     i.e. B' carries no NEW valid image under a key derivable from the root key / under the CEK.
   PROVED: the library routes the right slices to the primitives -- the wrapped CEK, the ciphertext with its tag, the
   nonce read from the parameters, the KEK from target SD / root key id / L0-L2 / key_info of the blob -- so that under
   these premises, for ANY byte string B' and ANY cache X, unprotect returns an error or the original plaintext,
   whatever else was changed. C04_no_other_plaintext_keyed is the variant in which NoForgery also names the key and the
   nonce (as in DESIGN 7); it needs only the round-trip laws. Hypotheses on the protect call as in C01. *)
From Coq Require Import String.
From V Require Import Prelude.Base Prelude.PyInt Prelude.PyStr.
From V Require Import Model.Types Model.Crypto Model.Sym Model.KeyId Model.Gkdi Model.Kek Model.SecDesc Model.Blob Model.CryptoWrap Model.Interval Model.Client.
From V Require Import Spec.GkdiSpec Spec.KekSpec.
From V Require Import Proofs.GkdiLib Proofs.BlobPkcs7 Proofs.BlobMain Proofs.C01Lib Proofs.C01 Proofs.C04.
From V Require Import Prelude.PyAst Prelude.PyWorld gen.F_e2e Flow.World_e2e Proofs.Flow_e2e_dec.

Theorem C04_no_other_plaintext : forall (c : Crypto) (h : hash) (rk : root_key) (rkid : bytes) (s : sid) (sid : pystr) (time_ns l0 l1 l2 : Z)
    (cache : ccache) (r1 r2 r3 data B : bytes) (cache1 : ccache) (b0 : blob),
  rk_hash rk = Ok h -> rk_kdf_alg rk = STR_KDF_ALG -> len rkid = 16 ->
  sid_parse sid = Ok s -> sid_okb sid = true -> 0 <= time_ns -> interval_of_time_ns time_ns = (l0, l1, l2) ->
  kdf_nonempty c -> cache_ok c h rk rkid (target_sd s) l0 cache -> len r2 = 12 -> len r3 = 32 ->
  (forall kek w, derived_kek c h rk rkid (target_sd s) l0 l1 l2 r3 = Ok kek -> kw_wrap c kek r1 = Ok w -> len w < U32) ->
  (forall ct, gcm_enc c r1 r2 data = Ok ct -> len ct < U32) ->
  protect_offline c cache r1 r2 r3 data sid (Some rkid) time_ns = (Ok B, cache1) ->
  blob_unpack B = Ok b0 ->
  IdealLaws c ->
  forall (X : ccache) (B' p' : bytes),
  NoForgery c X (b_enc_cek b0) (b_enc_content b0) r1 B' ->
  fst (unprotect_offline c X B') = Ok p' -> p' = data.
Proof. exact no_other_plaintext. Qed.
Print Assumptions C04_no_other_plaintext.

Theorem C04_no_other_plaintext_keyed : forall (c : Crypto) (h : hash) (rk : root_key) (rkid : bytes) (s : sid) (sid : pystr) (time_ns l0 l1 l2 : Z)
    (cache : ccache) (r1 r2 r3 data B : bytes) (cache1 : ccache) (b0 : blob),
  rk_hash rk = Ok h -> rk_kdf_alg rk = STR_KDF_ALG -> len rkid = 16 ->
  sid_parse sid = Ok s -> sid_okb sid = true -> 0 <= time_ns -> interval_of_time_ns time_ns = (l0, l1, l2) ->
  kdf_nonempty c -> cache_ok c h rk rkid (target_sd s) l0 cache -> len r2 = 12 -> len r3 = 32 ->
  (forall kek w, derived_kek c h rk rkid (target_sd s) l0 l1 l2 r3 = Ok kek -> kw_wrap c kek r1 = Ok w -> len w < U32) ->
  (forall ct, gcm_enc c r1 r2 data = Ok ct -> len ct < U32) ->
  protect_offline c cache r1 r2 r3 data sid (Some rkid) time_ns = (Ok B, cache1) ->
  blob_unpack B = Ok b0 ->
  CryptoLaws c ->
  forall (X : ccache) (B' p' kek0 : bytes),
  derived_kek c h rk rkid (target_sd s) l0 l1 l2 r3 = Ok kek0 ->
  NoForgeryKeyed c X (b_enc_cek b0) kek0 (b_enc_content b0) r1 r2 B' ->
  fst (unprotect_offline c X B') = Ok p' -> p' = data.
Proof. exact no_other_plaintext_keyed. Qed.
Print Assumptions C04_no_other_plaintext_keyed.

(* the benign changes in general ("possible only when the change touched fields that influence neither keys nor ciphertext"):
   a blob whose value differs from the original only in the key-identifier version, flag bits other than bit 0 and the domain /
   forest names (same_key_fields: L0, L1, L2, root key id, key_info and flag bit 0 unchanged) still decrypts to the plaintext *)
Theorem C04_benign_fields : forall (c : Crypto) (h : hash) (rk : root_key) (rkid : bytes) (s : sid) (sid : pystr) (time_ns l0 l1 l2 : Z)
    (cache : ccache) (r1 r2 r3 data B : bytes) (cache1 : ccache) (b0 : blob),
  rk_hash rk = Ok h -> rk_kdf_alg rk = STR_KDF_ALG -> len rkid = 16 ->
  sid_parse sid = Ok s -> sid_okb sid = true -> 0 <= time_ns -> interval_of_time_ns time_ns = (l0, l1, l2) ->
  kdf_nonempty c -> cache_ok c h rk rkid (target_sd s) l0 cache -> len r2 = 12 -> len r3 = 32 ->
  (forall kek w, derived_kek c h rk rkid (target_sd s) l0 l1 l2 r3 = Ok kek -> kw_wrap c kek r1 = Ok w -> len w < U32) ->
  (forall ct, gcm_enc c r1 r2 data = Ok ct -> len ct < U32) ->
  protect_offline c cache r1 r2 r3 data sid (Some rkid) time_ns = (Ok B, cache1) ->
  blob_unpack B = Ok b0 ->
  CryptoLaws c ->
  forall (X : ccache) (B' : bytes) (kid' : key_identifier),
  same_key_fields (b_key_identifier b0) kid' -> blob_unpack B' = Ok (with_kid b0 kid') ->
  cache_ok c h rk rkid (target_sd s) l0 X -> fst (unprotect_offline c X B') = Ok data.
Proof. exact benign_fields. Qed.
Print Assumptions C04_benign_fields.

(* the routing itself, for any wrapped key / content pair: whatever B' is, a successful unprotect unwrapped the
   wrapped-key field of B' under the KEK derived from B''s own key identifier and SID, read the nonce from B''s
   parameters and decrypted B''s content under the unwrapped key *)
Theorem C04_routing : forall c X B' p', fst (unprotect_offline c X B') = Ok p' ->
  exists b' k' cek' n', blob_unpack B' = Ok b' /\ derived_while_processing c X B' k' /\
    kw_unwrap c k' (b_enc_cek b') = Ok cek' /\ gcm_iv_of_parameters (b_enc_content_parameters b') = Ok n' /\
    gcm_dec c cek' n' (b_enc_content b') = Ok p'.
Proof. exact unprotect_inv. Qed.
Print Assumptions C04_routing.

(* ---- tie to the source: the whole bodies of _crypto.cek_decrypt, _crypto.content_decrypt and _client._decrypt_blob,
   regenerated as syntax on every run (gen/F_e2e.v) and run in the world Flow/World_e2e.v, ARE the model functions the
   theorems above are about ---- *)
Theorem C04_flow_cek_decrypt : forall c fuel a p kek v,
  run (W c) fuel k_flow_cek_decrypt [VO (OOid a); vopt_bytes p; VB kek; VB v] = (let* b := cek_decrypt c a p kek v in Ok (VB b)).
Proof. exact flow_cek_decrypt. Qed.
Print Assumptions C04_flow_cek_decrypt.
Theorem C04_flow_content_decrypt : forall c fuel a p cek v,
  run (W c) fuel k_flow_content_decrypt [VO (OOid a); vopt_bytes p; VB cek; VB v] = (let* b := content_decrypt c a p cek v in Ok (VB b)).
Proof. exact flow_content_decrypt. Qed.
Print Assumptions C04_flow_content_decrypt.
Theorem C04_flow_decrypt_blob : forall c fuel b key,
  run (W c) fuel k_flow_decrypt_blob [VO (OBlob b); VO (OEnv key)] = (let* x := decrypt_blob c b key in Ok (VB x)).
Proof. exact flow_decrypt_blob. Qed.
Print Assumptions C04_flow_decrypt_blob.

(* ---- instances (guarded symbolic crypto, which is ideal: C01_symg_laws) ---- *)
(* benign changes, after which the same plaintext is still returned: key-identifier version (1 -> 7); a flag bit other
   than bit 0 (bit 2); version, flag bit 31 and the domain name together *)
Example C04_benign_examples :
  beqb ex_B_version ex_B = false /\ fst (unprotect_offline symg ex_c1 ex_B_version) = Ok ex_data /\
  beqb ex_B_flag ex_B = false /\ fst (unprotect_offline symg ex_c1 ex_B_flag) = Ok ex_data /\
  beqb ex_B_names ex_B = false /\ fst (unprotect_offline symg ex_c1 ex_B_names) = Ok ex_data.
Proof. exact benign_examples. Qed.
(* changes of fields that influence the keys: L2 index (another KEK: the unwrap fails), flag bit 0; a truncated blob *)
Example C04_harmful_examples :
  fst (unprotect_offline symg ex_c1 ex_B_l2) = Raise InvalidUnwrap /\
  (exists e, fst (unprotect_offline symg ex_c1 ex_B_pubflag) = Raise e) /\
  fst (unprotect_offline symg ex_c1 (firstn 100 ex_B)) = Raise NotEnoughData.
Proof. exact harmful_examples. Qed.
(* all hypotheses of C04_no_other_plaintext together: the protect call, the modified blob, NoForgery *)
Example C04_example_protect : protect_offline symg ex_cache ex_r1 ex_r2 ex_r3 ex_data ex_sid (Some ex_rkid) ex_time = (Ok ex_B, ex_c1) /\
  blob_unpack ex_B = Ok ex_b0.
Proof. exact (conj ex_protect ex_unpack). Qed.
Example C04_example_noforgery : NoForgery symg ex_c1 (b_enc_cek ex_b0) (b_enc_content ex_b0) ex_r1 ex_B_version.
Proof. exact ex_noforgery. Qed.
Example C04_example_instance : forall p', fst (unprotect_offline symg ex_c1 ex_B_version) = Ok p' -> p' = ex_data.
Proof. exact ex_no_other_plaintext. Qed.

(* ---- compute_kek (the DH / ECDH exchange of public-key mode, where the repair of D16 validates the peer's key against the GROUP'S
   parameters and range) is tied to the model function the theorems above use through Model/Kek.v: the same tie as C03_flow_compute_kek,
   listed here because a change of those checks is a C04 matter (seeded change C04-dh-exchange-in-group-field-claimed-modulus-r8). ---- *)
Require V.gen.F_gkdi V.Flow.World_gkdi_keys V.Proofs.Flow_gkdi_keys_kek.
Theorem C04_flow_compute_kek : forall c u fuel h alg sp priv pub,
  run (V.Flow.World_gkdi_keys.W c u) fuel V.gen.F_gkdi.k_flow_compute_kek
      [VO (V.Flow.World_gkdi_keys.OHash h); VS alg; VB sp; VB priv; VB pub]
  = (let* b := V.Model.Kek.compute_kek c h alg sp priv pub in Ok (VB b)).
Proof. exact V.Proofs.Flow_gkdi_keys_kek.flow_compute_kek. Qed.
Print Assumptions C04_flow_compute_kek.
