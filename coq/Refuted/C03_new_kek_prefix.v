(* Regression documentation of D13 (C03 / C17 / C01): GroupKeyEnvelope.new_kek as it was before the fix
   (commit 38c07ef in /repo, "fix: new_kek derives the L2 key when the envelope at L2 index 31 carries
   only the L1 key"). In nonce mode the old code handed self.l2_key to the KDF as is. An envelope at
   L2 = 31 may carry only its L1 key (MS-GKDI 2.2.4; it is also the shape the library itself builds from
   a root key), so the encrypting side derived its KEK from the EMPTY key while get_kek derives the L2
   key from the L1 key: the blob could never be unprotected (InvalidUnwrap). This snapshot of the old
   nonce branch is kept apart from the live model (Model/Kek.v follows the repaired source). *)
From V Require Import Prelude.Base Prelude.PyInt gen.Consts gen.C_gkdi gen.K_gkdi.
From V Require Import Model.Types Model.Crypto Model.Sym Model.Chain Model.KeyId Model.Gkdi Model.Kek Proofs.Kek.

Definition new_kek_nonce_prefix (c : Crypto) (urandom : Z -> bytes) (e : envelope) : res (bytes * key_identifier) :=
  let* hash_algo := envelope_hash e in
  let key_info := urandom k_nonce_len in
  let kek := kdf c hash_algo (gke_l2_key e) c_KDS_SERVICE_LABEL key_info k_kek_len_nonce_new in   (* self.l2_key, underived *)
  Ok (kek, {| kid_version := 1; kid_flags := gke_flags e; kid_l0 := gke_l0 e; kid_l1 := gke_l1 e; kid_l2 := gke_l2 e;
              kid_rkid := gke_rkid e; kid_key_info := key_info; kid_domain := gke_domain e; kid_forest := gke_forest e |}).

Definition rnd9 (n : Z) : bytes := repeat 9 (Z.to_nat n).

(* the old code and the decrypting side disagree on the root-derived envelope shape (31, 31, no L2 key) ... *)
Theorem C03_new_kek_prefix_refuted : exists kek kid kek',
  new_kek_nonce_prefix sym rnd9 d13_env = Ok (kek, kid) /\ get_kek sym d13_env kid = Ok kek' /\ kek <> kek'.
Proof.
  do 3 eexists. split; [vm_compute; reflexivity|]. split; [vm_compute; reflexivity|].
  intros H. vm_compute in H. discriminate.
Qed.
(* ... the old KEK was derived from the empty key ... *)
Theorem C03_new_kek_prefix_empty_key : exists kid,
  new_kek_nonce_prefix sym rnd9 d13_env = Ok (kdf sym SHA512 [] c_KDS_SERVICE_LABEL (rnd9 32) 32, kid).
Proof. eexists. vm_compute. reflexivity. Qed.
(* ... while the repaired function agrees with get_kek on the same envelope, and the two versions
   coincide whenever the L2 key field is present *)
Theorem C03_new_kek_repaired_agrees : exists kek kid,
  new_kek sym rnd9 d13_env = Ok (kek, kid) /\ get_kek sym d13_env kid = Ok kek.
Proof. exact d13_repaired. Qed.
Theorem C03_prefix_same_when_present : forall c urandom e, gke_is_public_key e = false -> gke_l2_key e <> [] ->
  new_kek c urandom e = new_kek_nonce_prefix c urandom e.
Proof.
  intros c u e Hp Hk. unfold new_kek, new_kek_nonce_prefix. destruct (envelope_hash e); [|reflexivity]. cbn [bind].
  rewrite Hp. destruct (gke_l2_key e) as [|b r]; [contradiction|]. reflexivity.
Qed.
Print Assumptions C03_new_kek_prefix_refuted.
