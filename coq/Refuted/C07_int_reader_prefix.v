(* Regression documentation of D1 / D2 (C07): the INTEGER reader of _asn1.py as it was before the
   fix: commits 9279f9b (carry) and 16546d3 (empty content). This snapshot of the two's-complement step is kept here,
   apart from the live model: the +1 after complementing looked at the last octet only and, when that
   octet was 0xFF, incremented its neighbour inside a bytearray (range check -> ValueError) instead
   of propagating the carry. The writer emitted exactly the octets this reader refused. *)
From V Require Import Prelude.Base Model.Asn1 gen.K_asn1.

Definition carry_one_prefix (l : list Z) : res (list Z) :=      (* l = reversed b_int *)
  match l with
  | [] => Ok []
  | v :: r =>
    if v =? 255 then
      match r with
      | [] => Raise ValueError                                   (* b_int[-1] is the same octet: 0xFF + 1 *)
      | w :: r' => let* w' := byte_ok (w + 1) in Ok (0 :: w' :: r')
      end
    else Ok ((v + 1) :: r)
  end.
Definition read_int_content_prefix (raw : bytes) : res Z :=
  match raw with
  | [] => Raise IndexError                                       (* b_int[0] on an empty bytearray (D2) *)
  | b0 :: _ =>
    if negb (Z.land b0 128 =? 0) then
      let* c := carry_one_prefix (rev (map (fun x => 255 - x) raw)) in
      Ok (k_int_negate (fold_left k_int_fold (rev c) 0))
    else Ok (fold_left k_int_fold raw 0)
  end.

Theorem C07_int_reader_prefix_refuted :
  exists z c, pack_int_content z = Ok c /\ read_int_content_prefix c <> Ok z /\ read_int_content c = Ok z.
Proof. exists (-65536), [255; 0; 0]. split; [reflexivity|]. split; [vm_compute; discriminate|reflexivity]. Qed.
Theorem C07_int_reader_prefix_more :
  Forall (fun z => match pack_int_content z with Ok c => read_int_content_prefix c = Raise ValueError /\ read_int_content c = Ok z | Raise _ => False end)
         [-65536; -131072; -8388608; -16777216; -4294967296; -18446744073709551616].
Proof. repeat constructor; vm_compute; reflexivity. Qed.
Theorem C07_empty_int_prefix : read_int_content_prefix [] = Raise IndexError /\ read_int_content [] = Raise ValueError.
Proof. split; reflexivity. Qed.
(* on every other content the old and the new reader agree: shown for all contents of at most two octets *)
Theorem C07_prefix_agrees_small :
  forallb (fun a => forallb (fun b =>
     match read_int_content_prefix [a; b], read_int_content [a; b] with
     | Ok x, Ok y => x =? y
     | Raise _, Ok _ => false
     | _, _ => false
     end) (map Z.of_nat (seq 0 256))) (map Z.of_nat (seq 0 256)) = true.
Proof. vm_compute. reflexivity. Qed.
Print Assumptions C07_int_reader_prefix_refuted.
