(* Independent encoder for the MS-GKDI structures, written from the specification
   ([MS-GKDI] 2.2.1 KDF Parameters, 2.2.2 FFC DH Parameters, 2.2.3.1 FFC DH Key, 2.2.3.2 ECDH Key,
   2.2.4 Group Key Envelope; the DPAPI-NG key identifier has the same header shape) and for the
   GetKey (Opnum 0) stubs in NDR64 ([MS-GKDI] 3.1.4.1 IDL, [MS-RPCE] 2.2.5 NDR64 transfer syntax,
   [C706] 14).  The structures are *declarative field tables* interpreted by one generic layout
   function; nothing here refers to the model of the Python code. *)
From V Require Import Prelude.Base.

(* ---------------------------------------------------------------- primitive encodings *)
(* unsigned 32-bit little-endian *)
Definition u32le (z : Z) : option bytes :=
  if (0 <=? z) && (z <? 4294967296)
  then Some [z mod 256; (z / 256) mod 256; (z / 65536) mod 256; (z / 16777216) mod 256] else None.
(* signed 32-bit little-endian, two's complement *)
Definition i32le (z : Z) : option bytes :=
  if (-2147483648 <=? z) && (z <? 2147483648) then u32le (if z <? 0 then z + 4294967296 else z) else None.
(* unsigned 64-bit little-endian *)
Definition u64le (z : Z) : option bytes :=
  if (0 <=? z) && (z <? 18446744073709551616)
  then match u32le (z mod 4294967296), u32le (z / 4294967296) with
       | Some a, Some b => Some (a ++ b) | _, _ => None end
  else None.
(* big-endian integer in exactly n octets, leading zero octets kept *)
Fixpoint be_digits (n : nat) (z : Z) : bytes :=
  match n with O => [] | S n' => be_digits n' (z / 256) ++ [z mod 256] end.
Definition befixed (n z : Z) : option bytes :=
  if (0 <=? n) && (0 <=? z) && (z <? 256 ^ n) then Some (be_digits (Z.to_nat n) z) else None.
(* UTF-16 (RFC 2781) code units of a Unicode scalar value, each unit little-endian *)
Definition is_scalar (c : Z) : bool := (0 <=? c) && (c <=? 1114111) && negb ((55296 <=? c) && (c <=? 57343)).
Definition unit_le (u : Z) : bytes := [u mod 256; u / 256].
Definition utf16_units (c : Z) : bytes :=
  if c <? 65536 then unit_le c
  else unit_le (55296 + (c - 65536) / 1024) ++ unit_le (56320 + (c - 65536) mod 1024).
(* null-terminated Unicode string *)
Definition utf16z (s : list Z) : option bytes :=
  if forallb is_scalar s then Some (flat_map utf16_units s ++ [0; 0]) else None.
Definition guid16 (g : bytes) : option bytes := if len g =? 16 then Some g else None.

(* ---------------------------------------------------------------- field tables *)
Section Layout.
Context {X : Type}.

Inductive field :=
| U32 (v : X -> Z)                      (* 4-byte unsigned little-endian integer *)
| Magic (bs : bytes)                    (* constant bytes *)
| MagicOf (v : X -> option bytes)       (* constant selected by a value (ECDH curve) *)
| Guid (v : X -> bytes)                 (* 16-byte GUID in wire order *)
| Bytes (v : X -> bytes)                (* opaque octets *)
| Utf16z (v : X -> list Z)              (* null-terminated UTF-16-LE string *)
| BEfixed (n : X -> Z) (v : X -> Z)     (* big-endian integer in exactly n octets *)
| LenOf (i : nat)                       (* 4-byte LE: byte length of field number i of the table *)
| TotalLen.                             (* 4-byte LE: byte length of the whole structure *)

(* first pass: every field on its own; length fields as 4-byte placeholders *)
Definition enc1 (x : X) (f : field) : option bytes :=
  match f with
  | U32 v => u32le (v x)
  | Magic bs => Some bs
  | MagicOf v => v x
  | Guid v => guid16 (v x)
  | Bytes v => Some (v x)
  | Utf16z v => utf16z (v x)
  | BEfixed n v => befixed (n x) (v x)
  | LenOf _ | TotalLen => Some [0; 0; 0; 0]
  end.
(* second pass: length fields filled in *)
Definition enc2 (t : list field) (x : X) (total : Z) (f : field) : option bytes :=
  match f with
  | LenOf i => match enc1 x (nth i t (Magic [])) with Some b => u32le (len b) | None => None end
  | TotalLen => u32le total
  | _ => enc1 x f
  end.
Fixpoint all_some {A} (l : list (option A)) : option (list A) :=
  match l with
  | [] => Some []
  | Some a :: r => match all_some r with Some m => Some (a :: m) | None => None end
  | None :: _ => None
  end.
Definition layout (t : list field) (x : X) : option bytes :=
  match all_some (map (enc1 x) t) with
  | None => None
  | Some p =>
    match all_some (map (enc2 t x (len (concat p))) t) with
    | Some fs => Some (concat fs)
    | None => None
    end
  end.
End Layout.
Arguments field X : clear implicits.

(* ---------------------------------------------------------------- the structures *)
(* [MS-GKDI] 2.2.1 KDF Parameters: 00 00 00 00 01 00 00 00 | cbHashName | 00 00 00 00 | HashName *)
Definition KDFParameters_table : list (field (list Z)) :=
  [ Magic [0; 0; 0; 0; 1; 0; 0; 0]; LenOf 3; Magic [0; 0; 0; 0]; Utf16z (fun name => name) ].

(* [MS-GKDI] 2.2.2 FFC DH Parameters: Length | Magic 0x4D504844 "DHPM" | KeyLength | FieldOrder | Generator *)
Record s_ffcdh_params := { sp_key_length : Z; sp_field_order : Z; sp_generator : Z }.
Definition FFCDHParameters_table : list (field s_ffcdh_params) :=
  [ TotalLen; Magic [68; 72; 80; 77]; U32 sp_key_length;
    BEfixed sp_key_length sp_field_order; BEfixed sp_key_length sp_generator ].

(* [MS-GKDI] 2.2.3.1 FFC DH Key: Magic 0x42504844 "DHPB" | KeyLength | FieldOrder | Generator | PublicKey *)
Record s_ffcdh_key := { sk_key_length : Z; sk_field_order : Z; sk_generator : Z; sk_public_key : Z }.
Definition FFCDHKey_table : list (field s_ffcdh_key) :=
  [ Magic [68; 72; 80; 66]; U32 sk_key_length;
    BEfixed sk_key_length sk_field_order; BEfixed sk_key_length sk_generator; BEfixed sk_key_length sk_public_key ].

(* [MS-GKDI] 2.2.3.2 ECDH Key: Magic 0x314B4345 "ECK1" (P256) / 0x334B4345 "ECK3" (P384) /
   0x354B4345 "ECK5" (P521) | KeyLength | X | Y.  curve: 1 = P256, 2 = P384, 3 = P521 *)
Record s_ecdh_key := { se_curve : Z; se_key_length : Z; se_x : Z; se_y : Z }.
Definition ecdh_magic (k : s_ecdh_key) : option bytes :=
  if se_curve k =? 1 then Some [69; 67; 75; 49]
  else if se_curve k =? 2 then Some [69; 67; 75; 51]
  else if se_curve k =? 3 then Some [69; 67; 75; 53] else None.
Definition ECDHKey_table : list (field s_ecdh_key) :=
  [ MagicOf ecdh_magic; U32 se_key_length; BEfixed se_key_length se_x; BEfixed se_key_length se_y ].

(* [MS-GKDI] 2.2.4 Group Key Envelope: Version | Magic 0x4B53444B "KDSK" | dwFlags | L0 | L1 | L2 |
   RootKeyId | cbKDFAlgorithm | cbKDFParameters | cbSecretAgreementAlgorithm | cbSecretAgreementParameters |
   PrivateKeyLength | PublicKeyLength | cbL1Key | cbL2Key | cbDomainName | cbForestName |
   KDFAlgorithm | KDFParameters | SecretAgreementAlgorithm | SecretAgreementParameters |
   DomainName | ForestName | L1Key | L2Key *)
Record s_envelope := {
  sv_version : Z; sv_flags : Z; sv_l0 : Z; sv_l1 : Z; sv_l2 : Z; sv_root_key_id : bytes;
  sv_kdf_algorithm : list Z; sv_kdf_parameters : bytes;
  sv_secret_algorithm : list Z; sv_secret_parameters : bytes;
  sv_private_key_length : Z; sv_public_key_length : Z;
  sv_domain_name : list Z; sv_forest_name : list Z; sv_l1_key : bytes; sv_l2_key : bytes }.
Definition GroupKeyEnvelope_table : list (field s_envelope) :=
  [ U32 sv_version; Magic [75; 68; 83; 75]; U32 sv_flags; U32 sv_l0; U32 sv_l1; U32 sv_l2; Guid sv_root_key_id;
    LenOf 17; LenOf 18; LenOf 19; LenOf 20; U32 sv_private_key_length; U32 sv_public_key_length;
    LenOf 23; LenOf 24; LenOf 21; LenOf 22;
    Utf16z sv_kdf_algorithm; Bytes sv_kdf_parameters; Utf16z sv_secret_algorithm; Bytes sv_secret_parameters;
    Utf16z sv_domain_name; Utf16z sv_forest_name; Bytes sv_l1_key; Bytes sv_l2_key ].

(* DPAPI-NG key identifier (the KEKIdentifier of the CMS blob): the envelope header without the
   algorithm fields: Version | Magic "KDSK" | dwFlags | L0 | L1 | L2 | RootKeyId | cbKeyInfo |
   cbDomainName | cbForestName | KeyInfo | DomainName | ForestName *)
Record s_key_identifier := {
  si_version : Z; si_flags : Z; si_l0 : Z; si_l1 : Z; si_l2 : Z; si_root_key_id : bytes;
  si_key_info : bytes; si_domain_name : list Z; si_forest_name : list Z }.
Definition KeyIdentifier_table : list (field s_key_identifier) :=
  [ U32 si_version; Magic [75; 68; 83; 75]; U32 si_flags; U32 si_l0; U32 si_l1; U32 si_l2; Guid si_root_key_id;
    LenOf 10; LenOf 11; LenOf 12; Bytes si_key_info; Utf16z si_domain_name; Utf16z si_forest_name ].

(* ---------------------------------------------------------------- NDR64 stubs of GetKey (Opnum 0)
   HRESULT GetKey([in] handle_t hBinding, [in] ULONG cbTargetSD,
                  [in] [size_is(cbTargetSD)] [ref] char* pbTargetSD, [in] [unique] GUID* pRootKeyID,
                  [in] LONG L0KeyID, [in] LONG L1KeyID, [in] LONG L2KeyID,
                  [out] unsigned long* pcbOut, [out] [size_is(, *pcbOut)] byte** ppbOut);
   NDR64: primitive types are aligned to their size relative to the start of the stub; conformance
   (maximum count) and pointer referents are 8 bytes aligned to 8; a top-level [ref] pointer has no
   wire representation; the pointee of a top-level [unique] pointer follows its referent. *)
Definition align (n : Z) (buf : bytes) : bytes := buf ++ repeat 0 (Z.to_nat ((- len buf) mod n)).
Definition put (buf : bytes) (o : option bytes) : option bytes :=
  match o with Some b => Some (buf ++ b) | None => None end.
Definition obind {A B} (o : option A) (f : A -> option B) : option B :=
  match o with Some a => f a | None => None end.
Definition NDR64_FIRST_REFERENT : Z := 131072.   (* 0x00020000: any non-zero value denotes non-null *)

Definition ndr64_getkey_request (sd : bytes) (root_key_id : option bytes) (l0 l1 l2 : Z) : option bytes :=
  obind (put [] (u32le (len sd)))                        (fun b =>    (* ULONG cbTargetSD *)
  obind (put (align 8 b) (u64le (len sd)))               (fun b =>    (* conformant array: maximum count *)
  let b := b ++ sd in                                                 (* char elements *)
  obind (match root_key_id with
         | None => put (align 8 b) (u64le 0)                          (* null unique pointer *)
         | Some g => obind (put (align 8 b) (u64le NDR64_FIRST_REFERENT))
                       (fun b => put (align 4 b) (guid16 g))          (* referent, then the GUID *)
         end)                                            (fun b =>
  obind (put (align 4 b) (i32le l0))                     (fun b =>    (* LONG L0KeyID *)
  obind (put (align 4 b) (i32le l1))                     (fun b =>
  put (align 4 b) (i32le l2)))))).

(* reply: pcbOut | ppbOut (unique pointer referent, maximum count, the bytes) | return value *)
Definition ndr64_getkey_reply (out : bytes) (hresult : Z) : option bytes :=
  obind (put [] (u32le (len out)))                       (fun b =>    (* unsigned long *pcbOut *)
  obind (put (align 8 b) (u64le NDR64_FIRST_REFERENT))   (fun b =>    (* *ppbOut referent *)
  obind (put (align 8 b) (u64le (len out)))              (fun b =>    (* maximum count *)
  let b := b ++ out in
  put (align 4 b) (u32le hresult)))).                                 (* HRESULT *)
(* a failing call returns no buffer: pcbOut = 0, *ppbOut = NULL *)
Definition ndr64_getkey_reply_fail (hresult : Z) : option bytes :=
  obind (put [] (u32le 0))                               (fun b =>
  obind (put (align 8 b) (u64le 0))                      (fun b =>
  put (align 4 b) (u32le hresult))).
