(* MS-GKDI 3.1.4.1.2 key hierarchy over an abstract KDF: kdf key a b stands for
   KDF(HashAlg, key, "KDS service", RKID || L0 || a || b [|| SD], 512). Written from the
   specification, independently of the code.  top = Key(SD, RK, L0, 31, -1). *)
From V Require Import Prelude.Base.

Section Chain.
Context {K : Type} (kdf : K -> Z -> Z -> K) (top : K).

Fixpoint K1n (d : nat) : K :=
  match d with O => top | S d' => kdf (K1n d') (31 - Z.of_nat (S d')) (-1) end.
Definition K1 (i : Z) : K := K1n (Z.to_nat (31 - i)).
Fixpoint K2n (i : Z) (d : nat) : K :=
  match d with O => kdf (K1 i) i 31 | S d' => kdf (K2n i d') i (31 - Z.of_nat (S d')) end.
Definition K2 (i j : Z) : K := K2n i (Z.to_nat (31 - j)).

Lemma K1_step i : i < 31 -> K1 i = kdf (K1 (i + 1)) i (-1).
Proof.
  intros H. unfold K1. replace (Z.to_nat (31 - i)) with (S (Z.to_nat (31 - (i + 1)))) by lia.
  cbn [K1n]. f_equal. lia.
Qed.
Lemma K2_top i : K2 i 31 = kdf (K1 i) i 31.
Proof. reflexivity. Qed.
Lemma K2_step i j : j < 31 -> K2 i j = kdf (K2 i (j + 1)) i j.
Proof.
  intros H. unfold K2. replace (Z.to_nat (31 - j)) with (S (Z.to_nat (31 - (j + 1)))) by lia.
  cbn [K2n]. f_equal. lia.
Qed.

(* A group key envelope as far as the chain is concerned *)
Record env := { e_l1 : Z; e_l2 : Z; e_l1key : K; e_l2key : K }.

(* MS-GKDI 2.2.4: the L1 key field holds K1(L1) when L2 = 31 and K1(L1 - 1) otherwise (absent
   when L1 = 0); the L2 key field holds K2(L1, L2) and is optional when L2 = 31. *)
Definition conforming (e : env) : Prop :=
  0 <= e_l1 e <= 31 /\ 0 <= e_l2 e <= 31 /\
  (e_l2 e = 31 -> e_l1key e = K1 (e_l1 e)) /\
  (e_l2 e <> 31 -> e_l2key e = K2 (e_l1 e) (e_l2 e) /\ (0 < e_l1 e -> e_l1key e = K1 (e_l1 e - 1))).

Definition covers (e : env) (l1 l2 : Z) : Prop :=
  e_l1 e > l1 \/ (e_l1 e = l1 /\ e_l2 e >= l2).
Definition coversb (e : env) (l1 l2 : Z) : bool :=
  (e_l1 e >? l1) || ((e_l1 e =? l1) && (e_l2 e >=? l2)).
Lemma coversb_spec e l1 l2 : coversb e l1 l2 = true <-> covers e l1 l2.
Proof. unfold coversb, covers. lia. Qed.

(* the envelope the library builds from a root key: position (31,31), L1 key = top, no L2 key *)
Definition root_env (nokey : K) : env := {| e_l1 := 31; e_l2 := 31; e_l1key := top; e_l2key := nokey |}.
Lemma root_env_conforming nokey : conforming (root_env nokey).
Proof. unfold conforming, root_env; cbn. repeat split; try lia. Qed.
End Chain.
