(* The CMS shape of a DPAPI-NG blob, written from RFC 5652 (ContentInfo 3, EnvelopedData 6.1,
   KEKRecipientInfo 6.2.3, OtherKeyAttribute 10.2.7, EncryptedContentInfo 6.1), RFC 5084 (GCMParameters)
   and the NCryptProtectSecret vectors in tests/data (e.g. kdf_sha512_nonce.json), with literal DER
   content octets for the OIDs and INTEGERs. Independent of the model of _pkcs7.py / _blob.py; shares
   only the value-tree type and its serialisation `encode` with Model/Asn1.v. *)
From V Require Import Prelude.Base Model.Asn1.

Definition U (n : Z) : tag := mk_tag 0 n false.          (* universal, primitive *)
Definition SEQ (l : list asn1) : asn1 := Cons (mk_tag 0 16 true) l.
Definition SET (l : list asn1) : asn1 := Cons (mk_tag 0 17 true) l.
Definition CTX (n : Z) (l : list asn1) : asn1 := Cons (mk_tag 2 n true) l.   (* [n] constructed *)
Definition INT (content : bytes) : asn1 := Prim (U 2) content.
Definition OCT (b : bytes) : asn1 := Prim (U 4) b.
Definition OID (content : bytes) : asn1 := Prim (U 6) content.
Definition UTF8 (content : bytes) : asn1 := Prim (U 12) content.

Definition der_id_enveloped_data : bytes := [42; 134; 72; 134; 247; 13; 1; 7; 3].        (* 1.2.840.113549.1.7.3 *)
Definition der_id_data : bytes := [42; 134; 72; 134; 247; 13; 1; 7; 1].                  (* 1.2.840.113549.1.7.1 *)
Definition der_id_ms_software : bytes := [43; 6; 1; 4; 1; 130; 55; 74; 1].               (* 1.3.6.1.4.1.311.74.1 *)
Definition der_id_pd_sid : bytes := [43; 6; 1; 4; 1; 130; 55; 74; 1; 1].                 (* 1.3.6.1.4.1.311.74.1.1 *)
Definition der_id_aes256_wrap : bytes := [96; 134; 72; 1; 101; 3; 4; 1; 45].             (* 2.16.840.1.101.3.4.1.45 *)
Definition der_id_aes256_gcm : bytes := [96; 134; 72; 1; 101; 3; 4; 1; 46].              (* 2.16.840.1.101.3.4.1.46 *)

(* AlgorithmIdentifier ::= SEQUENCE { algorithm OID, parameters ANY OPTIONAL }; parameters as given octets *)
Definition alg_tree (alg_der : bytes) (params : option bytes) : asn1 :=
  SEQ (OID alg_der :: match params with Some (x :: r) => [Raw (x :: r)] | _ => [] end).
(* SEQ { OID 1.3.6.1.4.1.311.74.1.1, SEQ { SEQ { SEQ { UTF8 "SID", UTF8 sid } } } } *)
Definition pd_tree (sid_utf8 : bytes) : asn1 :=
  SEQ [OID der_id_pd_sid; SEQ [SEQ [SEQ [UTF8 [83; 73; 68]; UTF8 sid_utf8]]]].
Definition enveloped_tree (keyid sid_utf8 enc_cek cek_alg_der : bytes) (cek_params : option bytes)
                          (content content_alg_der : bytes) (content_params : option bytes) : asn1 :=
  SEQ [ INT [2];
        SET [ CTX 2 [ INT [4];
                      SEQ [ OCT keyid; SEQ [ OID der_id_ms_software; pd_tree sid_utf8 ] ];
                      alg_tree cek_alg_der cek_params;
                      OCT enc_cek ] ];
        SEQ (OID der_id_data :: alg_tree content_alg_der content_params ::
             match content with [] => [] | _ => [Prim (mk_tag 2 0 false) content] end) ].
Definition cms_tree (keyid sid_utf8 enc_cek cek_alg_der : bytes) (cek_params : option bytes)
                    (content content_alg_der : bytes) (content_params : option bytes) : asn1 :=
  SEQ [ OID der_id_enveloped_data;
        CTX 0 [ enveloped_tree keyid sid_utf8 enc_cek cek_alg_der cek_params content content_alg_der content_params ] ].

(* what NCryptProtectSecret / _encrypt_blob emit: AES256-wrap without parameters, AES256-GCM with
   GCMParameters ::= SEQUENCE { aes-nonce OCTET STRING, aes-ICVlen INTEGER 16 }, content in the envelope *)
Definition gcm_params_tree (nonce : bytes) : asn1 := SEQ [OCT nonce; INT [16]].
Definition emitted_tree (keyid sid_utf8 enc_cek nonce content : bytes) : asn1 :=
  SEQ [ OID der_id_enveloped_data;
        CTX 0 [ SEQ [ INT [2];
                      SET [ CTX 2 [ INT [4];
                                    SEQ [ OCT keyid; SEQ [ OID der_id_ms_software; pd_tree sid_utf8 ] ];
                                    SEQ [ OID der_id_aes256_wrap ];
                                    OCT enc_cek ] ];
                      SEQ (OID der_id_data :: SEQ [ OID der_id_aes256_gcm; gcm_params_tree nonce ] ::
                           match content with [] => [] | _ => [Prim (mk_tag 2 0 false) content] end) ] ] ].
