(* The key-encryption-key construction, written from the specifications and independently of the
   code:  [MS-GKDI] 3.1.4.1.2 (group private key = KDF(HashAlg, L2 key, "KDS service",
   SecretAgreementAlgorithm, PrivateKeyLength); group public key = g^priv mod p / priv*G in the
   structures of 2.2.3), [SP800-56A] 5.7.1.1 FFC DH primitive (Z = y^x mod p, converted to an octet
   string of the byte length of p) and 5.8.1 single-step KDF with OtherInfo = AlgorithmID ||
   PartyUInfo || PartyVInfo (BCryptDeriveKey: "SHA512\0", "KDS public key\0", "KDS service\0" as
   UTF-16-LE), [SP800-108] counter-mode KDF for the final step:
       KEK = KDF(HashAlg, secret, "KDS service\0", "KDS public key\0", 32 bytes)
   and in nonce mode  KEK = KDF(HashAlg, L2 key, "KDS service\0", nonce, 32 bytes).
   The KDF primitives themselves are the record fields of Model/Crypto.v (not re-implemented). *)
From Coq Require Import String Ascii.
From V Require Import Prelude.Base Model.Crypto Spec.GkdiLayout.

(* octet string <-> integer, [SP800-56A] Appendix C / PKCS#1 OS2IP, I2OSP *)
Definition OS2IP (b : bytes) : Z := fold_left (fun acc x => acc * 256 + x) b 0.
Definition I2OSP (n : Z) (v : Z) : bytes := be_digits (Z.to_nat n) v.

(* NUL-terminated UTF-16-LE of an ASCII literal *)
Definition lit16z (s : string) : bytes :=
  flat_map (fun a => [Z.of_N (N_of_ascii a); 0]) (list_ascii_of_string s) ++ [0; 0].
Definition KDS_SERVICE : bytes := lit16z "KDS service".
Definition KDS_PUBLIC_KEY : bytes := lit16z "KDS public key".
Definition OTHER_INFO : bytes := lit16z "SHA512" ++ KDS_PUBLIC_KEY ++ KDS_SERVICE.
Definition KEK_BYTES : Z := 32.

Definition bytes_of_bits (bits : Z) : Z := (bits + 7) / 8.     (* ceil(bits / 8) *)

Section Spec.
Context (c : Crypto).

(* nonce mode *)
Definition kek_nonce (h : hash) (l2_key nonce : bytes) : bytes := kdf c h l2_key KDS_SERVICE nonce KEK_BYTES.

(* public-key mode: from the shared secret octet string Z *)
Definition kek_of_shared (h secret_hash : hash) (Zs : bytes) : bytes :=
  kdf c h (concat_kdf c secret_hash Zs OTHER_INFO (digest_size secret_hash)) KDS_SERVICE KDS_PUBLIC_KEY KEK_BYTES.

(* group private key: KDF output of ceil(PrivateKeyLength / 8) bytes read as a big-endian integer;
   alg_z is the NUL-terminated UTF-16-LE secret agreement algorithm name *)
Definition group_private (h : hash) (l2_key alg_z : bytes) (private_key_length_bits : Z) : Z :=
  OS2IP (kdf c h l2_key KDS_SERVICE alg_z (bytes_of_bits private_key_length_bits)).

(* FFC DH: public value and shared secret; the shared secret keeps the byte length of the field *)
Definition dh_public (p g x : Z) : Z := g ^ x mod p.
Definition dh_shared (p key_length peer_public x : Z) : bytes := I2OSP key_length (peer_public ^ x mod p).
(* [SP800-56A] 5.6.2.3.1 FFC partial public-key validation: 2 <= y <= p - 2 (0, 1 and p - 1 generate subgroups of order
   at most 2: the shared secret would be known without any private key).  The receiver refuses other values (repair of
   D16), so agreement is stated for valid public values. *)
Definition dh_pub_valid (p v : Z) : Prop := 1 < v < p - 1.
Definition dh_pub_validb (p v : Z) : bool := (1 <? v) && (v <? p - 1).
Definition kek_dh (h : hash) (p key_length peer_public x : Z) : bytes :=
  kek_of_shared h SHA256 (dh_shared p key_length peer_public x).

(* ECDH: hash of the single-step KDF is the one paired with the curve *)
Definition ecdh_hash (cv : curve) : hash := match cv with P256 => SHA256 | P384 => SHA384 | P521 => SHA512 end.
Definition kek_ecdh (h : hash) (cv : curve) (Zs : bytes) : bytes := kek_of_shared h (ecdh_hash cv) Zs.
End Spec.
