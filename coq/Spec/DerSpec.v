(* DER as a relational specification, written from ITU-T X.690 (08/2015): 8.1.2 identifier octets,
   8.1.3 + 10.1 length octets (definite, minimal), 8.3 INTEGER, 8.19 OBJECT IDENTIFIER, and a strict
   recursive-descent reader. Nothing here refers to the functions of the model of _asn1.py; only the
   data types `tag` (class, number, constructed) and `asn1` (value tree) are shared with it. *)
From V Require Import Prelude.Base Prelude.PyInt Model.Asn1.

(* ---- 8.1.3 / 10.1: length octets. Short form for 0..127; long form: first octet 0x80+k (k in
   1..126, 0xFF is reserved), then k octets big-endian; DER: the fewest octets possible. *)
Inductive der_len : Z -> bytes -> Prop :=
| der_len_short n : 0 <= n < 128 -> der_len n [n]
| der_len_long n ds : 128 <= n -> wfb ds = true -> (1 <= length ds <= 126)%nat -> be_val ds = n ->
    hd 0 ds <> 0 -> der_len n ((128 + len ds) :: ds).

(* ---- base-128 digits, most significant first, bit 8 set on all but the last octet, fewest octets
   (the leading octet is not 0x80): 8.1.2.4.2 (tag numbers >= 31) and 8.19.2 (subidentifiers). *)
Inductive b128_shape : bytes -> Prop :=
| b128_last d : 0 <= d < 128 -> b128_shape [d]
| b128_cont d r : 128 <= d < 256 -> b128_shape r -> b128_shape (d :: r).
Fixpoint b128_val (acc : Z) (bs : bytes) : Z :=
  match bs with [] => acc | b :: r => b128_val (128 * acc + b mod 128) r end.
Definition der_b128 (n : Z) (bs : bytes) : Prop := b128_shape bs /\ hd 0 bs <> 128 /\ b128_val 0 bs = n.

(* ---- 8.1.2: identifier octets. Bits 8-7 class, bit 6 constructed, bits 5-1 the number when it is
   below 31, else 11111 followed by the number in base 128. *)
Definition ident_octet (cls : Z) (cons : bool) (low : Z) : Z := 64 * cls + (if cons then 32 else 0) + low.
Inductive der_ident : tag -> bytes -> Prop :=
| der_ident_low t : 0 <= t_class t <= 3 -> 0 <= t_num t < 31 ->
    der_ident t [ident_octet (t_class t) (t_cons t) (t_num t)]
| der_ident_high t ds : 0 <= t_class t <= 3 -> 31 <= t_num t -> der_b128 (t_num t) ds ->
    der_ident t (ident_octet (t_class t) (t_cons t) 31 :: ds).

(* ---- 8.3: INTEGER contents: one or more octets, two's complement, and bits of the first octet and
   bit 8 of the second octet are not all ones and not all zero. *)
Definition tc_val (bs : bytes) : Z :=
  match bs with
  | [] => 0
  | b0 :: _ => if b0 <? 128 then be_val bs else be_val bs - P (length bs)
  end.
Definition int_minimal (bs : bytes) : Prop :=
  match bs with
  | b0 :: b1 :: _ => ~ (b0 = 0 /\ b1 < 128) /\ ~ (b0 = 255 /\ 128 <= b1)
  | _ => True
  end.
Definition der_int (z : Z) (bs : bytes) : Prop :=
  wfb bs = true /\ bs <> [] /\ tc_val bs = z /\ int_minimal bs.

(* ---- 8.19: OBJECT IDENTIFIER contents: subidentifiers in base 128; the first one is 40*X + Y
   (X in 0..2; Y <= 39 when X is 0 or 1). *)
Definition der_oid (arcs : list Z) (bs : bytes) : Prop :=
  match arcs with
  | a :: b :: rest =>
    0 <= a <= 2 /\ 0 <= b /\ (a < 2 -> b <= 39) /\ Forall (fun x => 0 <= x) rest /\
    exists ds, Forall2 der_b128 ((40 * a + b) :: rest) ds /\ bs = concat ds
  | _ => False
  end.

(* ---- strict recursive-descent reader (total, fuel = number of octets) *)
Fixpoint sp_b128 (bs : bytes) (acc : Z) (first : bool) : option (Z * bytes) :=
  match bs with
  | [] => None
  | b :: r =>
    if first && (b =? 128) then None
    else if b <? 128 then Some (128 * acc + b, r)
    else sp_b128 r (128 * acc + (b - 128)) false
  end.
Definition sp_ident (bs : bytes) : option (tag * bytes) :=
  match bs with
  | [] => None
  | o :: r =>
    let cls := o / 64 in
    let cons := (o / 32) mod 2 =? 1 in
    let low := o mod 32 in
    if low <? 31 then Some (mk_tag cls low cons, r)
    else match sp_b128 r 0 true with
         | Some (n, r') => if n <? 31 then None else Some (mk_tag cls n cons, r')
         | None => None
         end
  end.
Definition sp_len (bs : bytes) : option (Z * bytes) :=
  match bs with
  | [] => None
  | l0 :: r =>
    if l0 <? 128 then Some (l0, r)
    else
      let k := Z.to_nat (l0 - 128) in
      if (Nat.eqb k 0) || (Nat.eqb k 127) then None
      else if (length r <? k)%nat then None
      else
        let ds := firstn k r in
        if hd 0 ds =? 0 then None
        else let n := be_val ds in if n <? 128 then None else Some (n, skipn k r)
  end.
Fixpoint strict_parse_fuel (fuel : nat) (bs : bytes) : option (list asn1) :=
  match bs with
  | [] => Some []
  | _ :: _ =>
    match fuel with
    | O => None
    | S f =>
      match sp_ident bs with
      | None => None
      | Some (t, r1) =>
        match sp_len r1 with
        | None => None
        | Some (n, r2) =>
          if len r2 <? n then None
          else
            let content := firstn (Z.to_nat n) r2 in
            let rest := skipn (Z.to_nat n) r2 in
            let node := if t_cons t
                        then match strict_parse_fuel f content with Some ch => Some (Cons t ch) | None => None end
                        else Some (Prim t content) in
            match node, strict_parse_fuel f rest with
            | Some x, Some more => Some (x :: more)
            | _, _ => None
            end
        end
      end
    end
  end.
Definition strict_parse (bs : bytes) : option (list asn1) :=
  if wfb bs then strict_parse_fuel (length bs) bs else None.
