(* An independent parser for self-relative security descriptors, written from [MS-DTYP]:
     2.4.2.2  SID (packet representation)
     2.4.4.1  ACE_HEADER, 2.4.4.2 ACCESS_ALLOWED_ACE (2.4.4.4 ACCESS_DENIED_ACE has the same layout)
     2.4.5    ACL
     2.4.6    SECURITY_DESCRIPTOR (self-relative)
   Nothing here refers to the model of the library. The parser is strict: every size field must add up
   exactly, every offset must point inside the buffer behind the 20-byte header, the regions of the four
   components must be pairwise disjoint and together with the header cover the buffer with no slack; the
   reserved bytes must be zero; control bits SP / DP must agree with the presence of OffsetSacl / OffsetDacl.
   (The specification tolerates slack inside ACEs/ACLs and any order of the components; the bytes a DC feeds
   into the key derivation have neither, [MS-DTYP] Appendix A <72> gives the order Sacl, Dacl, Owner, Group,
   reported in sd_gkdi_order.) *)
From V Require Import Prelude.Base Prelude.PyInt.

Record dsid := { d_rev : Z; d_auth : Z; d_subs : list Z }.
Record dace := { a_type : Z; a_flags : Z; a_mask : Z; a_sid : dsid }.
Record dacl := { l_rev : Z; l_aces : list dace }.
Record sd_struct := {
  sd_control : Z;
  sd_owner : option dsid;
  sd_group : option dsid;
  sd_sacl : option dacl;
  sd_dacl : option dacl;
  sd_gkdi_order : bool   (* components are laid out contiguously behind the header in the order Sacl, Dacl, Owner, Group *)
}.

(* 2.4.2.4 well-known SIDs *)
Definition LOCAL_SYSTEM : dsid := {| d_rev := 1; d_auth := 5; d_subs := [18] |}.   (* S-1-5-18 *)
Definition EVERYONE : dsid := {| d_rev := 1; d_auth := 1; d_subs := [0] |}.        (* S-1-1-0 *)
(* 2.4.4.1 AceType, 2.4.5 AclRevision *)
Definition ACCESS_ALLOWED_ACE_TYPE : Z := 0.
Definition ACL_REVISION : Z := 2.

Definition obind {A B} (o : option A) (f : A -> option B) : option B :=
  match o with Some a => f a | None => None end.
Notation "'let?' x ':=' m 'in' f" := (obind m (fun x => f))
  (at level 200, x pattern, m at level 100, f at level 200, right associativity).

(* ---- primitive readers: value and the remaining bytes ------------------------------------------------ *)
Definition take (n : Z) (b : bytes) : option (bytes * bytes) :=
  if (0 <=? n) && (n <=? len b) then Some (firstn (Z.to_nat n) b, skipn (Z.to_nat n) b) else None.
Definition u8 (b : bytes) : option (Z * bytes) :=
  match b with x :: r => Some (x, r) | [] => None end.
Definition u_le (w : Z) (b : bytes) : option (Z * bytes) :=
  let? (f, r) := take w b in Some (le_val f, r).
Definition u_be (w : Z) (b : bytes) : option (Z * bytes) :=
  let? (f, r) := take w b in Some (be_val f, r).

(* ---- 2.4.2.2 SID: Revision(1) SubAuthorityCount(1) IdentifierAuthority(6, big-endian)
        SubAuthority(4 * count, little-endian each); count <= 15 ---------------------------------------- *)
Fixpoint parse_subauths (n : nat) (b : bytes) : option (list Z * bytes) :=
  match n with
  | O => Some ([], b)
  | S k => let? (v, r) := u_le 4 b in
           let? (vs, r') := parse_subauths k r in
           Some (v :: vs, r')
  end.
Definition parse_sid (b : bytes) : option (dsid * bytes) :=
  let? (rev, b1) := u8 b in
  let? (cnt, b2) := u8 b1 in
  if 15 <? cnt then None else
  let? (auth, b3) := u_be 6 b2 in
  let? (subs, b4) := parse_subauths (Z.to_nat cnt) b3 in
  Some ({| d_rev := rev; d_auth := auth; d_subs := subs |}, b4).

(* ---- 2.4.4 ACE: AceType(1) AceFlags(1) AceSize(2) Mask(4) Sid; AceSize counts the whole ACE,
        is a multiple of 4, and here must equal 8 + the size of the SID ---------------------------------- *)
Definition parse_ace (b : bytes) : option (dace * bytes) :=
  let? (ty, b1) := u8 b in
  let? (fl, b2) := u8 b1 in
  let? (size, b3) := u_le 2 b2 in
  if negb ((ty =? 0) || (ty =? 1)) then None else      (* ACCESS_ALLOWED_ACE_TYPE / ACCESS_DENIED_ACE_TYPE *)
  if negb (size mod 4 =? 0) then None else
  let? (body, rest) := take (size - 4) b3 in
  let? (mask, b4) := u_le 4 body in
  let? (s, tail) := parse_sid b4 in
  match tail with
  | [] => Some ({| a_type := ty; a_flags := fl; a_mask := mask; a_sid := s |}, rest)
  | _ => None
  end.

Fixpoint parse_aces (n : nat) (b : bytes) : option (list dace) :=
  match n with
  | O => match b with [] => Some [] | _ => None end
  | S k => let? (a, r) := parse_ace b in
           let? l := parse_aces k r in
           Some (a :: l)
  end.

(* ---- 2.4.5 ACL: AclRevision(1) Sbz1(1) AclSize(2) AceCount(2) Sbz2(2) ACEs; AclSize counts the whole
        ACL and here must be exactly filled by AceCount ACEs ------------------------------------------- *)
Definition parse_acl (b : bytes) : option (dacl * bytes) :=
  let? (rev, b1) := u8 b in
  let? (sbz1, b2) := u8 b1 in
  let? (size, b3) := u_le 2 b2 in
  let? (cnt, b4) := u_le 2 b3 in
  let? (sbz2, b5) := u_le 2 b4 in
  if negb ((rev =? 2) || (rev =? 4)) then None else     (* ACL_REVISION / ACL_REVISION_DS *)
  if negb ((sbz1 =? 0) && (sbz2 =? 0)) then None else
  if negb (size mod 4 =? 0) then None else
  let? (body, rest) := take (size - 8) b5 in
  let? aces := parse_aces (Z.to_nat cnt) body in
  Some ({| l_rev := rev; l_aces := aces |}, rest).

(* ---- 2.4.6 SECURITY_DESCRIPTOR, self-relative: Revision(1)=1 Sbz1(1) Control(2) OffsetOwner(4)
        OffsetGroup(4) OffsetSacl(4) OffsetDacl(4), then the components at their offsets ------------------ *)
Definition region := (Z * Z)%type.   (* offset, size *)
Definition disjoint (a b : region) : bool :=
  (fst a + snd a <=? fst b) || (fst b + snd b <=? fst a).
Fixpoint pairwise_disjoint (l : list region) : bool :=
  match l with [] => true | r :: t => forallb (disjoint r) t && pairwise_disjoint t end.
Fixpoint contiguous_from (start : Z) (l : list region) : bool :=
  match l with [] => true | r :: t => (fst r =? start) && contiguous_from (fst r + snd r) t end.
Definition total_size (l : list region) : Z := fold_right (fun r acc => snd r + acc) 0 l.

(* a component at a non-zero offset: parsed from there, its region is what the parser consumed *)
Definition component {A} (buf : bytes) (off : Z) (p : bytes -> option (A * bytes)) : option (option (A * region)) :=
  if off =? 0 then Some None else
  if negb ((20 <=? off) && (off <=? len buf)) then None else
  let b := skipn (Z.to_nat off) buf in
  let? (v, rest) := p b in
  Some (Some (v, (off, len b - len rest))).

Definition val_of {A} (c : option (A * region)) : option A :=
  match c with Some (v, _) => Some v | None => None end.
Definition reg_of {A} (c : option (A * region)) : list region :=
  match c with Some (_, r) => [r] | None => [] end.

Definition SE_DACL_PRESENT : Z := 4.        (* DP, bit 2 *)
Definition SE_SACL_PRESENT : Z := 16.       (* SP, bit 4 *)
Definition SE_SELF_RELATIVE : Z := 32768.   (* SR, bit 15 *)
Definition has_bit (control bit : Z) : bool := (control / bit) mod 2 =? 1.

Definition parse_sd (buf : bytes) : option sd_struct :=
  if negb (wfb buf) then None else
  let? (rev, b1) := u8 buf in
  let? (sbz1, b2) := u8 b1 in
  let? (control, b3) := u_le 2 b2 in
  let? (off_owner, b4) := u_le 4 b3 in
  let? (off_group, b5) := u_le 4 b4 in
  let? (off_sacl, b6) := u_le 4 b5 in
  let? (off_dacl, _) := u_le 4 b6 in
  if negb (rev =? 1) then None else
  if negb (sbz1 =? 0) then None else
  if negb (has_bit control SE_SELF_RELATIVE) then None else
  if negb (Bool.eqb (has_bit control SE_SACL_PRESENT) (negb (off_sacl =? 0))) then None else
  if negb (Bool.eqb (has_bit control SE_DACL_PRESENT) (negb (off_dacl =? 0))) then None else
  let? sacl := component buf off_sacl parse_acl in
  let? dacl := component buf off_dacl parse_acl in
  let? owner := component buf off_owner parse_sid in
  let? group := component buf off_group parse_sid in
  let regions := reg_of sacl ++ reg_of dacl ++ reg_of owner ++ reg_of group in
  if negb (pairwise_disjoint regions) then None else
  if negb (20 + total_size regions =? len buf) then None else
  Some {| sd_control := control;
          sd_owner := val_of owner; sd_group := val_of group;
          sd_sacl := val_of sacl; sd_dacl := val_of dacl;
          sd_gkdi_order := contiguous_from 20 regions |}.
