(* MS-GKDI 3.1.4.1.2 ("Generating a Group Key"), from the ROOT KEY BYTES down, with the byte layout of the KDF context
   and the SP800-108 parameters spelled out.  Written from the specification, independently of the code and of
   Model/Chain.v; the KDF itself (SP800-108 counter mode with HMAC, label, context, output length in octets) is a
   parameter `kdf hash key label context length`.

     KDF context      = RootKeyId (16 octets, as stored in the envelope) || L0 || L1 || L2, each index a signed 32-bit
                        little-endian integer (two's complement: -1 = ff ff ff ff)
     label            = "KDS service" with its terminating NUL, UTF-16-LE (24 octets)
     L0 seed          = KDF(hash, root key, label, ctx(L0, -1, -1), 64)
     L1 key (31)      = KDF(hash, L0 seed, label, ctx(L0, 31, -1) || target SD, 64)
     L1 key (n < 31)  = KDF(hash, L1 key (n + 1), label, ctx(L0, n, -1), 64)
     L2 key (n, 31)   = KDF(hash, L1 key (n), label, ctx(L0, n, 31), 64)
     L2 key (n, m<31) = KDF(hash, L2 key (n, m + 1), label, ctx(L0, n, m), 64)

   An index outside the signed 32-bit range has no encoding: None. *)
From V Require Import Prelude.Base Prelude.PyInt.

(* signed 32-bit little endian, two's complement *)
Definition i32le (z : Z) : option bytes :=
  if (-2147483648 <=? z) && (z <=? 2147483647) then
    let u := if z <? 0 then z + 4294967296 else z in
    Some [u mod 256; (u / 256) mod 256; (u / 65536) mod 256; (u / 16777216) mod 256]
  else None.

(* "KDS service\0" in UTF-16-LE: every character is ASCII, one 16-bit unit each, low octet first *)
Definition kds_label : bytes :=
  flat_map (fun ch => [ch; 0]) [75; 68; 83; 32; 115; 101; 114; 118; 105; 99; 101; 0].

Definition kdf_context (rkid : bytes) (l0 l1 l2 : Z) : option bytes :=
  match i32le l0, i32le l1, i32le l2 with
  | Some a, Some b, Some c => Some (rkid ++ a ++ b ++ c)
  | _, _, _ => None
  end.

Section Hierarchy.
Context {H : Type} (kdf : H -> bytes -> bytes -> bytes -> Z -> bytes).
Context (h : H) (root_key target_sd rkid : bytes) (l0 : Z).

Definition derive (key ctx : option bytes) : option bytes :=
  match key, ctx with Some k, Some c => Some (kdf h k kds_label c 64) | _, _ => None end.

Definition L0_seed : option bytes := derive (Some root_key) (kdf_context rkid l0 (-1) (-1)).
Definition L1_31 : option bytes :=
  derive L0_seed (match kdf_context rkid l0 31 (-1) with Some c => Some (c ++ target_sd) | None => None end).

(* d steps below index 31 *)
Fixpoint L1_down (d : nat) : option bytes :=
  match d with O => L1_31 | S d' => derive (L1_down d') (kdf_context rkid l0 (31 - Z.of_nat (S d')) (-1)) end.
Definition L1 (n : Z) : option bytes := L1_down (Z.to_nat (31 - n)).
Fixpoint L2_down (n : Z) (d : nat) : option bytes :=
  match d with
  | O => derive (L1 n) (kdf_context rkid l0 n 31)
  | S d' => derive (L2_down n d') (kdf_context rkid l0 n (31 - Z.of_nat (S d')))
  end.
Definition L2 (n m : Z) : option bytes := L2_down n (Z.to_nat (31 - m)).

(* the recurrences in the form of the header *)
Lemma L1_top : L1 31 = L1_31.
Proof. reflexivity. Qed.
Lemma L1_step n : n < 31 -> L1 n = derive (L1 (n + 1)) (kdf_context rkid l0 n (-1)).
Proof.
  intros Hn. unfold L1. replace (Z.to_nat (31 - n)) with (S (Z.to_nat (31 - (n + 1)))) by lia.
  cbn [L1_down]. f_equal. f_equal. lia.
Qed.
Lemma L2_top n : L2 n 31 = derive (L1 n) (kdf_context rkid l0 n 31).
Proof. reflexivity. Qed.
Lemma L2_step n m : m < 31 -> L2 n m = derive (L2 n (m + 1)) (kdf_context rkid l0 n m).
Proof.
  intros Hm. unfold L2. replace (Z.to_nat (31 - m)) with (S (Z.to_nat (31 - (m + 1)))) by lia.
  cbn [L2_down]. f_equal. f_equal. lia.
Qed.
End Hierarchy.
