(* Independent reference encoder of an ept_map reply, written from the specifications and not from
   the library code:
   - DCE 1.1 RPC (C706) Appendix L "Protocol Tower Encoding": a tower is a 2-octet floor count followed
     by the floors; a floor is  LHS byte count (2, little endian) | protocol identifier (1) | LHS data |
     RHS byte count (2) | RHS data, the LHS byte count covering the identifier octet.
     Appendix I: protocol identifier 0x07 = DOD TCP, RHS = port, 2 octets big endian.
   - C706 Appendix N / MS-RPCE 2.2.1.2.5 ept_map:  [in,out] ept_lookup_handle_t* entry_handle;
     [out] unsigned32* num_towers; [out, ptr, size_is(max_towers), length_is( * num_towers)] twr_p_t* ITowers;
     [out] error_status_t* status.   twr_t = { unsigned32 tower_length; [size_is(tower_length)] byte
     tower_octet_string[] }  (a conformant structure).
   - MS-RPCE 2.2.5 NDR64: primitive n-octet integers are aligned to n; pointers, conformance (maximum
     count), offset and actual count are 8 octets aligned to 8; a context handle is 20 octets
     (attributes 4 + UUID 16); the maximum count of a conformant structure precedes the structure;
     pointees of embedded full pointers are deferred and marshalled in order after the array.
   The marshaller below keeps the running buffer and pads from its real length (no closed-form padding
   formula), which is what makes it an independent check of the library's -(len+4) % 8 / -len % 4. *)
From V Require Export Prelude.Base Prelude.PyInt.

Definition align_to (k : Z) (buf : bytes) : bytes := buf ++ repeat 0 (Z.to_nat ((- len buf) mod k)).
Definition put_u32 (buf : bytes) (z : Z) : bytes := align_to 4 buf ++ le 4 z.
Definition put_u64 (buf : bytes) (z : Z) : bytes := align_to 8 buf ++ le 8 z.

(* protocol tower *)
Definition spec_floor := (Z * bytes * bytes)%type.      (* protocol identifier, LHS data, RHS data *)
Definition spec_floor_bytes (f : spec_floor) : bytes :=
  let '(p, lhs, rhs) := f in le 2 (1 + len lhs) ++ [p] ++ lhs ++ le 2 (len rhs) ++ rhs.
Definition spec_tower_bytes (t : list spec_floor) : bytes := le 2 (len t) ++ concat (map spec_floor_bytes t).

(* twr_t pointee: maximum count, tower_length, octets *)
Definition put_twr (buf : bytes) (octets : bytes) : bytes :=
  put_u32 (put_u64 buf (len octets)) (len octets) ++ octets.

Fixpoint put_referents (buf : bytes) (id : Z) (n : nat) : bytes :=
  match n with O => buf | S n' => put_referents (put_u64 buf id) (id + 1) n' end.
Fixpoint put_pointees (buf : bytes) (towers : list bytes) : bytes :=
  match towers with [] => buf | t :: r => put_pointees (put_twr buf t) r end.

Definition context_handle (h : option (Z * bytes)) : bytes :=
  match h with Some (attributes, u) => le 4 attributes ++ u | None => repeat 0 20 end.

(* referent identifiers are arbitrary non-zero values; Windows numbers them 3, 4, ... after the two
   used by the request *)
Definition ndr64_eptmap_reply (handle : option (Z * bytes)) (max_towers : Z) (towers : list (list spec_floor)) (status : Z) : bytes :=
  let octets := map spec_tower_bytes towers in
  let buf := context_handle handle in
  let buf := put_u32 buf (len towers) in                (* num_towers *)
  let buf := put_u64 buf max_towers in                  (* ITowers: maximum count *)
  let buf := put_u64 buf 0 in                           (*          offset *)
  let buf := put_u64 buf (len towers) in                (*          actual count *)
  let buf := put_referents buf 3 (length towers) in     (* the twr_p_t elements *)
  let buf := put_pointees buf octets in                 (* deferred pointees *)
  put_u32 buf status.

(* what the client is supposed to make of it *)
Definition tcp_protocol_id : Z := 7.
Fixpoint spec_tcp_port_tower (t : list spec_floor) : option Z :=
  match t with
  | [] => None
  | (p, _, rhs) :: r => if p =? tcp_protocol_id then Some (be_val rhs) else spec_tcp_port_tower r
  end.
Fixpoint spec_tcp_port (towers : list (list spec_floor)) : option Z :=
  match towers with
  | [] => None
  | t :: r => match spec_tcp_port_tower t with Some p => Some p | None => spec_tcp_port r end
  end.
