(* Python's int / int (true division, correctly rounded to binary64) followed by int(...)
   or math.ceil(...), implemented exactly in Z arithmetic for positive operands whose
   quotient is a normal double below 2^1023 (all uses in dpapi-ng). *)
From Coq Require Import ZArith Bool Lia.
Open Scope Z_scope.
Definition bitlen (z : Z) : Z := if z =? 0 then 0 else Z.log2 z + 1.
(* (m, e): the rounded quotient is m * 2^e with m a 53..54-bit integer *)
Definition py_truediv_me (a b : Z) : Z * Z :=
  let d := bitlen a - bitlen b in
  let s := 55 - d in
  let N := if s >=? 0 then Z.shiftl a s else a in
  let D := if s >=? 0 then b else Z.shiftl b (- s) in
  let Q := N / D in let R := N mod D in
  let extra := bitlen Q - 53 in
  let m0 := Z.shiftr Q extra in
  let rem := Q mod (2 ^ extra) in
  let half := 2 ^ (extra - 1) in
  let up := (rem >? half) || ((rem =? half) && (negb (R =? 0) || Z.odd m0)) in
  let m := if up then m0 + 1 else m0 in
  (m, extra - s).
Definition py_truediv_trunc (a b : Z) : Z :=
  if a =? 0 then 0 else
  let '(m, e) := py_truediv_me a b in
  if e >=? 0 then Z.shiftl m e else Z.shiftr m (- e).
Definition py_truediv_ceil (a b : Z) : Z :=
  if a =? 0 then 0 else
  let '(m, e) := py_truediv_me a b in
  if e >=? 0 then Z.shiftl m e else
    let q := Z.shiftr m (- e) in
    if m mod (2 ^ (- e)) =? 0 then q else q + 1.
