(* The standard world for Prelude/PyAst.v: Python's own values (int, bytes, str, list, tuple, None) with their
   operators and a few builtins, plus one opaque constructor VO for the model values of an area (records, readers,
   envelopes ..).  An area supplies an `ext` record saying what ITS names, attributes, calls and methods mean; anything
   the ext does not claim (returns None) falls through to the builtins below, and what neither knows raises TypeError
   (so a tie theorem cannot hold by accident for a call nobody gave a meaning to).
   bool is int (True = 1), as in Prelude/Val.v.  No proofs here. *)
From V Require Import Prelude.Base Prelude.PyInt Prelude.PySlice Prelude.PyStr Prelude.PyAst.
Local Open Scope string_scope.
Local Open Scope list_scope.
Local Open Scope Z_scope.

Inductive pv (O : Type) :=
| VI (z : Z)
| VB (b : bytes)
| VS (s : list Z)
| VL (l : list (pv O))
| VT (l : list (pv O))
| VN
| VO (o : O).
Arguments VI {O}. Arguments VB {O}. Arguments VS {O}. Arguments VL {O}. Arguments VT {O}. Arguments VN {O}. Arguments VO {O}.

Record ext (O : Type) := {
  x_glob : string -> option (res (pv O));
  x_attr : string -> pv O -> option (res (pv O));
  x_setattr : string -> pv O -> pv O -> option (res (pv O));
  x_call : string -> list (pv O) -> option (res (pv O));
  x_meth : string -> pv O -> list (pv O) -> option (res (pv O * pv O));
  x_truthy : O -> res bool;
  x_eqb : O -> O -> option bool;             (* None: == between these two is not given a meaning *)
  x_iter : O -> res (list (pv O));
  x_enter : pv O -> res (pv O);
  x_exit : pv O -> option (pv O) -> res (option (pv O));
  x_exc : string -> option err }.
Arguments x_glob {O}. Arguments x_attr {O}. Arguments x_setattr {O}. Arguments x_call {O}. Arguments x_meth {O}.
Arguments x_truthy {O}. Arguments x_eqb {O}. Arguments x_iter {O}. Arguments x_enter {O}. Arguments x_exit {O}.
Arguments x_exc {O}.

Section World.
Context {O : Type} (X : ext O).
Notation V := (pv O).

Definition vb (b : bool) : V := VI (if b then 1 else 0).

Fixpoint zs_eqb (a b : list Z) : bool :=
  match a, b with
  | [], [] => true
  | x :: a', y :: b' => (x =? y) && zs_eqb a' b'
  | _, _ => false
  end.
Fixpoint zs_ltb (a b : list Z) : bool :=       (* lexicographic *)
  match a, b with
  | [], [] => false
  | [], _ :: _ => true
  | _ :: _, [] => false
  | x :: a', y :: b' => (x <? y) || ((x =? y) && zs_ltb a' b')
  end.

(* == ; None when the comparison has no meaning here (the caller raises TypeError) *)
Fixpoint v_eqb (a b : V) {struct a} : option bool :=
  let all2 := fix all2 (l1 : list V) (l2 : list V) {struct l1} : option bool :=
    match l1, l2 with
    | [], [] => Some true
    | x :: r1, y :: r2 => match v_eqb x y with
                          | Some true => all2 r1 r2
                          | Some false => Some false
                          | None => None
                          end
    | _, _ => Some false
    end in
  match a, b with
  | VI x, VI y => Some (x =? y)
  | VB x, VB y => Some (zs_eqb x y)
  | VS x, VS y => Some (zs_eqb x y)
  | VL x, VL y => all2 x y
  | VT x, VT y => all2 x y
  | VN, VN => Some true
  | VO x, VO y => x_eqb X x y
  | VO _, _ | _, VO _ => None
  | _, _ => Some false
  end.

Definition v_truthy (v : V) : res bool :=
  match v with
  | VI z => Ok (negb (z =? 0))
  | VB b => Ok (negb (len b =? 0))
  | VS s => Ok (negb (len s =? 0))
  | VL l | VT l => Ok (negb (len l =? 0))
  | VN => Ok false
  | VO o => x_truthy X o
  end.

Definition is_none (v : V) : bool := match v with VN => true | _ => false end.

Fixpoint member (x : V) (l : list V) : res bool :=
  match l with
  | [] => Ok false
  | y :: r => match v_eqb x y with
              | Some true => Ok true
              | Some false => member x r
              | None => Raise TypeError
              end
  end.

Definition v_cmp (op : string) (a b : V) : res bool :=
  if String.eqb op "==" then match v_eqb a b with Some r => Ok r | None => Raise TypeError end
  else if String.eqb op "!=" then match v_eqb a b with Some r => Ok (negb r) | None => Raise TypeError end
  else if String.eqb op "is" then
    match a, b with
    | VN, VN => Ok true | VN, _ | _, VN => Ok false
    | VI x, VI y => Ok (x =? y)       (* only used for None / small ints / bools in the library *)
    | _, _ => Raise TypeError
    end
  else if String.eqb op "is not" then
    match a, b with
    | VN, VN => Ok false | VN, _ | _, VN => Ok true
    | VI x, VI y => Ok (negb (x =? y))
    | _, _ => Raise TypeError
    end
  else if String.eqb op "in" then
    match b with VL l | VT l => member a l | _ => Raise TypeError end
  else if String.eqb op "not in" then
    match b with VL l | VT l => let* r := member a l in Ok (negb r) | _ => Raise TypeError end
  else
    match a, b with
    | VI x, VI y =>
      if String.eqb op "<" then Ok (x <? y) else if String.eqb op "<=" then Ok (x <=? y)
      else if String.eqb op ">" then Ok (y <? x) else if String.eqb op ">=" then Ok (y <=? x) else Raise TypeError
    | VB x, VB y | VS x, VS y =>
      if String.eqb op "<" then Ok (zs_ltb x y) else if String.eqb op "<=" then Ok (negb (zs_ltb y x))
      else if String.eqb op ">" then Ok (zs_ltb y x) else if String.eqb op ">=" then Ok (negb (zs_ltb x y)) else Raise TypeError
    | _, _ => Raise TypeError
    end.

Fixpoint repeat_list {A} (n : nat) (l : list A) : list A :=
  match n with 0%nat => [] | S n' => l ++ repeat_list n' l end.

Definition v_bin (op : string) (a b : V) : res V :=
  match a, b with
  | VI x, VI y =>
    if String.eqb op "+" then Ok (VI (x + y)) else if String.eqb op "-" then Ok (VI (x - y))
    else if String.eqb op "*" then Ok (VI (x * y))
    else if String.eqb op "//" then (if y =? 0 then Raise ValueError else Ok (VI (x / y)))    (* ZeroDivisionError: an ArithmeticError, folded *)
    else if String.eqb op "%" then (if y =? 0 then Raise ValueError else Ok (VI (x mod y)))
    else if String.eqb op "<<" then (if y <? 0 then Raise ValueError else Ok (VI (Z.shiftl x y)))
    else if String.eqb op ">>" then (if y <? 0 then Raise ValueError else Ok (VI (Z.shiftr x y)))
    else if String.eqb op "&" then Ok (VI (Z.land x y)) else if String.eqb op "|" then Ok (VI (Z.lor x y))
    else if String.eqb op "^" then Ok (VI (Z.lxor x y))
    else if String.eqb op "**" then (if y <? 0 then Raise TypeError else Ok (VI (x ^ y)))
    else Raise TypeError
  | VB x, VB y => if String.eqb op "+" then Ok (VB (x ++ y)) else Raise TypeError
  | VS x, VS y => if String.eqb op "+" then Ok (VS (x ++ y)) else Raise TypeError
  | VL x, VL y => if String.eqb op "+" then Ok (VL (x ++ y)) else Raise TypeError
  | VT x, VT y => if String.eqb op "+" then Ok (VT (x ++ y)) else Raise TypeError
  | VB x, VI n | VI n, VB x => if String.eqb op "*" then Ok (VB (repeat_list (Z.to_nat n) x)) else Raise TypeError
  | VS x, VI n | VI n, VS x => if String.eqb op "*" then Ok (VS (repeat_list (Z.to_nat n) x)) else Raise TypeError
  | _, _ => Raise TypeError
  end.

Definition opt_index (v : V) : res (option Z) :=
  match v with VN => Ok None | VI z => Ok (Some z) | _ => Raise TypeError end.

Definition v_slice (v lo hi : V) : res V :=
  let* l := opt_index lo in let* h := opt_index hi in
  match v with
  | VB b => Ok (VB (slice l h b))
  | VS s => Ok (VS (slice l h s))
  | VL x => Ok (VL (slice l h x))
  | VT x => Ok (VT (slice l h x))
  | _ => Raise TypeError
  end.

Definition v_sub (v i : V) : res V :=
  match v, i with
  | VB b, VI z => let* x := PySlice.index b z in Ok (VI x)
  | VS s, VI z => let* x := PySlice.index s z in Ok (VS [x])
  | VL l, VI z | VT l, VI z => PySlice.index l z
  | _, _ => Raise TypeError
  end.

Definition v_iter (v : V) : res (list V) :=
  match v with
  | VL l | VT l => Ok l
  | VB b => Ok (map VI b)
  | VS s => Ok (map (fun c => VS [c]) s)
  | VO o => x_iter X o
  | _ => Raise TypeError
  end.

Fixpoint all_bytes (l : list V) : res bytes :=
  match l with
  | [] => Ok []
  | VB b :: r => let* t := all_bytes r in Ok (b ++ t)
  | _ => Raise TypeError
  end.
Fixpoint join_bytes (sep : bytes) (l : list V) : res bytes :=
  match l with
  | [] => Ok []
  | [VB b] => Ok b
  | VB b :: r => let* t := join_bytes sep r in Ok (b ++ sep ++ t)
  | _ => Raise TypeError
  end.
Fixpoint zrange (n : nat) (lo : Z) : list V :=
  match n with 0%nat => [] | S n' => VI lo :: zrange n' (lo + 1) end.

Definition byteorder_little (v : V) : res bool :=
  match v with
  | VS s => if zs_eqb s [108; 105; 116; 116; 108; 101] then Ok true
            else if zs_eqb s [98; 105; 103] then Ok false else Raise ValueError
  | _ => Raise TypeError
  end.

(* builtins: callee key as flow.py writes it (dotted name, "/kw1,kw2" appended when keywords are used) *)
Definition builtin_call (f : string) (args : list V) : res V :=
  if String.eqb f "len" then
    match args with
    | [VB b] => Ok (VI (len b)) | [VS s] => Ok (VI (len s)) | [VL l] | [VT l] => Ok (VI (len l))
    | _ => Raise TypeError
    end
  else if String.eqb f "bytes" || String.eqb f "bytearray" || String.eqb f "memoryview" then
    match args with
    | [VB b] => Ok (VB b)
    | [] => Ok (VB [])
    | [VI n] => if n <? 0 then Raise ValueError else Ok (VB (repeat_list (Z.to_nat n) [0]))
    | [VL l] | [VT l] =>
      (fix go (xs : list V) : res V :=
         match xs with
         | [] => Ok (VB [])
         | VI x :: r => if (x <? 0) || (255 <? x) then Raise ValueError
                        else match go r with Ok (VB t) => Ok (VB (x :: t)) | Ok _ => Raise TypeError | Raise e => Raise e end
         | _ => Raise TypeError
         end) l
    | _ => Raise TypeError
    end
  else if String.eqb f "int.from_bytes" || String.eqb f "int.from_bytes/byteorder" then
    match args with
    | [VB b; o] => let* little := byteorder_little o in Ok (VI (if little then le_val b else be_val b))
    | _ => Raise TypeError
    end
  else if String.eqb f "int.from_bytes/byteorder,signed" then
    match args with
    | [VB b; o; VI s] => let* little := byteorder_little o in
                         let u := if little then le_val b else be_val b in
                         Ok (VI (if s =? 0 then u else from_signed (List.length b) u))
    | _ => Raise TypeError
    end
  else if String.eqb f "range" then
    match args with
    | [VI n] => Ok (VL (zrange (Z.to_nat n) 0))
    | [VI a; VI b] => Ok (VL (zrange (Z.to_nat (b - a)) a))
    | _ => Raise TypeError
    end
  else if String.eqb f "list" || String.eqb f "tuple" then
    match args with
    | [] => Ok (if String.eqb f "list" then VL [] else VT [])
    | [v] => let* l := v_iter v in Ok (if String.eqb f "list" then VL l else VT l)
    | _ => Raise TypeError
    end
  else if String.eqb f "bool" then
    match args with [v] => let* t := v_truthy v in Ok (vb t) | _ => Raise TypeError end
  else if String.eqb f "setitem" then            (* x[i] = v, desugared by flow.py for a single-owner x *)
    match args with
    | [VB b; VI i; VI v] =>
      let n := len b in let j := if i <? 0 then n + i else i in
      if (v <? 0) || (255 <? v) then Raise ValueError            (* CPython converts the value before it looks at the index *)
      else if (j <? 0) || (n <=? j) then Raise IndexError
      else Ok (VB (slice None (Some j) b ++ [v] ++ slice (Some (j + 1)) None b))
    | [VL l; VI i; v] =>
      let n := len l in let j := if i <? 0 then n + i else i in
      if (j <? 0) || (n <=? j) then Raise IndexError
      else Ok (VL (slice None (Some j) l ++ [v] ++ slice (Some (j + 1)) None l))
    | _ => Raise TypeError
    end
  else if String.eqb f "setslice" then           (* x[lo:hi] = y on a bytearray *)
    match args with
    | [VB b; lo; hi; VB y] =>
      let* l := opt_index lo in let* h := opt_index hi in
      let n := len b in
      let a := match l with Some i => norm n i | None => 0 end in
      let z := match h with Some i => norm n i | None => n end in
      let z' := Z.max a z in
      Ok (VB (slice None (Some a) b ++ y ++ slice (Some z') None b))
    | _ => Raise TypeError
    end
  else if String.eqb f "enumerate" then
    match args with
    | [v] => let* l := v_iter v in
             Ok (VL ((fix go (i : Z) (xs : list V) : list V :=
                        match xs with [] => [] | x :: r => VT [VI i; x] :: go (i + 1) r end) 0 l))
    | _ => Raise TypeError
    end
  else if String.eqb f "reversed" then
    match args with [v] => let* l := v_iter v in Ok (VL (rev l)) | _ => Raise TypeError end
  else if String.eqb f "min" then
    match args with [VI a; VI b] => Ok (VI (Z.min a b)) | _ => Raise TypeError end
  else if String.eqb f "max" then
    match args with [VI a; VI b] => Ok (VI (Z.max a b)) | _ => Raise TypeError end
  else Raise TypeError.

Definition to_bytes_generic (z : Z) (n : Z) (little signed : bool) : res bytes :=
  if n <? 0 then Raise ValueError else
  let w := Z.to_nat n in
  if signed && (n =? 0) && (z =? -1) then Ok [] else     (* CPython: (-1).to_bytes(0, .., signed=True) == b"" *)
  if signed then
    (if little then to_bytes_le_signed w z
     else let* b := to_bytes_le_signed w z in Ok (rev b))
  else if little then to_bytes_le w z else to_bytes_be w z.

Definition builtin_meth (m : string) (recv : V) (args : list V) : res (V * V) :=
  let pure := fun (r : res V) => let* v := r in Ok (v, recv) in
  if String.eqb m "join" then
    match recv, args with
    | VB sep, [v] => pure (let* l := v_iter v in let* b := join_bytes sep l in Ok (VB b))
    | _, _ => Raise TypeError
    end
  else if String.eqb m "to_bytes" || String.eqb m "to_bytes/byteorder" then
    match recv, args with
    | VI z, [VI n; o] => pure (let* little := byteorder_little o in let* b := to_bytes_generic z n little false in Ok (VB b))
    | _, _ => Raise TypeError
    end
  else if String.eqb m "to_bytes/byteorder,signed" then
    match recv, args with
    | VI z, [VI n; o; VI s] =>
      pure (let* little := byteorder_little o in let* b := to_bytes_generic z n little (negb (s =? 0)) in Ok (VB b))
    | _, _ => Raise TypeError
    end
  else if String.eqb m "tobytes" then
    match recv, args with VB b, [] => pure (Ok (VB b)) | _, _ => Raise TypeError end
  else if String.eqb m "bit_length" then
    match recv, args with VI z, [] => pure (Ok (VI (Z.log2 (Z.abs z) + (if z =? 0 then 0 else 1)))) | _, _ => Raise TypeError end
  else if String.eqb m "reverse" then
    match recv, args with
    | VL l, [] => Ok (VN, VL (rev l))
    | VB b, [] => Ok (VN, VB (rev b))
    | _, _ => Raise TypeError
    end
  else if String.eqb m "append" then
    match recv, args with
    | VL l, [v] => Ok (VN, VL (l ++ [v]))
    | VB b, [VI v] => if (v <? 0) || (255 <? v) then Raise ValueError else Ok (VN, VB (b ++ [v]))
    | _, _ => Raise TypeError
    end
  else if String.eqb m "extend" then
    match recv, args with
    | VL l, [v] => let* more := v_iter v in Ok (VN, VL (l ++ more))
    | VB b, [VB c] => Ok (VN, VB (b ++ c))
    | _, _ => Raise TypeError
    end
  else if String.eqb m "encode" then
    match recv, args with
    | VS s, [VS e] =>
      if zs_eqb e [117; 116; 102; 45; 56] then pure (let* b := utf8_encode s in Ok (VB b))
      else if zs_eqb e [117; 116; 102; 45; 49; 54; 45; 108; 101] then pure (let* b := utf16le_encode s in Ok (VB b))
      else Raise TypeError
    | _, _ => Raise TypeError
    end
  else if String.eqb m "decode" then
    match recv, args with
    | VB b, [VS e] =>
      if zs_eqb e [117; 116; 102; 45; 56] then pure (let* s := utf8_decode b in Ok (VS s))
      else if zs_eqb e [117; 116; 102; 45; 49; 54; 45; 108; 101] then pure (let* s := utf16le_decode b in Ok (VS s))
      else Raise TypeError
    | _, _ => Raise TypeError
    end
  else Raise TypeError.

Definition or_else {A} (o : option (res A)) (d : res A) : res A :=
  match o with Some r => r | None => d end.

Definition std_exc (e : string) : err :=
  match x_exc X e with
  | Some r => r
  | None =>
    if String.eqb e "ValueError" then ValueError
    else if String.eqb e "NotImplementedError" then NotImplementedError
    else if String.eqb e "TypeError" then TypeError
    else if String.eqb e "KeyError" then KeyError
    else if String.eqb e "IndexError" then IndexError
    else if String.eqb e "OverflowError" then OverflowError
    else if String.eqb e "EOFError" then EOFError
    else if String.eqb e "AttributeError" then AttributeError
    else TypeError
  end.

Definition std_world : world V :=
  {| w_glob := fun x => or_else (x_glob X x) (Raise AttributeError);
     w_attr := fun a v => or_else (x_attr X a v) (Raise AttributeError);
     w_setattr := fun a o v => or_else (x_setattr X a o v) (Raise AttributeError);
     w_call := fun f args => or_else (x_call X f args) (builtin_call f args);
     w_meth := fun m r args => or_else (x_meth X m r args) (builtin_meth m r args);
     w_int := VI; w_bytes := VB; w_str := VS; w_none := VN; w_bool := vb;
     w_truthy := v_truthy;
     w_cmp := v_cmp;
     w_bin := v_bin;
     w_neg := fun v => match v with VI z => Ok (VI (- z)) | _ => Raise TypeError end;
     w_tuple := VT; w_list := VL;
     w_untuple := fun _ v => match v with VT l | VL l => Ok l | _ => Raise TypeError end;
     w_iter := v_iter;
     w_sub := v_sub;
     w_slice := v_slice;
     w_enter := x_enter X;
     w_exit := x_exit X;
     w_exc := std_exc |}.

End World.

(* an ext that claims nothing: the pure-Python world *)
Definition no_ext (O : Type) : ext O :=
  {| x_glob := fun _ => None; x_attr := fun _ _ => None; x_setattr := fun _ _ _ => None;
     x_call := fun _ _ => None; x_meth := fun _ _ _ => None;
     x_truthy := fun _ => Ok true; x_eqb := fun _ _ => None; x_iter := fun _ => Raise TypeError;
     x_enter := fun v => Ok v; x_exit := fun _ o => Ok o; x_exc := fun _ => None |}.
