(* Syntactic measures over the deep embedding of Prelude/PyAst.v: how often a callee / method name occurs in a function body and
   whether the body contains a loop.  Used for statements such as "the regenerated _sync_get_key opens exactly two connections, binds
   twice, sends two requests, and none of it inside a loop" - a complement to the checking worlds, which constrain each operation but
   not their number.  Prefix matching: flow.py appends "/kw1,kw2" to a callee used with keywords. *)
From V Require Import Prelude.PyAst.
From V Require Import Prelude.Base.
Import ListNotations.
Local Open Scope string_scope.

Definition name_matches (want got : string) : bool :=
  String.eqb want got || String.prefix (want ++ "/") got.

Fixpoint count_exp (want : string) (e : pexp) {struct e} : nat :=
  let sum := fix sum (l : list pexp) : nat := match l with [] => 0%nat | a :: r => (count_exp want a + sum r)%nat end in
  match e with
  | PName _ | PInt _ | PBytes _ | PStr _ | PNone | PBool _ => 0%nat
  | PAttr e' _ | PNot e' | PNeg e' => count_exp want e'
  | PCall f args => ((if name_matches want f then 1 else 0) + sum args)%nat
  | PMeth m recv args => ((if name_matches want m then 1 else 0) + count_exp want recv + sum args)%nat
  | PCmp _ a b | PAnd a b | POr a b | PBin _ a b | PSub a b => (count_exp want a + count_exp want b)%nat
  | PTuple l | PList l => sum l
  | PIfExp c a b | PSlice c a b => (count_exp want c + count_exp want a + count_exp want b)%nat
  | PComp elt _ it conds => (count_exp want elt + count_exp want it + sum conds)%nat
  end.

Fixpoint count_stmt (want : string) (s : pstmt) {struct s} : nat :=
  let sum := fix sum (l : list pstmt) : nat := match l with [] => 0%nat | a :: r => (count_stmt want a + sum r)%nat end in
  match s with
  | SAssign _ e | SSetAttr _ _ e | SReturn e | SExpr e => count_exp want e
  | SRaise _ | SBreak | SContinue | SPass => 0%nat
  | SIf c a b => (count_exp want c + sum a + sum b)%nat
  | SWhile c body => (count_exp want c + sum body)%nat
  | SFor _ it body => (count_exp want it + sum body)%nat
  | SWith ctx _ body => (count_exp want ctx + sum body)%nat
  end.
Definition count_calls (want : string) (f : pfun) : nat :=
  (fix sum (l : list pstmt) : nat := match l with [] => 0%nat | a :: r => (count_stmt want a + sum r)%nat end) (pf_body f).

(* no while / for statement and no comprehension anywhere: every call site is executed at most once per call of the function *)
Fixpoint loop_free_exp (e : pexp) {struct e} : bool :=
  let all := fix all (l : list pexp) : bool := match l with [] => true | a :: r => loop_free_exp a && all r end in
  match e with
  | PName _ | PInt _ | PBytes _ | PStr _ | PNone | PBool _ => true
  | PAttr e' _ | PNot e' | PNeg e' => loop_free_exp e'
  | PCall _ args => all args
  | PMeth _ recv args => loop_free_exp recv && all args
  | PCmp _ a b | PAnd a b | POr a b | PBin _ a b | PSub a b => loop_free_exp a && loop_free_exp b
  | PTuple l | PList l => all l
  | PIfExp c a b | PSlice c a b => loop_free_exp c && loop_free_exp a && loop_free_exp b
  | PComp _ _ _ _ => false
  end.
Fixpoint loop_free_stmt (s : pstmt) {struct s} : bool :=
  let all := fix all (l : list pstmt) : bool := match l with [] => true | a :: r => loop_free_stmt a && all r end in
  match s with
  | SAssign _ e | SSetAttr _ _ e | SReturn e | SExpr e => loop_free_exp e
  | SRaise _ | SBreak | SContinue | SPass => true
  | SIf c a b => loop_free_exp c && all a && all b
  | SWhile _ _ | SFor _ _ _ => false
  | SWith ctx _ body => loop_free_exp ctx && all body
  end.
Definition loop_free (f : pfun) : bool :=
  (fix all (l : list pstmt) : bool := match l with [] => true | a :: r => loop_free_stmt a && all r end) (pf_body f).
