(* Python int <-> bytes conversions (int.to_bytes / int.from_bytes / struct) on list Z. *)
From V Require Export Prelude.Base.

Fixpoint le (w : nat) (z : Z) : bytes :=
  match w with O => [] | S w' => (z mod 256) :: le w' (z / 256) end.
Fixpoint le_val (l : bytes) : Z :=
  match l with [] => 0 | b :: r => b + 256 * le_val r end.
Definition be (w : nat) (z : Z) : bytes := rev (le w z).
Definition be_val (l : bytes) : Z := le_val (rev l).

Definition P (w : nat) : Z := 256 ^ Z.of_nat w.
Lemma P_0 : P 0 = 1. Proof. reflexivity. Qed.
Lemma P_S w : P (S w) = 256 * P w.
Proof. unfold P. rewrite Nat2Z.inj_succ, Z.pow_succ_r by lia. reflexivity. Qed.
Lemma P_pos w : 0 < P w. Proof. unfold P. apply Z.pow_pos_nonneg; lia. Qed.
Global Opaque P.

Lemma le_length w z : length (le w z) = w.
Proof. revert z; induction w as [|w IH]; intros z; cbn [le length]; auto. Qed.
Lemma len_le w z : len (le w z) = Z.of_nat w.
Proof. unfold len. now rewrite le_length. Qed.
Lemma be_length w z : length (be w z) = w.
Proof. unfold be. now rewrite rev_length, le_length. Qed.
Lemma len_be w z : len (be w z) = Z.of_nat w.
Proof. unfold len. now rewrite be_length. Qed.

Lemma wfb_le w z : wfb (le w z) = true.
Proof. revert z; induction w as [|w IH]; intros z; cbn [le]; [reflexivity|].
  apply wfb_cons. split; [|apply IH]. pose proof (Z.mod_pos_bound z 256). lia. Qed.
Lemma wfb_rev b : wfb (rev b) = wfb b.
Proof. induction b as [|x b IH]; cbn [rev]; [reflexivity|].
  rewrite wfb_app, IH. cbn [wfb]. rewrite andb_true_r. apply andb_comm. Qed.
Lemma wfb_be w z : wfb (be w z) = true.
Proof. unfold be. rewrite wfb_rev. apply wfb_le. Qed.

Lemma le_val_le w : forall z, 0 <= z < P w -> le_val (le w z) = z.
Proof.
  induction w as [|w IH]; intros z Hz.
  - rewrite P_0 in Hz. cbn. lia.
  - rewrite P_S in Hz. cbn [le le_val]. rewrite IH by lia. lia.
Qed.
Lemma le_val_le_mod w : forall z, le_val (le w z) = z mod P w.
Proof.
  induction w as [|w IH]; intros z.
  - rewrite P_0. cbn. lia.
  - rewrite P_S. cbn [le le_val]. rewrite IH. pose proof (P_pos w). 
    rewrite Z.rem_mul_r by lia. reflexivity.
Qed.
Lemma le_val_range l : wfb l = true -> 0 <= le_val l < P (length l).
Proof.
  induction l as [|x l IH]; intros H.
  - cbn [length le_val]. rewrite P_0. lia.
  - apply wfb_cons in H. cbn [le_val length]. rewrite P_S. specialize (IH ltac:(tauto)). lia.
Qed.
Lemma le_le_val l : wfb l = true -> le (length l) (le_val l) = l.
Proof.
  induction l as [|x l IH]; intros H; [reflexivity|].
  apply wfb_cons in H. cbn [length le le_val].
  replace ((x + 256 * le_val l) mod 256) with x by lia.
  replace ((x + 256 * le_val l) / 256) with (le_val l) by lia.
  now rewrite IH.
Qed.
Lemma be_val_be w z : 0 <= z < P w -> be_val (be w z) = z.
Proof. intros. unfold be_val, be. rewrite rev_involutive. now apply le_val_le. Qed.
Lemma be_be_val l : wfb l = true -> be (length l) (be_val l) = l.
Proof. intros H. unfold be, be_val. rewrite <- (rev_length l), le_le_val, rev_involutive; auto.
  now rewrite wfb_rev. Qed.
Lemma be_val_range l : wfb l = true -> 0 <= be_val l < P (length l).
Proof. intros. unfold be_val. rewrite <- rev_length. apply le_val_range. now rewrite wfb_rev. Qed.

(* int.to_bytes(w, "little"/"big", signed=...) *)
Definition to_bytes_le (w : nat) (z : Z) : res bytes :=
  if (0 <=? z) && (z <? P w) then Ok (le w z) else Raise OverflowError.
Definition to_bytes_be (w : nat) (z : Z) : res bytes :=
  if (0 <=? z) && (z <? P w) then Ok (be w z) else Raise OverflowError.
Definition to_bytes_le_signed (w : nat) (z : Z) : res bytes :=
  if (- (P w) <=? 2 * z) && (2 * z <? P w) then Ok (le w (z mod P w)) else Raise OverflowError.
Definition from_signed (w : nat) (u : Z) : Z := if 2 * u <? P w then u else u - P w.
Definition le_val_signed (l : bytes) : Z := from_signed (length l) (le_val l).

Lemma le_val_signed_le w z : - P w <= 2 * z < P w -> (0 < w)%nat ->
  le_val_signed (le w (z mod P w)) = z.
Proof.
  intros Hz Hw. unfold le_val_signed, from_signed. rewrite le_length.
  pose proof (P_pos w). rewrite le_val_le by (apply Z.mod_pos_bound; lia).
  assert (Hm : z mod P w = if z <? 0 then z + P w else z).
  { destruct (z <? 0) eqn:Ez.
    - symmetry. apply (Z.mod_unique_pos z (P w) (-1)); lia.
    - apply Z.mod_small; lia. }
  rewrite Hm. destruct (z <? 0) eqn:Ez; destruct (2 * _ <? P w) eqn:E; lia.
Qed.

(* struct.pack("<I"/"<H"/"B") raise struct.error outside the range *)
Definition struct_le (w : nat) (z : Z) : res bytes :=
  if (0 <=? z) && (z <? P w) then Ok (le w z) else Raise StructError.

Lemma P_1 : P 1 = 256. Proof. rewrite P_S, P_0. reflexivity. Qed.
Lemma P_2 : P 2 = 65536. Proof. rewrite P_S, P_1. reflexivity. Qed.
Lemma P_4 : P 4 = 4294967296. Proof. rewrite !P_S, P_0. reflexivity. Qed.
Lemma P_8 : P 8 = 18446744073709551616. Proof. rewrite !P_S, P_0. reflexivity. Qed.
