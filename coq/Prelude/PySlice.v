(* Python sequence slicing / indexing with CPython's clamping and negative indices. *)
From V Require Export Prelude.Base.

Definition norm (n i : Z) : Z := if i <? 0 then Z.max 0 (n + i) else Z.min i n.
Definition slice {A} (lo hi : option Z) (l : list A) : list A :=
  let n := len l in
  let a := match lo with None => 0 | Some i => norm n i end in
  let b := match hi with None => n | Some i => norm n i end in
  firstn (Z.to_nat (b - a)) (skipn (Z.to_nat a) l).
(* l[i] : IndexError outside [-n, n) *)
Definition index {A} (l : list A) (i : Z) : res A :=
  let n := len l in
  let j := if i <? 0 then n + i else i in
  if (0 <=? j) && (j <? n) then
    match nth_error l (Z.to_nat j) with Some x => Ok x | None => Raise IndexError end
  else Raise IndexError.

Fixpoint off {A} (fs : list (list A)) (i : nat) {struct i} : Z :=
  match i, fs with O, _ => 0 | S i', f :: fs' => len f + off fs' i' | S _, [] => 0 end.

Lemma firstn_skipn_window {A} (pre mid post : list A) :
  firstn (length mid) (skipn (length pre) (pre ++ mid ++ post)) = mid.
Proof.
  rewrite skipn_app, skipn_all, Nat.sub_diag. cbn [app skipn].
  rewrite firstn_app, firstn_all, Nat.sub_diag. cbn. apply app_nil_r.
Qed.

Lemma split_concat {A} (fs : list (list A)) (i : nat) : (i < length fs)%nat ->
  concat fs = concat (firstn i fs) ++ nth i fs [] ++ concat (skipn (S i) fs).
Proof.
  revert i; induction fs as [|f fs IH]; intros i Hi; cbn in Hi; [lia|].
  destruct i; cbn [firstn skipn nth concat app]; [reflexivity|].
  rewrite <- app_assoc. f_equal. apply IH. lia.
Qed.
Lemma len_concat_firstn {A} (fs : list (list A)) i : (i <= length fs)%nat -> len (concat (firstn i fs)) = off fs i.
Proof.
  revert i; induction fs as [|f fs IH]; intros i Hi; destruct i; cbn in *; try lia.
  rewrite len_app, IH by lia. reflexivity.
Qed.

Lemma slice_field {A} (fs : list (list A)) (i : nat) a b : (i < length fs)%nat ->
  a = off fs i -> b = off fs i + len (nth i fs []) ->
  slice (Some a) (Some b) (concat fs) = nth i fs [].
Proof.
  intros Hi -> ->. rewrite (split_concat fs i Hi) at 1.
  pose proof (len_concat_firstn fs i ltac:(lia)) as Hl.
  set (pre := concat (firstn i fs)) in *. set (mid := nth i fs []). set (post := concat (skipn (S i) fs)).
  unfold slice, norm. unfold len in *. rewrite !app_length. rewrite <- Hl.
  destruct (Z.of_nat (length pre) <? 0) eqn:?; try lia.
  destruct (Z.of_nat (length pre) + Z.of_nat (length mid) <? 0) eqn:?; try lia.
  rewrite !Z.min_l by lia. rewrite Nat2Z.id.
  replace (Z.to_nat _) with (length mid) by lia.
  apply firstn_skipn_window.
Qed.
Lemma slice_tail {A} (fs : list (list A)) (i : nat) a : (i <= length fs)%nat -> a = off fs i ->
  slice (Some a) None (concat fs) = concat (skipn i fs).
Proof.
  intros Hi ->. replace (concat fs) with (concat (firstn i fs) ++ concat (skipn i fs)) by (rewrite <- concat_app, firstn_skipn; reflexivity).
  pose proof (len_concat_firstn fs i Hi) as Hl.
  set (pre := concat (firstn i fs)) in *. set (post := concat (skipn i fs)).
  unfold slice, norm, len in *. rewrite !app_length. rewrite <- Hl.
  destruct (Z.of_nat (length pre) <? 0) eqn:?; try lia.
  rewrite !Z.min_l by lia. rewrite Nat2Z.id.
  rewrite skipn_app, skipn_all, Nat.sub_diag. cbn [app skipn].
  replace (Z.to_nat _) with (length post) by lia. apply firstn_all.
Qed.

(* Direct forms on appended lists *)
Lemma slice_app_l {A} (a b : list A) : slice (Some 0) (Some (len a)) (a ++ b) = a.
Proof.
  unfold slice, norm. rewrite len_app. pose proof (len_nonneg a). pose proof (len_nonneg b).
  destruct (len a <? 0) eqn:?; try lia. cbn [Z.ltb Z.compare]. rewrite !Z.min_l by lia.
  cbn [Z.to_nat skipn]. rewrite Z.sub_0_r. unfold len. rewrite Nat2Z.id.
  rewrite firstn_app, firstn_all, Nat.sub_diag. cbn. apply app_nil_r.
Qed.
Lemma slice_none_l {A} (a b : list A) : slice None (Some (len a)) (a ++ b) = a.
Proof.
  unfold slice, norm. rewrite len_app. pose proof (len_nonneg a). pose proof (len_nonneg b).
  destruct (len a <? 0) eqn:?; try lia. rewrite !Z.min_l by lia.
  cbn [Z.to_nat skipn]. rewrite Z.sub_0_r. unfold len. rewrite Nat2Z.id.
  rewrite firstn_app, firstn_all, Nat.sub_diag. cbn. apply app_nil_r.
Qed.
Lemma slice_app_r {A} (a b : list A) : slice (Some (len a)) None (a ++ b) = b.
Proof.
  unfold slice, norm. rewrite len_app. pose proof (len_nonneg a). pose proof (len_nonneg b).
  destruct (len a <? 0) eqn:?; try lia. rewrite !Z.min_l by lia.
  unfold len. rewrite Nat2Z.id. rewrite skipn_app, skipn_all, Nat.sub_diag. cbn [app skipn].
  replace (Z.to_nat _) with (length b) by lia. apply firstn_all.
Qed.
Lemma slice_mid {A} (a m b : list A) x y : x = len a -> y = len a + len m ->
  slice (Some x) (Some y) (a ++ m ++ b) = m.
Proof.
  intros -> ->. unfold slice, norm. rewrite !len_app.
  pose proof (len_nonneg a). pose proof (len_nonneg b). pose proof (len_nonneg m).
  destruct (len a <? 0) eqn:?; try lia. destruct (len a + len m <? 0) eqn:?; try lia.
  rewrite !Z.min_l by lia. unfold len. rewrite Nat2Z.id.
  replace (Z.to_nat _) with (length m) by lia. apply firstn_skipn_window.
Qed.
Lemma len_slice {A} (l : list A) a b : 0 <= a <= b -> b <= len l -> len (slice (Some a) (Some b) l) = b - a.
Proof.
  intros H1 H2. unfold slice, norm. destruct (a <? 0) eqn:?; try lia. destruct (b <? 0) eqn:?; try lia.
  rewrite !Z.min_l by lia. unfold len in *. rewrite firstn_length, skipn_length. lia.
Qed.
Lemma wfb_slice lo hi b : wfb b = true -> wfb (slice lo hi b) = true.
Proof. intros. unfold slice. apply wfb_firstn, wfb_skipn; auto. Qed.

Lemma index_app_r {A} (a : list A) x b : index (a ++ x :: b) (len a) = Ok x.
Proof.
  unfold index. rewrite len_app, len_cons. pose proof (len_nonneg a). pose proof (len_nonneg b).
  destruct (len a <? 0) eqn:?; try lia.
  destruct ((0 <=? len a) && (len a <? len a + (1 + len b))) eqn:?; try lia.
  unfold len. rewrite Nat2Z.id, nth_error_app2, Nat.sub_diag by lia. reflexivity.
Qed.
Lemma index_0 {A} (x : A) l : index (x :: l) 0 = Ok x.
Proof. apply (index_app_r [] x l). Qed.
