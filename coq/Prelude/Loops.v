(* Fuelled while loop: the exit test is evaluated before fuel is consumed, so a loop whose
   condition is false returns with fuel 0; running out of fuel is the explicit error OutOfFuel. *)
From V Require Export Prelude.Base.

Fixpoint while {St : Type} (fuel : nat) (cond : St -> bool) (body : St -> St) (s : St) : res St :=
  if cond s then
    match fuel with O => Raise OutOfFuel | S f => while f cond body (body s) end
  else Ok s.

Lemma iter_shift {St} (body : St -> St) n s : Nat.iter (S n) body s = Nat.iter n body (body s).
Proof. induction n as [|n IH]; [reflexivity|]. change (Nat.iter (S (S n)) body s) with (body (Nat.iter (S n) body s)).
  rewrite IH. reflexivity. Qed.

Lemma while_steps {St} (cond : St -> bool) (body : St -> St) (n : nat) : forall (s : St) (fuel : nat),
  (forall i, (i < n)%nat -> cond (Nat.iter i body s) = true) ->
  cond (Nat.iter n body s) = false -> (n <= fuel)%nat ->
  while fuel cond body s = Ok (Nat.iter n body s).
Proof.
  induction n as [|n IH]; intros s fuel Hc He Hf.
  - cbn in He. destruct fuel; cbn; now rewrite He.
  - destruct fuel as [|fuel]; [lia|]. cbn [while].
    pose proof (Hc 0%nat ltac:(lia)) as H0; cbn in H0; rewrite H0.
    rewrite iter_shift in *. apply IH; [|assumption|lia].
    intros i Hi. specialize (Hc (S i) ltac:(lia)). now rewrite iter_shift in Hc.
Qed.

(* a loop whose condition stays true for every iterate never returns, whatever the fuel *)
Lemma while_diverges {St} (cond : St -> bool) (body : St -> St) : forall (fuel : nat) (s : St),
  (forall i, cond (Nat.iter i body s) = true) -> while fuel cond body s = Raise OutOfFuel.
Proof.
  induction fuel as [|fuel IH]; intros s H.
  - pose proof (H 0%nat) as H0; cbn in H0. cbn. now rewrite H0.
  - pose proof (H 0%nat) as H0; cbn in H0. cbn [while]. rewrite H0. apply IH. intros i. specialize (H (S i)).
    now rewrite iter_shift in H.
Qed.
