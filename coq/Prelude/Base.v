(* Shared conventions: bytes as list Z, Python exceptions as a result monad. *)
From Coq Require Export ZArith List Bool Lia ZifyBool.
Export ListNotations.
Open Scope Z_scope.

Ltac Zify.zify_post_hook ::= Z.to_euclidean_division_equations.

Definition bytes := list Z.
Definition len {A} (l : list A) : Z := Z.of_nat (length l).

Fixpoint wfb (b : bytes) : bool :=
  match b with [] => true | x :: r => (0 <=? x) && (x <? 256) && wfb r end.

(* Python exception classes the library can surface (coarse classes; subclasses of
   ValueError such as UnicodeDecodeError are folded into ValueError). OutOfFuel is not a
   Python exception: it is the model's "did not terminate within the stated fuel". *)
Inductive err :=
| ValueError | NotImplementedError | NotEnoughData | InvalidTag | InvalidUnwrap
| IndexError | OverflowError | StructError | TypeError | KeyError | AttributeError
| EOFError | IncompleteRead | NeedNetwork | OutOfFuel.

Inductive res (A : Type) := Ok (a : A) | Raise (e : err).
Arguments Ok {A} a.
Arguments Raise {A} e.

Definition bind {A B} (m : res A) (f : A -> res B) : res B :=
  match m with Ok a => f a | Raise e => Raise e end.
Notation "'let*' x ':=' m 'in' f" := (bind m (fun x => f))
  (at level 200, x pattern, m at level 100, f at level 200, right associativity).
Definition ret {A} (a : A) : res A := Ok a.

Lemma Ok_inj {A} (a b : A) : Ok a = Ok b -> a = b.
Proof. congruence. Qed.

Definition err_eqb (a b : err) : bool :=
  match a, b with
  | ValueError, ValueError | NotImplementedError, NotImplementedError
  | NotEnoughData, NotEnoughData | InvalidTag, InvalidTag | InvalidUnwrap, InvalidUnwrap
  | IndexError, IndexError | OverflowError, OverflowError | StructError, StructError
  | TypeError, TypeError | KeyError, KeyError | AttributeError, AttributeError
  | EOFError, EOFError | IncompleteRead, IncompleteRead | NeedNetwork, NeedNetwork
  | OutOfFuel, OutOfFuel => true
  | _, _ => false
  end.

(* The error classes the library raises on purpose (C05's "deliberate" set). *)
Definition deliberate (e : err) : bool :=
  match e with
  | ValueError | NotImplementedError | NotEnoughData | InvalidTag | InvalidUnwrap => true
  | _ => false
  end.

Lemma len_app {A} (a b : list A) : len (a ++ b) = len a + len b.
Proof. unfold len. rewrite app_length. lia. Qed.
Lemma len_nil {A} : len (@nil A) = 0. Proof. reflexivity. Qed.
Lemma len_cons {A} (x : A) l : len (x :: l) = 1 + len l.
Proof. unfold len. cbn [length]. rewrite Nat2Z.inj_succ. lia. Qed.
Lemma len_nonneg {A} (l : list A) : 0 <= len l. Proof. unfold len. lia. Qed.

Lemma wfb_app a b : wfb (a ++ b) = wfb a && wfb b.
Proof. induction a as [|x a IH]; cbn; [reflexivity|]. rewrite IH. now rewrite andb_assoc. Qed.
Lemma wfb_cons x r : wfb (x :: r) = true <-> (0 <= x < 256) /\ wfb r = true.
Proof. cbn [wfb]. rewrite !andb_true_iff, Z.leb_le, Z.ltb_lt. tauto. Qed.
Lemma wfb_firstn n b : wfb b = true -> wfb (firstn n b) = true.
Proof. revert n; induction b as [|x b IH]; intros [|n] H; cbn [firstn]; try reflexivity.
  apply wfb_cons in H. apply wfb_cons. split; [tauto|]. apply IH; tauto. Qed.
Lemma wfb_skipn n b : wfb b = true -> wfb (skipn n b) = true.
Proof. revert n; induction b as [|x b IH]; intros [|n] H; cbn [skipn]; auto.
  apply wfb_cons in H. apply IH; tauto. Qed.
Lemma wfb_repeat0 n : wfb (repeat 0 n) = true.
Proof. induction n; cbn; auto. Qed.
Lemma wfb_concat fs : forallb wfb fs = true -> wfb (concat fs) = true.
Proof. induction fs as [|f fs IH]; cbn; [reflexivity|]. rewrite andb_true_iff, wfb_app, andb_true_iff. tauto. Qed.
