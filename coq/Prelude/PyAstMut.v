(* PyAst's interpreter once more, for functions whose CALLEES mutate their arguments (a reader or writer handed to another
   library function, which advances it / appends to it) and for ties that must speak about the parameters AFTER the call:
     - an `mworld` is a `world` plus two optional meanings: mw_call_mut f args = Some (Ok (result, args afterwards)) and
       mw_meth_mut m recv args = Some (Ok (result, receiver afterwards, args afterwards)); where they answer None the plain
       w_call / w_meth of the base world apply. Every argument that is syntactically a LOCAL name gets its value afterwards
       written back (single-owner values, as in PyAst.v; aliasing between two names is still not modelled); the
       receiver of a method call is written back when it is a PLACE - a local name or an attribute path below one
       (`self._data.extend(..)` updates `self`), through w_setattr;
     - `run_mut fuel f args` returns the result AND the final values of the function's own parameters (a `return` keeps the
       environment of the point where it was executed).
   Everything else is PyAst.v's `eval` / `exec` verbatim. Syntax (`pexp`, `pstmt`, `pfun`) and `world` are PyAst's. *)
From V Require Import Prelude.PyAst.
From V Require Import Prelude.Base.
Import ListNotations.

Record mworld (V : Type) := {
  mw_base : world V;
  mw_call_mut : string -> list V -> option (res (V * list V));
  mw_meth_mut : string -> V -> list V -> option (res (V * V * list V)) }.
Arguments mw_base {V}. Arguments mw_call_mut {V}. Arguments mw_meth_mut {V}.

Section InterpMut.
Context {V : Type} (MW : mworld V).
Let W : world V := mw_base MW.

Definition penv := list (string * V).
Fixpoint lookup (x : string) (env : penv) : option V :=
  match env with
  | [] => None
  | (y, v) :: r => if String.eqb x y then Some v else lookup x r
  end.
Definition update (x : string) (v : V) (env : penv) : penv := (x, v) :: env.
Fixpoint update_all (xs : list string) (vs : list V) (env : penv) : penv :=
  match xs, vs with
  | x :: xs', v :: vs' => update_all xs' vs' (update x v env)
  | _, _ => env
  end.
Definition bind_targets (xs : list string) (v : V) (env : penv) : res penv :=
  match xs with
  | [x] => Ok (update x v env)
  | _ => let* vs := w_untuple W (length xs) v in
         if Nat.eqb (length vs) (length xs) then Ok (update_all xs vs env) else Raise ValueError
  end.
(* the local a method receiver / context owner expression denotes, if it is one *)
Definition owner_of (env : penv) (e : pexp) : option string :=
  match e with
  | PName x => match lookup x env with Some _ => Some x | None => None end
  | _ => None
  end.

(* A "place" is a local name or an attribute path below one (x, x.a, x.a.b). place_set stores a value there, rebuilding the
   objects on the path with w_setattr; an expression that is not a place (or whose root is not a local) is left alone. *)
Fixpoint place_get (env : penv) (p : pexp) : option V :=
  match p with
  | PName x => lookup x env
  | PAttr q a => match place_get env q with
                 | Some o => match w_attr W a o with Ok v => Some v | Raise _ => None end
                 | None => None
                 end
  | _ => None
  end.
Fixpoint place_set (env : penv) (p : pexp) (v : V) : penv :=
  match p with
  | PName x => match lookup x env with Some _ => update x v env | None => env end
  | PAttr q a => match place_get env q with
                 | Some o => match w_setattr W a o v with Ok o' => place_set env q o' | Raise _ => env end
                 | None => env
                 end
  | _ => env
  end.

(* values afterwards written back to the arguments that are places *)
Fixpoint write_back (args : list pexp) (vs : list V) (env : penv) : penv :=
  match args, vs with
  | a :: ar, v :: vr => write_back ar vr (place_set env a v)
  | _, _ => env
  end.

(* expressions are evaluated left to right; the environment is threaded because a method call may
   change its receiver *)
Fixpoint eval (env : penv) (e : pexp) {struct e} : res (V * penv) :=
  let evals := fix evals (env : penv) (l : list pexp) : res (list V * penv) :=
    match l with
    | [] => Ok ([], env)
    | a :: r => let* (v, env1) := eval env a in let* (vs, env2) := evals env1 r in Ok (v :: vs, env2)
    end in
  let truth := fun (env : penv) (c : pexp) =>
    let* (v, env1) := eval env c in let* t := w_truthy W v in Ok (t, v, env1) in
  match e with
  | PName x => match lookup x env with Some v => Ok (v, env) | None => let* v := w_glob W x in Ok (v, env) end
  | PAttr e' a => let* (v, env1) := eval env e' in let* r := w_attr W a v in Ok (r, env1)
  | PInt z => Ok (w_int W z, env)
  | PBytes b => Ok (w_bytes W b, env)
  | PStr s => Ok (w_str W s, env)
  | PNone => Ok (w_none W, env)
  | PBool b => Ok (w_bool W b, env)
  | PCall f args =>
      let* (vs, env1) := evals env args in
      match mw_call_mut MW f vs with
      | Some m => let* (r, vs') := m in Ok (r, write_back args vs' env1)
      | None => let* r := w_call W f vs in Ok (r, env1)
      end
  | PMeth m recv args =>
      let* (rv, env1) := eval env recv in
      let* (vs, env2) := evals env1 args in
      match mw_meth_mut MW m rv vs with
      | Some mm =>
        let* (r, rv', vs') := mm in
        Ok (r, write_back args vs' (place_set env2 recv rv'))
      | None =>
        let* (r, rv') := w_meth W m rv vs in
        Ok (r, place_set env2 recv rv')
      end
  | PCmp op a b => let* (x, env1) := eval env a in let* (y, env2) := eval env1 b in
                   let* r := w_cmp W op x y in Ok (w_bool W r, env2)
  | PNot e' => let* (t, _, env1) := truth env e' in Ok (w_bool W (negb t), env1)
  | PAnd a b => let* (t, x, env1) := truth env a in if t then eval env1 b else Ok (x, env1)
  | POr a b => let* (t, x, env1) := truth env a in if t then Ok (x, env1) else eval env1 b
  | PBin op a b => let* (x, env1) := eval env a in let* (y, env2) := eval env1 b in
                   let* r := w_bin W op x y in Ok (r, env2)
  | PNeg e' => let* (v, env1) := eval env e' in let* r := w_neg W v in Ok (r, env1)
  | PTuple l => let* (vs, env1) := evals env l in Ok (w_tuple W vs, env1)
  | PList l => let* (vs, env1) := evals env l in Ok (w_list W vs, env1)
  | PIfExp c a b => let* (t, _, env1) := truth env c in if t then eval env1 a else eval env1 b
  | PSub e' i => let* (v, env1) := eval env e' in let* (j, env2) := eval env1 i in
                 let* r := w_sub W v j in Ok (r, env2)
  | PSlice e' lo hi => let* (v, env1) := eval env e' in let* (l, env2) := eval env1 lo in
                       let* (h, env3) := eval env2 hi in let* r := w_slice W v l h in Ok (r, env3)
  | PComp elt xs it conds =>
      let* (iv, env1) := eval env it in
      let* items := w_iter W iv in
      (* the comprehension's variables are local to it: the outer environment is restored *)
      let* out := (fix each (vs : list V) (envc : penv) : res (list V) :=
         match vs with
         | [] => Ok []
         | v :: r =>
           let* envb := bind_targets xs v envc in
           let* (keep, envd) := (fix allc (cs : list pexp) (en : penv) : res (bool * penv) :=
              match cs with
              | [] => Ok (true, en)
              | c :: cr => let* (t, _, en1) := truth en c in if t then allc cr en1 else Ok (false, en1)
              end) conds envb in
           if keep then let* (x, enve) := eval envd elt in let* rest := each r enve in Ok (x :: rest)
           else each r envd
         end) items env1 in
      Ok (w_list W out, env1)
  end.

Inductive outcome := Next (env : penv) | Ret (v : V) (env : penv) | Brk (env : penv) | Cont (env : penv).

Definition test (env : penv) (c : pexp) : res (bool * penv) :=
  let* (v, env1) := eval env c in let* t := w_truthy W v in Ok (t, env1).

(* fuel bounds the iterations of each `while`; everything else is structural *)
Fixpoint exec (fuel : nat) (env : penv) (s : pstmt) {struct s} : res outcome :=
  let blk := fix blk (ss : list pstmt) (env : penv) : res outcome :=
    match ss with
    | [] => Ok (Next env)
    | s' :: r => let* o := exec fuel env s' in
                 match o with Next env' => blk r env' | other => Ok other end
    end in
  match s with
  | SAssign xs e => let* (v, env1) := eval env e in let* env2 := bind_targets xs v env1 in Ok (Next env2)
  | SSetAttr x a e =>
      let* (v, env1) := eval env e in
      match lookup x env1 with
      | None => Raise AttributeError
      | Some o => let* o' := w_setattr W a o v in Ok (Next (update x o' env1))
      end
  | SReturn e => let* (v, env1) := eval env e in Ok (Ret v env1)
  | SRaise exc => Raise (w_exc W exc)
  | SIf c a b => let* (t, env1) := test env c in if t then blk a env1 else blk b env1
  | SExpr e => let* (_, env1) := eval env e in Ok (Next env1)
  | SWhile c body =>
      (fix loop (n : nat) (env : penv) : res outcome :=
         match n with
         | O => Raise OutOfFuel
         | S n' => let* (t, env1) := test env c in
                   if t then let* o := blk body env1 in
                             match o with
                             | Next env' | Cont env' => loop n' env'
                             | Brk env' => Ok (Next env')
                             | Ret v envr => Ok (Ret v envr)
                             end
                   else Ok (Next env1)
         end) fuel env
  | SFor xs it body =>
      let* (iv, env1) := eval env it in
      let* items := w_iter W iv in
      (fix each (vs : list V) (env : penv) : res outcome :=
         match vs with
         | [] => Ok (Next env)
         | v :: r => let* envb := bind_targets xs v env in
                     let* o := blk body envb in
                     match o with
                     | Next env' | Cont env' => each r env'
                     | Brk env' => Ok (Next env')
                     | Ret w envr => Ok (Ret w envr)
                     end
         end) items env1
  | SWith ctx x body =>
      let owner := match ctx with PMeth _ recv _ => owner_of env recv | _ => None end in
      let* (cv, env1) := eval env ctx in
      let* y := w_enter W cv in
      let y_name := match x with Some n => n | None => EmptyString end in
      let* o := blk body (update y_name y env1) in
      (* the context is left when the body falls through; an exception propagates (bind) and a `return` inside the
         body returns at once: what __exit__ does on those two paths is not modelled *)
      let leave := fun (env2 : penv) =>
        let yf := match lookup y_name env2 with Some v => v | None => y end in
        let ov := match owner with Some p => lookup p env2 | None => None end in
        let* ov' := w_exit W yf ov in
        Ok (match owner, ov' with Some p, Some v => update p v env2 | _, _ => env2 end) in
      match o with
      | Next env2 => let* env3 := leave env2 in Ok (Next env3)
      | Brk env2 => let* env3 := leave env2 in Ok (Brk env3)
      | Cont env2 => let* env3 := leave env2 in Ok (Cont env3)
      | Ret v envr => Ok (Ret v envr)
      end
  | SBreak => Ok (Brk env)
  | SContinue => Ok (Cont env)
  | SPass => Ok (Next env)
  end.

Fixpoint exec_block (fuel : nat) (ss : list pstmt) (env : penv) : res outcome :=
  match ss with
  | [] => Ok (Next env)
  | s :: r => let* o := exec fuel env s in
              match o with Next env' => exec_block fuel r env' | other => Ok other end
  end.

Fixpoint bind_params (xs : list string) (vs : list V) : option penv :=
  match xs, vs with
  | [], [] => Some []
  | x :: xs', v :: vs' => match bind_params xs' vs' with Some env => Some ((x, v) :: env) | None => None end
  | _, _ => None
  end.

(* a function that falls off its end returns None; the second component is the final value of each parameter *)
Definition run_mut (fuel : nat) (f : pfun) (args : list V) : res (V * list V) :=
  match bind_params (pf_params f) args with
  | None => Raise TypeError
  | Some env =>
    let* o := exec_block fuel (pf_body f) env in
    let finals := fun (e : penv) => map (fun p => match lookup p e with Some v => v | None => w_none W end) (pf_params f) in
    match o with
    | Ret v e => Ok (v, finals e)
    | Next e | Brk e | Cont e => Ok (w_none W, finals e)
    end
  end.

End InterpMut.
