(* Python str <-> bytes: UTF-16-LE and UTF-8 strict codecs on lists of code points. *)
From V Require Export Prelude.Base.

Definition is_surrogate (c : Z) : bool := (55296 <=? c) && (c <=? 57343).
Definition scalar (c : Z) : bool := (0 <=? c) && (c <=? 1114111) && negb (is_surrogate c).
Definition wfstr (s : list Z) : bool := forallb scalar s.

(* ---------------- UTF-16-LE ---------------- *)
Definition u16le (u : Z) : bytes := [u mod 256; u / 256].
Definition utf16_cp (c : Z) : res bytes :=
  if negb (scalar c) then Raise ValueError (* UnicodeEncodeError: surrogates not allowed *)
  else if c <? 65536 then Ok (u16le c)
  else let v := c - 65536 in Ok (u16le (55296 + v / 1024) ++ u16le (56320 + v mod 1024)).
Fixpoint utf16le_encode (s : list Z) : res bytes :=
  match s with
  | [] => Ok []
  | c :: r => let* a := utf16_cp c in let* b := utf16le_encode r in Ok (a ++ b)
  end.

(* strict decoder: odd length, lone or misordered surrogates -> UnicodeDecodeError (ValueError) *)
Fixpoint utf16le_decode_fuel (fuel : nat) (b : bytes) : res (list Z) :=
  match fuel with
  | O => match b with [] => Ok [] | _ => Raise OutOfFuel end
  | S f =>
    match b with
    | [] => Ok []
    | [_] => Raise ValueError
    | lo :: hi :: r =>
      let u := lo + 256 * hi in
      if (u <? 55296) || (57343 <? u) then
        let* s := utf16le_decode_fuel f r in Ok (u :: s)
      else if 56320 <=? u then Raise ValueError   (* low surrogate first *)
      else
        match r with
        | lo2 :: hi2 :: r2 =>
          let u2 := lo2 + 256 * hi2 in
          if (56320 <=? u2) && (u2 <=? 57343) then
            let* s := utf16le_decode_fuel f r2 in Ok (65536 + (u - 55296) * 1024 + (u2 - 56320) :: s)
          else Raise ValueError
        | _ => Raise ValueError
        end
    end
  end.
Definition utf16le_decode (b : bytes) : res (list Z) := utf16le_decode_fuel (length b) b.

Lemma utf16_cp_len c a : utf16_cp c = Ok a -> (length a = 2 \/ length a = 4)%nat.
Proof. unfold utf16_cp. destruct (negb (scalar c)); [discriminate|].
  destruct (c <? 65536); intros H; apply Ok_inj in H; subst a; unfold u16le; cbn [length app]; auto. Qed.
Lemma wfb_u16le u : 0 <= u < 65536 -> wfb (u16le u) = true.
Proof. intros H. unfold u16le. apply wfb_cons. split; [lia|]. apply wfb_cons. split; [lia|reflexivity]. Qed.
Lemma utf16_cp_wfb c a : utf16_cp c = Ok a -> wfb a = true.
Proof.
  unfold utf16_cp. destruct (negb (scalar c)) eqn:E; [discriminate|].
  apply negb_false_iff in E. unfold scalar, is_surrogate in E.
  destruct (c <? 65536) eqn:E2; intros H; apply Ok_inj in H; subst a.
  - apply wfb_u16le. lia.
  - cbv zeta. rewrite wfb_app, !wfb_u16le by lia. reflexivity.
Qed.
Lemma utf16le_encode_wfb s : forall b, utf16le_encode s = Ok b -> wfb b = true.
Proof.
  induction s as [|c s IH]; cbn [utf16le_encode]; intros b H; [now injection H as <-|].
  destruct (utf16_cp c) as [a|] eqn:Ea; [|discriminate]. cbn [bind] in H.
  destruct (utf16le_encode s) as [b'|] eqn:Eb; [|discriminate]. cbn [bind] in H. injection H as <-.
  rewrite wfb_app. rewrite (utf16_cp_wfb _ _ Ea), (IH _ eq_refl). reflexivity.
Qed.
Lemma utf16le_encode_ok s : wfstr s = true -> exists b, utf16le_encode s = Ok b.
Proof.
  induction s as [|c s IH]; cbn [utf16le_encode wfstr forallb]; intros H; [eauto|].
  apply andb_true_iff in H as [Hc Hs]. destruct (IH Hs) as [b Hb]. rewrite Hb.
  unfold utf16_cp. rewrite Hc. cbn [negb]. destruct (c <? 65536); cbn [bind]; eauto.
Qed.

Lemma utf16le_decode_fuel_encode s : forall b fuel rest_ok, utf16le_encode s = Ok b -> (length b <= fuel)%nat ->
  rest_ok = tt -> utf16le_decode_fuel fuel b = Ok s.
Proof.
  induction s as [|c s IH]; cbn [utf16le_encode]; intros b fuel ? H Hf _.
  - injection H as <-. destruct fuel; reflexivity.
  - destruct (utf16_cp c) as [a|] eqn:Ea; [|discriminate]. cbn [bind] in H.
    destruct (utf16le_encode s) as [b'|] eqn:Eb; [|discriminate]. cbn [bind] in H. injection H as <-.
    unfold utf16_cp in Ea. destruct (negb (scalar c)) eqn:Esc; [discriminate|].
    apply negb_false_iff in Esc. unfold scalar, is_surrogate in Esc.
    destruct (c <? 65536) eqn:E1; apply Ok_inj in Ea; subst a; cbv zeta.
    + unfold u16le in *. cbn [app]. cbn [app length] in Hf. destruct fuel as [|fuel]; [lia|].
      cbn [utf16le_decode_fuel].
      replace (c mod 256 + 256 * (c / 256)) with c by lia.
      destruct ((c <? 55296) || (57343 <? c)) eqn:E2; [|lia].
      rewrite (IH b' fuel tt eq_refl ltac:(lia) eq_refl). reflexivity.
    + unfold u16le in *. cbn [app]. cbn [app length] in Hf. destruct fuel as [|fuel]; [lia|].
      cbn [utf16le_decode_fuel].
      set (v := c - 65536) in *. set (u := 55296 + v / 1024). set (u2 := 56320 + v mod 1024).
      replace (u mod 256 + 256 * (u / 256)) with u by lia.
      replace (u2 mod 256 + 256 * (u2 / 256)) with u2 by lia.
      assert (0 <= v < 1048576) by (unfold v; lia).
      destruct ((u <? 55296) || (57343 <? u)) eqn:E2; [unfold u in *; lia|].
      destruct (56320 <=? u) eqn:E3; [unfold u in *; lia|].
      destruct ((56320 <=? u2) && (u2 <=? 57343)) eqn:E4; [|unfold u2 in *; lia].
      rewrite (IH b' fuel tt eq_refl ltac:(lia) eq_refl). cbn [bind]. f_equal. f_equal. unfold u, u2, v. lia.
Qed.
Lemma utf16le_decode_encode s b : utf16le_encode s = Ok b -> utf16le_decode b = Ok s.
Proof. intros H. unfold utf16le_decode. apply (utf16le_decode_fuel_encode s b _ tt H); auto. Qed.

(* ---------------- UTF-8 ---------------- *)
Definition utf8_cp (c : Z) : res bytes :=
  if negb (scalar c) then Raise ValueError
  else if c <? 128 then Ok [c]
  else if c <? 2048 then Ok [192 + c / 64; 128 + c mod 64]
  else if c <? 65536 then Ok [224 + c / 4096; 128 + (c / 64) mod 64; 128 + c mod 64]
  else Ok [240 + c / 262144; 128 + (c / 4096) mod 64; 128 + (c / 64) mod 64; 128 + c mod 64].
Fixpoint utf8_encode (s : list Z) : res bytes :=
  match s with
  | [] => Ok []
  | c :: r => let* a := utf8_cp c in let* b := utf8_encode r in Ok (a ++ b)
  end.
Definition cont (x : Z) : bool := (128 <=? x) && (x <=? 191).
Fixpoint utf8_decode_fuel (fuel : nat) (b : bytes) : res (list Z) :=
  match fuel with
  | O => match b with [] => Ok [] | _ => Raise OutOfFuel end
  | S f =>
    match b with
    | [] => Ok []
    | x :: r =>
      if x <? 128 then let* s := utf8_decode_fuel f r in Ok (x :: s)
      else if (194 <=? x) && (x <=? 223) then
        match r with
        | y :: r2 => if cont y then let* s := utf8_decode_fuel f r2 in Ok ((x - 192) * 64 + (y - 128) :: s) else Raise ValueError
        | _ => Raise ValueError end
      else if (224 <=? x) && (x <=? 239) then
        match r with
        | y :: z :: r2 =>
          let c := (x - 224) * 4096 + (y - 128) * 64 + (z - 128) in
          if cont y && cont z && (2048 <=? c) && negb (is_surrogate c)
          then let* s := utf8_decode_fuel f r2 in Ok (c :: s) else Raise ValueError
        | _ => Raise ValueError end
      else if (240 <=? x) && (x <=? 244) then
        match r with
        | y :: z :: w :: r2 =>
          let c := (x - 240) * 262144 + (y - 128) * 4096 + (z - 128) * 64 + (w - 128) in
          if cont y && cont z && cont w && (65536 <=? c) && (c <=? 1114111)
          then let* s := utf8_decode_fuel f r2 in Ok (c :: s) else Raise ValueError
        | _ => Raise ValueError end
      else Raise ValueError
    end
  end.
Definition utf8_decode (b : bytes) : res (list Z) := utf8_decode_fuel (length b) b.

Lemma utf8_decode_fuel_encode s : forall b fuel, utf8_encode s = Ok b -> (length b <= fuel)%nat ->
  utf8_decode_fuel fuel b = Ok s.
Proof.
  induction s as [|c s IH]; cbn [utf8_encode]; intros b fuel H Hf.
  - injection H as <-. destruct fuel; reflexivity.
  - destruct (utf8_cp c) as [a|] eqn:Ea; [|discriminate]. cbn [bind] in H.
    destruct (utf8_encode s) as [b'|] eqn:Eb; [|discriminate]. cbn [bind] in H. injection H as <-.
    unfold utf8_cp in Ea. destruct (negb (scalar c)) eqn:Esc; [discriminate|].
    apply negb_false_iff in Esc. unfold scalar, is_surrogate in Esc.
    destruct (c <? 128) eqn:E1; [|destruct (c <? 2048) eqn:E2; [|destruct (c <? 65536) eqn:E3]];
      apply Ok_inj in Ea; subst a; cbn [app length] in Hf; (destruct fuel as [|fuel]; [lia|]); cbn [app utf8_decode_fuel].
    + rewrite E1. rewrite (IH b' fuel eq_refl ltac:(lia)). reflexivity.
    + destruct (192 + c / 64 <? 128) eqn:?; [lia|].
      destruct ((194 <=? 192 + c / 64) && (192 + c / 64 <=? 223)) eqn:?; [|lia].
      unfold cont. destruct ((128 <=? 128 + c mod 64) && (128 + c mod 64 <=? 191)) eqn:?; [|lia].
      rewrite (IH b' fuel eq_refl ltac:(lia)). cbn [bind]. do 2 f_equal. lia.
    + destruct (224 + c / 4096 <? 128) eqn:?; [lia|].
      destruct ((194 <=? 224 + c / 4096) && (224 + c / 4096 <=? 223)) eqn:?; [lia|].
      destruct ((224 <=? 224 + c / 4096) && (224 + c / 4096 <=? 239)) eqn:?; [|lia].
      replace ((224 + c / 4096 - 224) * 4096 + (128 + (c / 64) mod 64 - 128) * 64 + (128 + c mod 64 - 128)) with c by lia.
      unfold cont, is_surrogate.
      destruct (_ && _ && (2048 <=? c) && _) eqn:E9; [|lia].
      rewrite (IH b' fuel eq_refl ltac:(lia)). reflexivity.
    + destruct (240 + c / 262144 <? 128) eqn:?; [lia|].
      destruct ((194 <=? 240 + c / 262144) && (240 + c / 262144 <=? 223)) eqn:?; [lia|].
      destruct ((224 <=? 240 + c / 262144) && (240 + c / 262144 <=? 239)) eqn:?; [lia|].
      destruct ((240 <=? 240 + c / 262144) && (240 + c / 262144 <=? 244)) eqn:?; [|lia].
      replace ((240 + c / 262144 - 240) * 262144 + (128 + (c / 4096) mod 64 - 128) * 4096 +
               (128 + (c / 64) mod 64 - 128) * 64 + (128 + c mod 64 - 128)) with c by lia.
      unfold cont.
      destruct (_ && _ && _ && (65536 <=? c) && _) eqn:E9; [|lia].
      rewrite (IH b' fuel eq_refl ltac:(lia)). reflexivity.
Qed.
Lemma utf8_decode_encode s b : utf8_encode s = Ok b -> utf8_decode b = Ok s.
Proof. intros H. unfold utf8_decode. now apply utf8_decode_fuel_encode. Qed.
