(* Universal value type used at the boundary of the correspondence check: every model unit is
   a function val -> val; the OCaml driver only parses and prints this type. *)
From V Require Export Prelude.Base.

Inductive val :=
| VI (z : Z)            (* Python int / bool *)
| VB (b : bytes)        (* bytes *)
| VS (s : list Z)       (* str as code points *)
| VL (l : list val)     (* list / tuple / dataclass fields *)
| VN                    (* None *)
| VE (e : err).         (* raised exception class *)

Definition vbool (b : bool) : val := VI (if b then 1 else 0).
Definition vres {A} (f : A -> val) (r : res A) : val :=
  match r with Ok a => f a | Raise e => VE e end.
Definition vopt {A} (f : A -> val) (o : option A) : val :=
  match o with Some a => f a | None => VN end.
Definition bad : val := VE TypeError.   (* malformed case argument *)
