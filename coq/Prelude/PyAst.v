(* A deep embedding of the statement/expression subset of Python in which the library's functions are
   written, and its interpreter over an abstract "world".

   vlib/flow.py translates a function's ast (syntax to syntax, no knowledge of the library) into a
   term of type `pfun` in coq/gen/F_<area>.v on every run.  What a module-level name, an attribute, a
   call or a method MEANS is not decided by the translator: it is the `world` record a proof file
   instantiates with the model's own functions (for instance "keywrap.aes_key_unwrap" := kw_unwrap c).
   A tie theorem then reads   run W fuel k_flow_f args = inject (model_f args)   and is re-checked
   against the regenerated term on every run.

   Mutable objects are single-owner values: a method call  x.m(a)  on a LOCAL name x - or on an attribute path
   x.a.b below one - yields a result and the new value of the receiver, which is written back (w_meth, w_setattr); `with p.m(a) as y: body` binds y to what the method returns and, when the
   body ends, gives the final y back to p (w_exit).  Aliasing between two names is not modelled: a world
   must not be instantiated for a function that relies on it (each tie file says which functions it
   covers).  No proofs about particular functions here. *)
From Coq Require Export String.
From V Require Import Prelude.Base.

Inductive pexp :=
| PName (x : string)                       (* local, parameter or (dotted) module-level name *)
| PAttr (e : pexp) (a : string)
| PInt (z : Z)
| PBytes (b : bytes)
| PStr (s : list Z)
| PNone
| PBool (b : bool)
| PCall (f : string) (args : list pexp)    (* f = dotted module-level callee; keyword names are appended to f
                                              after "/" and their values to args, in source order *)
| PMeth (m : string) (recv : pexp) (args : list pexp)
| PCmp (op : string) (a b : pexp)
| PNot (e : pexp)
| PAnd (a b : pexp)
| POr (a b : pexp)
| PBin (op : string) (a b : pexp)
| PNeg (e : pexp)
| PTuple (l : list pexp)
| PList (l : list pexp)
| PIfExp (c a b : pexp)
| PSub (e i : pexp)
| PSlice (e lo hi : pexp)                  (* missing bound = PNone *)
| PComp (elt : pexp) (xs : list string) (it : pexp) (conds : list pexp).   (* [elt for xs in it if c1 if c2] *)

Inductive pstmt :=
| SAssign (xs : list string) (e : pexp)    (* x = e   or   (x, y, ..) = e *)
| SSetAttr (x : string) (a : string) (e : pexp)   (* x.a = e on a local x *)
| SReturn (e : pexp)
| SRaise (exc : string)
| SIf (c : pexp) (a b : list pstmt)
| SExpr (e : pexp)
| SWhile (c : pexp) (body : list pstmt)
| SFor (xs : list string) (it : pexp) (body : list pstmt)
| SWith (ctx : pexp) (x : option string) (body : list pstmt)
| SBreak
| SContinue
| SPass.

Record pfun := { pf_params : list string; pf_body : list pstmt }.

Record world (V : Type) := {
  w_glob : string -> res V;
  w_attr : string -> V -> res V;
  w_setattr : string -> V -> V -> res V;          (* attribute, object, new value -> new object *)
  w_call : string -> list V -> res V;
  w_meth : string -> V -> list V -> res (V * V);  (* method, receiver, args -> (result, receiver afterwards) *)
  w_int : Z -> V;
  w_bytes : bytes -> V;
  w_str : list Z -> V;
  w_none : V;
  w_bool : bool -> V;
  w_truthy : V -> res bool;
  w_cmp : string -> V -> V -> res bool;
  w_bin : string -> V -> V -> res V;
  w_neg : V -> res V;
  w_tuple : list V -> V;
  w_list : list V -> V;
  w_untuple : nat -> V -> res (list V);           (* tuple unpacking into n names *)
  w_iter : V -> res (list V);                     (* the elements a for loop / comprehension visits *)
  w_sub : V -> V -> res V;
  w_slice : V -> V -> V -> res V;
  w_enter : V -> res V;                           (* with ctx as y: y := w_enter ctx *)
  w_exit : V -> option V -> res (option V);       (* final y, owner (the local the ctx method was called on) -> owner afterwards *)
  w_exc : string -> err }.
Arguments w_glob {V}. Arguments w_attr {V}. Arguments w_setattr {V}. Arguments w_call {V}. Arguments w_meth {V}.
Arguments w_int {V}. Arguments w_bytes {V}. Arguments w_str {V}. Arguments w_none {V}. Arguments w_bool {V}.
Arguments w_truthy {V}. Arguments w_cmp {V}. Arguments w_bin {V}. Arguments w_neg {V}.
Arguments w_tuple {V}. Arguments w_list {V}. Arguments w_untuple {V}. Arguments w_iter {V}. Arguments w_sub {V}.
Arguments w_slice {V}. Arguments w_enter {V}. Arguments w_exit {V}. Arguments w_exc {V}.

Section Interp.
Context {V : Type} (W : world V).

Definition penv := list (string * V).
Fixpoint lookup (x : string) (env : penv) : option V :=
  match env with
  | [] => None
  | (y, v) :: r => if String.eqb x y then Some v else lookup x r
  end.
Definition update (x : string) (v : V) (env : penv) : penv := (x, v) :: env.
Fixpoint update_all (xs : list string) (vs : list V) (env : penv) : penv :=
  match xs, vs with
  | x :: xs', v :: vs' => update_all xs' vs' (update x v env)
  | _, _ => env
  end.
Definition bind_targets (xs : list string) (v : V) (env : penv) : res penv :=
  match xs with
  | [x] => Ok (update x v env)
  | _ => let* vs := w_untuple W (length xs) v in
         if Nat.eqb (length vs) (length xs) then Ok (update_all xs vs env) else Raise ValueError
  end.
(* the local a method receiver / context owner expression denotes, if it is one *)
Definition owner_of (env : penv) (e : pexp) : option string :=
  match e with
  | PName x => match lookup x env with Some _ => Some x | None => None end
  | _ => None
  end.

(* A "place" is a local name or an attribute path below one (x, x.a, x.a.b): a method call writes its receiver back there,
   rebuilding the objects on the path with w_setattr (`self._data.extend(..)` updates `self`); a receiver that is not a place
   (or whose root is not a local) is left alone *)
Fixpoint place_get (env : penv) (p : pexp) : option V :=
  match p with
  | PName x => lookup x env
  | PAttr q a => match place_get env q with
                 | Some o => match w_attr W a o with Ok v => Some v | Raise _ => None end
                 | None => None
                 end
  | _ => None
  end.
Fixpoint place_set (env : penv) (p : pexp) (v : V) : penv :=
  match p with
  | PName x => match lookup x env with Some _ => update x v env | None => env end
  | PAttr q a => match place_get env q with
                 | Some o => match w_setattr W a o v with Ok o' => place_set env q o' | Raise _ => env end
                 | None => env
                 end
  | _ => env
  end.

(* expressions are evaluated left to right; the environment is threaded because a method call may
   change its receiver *)
Fixpoint eval (env : penv) (e : pexp) {struct e} : res (V * penv) :=
  let evals := fix evals (env : penv) (l : list pexp) : res (list V * penv) :=
    match l with
    | [] => Ok ([], env)
    | a :: r => let* (v, env1) := eval env a in let* (vs, env2) := evals env1 r in Ok (v :: vs, env2)
    end in
  let truth := fun (env : penv) (c : pexp) =>
    let* (v, env1) := eval env c in let* t := w_truthy W v in Ok (t, v, env1) in
  match e with
  | PName x => match lookup x env with Some v => Ok (v, env) | None => let* v := w_glob W x in Ok (v, env) end
  | PAttr e' a => let* (v, env1) := eval env e' in let* r := w_attr W a v in Ok (r, env1)
  | PInt z => Ok (w_int W z, env)
  | PBytes b => Ok (w_bytes W b, env)
  | PStr s => Ok (w_str W s, env)
  | PNone => Ok (w_none W, env)
  | PBool b => Ok (w_bool W b, env)
  | PCall f args => let* (vs, env1) := evals env args in let* r := w_call W f vs in Ok (r, env1)
  | PMeth m recv args =>
      let* (rv, env1) := eval env recv in
      let* (vs, env2) := evals env1 args in
      let* (r, rv') := w_meth W m rv vs in
      Ok (r, place_set env2 recv rv')
  | PCmp op a b => let* (x, env1) := eval env a in let* (y, env2) := eval env1 b in
                   let* r := w_cmp W op x y in Ok (w_bool W r, env2)
  | PNot e' => let* (t, _, env1) := truth env e' in Ok (w_bool W (negb t), env1)
  | PAnd a b => let* (t, x, env1) := truth env a in if t then eval env1 b else Ok (x, env1)
  | POr a b => let* (t, x, env1) := truth env a in if t then Ok (x, env1) else eval env1 b
  | PBin op a b => let* (x, env1) := eval env a in let* (y, env2) := eval env1 b in
                   let* r := w_bin W op x y in Ok (r, env2)
  | PNeg e' => let* (v, env1) := eval env e' in let* r := w_neg W v in Ok (r, env1)
  | PTuple l => let* (vs, env1) := evals env l in Ok (w_tuple W vs, env1)
  | PList l => let* (vs, env1) := evals env l in Ok (w_list W vs, env1)
  | PIfExp c a b => let* (t, _, env1) := truth env c in if t then eval env1 a else eval env1 b
  | PSub e' i => let* (v, env1) := eval env e' in let* (j, env2) := eval env1 i in
                 let* r := w_sub W v j in Ok (r, env2)
  | PSlice e' lo hi => let* (v, env1) := eval env e' in let* (l, env2) := eval env1 lo in
                       let* (h, env3) := eval env2 hi in let* r := w_slice W v l h in Ok (r, env3)
  | PComp elt xs it conds =>
      let* (iv, env1) := eval env it in
      let* items := w_iter W iv in
      (* the comprehension's variables are local to it: the outer environment is restored *)
      let* out := (fix each (vs : list V) (envc : penv) : res (list V) :=
         match vs with
         | [] => Ok []
         | v :: r =>
           let* envb := bind_targets xs v envc in
           let* (keep, envd) := (fix allc (cs : list pexp) (en : penv) : res (bool * penv) :=
              match cs with
              | [] => Ok (true, en)
              | c :: cr => let* (t, _, en1) := truth en c in if t then allc cr en1 else Ok (false, en1)
              end) conds envb in
           if keep then let* (x, enve) := eval envd elt in let* rest := each r enve in Ok (x :: rest)
           else each r envd
         end) items env1 in
      Ok (w_list W out, env1)
  end.

Inductive outcome := Next (env : penv) | Ret (v : V) | Brk (env : penv) | Cont (env : penv).

Definition test (env : penv) (c : pexp) : res (bool * penv) :=
  let* (v, env1) := eval env c in let* t := w_truthy W v in Ok (t, env1).

(* fuel bounds the iterations of each `while`; everything else is structural *)
Fixpoint exec (fuel : nat) (env : penv) (s : pstmt) {struct s} : res outcome :=
  let blk := fix blk (ss : list pstmt) (env : penv) : res outcome :=
    match ss with
    | [] => Ok (Next env)
    | s' :: r => let* o := exec fuel env s' in
                 match o with Next env' => blk r env' | other => Ok other end
    end in
  match s with
  | SAssign xs e => let* (v, env1) := eval env e in let* env2 := bind_targets xs v env1 in Ok (Next env2)
  | SSetAttr x a e =>
      let* (v, env1) := eval env e in
      match lookup x env1 with
      | None => Raise AttributeError
      | Some o => let* o' := w_setattr W a o v in Ok (Next (update x o' env1))
      end
  | SReturn e => let* (v, _) := eval env e in Ok (Ret v)
  | SRaise exc => Raise (w_exc W exc)
  | SIf c a b => let* (t, env1) := test env c in if t then blk a env1 else blk b env1
  | SExpr e => let* (_, env1) := eval env e in Ok (Next env1)
  | SWhile c body =>
      (fix loop (n : nat) (env : penv) : res outcome :=
         match n with
         | O => Raise OutOfFuel
         | S n' => let* (t, env1) := test env c in
                   if t then let* o := blk body env1 in
                             match o with
                             | Next env' | Cont env' => loop n' env'
                             | Brk env' => Ok (Next env')
                             | Ret v => Ok (Ret v)
                             end
                   else Ok (Next env1)
         end) fuel env
  | SFor xs it body =>
      let* (iv, env1) := eval env it in
      let* items := w_iter W iv in
      (fix each (vs : list V) (env : penv) : res outcome :=
         match vs with
         | [] => Ok (Next env)
         | v :: r => let* envb := bind_targets xs v env in
                     let* o := blk body envb in
                     match o with
                     | Next env' | Cont env' => each r env'
                     | Brk env' => Ok (Next env')
                     | Ret w => Ok (Ret w)
                     end
         end) items env1
  | SWith ctx x body =>
      let owner := match ctx with PMeth _ recv _ => owner_of env recv | _ => None end in
      let* (cv, env1) := eval env ctx in
      let* y := w_enter W cv in
      let y_name := match x with Some n => n | None => EmptyString end in
      let* o := blk body (update y_name y env1) in
      (* the context is left when the body falls through; an exception propagates (bind) and a `return` inside the
         body returns at once: what __exit__ does on those two paths is not modelled *)
      let leave := fun (env2 : penv) =>
        let yf := match lookup y_name env2 with Some v => v | None => y end in
        let ov := match owner with Some p => lookup p env2 | None => None end in
        let* ov' := w_exit W yf ov in
        Ok (match owner, ov' with Some p, Some v => update p v env2 | _, _ => env2 end) in
      match o with
      | Next env2 => let* env3 := leave env2 in Ok (Next env3)
      | Brk env2 => let* env3 := leave env2 in Ok (Brk env3)
      | Cont env2 => let* env3 := leave env2 in Ok (Cont env3)
      | Ret v => Ok (Ret v)
      end
  | SBreak => Ok (Brk env)
  | SContinue => Ok (Cont env)
  | SPass => Ok (Next env)
  end.

Fixpoint exec_block (fuel : nat) (ss : list pstmt) (env : penv) : res outcome :=
  match ss with
  | [] => Ok (Next env)
  | s :: r => let* o := exec fuel env s in
              match o with Next env' => exec_block fuel r env' | other => Ok other end
  end.

Fixpoint bind_params (xs : list string) (vs : list V) : option penv :=
  match xs, vs with
  | [], [] => Some []
  | x :: xs', v :: vs' => match bind_params xs' vs' with Some env => Some ((x, v) :: env) | None => None end
  | _, _ => None
  end.

(* a function that falls off its end returns None *)
Definition run (fuel : nat) (f : pfun) (args : list V) : res V :=
  match bind_params (pf_params f) args with
  | None => Raise TypeError
  | Some env =>
    let* o := exec_block fuel (pf_body f) env in
    match o with Ret v => Ok v | _ => Ok (w_none W) end
  end.

End Interp.
