(* Extraction of the executable model. Only ExtrOcamlBasic's directives are used; Z, positive,
   nat, string and ascii stay the Coq inductives. *)
From V Require Import Model.Units.
Require Import ExtrOcamlBasic.
Extraction Language OCaml.
Extraction "model.ml" run.
