(* What the names, attributes, calls and methods used by the CMS layer (_pkcs7.py, and ProtectionDescriptor / SIDDescriptor /
   DPAPINGBlob of _blob.py) MEAN, in terms of the model (Model/Asn1.v, Model/Pkcs7.v, Model/Blob.v, Model/KeyId.v,
   Model/SecDesc.v): the world the regenerated syntax of gen/F_asn1.v (part "cms") is run in.  Definitions only; the tie
   theorems are in Proofs/Flow_cms_unpack.v, Flow_cms_pack.v, Flow_cms_sd.v.

   Interpreter: Prelude/PyAstMut.v (callees that advance a reader / append to a writer handed to them as an ARGUMENT).

   Conventions (they are the model's own, see the header comments of Model/Asn1.v and Model/Pkcs7.v):
   * an OID string (str in Python)          := its arc list (OOid); == on two OIDs is oid_eqb;
   * ASN1Reader                             := the remaining octets (OReader view); `read_x(tag, header, hint)` is the model's
                                               `read_x view tag header : res (value * view afterwards)`, the hint (only used in
                                               error messages) is dropped; `if reader:` is reader_bool; read_sequence / read_set
                                               return a new reader over the content octets;
   * ASN1Writer                             := the list of child TREES written so far (OWriter tag children), exactly the model's
                                               "ASN1Writer as a value tree": write_x appends the model's leaf (a_int, a_oid,
                                               a_octets, a_utf8, a_gentime, Raw), `with p.push_sequence(tag) as w` gives a fresh
                                               writer carrying the tag and, when the block is left, appends Cons tag children to
                                               p (ASN1Writer.__exit__), get_data() on a root writer is encode_list of the
                                               children (Proofs/Flow_cms_writer_bridge.v relates this writer to the octet
                                               writer of Flow/World_asn1.v the C07 ties are about).  The model does
                                               NOT keep accumulated octets (Python packs each TLV when it is written): the two
                                               differ only in WHEN a pack_tlv error of an inner node would surface;
   * dataclass instances                    := the model records (OAlg, OOka, OKekId, OKri, OEci, OEd, OCi, OBlob, OKid);
                                               Optional[bytes] / Optional[str] / Optional[record] := VN or the value;
                                               a SIDDescriptor := its SID string (OSidDesc), its .type := OPdType (the enum member
                                               ProtectionDescriptorType.SID: .value = oid_pd_sid, .name = c_pd_sid_name);
   * isinstance(x, KEKRecipientInfo)        := true for OKri (the model's recipient list only holds KEKRecipientInfo, the one
                                               choice RecipientInfo.unpack can return);
   * library callees                        := their model functions: X.unpack(reader[, header]) := X_unpack view header giving
                                               (value, reader afterwards); x.pack(writer) := append (X_pack x) to the writer;
                                               ContentInfo.unpack / EnvelopedData.unpack / ProtectionDescriptor.unpack /
                                               KeyIdentifier.unpack on bytes; key_identifier.pack() := KeyIdentifier_pack;
                                               protection_descriptor.pack() := ProtectionDescriptor_pack;
                                               sd_to_bytes / ace_to_bytes := Model.SecDesc (sacl=None is the empty list).
   memoryview / len / b"".join / slicing / == on int, str, bytes / `or` / `not` are the builtins of Prelude/PyWorld.v. *)
From V Require Import Prelude.PyAst.
From V Require Import Prelude.Base Prelude.PyInt Prelude.PySlice Prelude.PyStr Prelude.PyWorld Prelude.PyAstMut gen.K_asn1 gen.C_asn1.
From V Require Import Model.Types Model.KeyId Model.Asn1 Model.Pkcs7 Model.Blob Model.SecDesc.
Local Open Scope string_scope.
Local Open Scope list_scope.
Local Open Scope Z_scope.

Inductive obj :=
| OOid (o : oid)                              (* an OID string *)
| OTag (t : tag)                              (* ASN1Tag *)
| OHeader (h : header)                        (* ASN1Header *)
| OReader (view : bytes)                      (* ASN1Reader over the remaining octets *)
| OWriter (t : option tag) (ws : list asn1)   (* ASN1Writer(tag=t): the children written so far *)
| OAlg (a : algorithm_identifier)
| OOka (a : other_key_attribute)
| OKekId (k : kek_identifier)
| OKri (r : kek_recipient_info)
| OEci (e : encrypted_content_info)
| OEd (e : enveloped_data)
| OCi (c : content_info)
| OKid (k : key_identifier)                   (* KeyIdentifier *)
| OPdType                                     (* ProtectionDescriptorType.SID *)
| OSidDesc (sid : pystr)                      (* SIDDescriptor(value) *)
| OBlob (b : blob)                            (* DPAPINGBlob *)
| OClass (name : string).                     (* a class object (cls, the second argument of isinstance) *)

Notation V := (pv obj).

(* Optional[...] values *)
Definition vopt {A} (f : A -> V) (o : option A) : V := match o with Some a => f a | None => VN end.
Definition vopt_bytes : option bytes -> V := vopt VB.
Definition vopt_str : option (list Z) -> V := vopt VS.
Definition vopt_oka : option other_key_attribute -> V := vopt (fun a => VO (OOka a)).
Definition vopt_hdr : option header -> V := vopt (fun h => VO (OHeader h)).
Definition opt_of {A} (f : V -> option A) (v : V) : option (option A) :=
  match v with
  | VN => Some None
  | _ => match f v with Some a => Some (Some a) | None => None end
  end.
Definition as_bytes (v : V) : option bytes := match v with VB b => Some b | _ => None end.
Definition as_str (v : V) : option (list Z) := match v with VS s => Some s | _ => None end.
Definition as_oka (v : V) : option other_key_attribute := match v with VO (OOka a) => Some a | _ => None end.
Definition as_hdr (v : V) : option header := match v with VO (OHeader h) => Some h | _ => None end.
Definition as_tag (v : V) : option tag := match v with VO (OTag t) => Some t | _ => None end.
Definition as_kri (v : V) : option kek_recipient_info := match v with VO (OKri r) => Some r | _ => None end.
Fixpoint all_of {A} (f : V -> option A) (l : list V) : option (list A) :=
  match l with
  | [] => Some []
  | v :: r => match f v, all_of f r with Some a, Some t => Some (a :: t) | _, _ => None end
  end.
Definition vkris (l : list kek_recipient_info) : V := VL (map (fun r => VO (OKri r)) l).

(* first component of a run_mut outcome: the returned value *)
Definition value_of {A B} (r : res (A * B)) : res A := let* (v, _) := r in Ok v.
(* outcome of x.pack(self, writer): returns None; the writer afterwards has the model's node appended *)
Definition packed (self : V) (t : option tag) (ws : list asn1) (n : res asn1) : res (V * list V) :=
  let* x := n in Ok (VN, [self; VO (OWriter t (ws ++ [x]))]).

(* "name/kw1,kw2" -> (name, "kw1,kw2") *)
Fixpoint split_slash (s : string) : string * string :=
  match s with
  | EmptyString => (EmptyString, EmptyString)
  | String c r => if Ascii.eqb c (Ascii.ascii_of_nat 47) then (EmptyString, r)
                  else let (a, b) := split_slash r in (String c a, b)
  end.

(* ASN1Reader.read_x(tag=None, header=None, hint=None): the ways the CMS layer passes these three *)
Definition rd_args (kw : string) (args : list V) : option (option tag * option header) :=
  if String.eqb kw "" then
    match args with
    | [] => Some (None, None)
    | [t] => match opt_of as_tag t with Some t' => Some (t', None) | None => None end
    | _ => None
    end
  else if String.eqb kw "hint" then
    match args with
    | [VS _] => Some (None, None)
    | [t; VS _] => match opt_of as_tag t with Some t' => Some (t', None) | None => None end
    | _ => None
    end
  else if String.eqb kw "tag,hint" then
    match args with
    | [t; VS _] => match opt_of as_tag t with Some t' => Some (t', None) | None => None end
    | _ => None
    end
  else if String.eqb kw "header" then
    match args with
    | [h] => match opt_of as_hdr h with Some h' => Some (None, h') | None => None end
    | _ => None
    end
  else if String.eqb kw "header,hint" then
    match args with
    | [h; VS _] => match opt_of as_hdr h with Some h' => Some (None, h') | None => None end
    | _ => None
    end
  else None.

Definition rd {A} (f : A -> V) (r : res (A * bytes)) : res (V * V) :=
  let* (x, rest) := r in Ok (f x, VO (OReader rest)).

Definition reader_meth (name : string) (view : bytes) (t : option tag) (h : option header) : option (res (V * V)) :=
  if String.eqb name "read_sequence" || String.eqb name "read_sequence_of" then
    Some (rd (fun c => VO (OReader c)) (read_sequence view t h))
  else if String.eqb name "read_set" || String.eqb name "read_set_of" then
    Some (rd (fun c => VO (OReader c)) (read_set view t h))
  else if String.eqb name "read_octet_string" then Some (rd VB (read_octet_string view t h))
  else if String.eqb name "read_integer" then Some (rd VI (read_integer view t h))
  else if String.eqb name "read_object_identifier" then Some (rd (fun o => VO (OOid o)) (read_object_identifier view t h))
  else if String.eqb name "read_utf8_string" then Some (rd VS (read_utf8_string view t h))
  else if String.eqb name "read_generalized_time" then Some (rd VS (read_generalized_time view t h))
  else None.

Definition wr (t : option tag) (ws : list asn1) (n : res asn1) : res (V * V) :=
  let* x := n in Ok (VN, VO (OWriter t (ws ++ [x]))).

Definition writer_meth (m : string) (t : option tag) (ws : list asn1) (args : list V) : option (res (V * V)) :=
  let self := VO (OWriter t ws) in
  if String.eqb m "push_sequence" || String.eqb m "push_sequence_of" then
    match args with [] => Some (Ok (VO (OWriter (Some seq_tag) []), self)) | _ => None end
  else if String.eqb m "push_sequence/tag" || String.eqb m "push_sequence_of/tag" then
    match args with
    | [tg] => match opt_of as_tag tg with
              | Some tg' => Some (Ok (VO (OWriter (Some (opt_tag tg' seq_tag)) []), self))
              | None => None
              end
    | _ => None
    end
  else if String.eqb m "push_set" || String.eqb m "push_set_of" then
    match args with [] => Some (Ok (VO (OWriter (Some set_tag) []), self)) | _ => None end
  else if String.eqb m "write_object_identifier" then
    match args with [VO (OOid o)] => Some (wr t ws (a_oid o)) | _ => None end
  else if String.eqb m "write_raw" then
    match args with [VB b] => Some (wr t ws (Ok (Raw b))) | _ => None end
  else if String.eqb m "write_octet_string" then
    match args with
    | [VB b] => Some (wr t ws (Ok (a_octets b None)))
    | [VB b; tg] => match opt_of as_tag tg with Some tg' => Some (wr t ws (Ok (a_octets b tg'))) | None => None end
    | _ => None
    end
  else if String.eqb m "write_integer" then
    match args with [VI z] => Some (wr t ws (a_int z None)) | _ => None end
  else if String.eqb m "write_generalized_time" then
    match args with [VS s] => Some (wr t ws (a_gentime s)) | _ => None end
  else if String.eqb m "write_utf8_string" then
    match args with [VS s] => Some (wr t ws (a_utf8 s)) | _ => None end
  else if String.eqb m "get_data" then                  (* only on a root writer; on a pushed child: no meaning (TypeError) *)
    match t, args with None, [] => Some (let* b := encode_list ws in Ok (VB b, self)) | _, _ => None end
  else None.

Definition cms_glob (x : string) : option (res V) :=
  if String.eqb x "TagClass.UNIVERSAL" then Some (Ok (VI c_class_universal))
  else if String.eqb x "TagClass.CONTEXT_SPECIFIC" then Some (Ok (VI c_class_context))
  else if String.eqb x "TypeTagNumber.GENERALIZED_TIME" then Some (Ok (VI c_tag_gentime))
  else if String.eqb x "TypeTagNumber.SEQUENCE" then Some (Ok (VI c_tag_sequence))
  else if String.eqb x "KEKRecipientInfo.choice" then Some (Ok (VI c_kekri_choice))
  else if String.eqb x "KEKRecipientInfo" then Some (Ok (VO (OClass "KEKRecipientInfo")))
  else if String.eqb x "EnvelopedData.CONTENT_TYPE_ENVELOPED_DATA_OID" then Some (Ok (VO (OOid oid_enveloped_data)))
  else if String.eqb x "EnvelopedData.CONTENT_TYPE_DATA_OID" then Some (Ok (VO (OOid oid_data)))
  else if String.eqb x "DPAPINGBlob.MICROSOFT_SOFTWARE_OID" then Some (Ok (VO (OOid oid_ms_software)))
  else if String.eqb x "ProtectionDescriptorType.SID.value" then Some (Ok (VO (OOid oid_pd_sid)))
  else None.

Definition cms_attr (a : string) (v : V) : option (res V) :=
  match v with
  | VO (OTag t) =>
    if String.eqb a "tag_class" then Some (Ok (VI (t_class t)))
    else if String.eqb a "tag_number" then Some (Ok (VI (t_num t)))
    else if String.eqb a "is_constructed" then Some (Ok (vb (t_cons t)))
    else None
  | VO (OHeader h) =>
    if String.eqb a "tag" then Some (Ok (VO (OTag (h_tag h))))
    else if String.eqb a "tag_length" then Some (Ok (VI (h_tlen h)))
    else if String.eqb a "length" then Some (Ok (VI (h_len h)))
    else None
  | VO (OAlg x) =>
    if String.eqb a "algorithm" then Some (Ok (VO (OOid (alg_oid x))))
    else if String.eqb a "parameters" then Some (Ok (vopt_bytes (alg_params x)))
    else None
  | VO (OOka x) =>
    if String.eqb a "key_attr_id" then Some (Ok (VO (OOid (oka_id x))))
    else if String.eqb a "key_attr" then Some (Ok (vopt_bytes (oka_attr x)))
    else None
  | VO (OKekId k) =>
    if String.eqb a "key_identifier" then Some (Ok (VB (kekid_key_identifier k)))
    else if String.eqb a "date" then Some (Ok (vopt_str (kekid_date k)))
    else if String.eqb a "other" then Some (Ok (vopt_oka (kekid_other k)))
    else None
  | VO (OKri r) =>
    if String.eqb a "choice" then Some (Ok (VI c_kekri_choice))
    else if String.eqb a "version" then Some (Ok (VI (kri_version r)))
    else if String.eqb a "kekid" then Some (Ok (VO (OKekId (kri_kekid r))))
    else if String.eqb a "key_encryption_algorithm" then Some (Ok (VO (OAlg (kri_alg r))))
    else if String.eqb a "encrypted_key" then Some (Ok (VB (kri_encrypted_key r)))
    else None
  | VO (OEci e) =>
    if String.eqb a "content_type" then Some (Ok (VO (OOid (eci_content_type e))))
    else if String.eqb a "algorithm" then Some (Ok (VO (OAlg (eci_alg e))))
    else if String.eqb a "content" then Some (Ok (vopt_bytes (eci_content e)))
    else None
  | VO (OEd e) =>
    if String.eqb a "version" then Some (Ok (VI (ed_version e)))
    else if String.eqb a "recipient_infos" then Some (Ok (vkris (ed_recipient_infos e)))
    else if String.eqb a "encrypted_content_info" then Some (Ok (VO (OEci (ed_eci e))))
    else None
  | VO (OCi c) =>
    if String.eqb a "content_type" then Some (Ok (VO (OOid (ci_content_type c))))
    else if String.eqb a "content" then Some (Ok (VB (ci_content c)))
    else None
  | VO OPdType =>
    if String.eqb a "value" then Some (Ok (VO (OOid oid_pd_sid)))
    else if String.eqb a "name" then Some (Ok (VS c_pd_sid_name))
    else None
  | VO (OSidDesc s) =>
    if String.eqb a "type" then Some (Ok (VO OPdType))
    else if String.eqb a "value" then Some (Ok (VS s))
    else None
  | VO (OBlob b) =>
    if String.eqb a "key_identifier" then Some (Ok (VO (OKid (b_key_identifier b))))
    else if String.eqb a "protection_descriptor" then Some (Ok (VO (OSidDesc (b_sid b))))
    else if String.eqb a "enc_cek" then Some (Ok (VB (b_enc_cek b)))
    else if String.eqb a "enc_cek_algorithm" then Some (Ok (VO (OOid (b_enc_cek_algorithm b))))
    else if String.eqb a "enc_cek_parameters" then Some (Ok (vopt_bytes (b_enc_cek_parameters b)))
    else if String.eqb a "enc_content" then Some (Ok (VB (b_enc_content b)))
    else if String.eqb a "enc_content_algorithm" then Some (Ok (VO (OOid (b_enc_content_algorithm b))))
    else if String.eqb a "enc_content_parameters" then Some (Ok (vopt_bytes (b_enc_content_parameters b)))
    else None
  | _ => None
  end.

(* dataclass constructors *)
Definition mk_alg (o p : V) : option (res V) :=
  match o, opt_of as_bytes p with
  | VO (OOid a), Some p' => Some (Ok (VO (OAlg {| alg_oid := a; alg_params := p' |})))
  | _, _ => None
  end.
Definition mk_oka (o p : V) : option (res V) :=
  match o, opt_of as_bytes p with
  | VO (OOid a), Some p' => Some (Ok (VO (OOka {| oka_id := a; oka_attr := p' |})))
  | _, _ => None
  end.
Definition mk_kekid (k d o : V) : option (res V) :=
  match k, opt_of as_str d, opt_of as_oka o with
  | VB k', Some d', Some o' =>
    Some (Ok (VO (OKekId {| kekid_key_identifier := k'; kekid_date := d'; kekid_other := o' |})))
  | _, _, _ => None
  end.

Definition cms_call (f : string) (args : list V) : option (res V) :=
  if String.eqb f "ASN1Reader" then
    match args with [VB b] => Some (Ok (VO (OReader b))) | _ => None end
  else if String.eqb f "ASN1Writer" then
    match args with [] => Some (Ok (VO (OWriter None []))) | _ => None end
  else if String.eqb f "ASN1Tag/tag_class,tag_number,is_constructed" then
    match args with [VI c; VI n; VI k] => Some (Ok (VO (OTag (mk_tag c n (negb (k =? 0)))))) | _ => None end
  else if String.eqb f "AlgorithmIdentifier/algorithm,parameters" || String.eqb f "AlgorithmIdentifier" then
    match args with [o; p] => mk_alg o p | _ => None end
  else if String.eqb f "OtherKeyAttribute/key_attr_id,key_attr" then
    match args with [o; p] => mk_oka o p | _ => None end
  else if String.eqb f "KEKIdentifier/key_identifier,date,other" then
    match args with [k; d; o] => mk_kekid k d o | _ => None end
  else if String.eqb f "KEKIdentifier/key_identifier,other" then       (* date defaults to None *)
    match args with [k; o] => mk_kekid k VN o | _ => None end
  else if String.eqb f "KEKRecipientInfo/version,kekid,key_encryption_algorithm,encrypted_key" then
    match args with
    | [VI v; VO (OKekId k); VO (OAlg a); VB e] =>
      Some (Ok (VO (OKri {| kri_version := v; kri_kekid := k; kri_alg := a; kri_encrypted_key := e |})))
    | _ => None
    end
  else if String.eqb f "EncryptedContentInfo/content_type,algorithm,content" then
    match args with
    | [VO (OOid o); VO (OAlg a); c] =>
      match opt_of as_bytes c with
      | Some c' => Some (Ok (VO (OEci {| eci_content_type := o; eci_alg := a; eci_content := c' |})))
      | None => None
      end
    | _ => None
    end
  else if String.eqb f "EnvelopedData/version,recipient_infos,encrypted_content_info" then
    match args with
    | [VI v; VL l; VO (OEci e)] =>
      match all_of as_kri l with
      | Some ris => Some (Ok (VO (OEd {| ed_version := v; ed_recipient_infos := ris; ed_eci := e |})))
      | None => None
      end
    | _ => None
    end
  else if String.eqb f "ContentInfo" || String.eqb f "ContentInfo/content_type,content" then
    match args with
    | [VO (OOid o); VB c] => Some (Ok (VO (OCi {| ci_content_type := o; ci_content := c |})))
    | _ => None
    end
  else if String.eqb f "SIDDescriptor" then
    match args with [VS s] => Some (Ok (VO (OSidDesc s))) | _ => None end
  else if String.eqb f "DPAPINGBlob/key_identifier,protection_descriptor,enc_cek,enc_cek_algorithm,enc_cek_parameters,enc_content,enc_content_algorithm,enc_content_parameters" then
    match args with
    | [VO (OKid k); VO (OSidDesc s); VB ek; VO (OOid a1); p1; VB ec; VO (OOid a2); p2] =>
      match opt_of as_bytes p1, opt_of as_bytes p2 with
      | Some p1', Some p2' =>
        Some (Ok (VO (OBlob {| b_key_identifier := k; b_sid := s; b_enc_cek := ek; b_enc_cek_algorithm := a1;
                               b_enc_cek_parameters := p1'; b_enc_content := ec; b_enc_content_algorithm := a2;
                               b_enc_content_parameters := p2' |})))
      | _, _ => None
      end
    | _ => None
    end
  else if String.eqb f "isinstance" then
    match args with
    | [VO (OKri _); VO (OClass c)] => if String.eqb c "KEKRecipientInfo" then Some (Ok (vb true)) else None
    | _ => None
    end
  (* library callees on immutable bytes *)
  else if String.eqb f "ContentInfo.unpack/header" then
    match args with
    | [VB d; h] => match opt_of as_hdr h with
                   | Some h' => Some (let* c := ContentInfo_unpack d h' in Ok (VO (OCi c)))
                   | None => None
                   end
    | _ => None
    end
  else if String.eqb f "EnvelopedData.unpack" then
    match args with [VB d] => Some (let* e := EnvelopedData_unpack d in Ok (VO (OEd e))) | _ => None end
  else if String.eqb f "KeyIdentifier.unpack" then
    match args with [VB d] => Some (let* k := KeyIdentifier_unpack d in Ok (VO (OKid k))) | _ => None end
  else if String.eqb f "ProtectionDescriptor.unpack" then
    match args with [VB d] => Some (let* s := ProtectionDescriptor_unpack d in Ok (VO (OSidDesc s))) | _ => None end
  else if String.eqb f "ace_to_bytes" then
    match args with [VS s; VI m] => Some (let* b := ace_to_bytes s m in Ok (VB b)) | _ => None end
  else if String.eqb f "sd_to_bytes/owner,group,dacl" then             (* sacl defaults to None: no SACL *)
    match args with
    | [VS o; VS g; VL l] => match all_of as_bytes l with
                            | Some aces => Some (let* b := sd_to_bytes o g [] aces in Ok (VB b))
                            | None => None
                            end
    | _ => None
    end
  else None.

Definition cms_meth (m : string) (r : V) (args : list V) : option (res (V * V)) :=
  match r with
  | VO (OReader view) =>
    if String.eqb m "peek_header" then
      match args with [] => Some (let* h := peek_header view in Ok (VO (OHeader h), r)) | _ => None end
    else if String.eqb m "get_remaining_data" then
      match args with [] => Some (let (d, rest) := get_remaining_data view in Ok (VB d, VO (OReader rest))) | _ => None end
    else
      let (name, kw) := split_slash m in
      match rd_args kw args with
      | Some (t, h) => reader_meth name view t h
      | None => None
      end
  | VO (OWriter t ws) => writer_meth m t ws args
  | VO (OKid k) =>
    if String.eqb m "pack" then
      match args with [] => Some (let* b := KeyIdentifier_pack k in Ok (VB b, r)) | _ => None end
    else None
  | VO (OSidDesc s) =>
    if String.eqb m "pack" then
      match args with [] => Some (let* b := ProtectionDescriptor_pack s in Ok (VB b, r)) | _ => None end
    else None
  | _ => None
  end.

Definition cms_ext : ext obj :=
  {| x_glob := cms_glob;
     x_attr := cms_attr;
     x_setattr := fun _ _ _ => None;
     x_call := cms_call;
     x_meth := cms_meth;
     x_truthy := fun o => match o with
                          | OReader view => Ok (reader_bool view)
                          | OOid [] => Ok false                 (* the empty str *)
                          | _ => Ok true
                          end;
     x_eqb := fun a b => match a, b with OOid x, OOid y => Some (oid_eqb x y) | _, _ => None end;
     x_iter := fun _ => Raise TypeError;
     x_enter := fun v => Ok v;                                (* ASN1Writer.__enter__ returns self *)
     x_exit := fun y owner =>                                 (* ASN1Writer.__exit__ *)
       match y with
       | VO (OWriter (Some t) ws) =>
         match owner with
         | Some (VO (OWriter pt pws)) => Ok (Some (VO (OWriter pt (pws ++ [Cons t ws]))))
         | _ => Raise TypeError
         end
       | VO (OWriter None _) => Ok owner                      (* no tag: nothing is written back *)
       | _ => Raise TypeError
       end;
     x_exc := fun _ => None |}.

(* callees that advance the reader / append to the writer they are handed as an argument *)
Definition unpack_mut {A} (f : A -> V) (r : res (A * bytes)) (others : list V) : res (V * list V) :=
  let* (x, rest) := r in Ok (f x, VO (OReader rest) :: others).

Definition cms_call_mut (f : string) (args : list V) : option (res (V * list V)) :=
  if String.eqb f "AlgorithmIdentifier.unpack" then
    match args with
    | [VO (OReader v)] => Some (unpack_mut (fun a => VO (OAlg a)) (AlgorithmIdentifier_unpack v) [])
    | _ => None
    end
  else if String.eqb f "OtherKeyAttribute.unpack/header" then
    match args with
    | [VO (OReader v); h] =>
      match opt_of as_hdr h with
      | Some h' => Some (unpack_mut (fun a => VO (OOka a)) (OtherKeyAttribute_unpack v h') [h])
      | None => None
      end
    | _ => None
    end
  else if String.eqb f "KEKIdentifier.unpack" then
    match args with
    | [VO (OReader v)] => Some (unpack_mut (fun a => VO (OKekId a)) (KEKIdentifier_unpack v) [])
    | _ => None
    end
  else if String.eqb f "KEKRecipientInfo.unpack/header" then
    match args with
    | [VO (OReader v); h] =>
      match opt_of as_hdr h with
      | Some h' => Some (unpack_mut (fun a => VO (OKri a)) (KEKRecipientInfo_unpack v h') [h])
      | None => None
      end
    | _ => None
    end
  else if String.eqb f "RecipientInfo.unpack" then
    match args with
    | [VO (OReader v)] => Some (unpack_mut (fun a => VO (OKri a)) (RecipientInfo_unpack v) [])
    | _ => None
    end
  else if String.eqb f "EncryptedContentInfo.unpack" then
    match args with
    | [VO (OReader v)] => Some (unpack_mut (fun a => VO (OEci a)) (EncryptedContentInfo_unpack v) [])
    | _ => None
    end
  else None.

Definition pack_mut (recv : V) (t : option tag) (ws : list asn1) (n : res asn1) : res (V * V * list V) :=
  let* x := n in Ok (VN, recv, [VO (OWriter t (ws ++ [x]))]).

Definition cms_meth_mut (m : string) (recv : V) (args : list V) : option (res (V * V * list V)) :=
  if String.eqb m "pack" then
    match args with
    | [VO (OWriter t ws)] =>
      match recv with
      | VO (OAlg a) => Some (pack_mut recv t ws (AlgorithmIdentifier_pack a))
      | VO (OOka a) => Some (pack_mut recv t ws (OtherKeyAttribute_pack a))
      | VO (OKekId k) => Some (pack_mut recv t ws (KEKIdentifier_pack k))
      | VO (OKri r) => Some (pack_mut recv t ws (KEKRecipientInfo_pack r))
      | VO (OEci e) => Some (pack_mut recv t ws (EncryptedContentInfo_pack e))
      | VO (OEd e) => Some (pack_mut recv t ws (EnvelopedData_pack e))
      | VO (OCi c) => Some (pack_mut recv t ws (ContentInfo_pack c))
      | _ => None
      end
    | _ => None
    end
  else None.

Definition MW : mworld V :=
  {| mw_base := std_world cms_ext; mw_call_mut := cms_call_mut; mw_meth_mut := cms_meth_mut |}.
