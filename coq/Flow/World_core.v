(* What the names and calls used by _dns.lookup_dc / async_lookup_dc MEAN, in terms of the model (Model/Dns.v): the world the
   regenerated syntax gen/Flows.v is run in.  Definitions only; the tie theorems are in Proofs/Flow_core_dns.v.

   The DNS resolver is outside the library: it is a function `resolve` from the queried name to the answer set (or an exception).
   dns.resolver.resolve and dns.asyncresolver.resolve are the blocking / awaitable flavours of the same query and get the same
   meaning; both only for the arguments the model's query stands for (record type "SRV", search list on).
   _get_highest_answer as a CALLEE of lookup_dc is the model's selection function Model/Dns.v get_highest_answer, the function the
   C20 theorems are about; its own body is regenerated too (k_flow_get_highest_answer: the translator desugars
   `sorted(answers, key=lambda a: K)` into sorted/key(answers, [K for a in answers]), which is how CPython evaluates it) and
   Proofs/Flow_core_dns.v proves that the body computes that selection function. For the body the world gives: a record of the
   answer (dnspython rdata) is its four SRV fields with `target` standing for the TEXT of the dns Name, so `str(..)` of it is that
   text; `SrvRecord(target=, port=, weight=, priority=)` builds the tuple; `s.rstrip(chars)` on a str; `sorted/key(xs, keys)` is a
   stable insertion sort of xs by keys that are pairs of ints under Python's tuple order (other key shapes get no meaning). *)
From V Require Import Prelude.Base Prelude.PyAst Prelude.PyWorld.
From V Require Import Model.Types Model.Dns.
Local Open Scope string_scope.
Local Open Scope list_scope.
Local Open Scope Z_scope.

Inductive obj :=
| OAnswer (l : list srv)          (* dns.resolver.Answer: the SRV records, in answer order *)
| OSrv (r : srv).                 (* SrvRecord *)

Definition vopt_str (o : option pystr) : pv obj := match o with Some s => VS s | None => VN end.

(* f"..{x}..": the literal pieces and the str() of the values, concatenated; only str values are given a meaning *)
Fixpoint fstring (l : list (pv obj)) : option pystr :=
  match l with
  | [] => Some []
  | VS s :: r => match fstring r with Some t => Some (s ++ t) | None => None end
  | _ => None
  end.

(* sorted(xs, key=..) with the keys already computed: stable insertion sort (an element goes before the first element whose key is
   not smaller than its own; elements are inserted from the right, so equal keys keep their order) *)
Definition key2 (v : pv obj) : option (Z * Z) := match v with VT [VI a; VI b] => Some (a, b) | _ => None end.
Fixpoint keys2 (l : list (pv obj)) : option (list (Z * Z)) :=
  match l with
  | [] => Some []
  | v :: r => match key2 v, keys2 r with Some k, Some ks => Some (k :: ks) | _, _ => None end
  end.
Fixpoint insert_k {A} (x : A * (Z * Z)) (s : list (A * (Z * Z))) : list (A * (Z * Z)) :=
  match s with
  | [] => [x]
  | y :: r => if key_lt (snd y) (snd x) then y :: insert_k x r else x :: s
  end.
Fixpoint isort_k {A} (l : list (A * (Z * Z))) : list (A * (Z * Z)) :=
  match l with [] => [] | x :: r => insert_k x (isort_k r) end.
Definition sorted_key (xs ks : list (pv obj)) : option (list (pv obj)) :=
  match keys2 ks with
  | Some k => if Nat.eqb (length k) (length xs) then Some (map fst (isort_k (combine xs k))) else None
  | None => None
  end.

Section WithResolver.
Context (resolve : pystr -> res (list srv)).

Definition core_ext : ext obj :=
  {| x_glob := fun _ => None;
     x_attr := fun a v =>
       match v with
       | VO (OSrv r) =>
         if String.eqb a "target" then Some (Ok (VS (srv_target r)))
         else if String.eqb a "port" then Some (Ok (VI (srv_port r)))
         else if String.eqb a "weight" then Some (Ok (VI (srv_weight r)))
         else if String.eqb a "priority" then Some (Ok (VI (srv_priority r)))
         else None
       | _ => None
       end;
     x_setattr := fun _ _ _ => None;
     x_call := fun f args =>
       if String.eqb f "f-string" then
         match fstring args with Some s => Some (Ok (VS s)) | None => None end
       else if String.eqb f "dns.resolver.resolve/search" || String.eqb f "dns.asyncresolver.resolve/search" then
         match args with
         | [VS name; VS rdtype; VI search] =>
           if zs_eqb rdtype [83; 82; 86] && (search =? 1)      (* "SRV", search=True *)
           then Some (let* l := resolve name in Ok (VO (OAnswer l))) else None
         | _ => None
         end
       else if String.eqb f "str" then
         match args with [VS s] => Some (Ok (VS s)) | _ => None end
       else if String.eqb f "SrvRecord/target,port,weight,priority" then
         match args with
         | [VS tg; VI po; VI we; VI pr] =>
           Some (Ok (VO (OSrv {| srv_target := tg; srv_port := po; srv_weight := we; srv_priority := pr |})))
         | _ => None
         end
       else if String.eqb f "sorted/key" then
         match args with
         | [VL xs; VL ks] => match sorted_key xs ks with Some l => Some (Ok (VL l)) | None => None end
         | _ => None
         end
       else if String.eqb f "_get_highest_answer" then
         match args with
         | [VO (OAnswer l)] => Some (let* r := get_highest_answer l in Ok (VO (OSrv r)))
         | _ => None
         end
       else None;
     x_meth := fun m recv args =>
       if String.eqb m "rstrip" then
         match recv, args with VS s, [VS chars] => Some (Ok (VS (rstrip chars s), recv)) | _, _ => None end
       else None;
     x_truthy := fun _ => Ok true;
     x_eqb := fun _ _ => None;
     x_iter := fun o => match o with OAnswer l => Ok (map (fun r => VO (OSrv r)) l) | _ => Raise TypeError end;
     x_enter := fun v => Ok v;
     x_exit := fun _ o => Ok o;
     x_exc := fun _ => None |}.

Definition W : world (pv obj) := std_world core_ext.

End WithResolver.
