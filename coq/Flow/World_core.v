(* What the names and calls used by _dns.lookup_dc / async_lookup_dc MEAN, in terms of the model (Model/Dns.v): the world the
   regenerated syntax gen/Flows.v is run in.  Definitions only; the tie theorems are in Proofs/Flow_core_dns.v.

   The DNS resolver is outside the library: it is a function `resolve` from the queried name to the answer set (or an exception).
   dns.resolver.resolve and dns.asyncresolver.resolve are the blocking / awaitable flavours of the same query and get the same
   meaning; both only for the arguments the model's query stands for (record type "SRV", search list on).
   _get_highest_answer contains a lambda (refused by the translator): as a callee it is the model's selection function
   Model/Dns.v get_highest_answer, the function the C20 theorems are about. *)
From V Require Import Prelude.Base Prelude.PyAst Prelude.PyWorld.
From V Require Import Model.Types Model.Dns.
Local Open Scope string_scope.
Local Open Scope list_scope.
Local Open Scope Z_scope.

Inductive obj :=
| OAnswer (l : list srv)          (* dns.resolver.Answer: the SRV records, in answer order *)
| OSrv (r : srv).                 (* SrvRecord *)

Definition vopt_str (o : option pystr) : pv obj := match o with Some s => VS s | None => VN end.

(* f"..{x}..": the literal pieces and the str() of the values, concatenated; only str values are given a meaning *)
Fixpoint fstring (l : list (pv obj)) : option pystr :=
  match l with
  | [] => Some []
  | VS s :: r => match fstring r with Some t => Some (s ++ t) | None => None end
  | _ => None
  end.

Section WithResolver.
Context (resolve : pystr -> res (list srv)).

Definition core_ext : ext obj :=
  {| x_glob := fun _ => None;
     x_attr := fun a v =>
       match v with
       | VO (OSrv r) =>
         if String.eqb a "target" then Some (Ok (VS (srv_target r)))
         else if String.eqb a "port" then Some (Ok (VI (srv_port r)))
         else if String.eqb a "weight" then Some (Ok (VI (srv_weight r)))
         else if String.eqb a "priority" then Some (Ok (VI (srv_priority r)))
         else None
       | _ => None
       end;
     x_setattr := fun _ _ _ => None;
     x_call := fun f args =>
       if String.eqb f "f-string" then
         match fstring args with Some s => Some (Ok (VS s)) | None => None end
       else if String.eqb f "dns.resolver.resolve/search" || String.eqb f "dns.asyncresolver.resolve/search" then
         match args with
         | [VS name; VS rdtype; VI search] =>
           if zs_eqb rdtype [83; 82; 86] && (search =? 1)      (* "SRV", search=True *)
           then Some (let* l := resolve name in Ok (VO (OAnswer l))) else None
         | _ => None
         end
       else if String.eqb f "_get_highest_answer" then
         match args with
         | [VO (OAnswer l)] => Some (let* r := get_highest_answer l in Ok (VO (OSrv r)))
         | _ => None
         end
       else None;
     x_meth := fun _ _ _ => None;
     x_truthy := fun _ => Ok true;
     x_eqb := fun _ _ => None;
     x_iter := fun o => match o with OAnswer l => Ok (map (fun r => VO (OSrv r)) l) | _ => Raise TypeError end;
     x_enter := fun v => Ok v;
     x_exit := fun _ o => Ok o;
     x_exc := fun _ => None |}.

Definition W : world (pv obj) := std_world core_ext.

End WithResolver.
