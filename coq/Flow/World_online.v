(* What the names, attributes, calls and methods used by _client._sync_get_key / _async_get_key, _process_ept_map_result and
   _process_get_key_result MEAN, in terms of Model/Conversation.v (the model the C17 theorems are about) and the models it composes.
   The connection object returned by create_rpc_connection / async_create_rpc_connection is a world object: its `bind` is
   Handshake.bind_run against the peer script of that connection, its `request` is Conversation.rpc_request (frame and seal, one reply read
   from the transport by the flavour's receive loop, _process_response).  The first connection (one argument: the endpoint mapper) is
   anonymous, the second (port and credentials) carries the AuthenticationProvider that Conversation.v calls pv / legs.
   The other library functions called are their models (process_bind_result, process_ept_map_result, process_get_key_result,
   EptMapResult.unpack, GetKey.pack, GetKey.unpack_response, EptMap.pack, VerificationTrailer.pack); the module-level data are the
   structured values of Conversation.v (Proofs/C17Consts.v: they pack to the library's own octets).
   A floor class (TCPFloor) is its protocol identifier.  Definitions only; the tie theorems are in Proofs/Flow_online_conv.v. *)
From V Require Import Prelude.Base Prelude.PyInt Prelude.PySlice Prelude.PyAst Prelude.PyWorld.
From V Require Import gen.K_client gen.C_client gen.C_rpc gen.C_gkdi gen.K_online gen.C_online.
From V Require Import Model.Pdu Model.Request Model.Bind Model.Verification Model.Epm.
From V Require Import Model.Handshake Model.Framing Model.Seal Model.Recv.
From V Require Import Model.Types Model.Gkdi Model.Conversation.
Local Open Scope string_scope.
Local Open Scope list_scope.
Local Open Scope Z_scope.

(* an RpcClient of either flavour: which of the two peers it talks to, and self._sign_header after bind() *)
Record conn := { cn_flavour : flavour; cn_isd : bool; cn_sign : bool }.

Inductive obj :=
| OCe (c : context_element)
| OAck (results : list Z)             (* the BindAck bind() returns: its result codes, as Handshake.bind_run returns them *)
| OResp (r : response)
| OSt (s : sec_trailer)
| OEptMap (m : ept_map)
| OEptRes (m : ept_map_result)
| OFloor (f : Epm.floor)
| OGetKey (g : getkey)
| OVt (cmds : list command)
| OEnvl (e : envelope)
| OConn (c : conn).

Definition cev (c : context_element) : pv obj := VO (OCe c).
Definition floorv (f : Epm.floor) : pv obj := VO (OFloor f).
Definition towerv (t : list Epm.floor) : pv obj := VL (map floorv t).
Definition optbv (o : option bytes) : pv obj := match o with Some b => VB b | None => VN end.
Definition stv (o : option sec_trailer) : pv obj := match o with Some s => VO (OSt s) | None => VN end.
Definition optb_of (v : pv obj) : option (option bytes) :=
  match v with VB b => Some (Some b) | VN => Some None | _ => None end.
Fixpoint ces_of (l : list (pv obj)) : option (list context_element) :=
  match l with
  | [] => Some []
  | VO (OCe c) :: r => match ces_of r with Some t => Some (c :: t) | None => None end
  | _ => None
  end.

Section WithPeer.
Context (wrap : wrap_fn) (unwrap : unwrap_fn) (prov : provider) (legs : list leg) (dc : dc_script) (efuel : nat).

(* rpc.bind(contexts=cs) *)
Definition conn_bind (c : conn) (cs : list context_element) : res (pv obj * pv obj) :=
  let '(r, s) := bind_run (cn_isd c) (if cn_isd c then legs else []) (if cn_isd c then ds_isd_srv dc else ds_epm_srv dc)
                   (context_ids cs) in
  match r with
  | Ok results => Ok (VO (OAck results), VO (OConn {| cn_flavour := cn_flavour c; cn_isd := cn_isd c; cn_sign := sign s |}))
  | Raise e => Raise e
  end.

(* rpc.request(context_id, opnum, stub, verification_trailer=vt) *)
Definition conn_request (c : conn) (ctx op : Z) (stub : bytes) (vt : option bytes) : res (pv obj * pv obj) :=
  let* rsp := snd (rpc_request (cn_flavour c) wrap unwrap (if cn_isd c then Some prov else None) (cn_sign c) ctx op stub vt
                     (if cn_isd c then ds_getkey_stream dc else ds_ept_stream dc) (ds_sched dc)) in
  Ok (VO (OResp rsp), VO (OConn c)).

Definition new_conn (f : flavour) (isd : bool) : pv obj := VO (OConn {| cn_flavour := f; cn_isd := isd; cn_sign := false |}).

Definition online_ext : ext obj :=
  {| x_glob := fun x =>
       if String.eqb x "_EPM_CONTEXTS" then Some (Ok (VL (map cev epm_contexts)))
       else if String.eqb x "_ISD_KEY_CONTEXTS" then Some (Ok (VL (map cev isd_key_contexts)))
       else if String.eqb x "_EPT_MAP_ISD_KEY" then Some (Ok (VO (OEptMap ept_map_isd_key)))
       else if String.eqb x "_VERIFICATION_TRAILER" then Some (Ok (VO (OVt verification_trailer)))
       else if String.eqb x "TCPFloor" then Some (Ok (VI c_FLOOR_TCP))
       else None;
     x_attr := fun a v =>
       match v with
       | VO (OCe c) => if String.eqb a "context_id" then Some (Ok (VI (ce_context_id c))) else None
       | VO (OEptMap _) => if String.eqb a "opnum" then Some (Ok (VI c_onl_ept_map_opnum)) else None
       | VO (OGetKey _) => if String.eqb a "opnum" then Some (Ok (VI c_onl_getkey_opnum)) else None
       | VO (OResp r) =>
         if String.eqb a "stub_data" then Some (Ok (VB (rs_stub_data r)))
         else if String.eqb a "sec_trailer" then Some (Ok (stv (rs_sec_trailer r)))
         else None
       | VO (OSt s) => if String.eqb a "pad_length" then Some (Ok (VI (st_pad_length s))) else None
       | VO (OEptRes m) =>
         if String.eqb a "status" then Some (Ok (VI (er_status m)))
         else if String.eqb a "towers" then Some (Ok (VL (map towerv (er_towers m))))
         else None
       | VO (OFloor f) =>
         if String.eqb a "port" then match fl_kind f with FK_TCP p => Some (Ok (VI p)) | _ => None end else None
       | _ => None
       end;
     x_setattr := fun _ _ _ => None;
     x_call := fun f args =>
       if String.eqb f "create_rpc_connection" then
         match args with [VS _] => Some (Ok (new_conn Sync false)) | _ => None end
       else if String.eqb f "async_create_rpc_connection" then
         match args with [VS _] => Some (Ok (new_conn Async false)) | _ => None end
       else if String.eqb f "create_rpc_connection/username,password,auth_protocol" then
         (* a non-empty auth_protocol: the connection gets an AuthenticationProvider (pv, legs) *)
         match args with [VS _; VI _; _; _; VS (_ :: _)] => Some (Ok (new_conn Sync true)) | _ => None end
       else if String.eqb f "async_create_rpc_connection/username,password,auth_protocol" then
         match args with [VS _; VI _; _; _; VS (_ :: _)] => Some (Ok (new_conn Async true)) | _ => None end
       else if String.eqb f "_process_bind_result" then
         match args with
         | [VL cs; VO (OAck rs); VI d] =>
           match ces_of cs with
           | Some cs' => Some (let* _ := process_bind_result (context_ids cs') rs d in Ok VN)
           | None => None
           end
         | _ => None
         end
       else if String.eqb f "_process_ept_map_result" then
         match args with
         | [VO (OResp r)] =>
           Some (let* (port, _) := process_ept_map_result (S (length (rs_stub_data r))) (rs_stub_data r) in Ok (VI port))
         | _ => None
         end
       else if String.eqb f "_process_get_key_result" then
         match args with
         | [VO (OResp r)] =>
           Some (let* e := process_get_key_result (rs_stub_data r)
                             (match rs_sec_trailer r with Some st => Some (st_pad_length st) | None => None end) in
                 Ok (VO (OEnvl e)))
         | _ => None
         end
       else if String.eqb f "GetKey" then
         match args with
         | [VB sd; rk; VI l0; VI l1; VI l2] =>
           match optb_of rk with
           | Some rk' => Some (Ok (VO (OGetKey {| gk_target_sd := sd; gk_root_key_id := rk'; gk_l0 := l0; gk_l1 := l1; gk_l2 := l2 |})))
           | None => None
           end
         | _ => None
         end
       else if String.eqb f "EptMapResult.unpack" then
         match args with [VB b] => Some (let* (m, _) := ept_map_result_unpack efuel b in Ok (VO (OEptRes m))) | _ => None end
       else if String.eqb f "GetKey.unpack_response" then
         match args with [VB b] => Some (let* e := GetKey_unpack_response b in Ok (VO (OEnvl e))) | _ => None end
       else if String.eqb f "isinstance" then
         match args with
         | [VO (OFloor fl); VI k] =>
           if k =? c_FLOOR_TCP then Some (Ok (vb (match fl_kind fl with FK_TCP _ => true | _ => false end))) else None
         | _ => None
         end
       else None;
     x_meth := fun m r args =>
       match r with
       | VO (OConn c) =>
         if String.eqb m "bind/contexts" then
           match args with
           | [VL cs] => match ces_of cs with Some cs' => Some (conn_bind c cs') | None => None end
           | _ => None
           end
         else if String.eqb m "request" then
           match args with [VI ctx; VI op; VB stub] => Some (conn_request c ctx op stub None) | _ => None end
         else if String.eqb m "request/verification_trailer" then
           match args with
           | [VI ctx; VI op; VB stub; VO (OVt cmds)] => Some (conn_request c ctx op stub (Some (verification_trailer_pack cmds)))
           | _ => None
           end
         else None
       | VO (OEptMap em) =>
         if String.eqb m "pack" then match args with [] => Some (Ok (VB (ept_map_pack em), r)) | _ => None end else None
       | VO (OGetKey g) =>
         if String.eqb m "pack" then match args with [] => Some (let* b := GetKey_pack g in Ok (VB b, r)) | _ => None end else None
       | _ => None
       end;
     x_truthy := fun _ => Ok true;            (* dataclass instances: no __bool__, no __len__ *)
     x_eqb := fun _ _ => None;
     x_iter := fun _ => Raise TypeError;
     x_enter := fun v => Ok v;                (* __enter__ / __aenter__ return self *)
     x_exit := fun _ o => Ok o;               (* close(): nothing the model observes *)
     x_exc := fun _ => None |}.

Definition WO : world (pv obj) := std_world online_ext.

End WithPeer.
