(* What the names, attributes, calls and methods used by _client._sync_get_key / _async_get_key, _process_ept_map_result and
   _process_get_key_result MEAN, in terms of Model/Conversation.v (the model the C17 theorems are about) and the models it composes.

   This is a CHECKING world for the conversation.  It is given the transcript `tr` of the model's conversation
   (snd (get_key_conversation ..): what the model sends) and the call's own (server, username, password, auth_protocol), and the
   connection object carries its position (fresh / bound / request done).  The three operations that talk to the peer have a meaning ONLY
   when their arguments are what the model sends at that point; otherwise the world does not know them (None => TypeError):
     create_rpc_connection(server)                       -- one positional argument (port = its default), server = the call's server
     create_rpc_connection(server, port, username=, password=, auth_protocol=)
                                                         -- server, the three credentials = the call's own (what the AuthenticationProvider
                                                            pv / legs of the model is built from), auth_protocol non-empty, and
                                                            tr_port tr = Some port
     rpc.bind(contexts=cs)                               -- on a fresh connection; cs = the context elements the model offers on this
                                                            connection (epm_contexts resp. isd_key_contexts, field by field)
     rpc.request(context_id, opnum, stub[, verification_trailer=vt])
                                                         -- on a bound connection; the REQUEST this call puts on the wire AND what it hands
                                                            to the security context's wrap (Conversation.rpc_request: 16-octet header,
                                                            alloc_hint / context id / opnum, stub, verification trailer, paddings, security
                                                            trailer; wrap arguments present iff the request is sealed) must be octet for
                                                            octet tr_ept_request tr resp. tr_getkey_request tr
   Then `bind` is Handshake.bind_run against the peer script of that connection and `request` is Conversation.rpc_request (one reply read
   by the flavour's receive loop, _process_response).
   The other library functions called are their models (process_bind_result, process_ept_map_result, process_get_key_result,
   EptMapResult.unpack, GetKey.pack, GetKey.unpack_response, EptMap.pack, VerificationTrailer.pack); the module-level data are the
   structured values of Conversation.v (Proofs/C17Consts.v: they pack to the library's own octets).
   A floor class (TCPFloor) is its protocol identifier.  Definitions only; the tie theorems are in Proofs/Flow_online_conv.v. *)
From V Require Import Prelude.Base Prelude.PyInt Prelude.PySlice Prelude.PyAst Prelude.PyWorld.
From V Require Import gen.K_client gen.C_client gen.C_rpc gen.C_gkdi gen.K_online gen.C_online.
From V Require Import Model.Pdu Model.Request Model.Bind Model.Verification Model.Epm.
From V Require Import Model.Handshake Model.Framing Model.Seal Model.Recv.
From V Require Import Model.Types Model.Gkdi Model.Conversation.
Local Open Scope string_scope.
Local Open Scope list_scope.
Local Open Scope Z_scope.

(* an RpcClient of either flavour: which of the two peers it talks to, self._sign_header after bind(), and the position in the
   conversation on this connection: 0 fresh, 1 bound, 2 request done *)
Record conn := { cn_flavour : flavour; cn_isd : bool; cn_sign : bool; cn_stage : Z }.

Inductive obj :=
| OCe (c : context_element)
| OAck (results : list Z)             (* the BindAck bind() returns: its result codes, as Handshake.bind_run returns them *)
| OResp (r : response)
| OSt (s : sec_trailer)
| OEptMap (m : ept_map)
| OEptRes (m : ept_map_result)
| OFloor (f : Epm.floor)
| OGetKey (g : getkey)
| OVt (cmds : list command)
| OEnvl (e : envelope)
| OConn (c : conn).

Definition cev (c : context_element) : pv obj := VO (OCe c).
Definition floorv (f : Epm.floor) : pv obj := VO (OFloor f).
Definition towerv (t : list Epm.floor) : pv obj := VL (map floorv t).
Definition optbv (o : option bytes) : pv obj := match o with Some b => VB b | None => VN end.
Definition stv (o : option sec_trailer) : pv obj := match o with Some s => VO (OSt s) | None => VN end.
Definition optb_of (v : pv obj) : option (option bytes) :=
  match v with VB b => Some (Some b) | VN => Some None | _ => None end.
Fixpoint ces_of (l : list (pv obj)) : option (list context_element) :=
  match l with
  | [] => Some []
  | VO (OCe c) :: r => match ces_of r with Some t => Some (c :: t) | None => None end
  | _ => None
  end.

Definition optsv (o : option (list Z)) : pv obj := match o with Some x => VS x | None => VN end.

(* ---- decidable equalities used by the checks ---- *)
Definition syntax_eqb (a b : syntax_id) : bool :=
  bytes_eqb (sy_uuid a) (sy_uuid b) && (sy_version a =? sy_version b) && (sy_version_minor a =? sy_version_minor b).
Fixpoint list_eqb {A} (eqb : A -> A -> bool) (a b : list A) : bool :=
  match a, b with [], [] => true | x :: a', y :: b' => eqb x y && list_eqb eqb a' b' | _, _ => false end.
Definition ce_eqb (a b : context_element) : bool :=
  (ce_context_id a =? ce_context_id b) && syntax_eqb (ce_abstract_syntax a) (ce_abstract_syntax b)
  && list_eqb syntax_eqb (ce_transfer_syntaxes a) (ce_transfer_syntaxes b).
Definition wa_eqb (a b : wrap_args) : bool :=
  bytes_eqb (wa_header a) (wa_header b) && bytes_eqb (wa_body a) (wa_body b) && bytes_eqb (wa_trailer a) (wa_trailer b)
  && Bool.eqb (wa_sign a) (wa_sign b).
Definition sent_eqb (a b : bytes * option wrap_args) : bool :=
  bytes_eqb (fst a) (fst b) &&
  match snd a, snd b with Some x, Some y => wa_eqb x y | None, None => true | _, _ => false end.
Definition optstr_is (v : pv obj) (o : option (list Z)) : bool :=
  match v, o with VS x, Some y => bytes_eqb x y | VN, None => true | _, _ => false end.

Section WithPeer.
Context (wrap : wrap_fn) (unwrap : unwrap_fn) (prov : provider) (legs : list leg) (dc : dc_script) (efuel : nat).
(* the call's own connection parameters, and the transcript of the model's conversation *)
Context (server : list Z) (username password : option (list Z)) (auth_protocol : list Z) (tr : transcript).

(* rpc.bind(contexts=cs): only on a fresh connection and only with the contexts the model offers on it *)
Definition conn_bind (c : conn) (cs : list context_element) : option (res (pv obj * pv obj)) :=
  if (cn_stage c =? 0) && list_eqb ce_eqb cs (if cn_isd c then isd_key_contexts else epm_contexts) then
    Some (let '(r, s) := bind_run (cn_isd c) (if cn_isd c then legs else []) (if cn_isd c then ds_isd_srv dc else ds_epm_srv dc)
                           (context_ids cs) in
          match r with
          | Ok results => Ok (VO (OAck results),
                              VO (OConn {| cn_flavour := cn_flavour c; cn_isd := cn_isd c; cn_sign := sign s; cn_stage := 1 |}))
          | Raise e => Raise e
          end)
  else None.

(* rpc.request(context_id, opnum, stub, verification_trailer=vt): only on a bound connection and only if what it sends is what the
   model's transcript has at this point *)
Definition conn_request (c : conn) (ctx op : Z) (stub : bytes) (vt : option bytes) : option (res (pv obj * pv obj)) :=
  if cn_stage c =? 1 then
    match rpc_request (cn_flavour c) wrap unwrap (if cn_isd c then Some prov else None) (cn_sign c) ctx op stub vt
            (if cn_isd c then ds_getkey_stream dc else ds_ept_stream dc) (ds_sched dc) with
    | (Raise e, _) => Some (Raise e)              (* nothing goes out *)
    | (Ok sent, resp) =>
      match (if cn_isd c then tr_getkey_request tr else tr_ept_request tr) with
      | Some expected =>
        if sent_eqb sent expected then
          Some (let* rsp := resp in
                Ok (VO (OResp rsp),
                    VO (OConn {| cn_flavour := cn_flavour c; cn_isd := cn_isd c; cn_sign := cn_sign c; cn_stage := 2 |})))
        else None
      | None => None
      end
    end
  else None.

Definition new_conn (f : flavour) (isd : bool) : pv obj :=
  VO (OConn {| cn_flavour := f; cn_isd := isd; cn_sign := false; cn_stage := 0 |}).

(* the endpoint-mapper connection: create_rpc_connection(server) *)
Definition open_epm (f : flavour) (args : list (pv obj)) : option (res (pv obj)) :=
  match args with
  | [VS s] => if bytes_eqb s server then Some (Ok (new_conn f false)) else None
  | _ => None
  end.
(* the ISD_KEY connection: create_rpc_connection(server, port, username=.., password=.., auth_protocol=..) *)
Definition open_isd (f : flavour) (args : list (pv obj)) : option (res (pv obj)) :=
  match args with
  | [VS s; VI port; u; p; VS (a :: pr)] =>
    if bytes_eqb s server && optstr_is u username && optstr_is p password && bytes_eqb (a :: pr) auth_protocol
       && match tr_port tr with Some port' => port =? port' | None => false end
    then Some (Ok (new_conn f true)) else None
  | _ => None
  end.

Definition online_ext : ext obj :=
  {| x_glob := fun x =>
       if String.eqb x "_EPM_CONTEXTS" then Some (Ok (VL (map cev epm_contexts)))
       else if String.eqb x "_ISD_KEY_CONTEXTS" then Some (Ok (VL (map cev isd_key_contexts)))
       else if String.eqb x "_EPT_MAP_ISD_KEY" then Some (Ok (VO (OEptMap ept_map_isd_key)))
       else if String.eqb x "_VERIFICATION_TRAILER" then Some (Ok (VO (OVt verification_trailer)))
       else if String.eqb x "TCPFloor" then Some (Ok (VI c_FLOOR_TCP))
       else None;
     x_attr := fun a v =>
       match v with
       | VO (OCe c) => if String.eqb a "context_id" then Some (Ok (VI (ce_context_id c))) else None
       | VO (OEptMap _) => if String.eqb a "opnum" then Some (Ok (VI c_onl_ept_map_opnum)) else None
       | VO (OGetKey _) => if String.eqb a "opnum" then Some (Ok (VI c_onl_getkey_opnum)) else None
       | VO (OResp r) =>
         if String.eqb a "stub_data" then Some (Ok (VB (rs_stub_data r)))
         else if String.eqb a "sec_trailer" then Some (Ok (stv (rs_sec_trailer r)))
         else None
       | VO (OSt s) => if String.eqb a "pad_length" then Some (Ok (VI (st_pad_length s))) else None
       | VO (OEptRes m) =>
         if String.eqb a "status" then Some (Ok (VI (er_status m)))
         else if String.eqb a "towers" then Some (Ok (VL (map towerv (er_towers m))))
         else None
       | VO (OFloor f) =>
         if String.eqb a "port" then match fl_kind f with FK_TCP p => Some (Ok (VI p)) | _ => None end else None
       | _ => None
       end;
     x_setattr := fun _ _ _ => None;
     x_call := fun f args =>
       if String.eqb f "create_rpc_connection" then open_epm Sync args
       else if String.eqb f "async_create_rpc_connection" then open_epm Async args
       else if String.eqb f "create_rpc_connection/username,password,auth_protocol" then open_isd Sync args
       else if String.eqb f "async_create_rpc_connection/username,password,auth_protocol" then open_isd Async args
       else if String.eqb f "_process_bind_result" then
         match args with
         | [VL cs; VO (OAck rs); VI d] =>
           match ces_of cs with
           | Some cs' => Some (let* _ := process_bind_result (context_ids cs') rs d in Ok VN)
           | None => None
           end
         | _ => None
         end
       else if String.eqb f "_process_ept_map_result" then
         match args with
         | [VO (OResp r)] =>
           Some (let* (port, _) := process_ept_map_result (S (length (rs_stub_data r))) (rs_stub_data r) in Ok (VI port))
         | _ => None
         end
       else if String.eqb f "_process_get_key_result" then
         match args with
         | [VO (OResp r)] =>
           Some (let* e := process_get_key_result (rs_stub_data r)
                             (match rs_sec_trailer r with Some st => Some (st_pad_length st) | None => None end) in
                 Ok (VO (OEnvl e)))
         | _ => None
         end
       else if String.eqb f "GetKey" then
         match args with
         | [VB sd; rk; VI l0; VI l1; VI l2] =>
           match optb_of rk with
           | Some rk' => Some (Ok (VO (OGetKey {| gk_target_sd := sd; gk_root_key_id := rk'; gk_l0 := l0; gk_l1 := l1; gk_l2 := l2 |})))
           | None => None
           end
         | _ => None
         end
       else if String.eqb f "EptMapResult.unpack" then
         match args with [VB b] => Some (let* (m, _) := ept_map_result_unpack efuel b in Ok (VO (OEptRes m))) | _ => None end
       else if String.eqb f "GetKey.unpack_response" then
         match args with [VB b] => Some (let* e := GetKey_unpack_response b in Ok (VO (OEnvl e))) | _ => None end
       else if String.eqb f "isinstance" then
         match args with
         | [VO (OFloor fl); VI k] =>
           if k =? c_FLOOR_TCP then Some (Ok (vb (match fl_kind fl with FK_TCP _ => true | _ => false end))) else None
         | _ => None
         end
       else None;
     x_meth := fun m r args =>
       match r with
       | VO (OConn c) =>
         if String.eqb m "bind/contexts" then
           match args with
           | [VL cs] => match ces_of cs with Some cs' => conn_bind c cs' | None => None end
           | _ => None
           end
         else if String.eqb m "request" then
           match args with [VI ctx; VI op; VB stub] => conn_request c ctx op stub None | _ => None end
         else if String.eqb m "request/verification_trailer" then
           match args with
           | [VI ctx; VI op; VB stub; VO (OVt cmds)] => conn_request c ctx op stub (Some (verification_trailer_pack cmds))
           | _ => None
           end
         else None
       | VO (OEptMap em) =>
         if String.eqb m "pack" then match args with [] => Some (Ok (VB (ept_map_pack em), r)) | _ => None end else None
       | VO (OGetKey g) =>
         if String.eqb m "pack" then match args with [] => Some (let* b := GetKey_pack g in Ok (VB b, r)) | _ => None end else None
       | _ => None
       end;
     x_truthy := fun _ => Ok true;            (* dataclass instances: no __bool__, no __len__ *)
     x_eqb := fun _ _ => None;
     x_iter := fun _ => Raise TypeError;
     x_enter := fun v => Ok v;                (* __enter__ / __aenter__ return self *)
     x_exit := fun _ o => Ok o;               (* close(): nothing the model observes *)
     x_exc := fun _ => None |}.

Definition WO : world (pv obj) := std_world online_ext.

End WithPeer.
