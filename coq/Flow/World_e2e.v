(* What the names, attributes, calls and methods used by _crypto.py's wrappers and _client._decrypt_blob MEAN, in terms
   of the model (Model/CryptoWrap.v, Model/Client.v): the world the regenerated syntax gen/F_e2e.v is run in.
   Definitions only; the tie theorems are in Proofs/Flow_e2e.v. *)
From V Require Import Prelude.Base Prelude.PyAst Prelude.PyWorld gen.C_asn1.
From V Require Import Model.Types Model.Crypto Model.KeyId Model.Gkdi Model.Kek Model.Asn1 Model.Pkcs7 Model.Blob Model.CryptoWrap Model.Client.
Local Open Scope string_scope.
Local Open Scope list_scope.
Local Open Scope Z_scope.

Inductive obj :=
| OOid (o : oid)                  (* an algorithm OID string (AlgorithmOID members are str) *)
| OBlob (b : blob)                (* DPAPINGBlob *)
| OEnv (e : envelope)             (* GroupKeyEnvelope *)
| OKid (k : key_identifier)       (* KeyIdentifier *)
| OReader (view : bytes)          (* ASN1Reader over the remaining octets *)
| OGcm (key : bytes).             (* AESGCM(key) *)

Definition vopt_bytes (o : option bytes) : pv obj := match o with Some b => VB b | None => VN end.
Definition opt_of (v : pv obj) : option (option bytes) :=
  match v with VB b => Some (Some b) | VN => Some None | _ => None end.

Section WithCrypto.
Context (c : Crypto).

Definition e2e_ext : ext obj :=
  {| x_glob := fun x =>
       if String.eqb x "AlgorithmOID.AES256_WRAP" then Some (Ok (VO (OOid oid_aes256_wrap)))
       else if String.eqb x "AlgorithmOID.AES256_GCM" then Some (Ok (VO (OOid oid_aes256_gcm)))
       else None;
     x_attr := fun a v =>
       match v with
       | VO (OBlob b) =>
         if String.eqb a "key_identifier" then Some (Ok (VO (OKid (b_key_identifier b))))
         else if String.eqb a "enc_cek" then Some (Ok (VB (b_enc_cek b)))
         else if String.eqb a "enc_cek_algorithm" then Some (Ok (VO (OOid (b_enc_cek_algorithm b))))
         else if String.eqb a "enc_cek_parameters" then Some (Ok (vopt_bytes (b_enc_cek_parameters b)))
         else if String.eqb a "enc_content" then Some (Ok (VB (b_enc_content b)))
         else if String.eqb a "enc_content_algorithm" then Some (Ok (VO (OOid (b_enc_content_algorithm b))))
         else if String.eqb a "enc_content_parameters" then Some (Ok (vopt_bytes (b_enc_content_parameters b)))
         else None
       | _ => None
       end;
     x_setattr := fun _ _ _ => None;
     x_call := fun f args =>
       if String.eqb f "keywrap.aes_key_unwrap" then
         match args with [VB k; VB w] => Some (let* x := kw_unwrap c k w in Ok (VB x)) | _ => None end
       else if String.eqb f "keywrap.aes_key_wrap" then
         match args with [VB k; VB x] => Some (let* w := kw_wrap c k x in Ok (VB w)) | _ => None end
       else if String.eqb f "ASN1Reader" then
         match args with [VB b] => Some (Ok (VO (OReader b))) | _ => None end
       else if String.eqb f "AESGCM" then
         match args with [VB k] => Some (Ok (VO (OGcm k))) | _ => None end
       else if String.eqb f "cek_decrypt" then
         match args with
         | [VO (OOid a); p; VB kek; VB v] =>
           match opt_of p with Some p' => Some (let* x := cek_decrypt c a p' kek v in Ok (VB x)) | None => None end
         | _ => None
         end
       else if String.eqb f "content_decrypt" then
         match args with
         | [VO (OOid a); p; VB cek; VB v] =>
           match opt_of p with Some p' => Some (let* x := content_decrypt c a p' cek v in Ok (VB x)) | None => None end
         | _ => None
         end
       else None;
     x_meth := fun m r args =>
       match r with
       | VO (OReader view) =>
         if String.eqb m "read_sequence" then
           match args with [] => Some (let* (content, rest) := read_sequence view None None in Ok (VO (OReader content), VO (OReader rest))) | _ => None end
         else if String.eqb m "read_octet_string" then
           match args with [] => Some (let* (content, rest) := read_octet_string view None None in Ok (VB content, VO (OReader rest))) | _ => None end
         else None
       | VO (OGcm k) =>
         if String.eqb m "decrypt" then
           match args with [VB iv; VB ct; VN] => Some (let* p := gcm_dec c k iv ct in Ok (VB p, r)) | _ => None end
         else if String.eqb m "encrypt" then
           match args with [VB iv; VB p; VN] => Some (let* ct := gcm_enc c k iv p in Ok (VB ct, r)) | _ => None end
         else None
       | VO (OEnv e) =>
         if String.eqb m "get_kek" then
           match args with [VO (OKid k)] => Some (let* kek := get_kek c e k in Ok (VB kek, r)) | _ => None end
         else None
       | _ => None
       end;
     x_truthy := fun _ => Ok true;
     x_eqb := fun a b => match a, b with OOid x, OOid y => Some (oid_eqb x y) | _, _ => None end;
     x_iter := fun _ => Raise TypeError;
     x_enter := fun v => Ok v;
     x_exit := fun _ o => Ok o;
     x_exc := fun _ => None |}.

Definition W : world (pv obj) := std_world e2e_ext.

End WithCrypto.
