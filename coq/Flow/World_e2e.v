(* What the names, attributes, calls and methods used by _crypto.py's wrappers and _client._decrypt_blob / _encrypt_blob /
   _get_protection_gke_from_cache MEAN, in terms of the model (Model/CryptoWrap.v, Model/Client.v): the world the
   regenerated syntax gen/F_e2e.v is run in.  Definitions only; the tie theorems are in Proofs/Flow_e2e_<group>.v.

   Two worlds: `W c` (everything deterministic) and `WR c rnd_cek rnd_iv rnd_kek time_ns`, which adds the callees that
   draw randomness or read the clock; the draws / the clock value are the explicit arguments the model functions take. *)
From V Require Import Prelude.Base Prelude.PyAst Prelude.PyWorld gen.C_asn1 gen.Consts.
From V Require Import Model.Types Model.Crypto Model.Chain Model.KeyId Model.Gkdi Model.Kek Model.Asn1 Model.Pkcs7 Model.Blob Model.CryptoWrap Model.Client.
Local Open Scope string_scope.
Local Open Scope list_scope.
Local Open Scope Z_scope.

Inductive obj :=
| OOid (o : oid)                  (* an algorithm OID string (AlgorithmOID members are str) *)
| OBlob (b : blob)                (* DPAPINGBlob *)
| OEnv (e : envelope)             (* GroupKeyEnvelope *)
| OKid (k : key_identifier)       (* KeyIdentifier *)
| OReader (view : bytes)          (* ASN1Reader over the remaining octets *)
| OGcm (key : bytes)              (* AESGCM(key) *)
| OWriter (t : option tag) (data : bytes)     (* ASN1Writer: _tag (a child writer has one) and _data *)
| OSid (sid : pystr)              (* ProtectionDescriptor: SIDDescriptor(value) *)
| OHash (h : hash)                (* hashes.SHA1() .. hashes.SHA512() *)
| OCounterMode                    (* cryptography's Mode.CounterMode *)
| OBeforeFixed                    (* cryptography's CounterLocation.BeforeFixed *)
| OKbkdf (h : hash) (label context : bytes) (length : Z)   (* KBKDFHMAC(..) configured as _crypto.kdf does *)
| OConcatKdf (h : hash) (otherinfo : bytes) (length : Z)   (* ConcatKDFHash(..) *)
| OKdfParams (hash_name : pystr)  (* KDFParameters *)
| OUuid (b : bytes)               (* uuid.UUID, as its bytes_le *)
| OCache (cc : ccache).           (* KeyCache *)

Definition vopt_bytes (o : option bytes) : pv obj := match o with Some b => VB b | None => VN end.
Definition opt_of (v : pv obj) : option (option bytes) :=
  match v with VB b => Some (Some b) | VN => Some None | _ => None end.
Definition vopt_env (o : option envelope) : pv obj := match o with Some e => VO (OEnv e) | None => VN end.
Definition vopt_uuid (o : option bytes) : pv obj := match o with Some b => VO (OUuid b) | None => VN end.

Section WithCrypto.
Context (c : Crypto).

Definition e2e_ext : ext obj :=
  {| x_glob := fun x =>
       if String.eqb x "AlgorithmOID.AES256_WRAP" then Some (Ok (VO (OOid oid_aes256_wrap)))
       else if String.eqb x "AlgorithmOID.AES256_GCM" then Some (Ok (VO (OOid oid_aes256_gcm)))
       else if String.eqb x "Mode.CounterMode" then Some (Ok (VO OCounterMode))
       else if String.eqb x "CounterLocation.BeforeFixed" then Some (Ok (VO OBeforeFixed))
       else if String.eqb x "_EPOCH_FILETIME" then Some (Ok (VI c_EPOCH_FILETIME))
       else None;
     x_attr := fun a v =>
       match v with
       | VO (OBlob b) =>
         if String.eqb a "key_identifier" then Some (Ok (VO (OKid (b_key_identifier b))))
         else if String.eqb a "enc_cek" then Some (Ok (VB (b_enc_cek b)))
         else if String.eqb a "enc_cek_algorithm" then Some (Ok (VO (OOid (b_enc_cek_algorithm b))))
         else if String.eqb a "enc_cek_parameters" then Some (Ok (vopt_bytes (b_enc_cek_parameters b)))
         else if String.eqb a "enc_content" then Some (Ok (VB (b_enc_content b)))
         else if String.eqb a "enc_content_algorithm" then Some (Ok (VO (OOid (b_enc_content_algorithm b))))
         else if String.eqb a "enc_content_parameters" then Some (Ok (vopt_bytes (b_enc_content_parameters b)))
         else None
       | VO (OEnv e) =>
         if String.eqb a "version" then Some (Ok (VI (gke_version e)))
         else if String.eqb a "flags" then Some (Ok (VI (gke_flags e)))
         else if String.eqb a "l0" then Some (Ok (VI (gke_l0 e)))
         else if String.eqb a "l1" then Some (Ok (VI (gke_l1 e)))
         else if String.eqb a "l2" then Some (Ok (VI (gke_l2 e)))
         else if String.eqb a "root_key_identifier" then Some (Ok (VO (OUuid (gke_rkid e))))
         else if String.eqb a "kdf_algorithm" then Some (Ok (VS (gke_kdf_alg e)))
         else if String.eqb a "kdf_parameters" then Some (Ok (VB (gke_kdf_params e)))
         else if String.eqb a "secret_algorithm" then Some (Ok (VS (gke_secret_alg e)))
         else if String.eqb a "secret_parameters" then Some (Ok (VB (gke_secret_params e)))
         else if String.eqb a "private_key_length" then Some (Ok (VI (gke_priv_len e)))
         else if String.eqb a "public_key_length" then Some (Ok (VI (gke_pub_len e)))
         else if String.eqb a "domain_name" then Some (Ok (VS (gke_domain e)))
         else if String.eqb a "forest_name" then Some (Ok (VS (gke_forest e)))
         else if String.eqb a "l1_key" then Some (Ok (VB (gke_l1_key e)))
         else if String.eqb a "l2_key" then Some (Ok (VB (gke_l2_key e)))
         else None
       | VO (OKdfParams n) =>
         (* property KDFParameters.hash_algorithm: NotImplementedError for an unknown name *)
         if String.eqb a "hash_algorithm" then Some (let* h := hash_algorithm n in Ok (VO (OHash h)))
         else if String.eqb a "hash_name" then Some (Ok (VS n))
         else None
       | _ => None
       end;
     x_setattr := fun _ _ _ => None;
     x_call := fun f args =>
       if String.eqb f "keywrap.aes_key_unwrap" then
         match args with [VB k; VB w] => Some (let* x := kw_unwrap c k w in Ok (VB x)) | _ => None end
       else if String.eqb f "keywrap.aes_key_wrap" then
         match args with [VB k; VB x] => Some (let* w := kw_wrap c k x in Ok (VB w)) | _ => None end
       else if String.eqb f "ASN1Reader" then
         match args with [VB b] => Some (Ok (VO (OReader b))) | _ => None end
       else if String.eqb f "ASN1Writer" then
         match args with [] => Some (Ok (VO (OWriter None []))) | _ => None end
       else if String.eqb f "AESGCM" then
         match args with [VB k] => Some (Ok (VO (OGcm k))) | _ => None end
       else if String.eqb f "cek_decrypt" then
         match args with
         | [VO (OOid a); p; VB kek; VB v] =>
           match opt_of p with Some p' => Some (let* x := cek_decrypt c a p' kek v in Ok (VB x)) | None => None end
         | _ => None
         end
       else if String.eqb f "content_decrypt" then
         match args with
         | [VO (OOid a); p; VB cek; VB v] =>
           match opt_of p with Some p' => Some (let* x := content_decrypt c a p' cek v in Ok (VB x)) | None => None end
         | _ => None
         end
       else if String.eqb f "cek_encrypt" then
         match args with
         | [VO (OOid a); p; VB kek; VB v] =>
           match opt_of p with Some p' => Some (let* x := cek_encrypt c a p' kek v in Ok (VB x)) | None => None end
         | _ => None
         end
       else if String.eqb f "content_encrypt" then
         match args with
         | [VO (OOid a); p; VB cek; VB v] =>
           match opt_of p with Some p' => Some (let* x := content_encrypt c a p' cek v in Ok (VB x)) | None => None end
         | _ => None
         end
       else if String.eqb f "DPAPINGBlob/key_identifier,protection_descriptor,enc_cek,enc_cek_algorithm,enc_cek_parameters,enc_content,enc_content_algorithm,enc_content_parameters" then
         (* the dataclass constructor: stores its arguments *)
         match args with
         | [VO (OKid k); VO (OSid s); VB ek; VO (OOid ea); ep; VB ec; VO (OOid ca); cp] =>
           match opt_of ep, opt_of cp with
           | Some ep', Some cp' =>
             Some (Ok (VO (OBlob {| b_key_identifier := k; b_sid := s; b_enc_cek := ek; b_enc_cek_algorithm := ea;
                                    b_enc_cek_parameters := ep'; b_enc_content := ec; b_enc_content_algorithm := ca;
                                    b_enc_content_parameters := cp' |})))
           | _, _ => None
           end
         | _ => None
         end
       else if String.eqb f "KBKDFHMAC/algorithm,mode,length,label,context,rlen,llen,location,fixed" then
         (* cryptography's SP800-108 KDF object.  The `kdf` field of the Crypto record is "counter mode, 32-bit counter before the
            fixed input, 32-bit length, fixed input built from label and context": any other configuration is not what the
            model's primitive stands for and gets no meaning here (TypeError) *)
         match args with
         | [VO (OHash h); VO OCounterMode; VI length; VB label; VB context; VI rlen; VI llen; VO OBeforeFixed; VN] =>
           if (rlen =? 4) && (llen =? 4) then Some (Ok (VO (OKbkdf h label context length))) else None
         | _ => None
         end
       else if String.eqb f "ConcatKDFHash/length,otherinfo" then
         match args with
         | [VO (OHash h); VI length; VB otherinfo] => Some (Ok (VO (OConcatKdf h otherinfo length)))
         | _ => None
         end
       else if String.eqb f "KDFParameters.unpack" then
         match args with [VB b] => Some (let* n := KDFParameters_unpack b in Ok (VO (OKdfParams n))) | _ => None end
       else if String.eqb f "compute_l2_key" then
         match args with
         | [VO (OHash h); VI l1; VI l2; VO (OEnv rk)] => Some (let* k := compute_l2_key c h l1 l2 rk in Ok (VB k))
         | _ => None
         end
       else if String.eqb f "GroupKeyEnvelope/version,flags,l0,l1,l2,root_key_identifier,kdf_algorithm,kdf_parameters,secret_algorithm,secret_parameters,private_key_length,public_key_length,domain_name,forest_name,l1_key,l2_key" then
         (* the dataclass constructor: stores its arguments *)
         match args with
         | [VI version; VI flags; VI l0; VI l1; VI l2; VO (OUuid rid); VS ka; VB kp; VS sa; VB sp; VI priv; VI pub; VS dn; VS fn; VB k1; VB k2] =>
           Some (Ok (VO (OEnv {| gke_version := version; gke_flags := flags; gke_l0 := l0; gke_l1 := l1; gke_l2 := l2;
                                 gke_rkid := rid; gke_kdf_alg := ka; gke_kdf_params := kp;
                                 gke_secret_alg := sa; gke_secret_params := sp;
                                 gke_priv_len := priv; gke_pub_len := pub;
                                 gke_domain := dn; gke_forest := fn; gke_l1_key := k1; gke_l2_key := k2 |})))
         | _ => None
         end
       else None;
     x_meth := fun m r args =>
       match r with
       | VO (OReader view) =>
         if String.eqb m "read_sequence" then
           match args with [] => Some (let* (content, rest) := read_sequence view None None in Ok (VO (OReader content), VO (OReader rest))) | _ => None end
         else if String.eqb m "read_octet_string" then
           match args with [] => Some (let* (content, rest) := read_octet_string view None None in Ok (VB content, VO (OReader rest))) | _ => None end
         else None
       | VO (OWriter t data) =>
         (* self._data.extend(_pack_asn1_X(value)); push_sequence() returns a child writer with the SEQUENCE tag whose
            __exit__ (x_exit below) appends its TLV to the parent *)
         if String.eqb m "push_sequence" then
           match args with [] => Some (Ok (VO (OWriter (Some seq_tag) []), r)) | _ => None end
         else if String.eqb m "write_octet_string" then
           match args with [VB b] => Some (let* x := pack_octet_string b None in Ok (VN, VO (OWriter t (data ++ x)))) | _ => None end
         else if String.eqb m "write_integer" then
           match args with [VI v] => Some (let* x := pack_integer v None in Ok (VN, VO (OWriter t (data ++ x)))) | _ => None end
         else if String.eqb m "get_data" then
           match args with
           | [] => Some (match t with None => Ok (VB data, r) | Some _ => Raise TypeError end)
           | _ => None
           end
         else None
       | VO (OGcm k) =>
         if String.eqb m "decrypt" then
           match args with [VB iv; VB ct; VN] => Some (let* p := gcm_dec c k iv ct in Ok (VB p, r)) | _ => None end
         else if String.eqb m "encrypt" then
           match args with [VB iv; VB p; VN] => Some (let* ct := gcm_enc c k iv p in Ok (VB ct, r)) | _ => None end
         else None
       | VO (OEnv e) =>
         if String.eqb m "get_kek" then
           match args with [VO (OKid k)] => Some (let* kek := get_kek c e k in Ok (VB kek, r)) | _ => None end
         else None
       | VO (OBlob b) =>
         if String.eqb m "pack" then     (* blob_in_envelope defaults to True *)
           match args with [] => Some (let* x := blob_pack b true in Ok (VB x, r)) | _ => None end
         else None
       | VO (OKbkdf h label context length) =>
         if String.eqb m "derive" then
           match args with [VB secret] => Some (Ok (VB (kdf c h secret label context length), r)) | _ => None end
         else None
       | VO (OConcatKdf h otherinfo length) =>
         if String.eqb m "derive" then
           match args with [VB secret] => Some (Ok (VB (concat_kdf c h secret otherinfo length), r)) | _ => None end
         else None
       | VO (OCache cc) =>
         if String.eqb m "_get_key" then
           match args with
           | [VB sd; VO (OUuid rid); VI l0; VI l1; VI l2] =>
             Some (let* (rko, cc') := cc_get_key c cc sd rid l0 l1 l2 in Ok (vopt_env rko, VO (OCache cc')))
           | _ => None
           end
         else None
       | _ => None
       end;
     x_truthy := fun _ => Ok true;
     x_eqb := fun a b => match a, b with OOid x, OOid y => Some (oid_eqb x y) | _, _ => None end;
     x_iter := fun _ => Raise TypeError;
     x_enter := fun v => Ok v;
     (* ASN1Writer.__exit__: a child writer (it has a tag and a parent) appends _pack_asn1(tag, its data) to the parent's data *)
     x_exit := fun y o =>
       match y, o with
       | VO (OWriter (Some t) data), Some (VO (OWriter pt pdata)) =>
         let* d := pack_tlv t data in Ok (Some (VO (OWriter pt (pdata ++ d))))
       | _, _ => Ok o
       end;
     x_exc := fun _ => None |}.

Definition W : world (pv obj) := std_world e2e_ext.

(* the callees that draw randomness or read the clock: what they return is an explicit argument of the model functions
   (Model/CryptoWrap.v cek_generate, Model/Kek.v new_kek_rnd, Model/Client.v protection_gke_from_cache) *)
Section WithOracles.
Context (rnd_cek rnd_iv rnd_kek : bytes) (time_ns : Z).

Definition e2e_ext_rnd : ext obj :=
  {| x_glob := x_glob e2e_ext;
     x_attr := x_attr e2e_ext;
     x_setattr := x_setattr e2e_ext;
     x_call := fun f args =>
       if String.eqb f "AESGCM.generate_key" then      (* 256-bit key: the first draw *)
         match args with [VI n] => if n =? 256 then Some (Ok (VB rnd_cek)) else None | _ => None end
       else if String.eqb f "os.urandom" then          (* 12 bytes: the second draw *)
         match args with [VI n] => if n =? 12 then Some (Ok (VB rnd_iv)) else None | _ => None end
       else if String.eqb f "cek_generate" then
         match args with
         | [VO (OOid a)] => Some (let* (k, iv) := cek_generate a rnd_cek rnd_iv in Ok (VT [VB k; VB iv]))
         | _ => None
         end
       else if String.eqb f "time.time_ns" then
         match args with [] => Some (Ok (VI time_ns)) | _ => None end
       else x_call e2e_ext f args;
     x_meth := fun m r args =>
       match r with
       | VO (OEnv e) =>
         if String.eqb m "new_kek" then                (* its os.urandom call is the third draw *)
           match args with
           | [] => Some (let* (kek, kid) := new_kek_rnd c e rnd_kek in Ok (VT [VB kek; VO (OKid kid)], r))
           | _ => None
           end
         else x_meth e2e_ext m r args
       | _ => x_meth e2e_ext m r args
       end;
     x_truthy := x_truthy e2e_ext;
     x_eqb := x_eqb e2e_ext;
     x_iter := x_iter e2e_ext;
     x_enter := x_enter e2e_ext;
     x_exit := x_exit e2e_ext;
     x_exc := x_exc e2e_ext |}.

Definition WR : world (pv obj) := std_world e2e_ext_rnd.

End WithOracles.
End WithCrypto.
