(* What the names, attributes, calls and methods used by the PDU builders and the request path of _rpc/_client.py
   (_create_pdu_header, _create_bind, _create_alter_context, _create_request, request, _process_response), by _rpc/_auth.py
   (step, complete, wrap, unwrap) and by _client._process_get_key_result MEAN, in terms of the concrete record models
   Model/Pdu.v, Bind.v, Request.v, Verification.v, RpcDispatch.v (dataclasses := records, constructors := record construction),
   Model/Framing.v (create_pdu_header, create_request, prepare_pdu), Model/Seal.v (unwrap slices), Model/Conversation.v
   (receive_response: one reply read from the transport and handed to _process_response) and Model/Gkdi.v.
   Outside the library: the pyspnego security context. It is the model's abstraction: a script of legs for step() /
   complete (Model/Handshake.v), arbitrary functions wrap / unwrap for wrap_iov / unwrap_iov (Framing.wrap_fn, Seal.unwrap_fn),
   a signature size for query_message_sizes().header (Framing.provider).  The transport is Model/Recv.v's byte stream.
   A PDU class (Response, BindNak, Fault) is its packet type, the key under which _PACKET_TYPE_REGISTRY holds it.
   Definitions only; the tie theorems are in Proofs/Flow_client_frame.v, Flow_client_seal.v, Flow_client_conv.v. *)
From V Require Import Prelude.Base Prelude.PyInt Prelude.PySlice Prelude.PyAst Prelude.PyWorld.
From V Require Import gen.K_client gen.C_client gen.C_rpc.
From V Require Import Model.Pdu Model.Request Model.Bind Model.Verification Model.RpcDispatch.
From V Require Import Model.Handshake Model.Framing Model.Seal Model.Recv Model.Conversation.
From V Require Import Model.Types Model.Gkdi.
Local Open Scope string_scope.
Local Open Scope list_scope.
Local Open Scope Z_scope.

(* RpcClient (either flavour): the authentication provider if any, self._sign_header, what the transport will deliver,
   and the requests put on the wire so far (with what was handed to the security context's wrap) *)
Record client := {
  cl_flavour : flavour; cl_auth : option provider; cl_sign : bool; cl_stream : bytes;
  cl_sent : list (bytes * option wrap_args) }.
Definition cl_set_sign (c : client) (b : bool) : client :=
  {| cl_flavour := cl_flavour c; cl_auth := cl_auth c; cl_sign := b; cl_stream := cl_stream c; cl_sent := cl_sent c |}.
Definition cl_add_sent (c : client) (s : bytes * option wrap_args) : client :=
  {| cl_flavour := cl_flavour c; cl_auth := cl_auth c; cl_sign := cl_sign c; cl_stream := cl_stream c;
     cl_sent := cl_sent c ++ [s] |}.

(* AuthenticationProvider as _auth.py sees itself: self.provider and the pyspnego context (remaining legs, complete) *)
Record authp := { ap_provider : Z; ap_legs : list leg; ap_complete : bool }.

Inductive obj :=
| ODataRep (d : data_rep)
| OHdr (h : pdu_header)
| OSt (s : sec_trailer)
| OCe (c : context_element)
| OBind (m : bind_msg)                  (* Bind *)
| OAlter (m : bind_msg)                 (* AlterContext *)
| OReq (m : request)
| OResp (m : response)
| OPdu (p : pdu)                        (* what PDU.unpack returns *)
| OVt (cmds : list command)             (* VerificationTrailer *)
| OProv (p : provider)                  (* AuthenticationProvider as RpcClient uses it *)
| OAuthP (a : authp)                    (* AuthenticationProvider as _auth.py sees itself *)
| OSpnego (a : authp)                   (* self.ctx *)
| OBufType (sign : bool)                (* spnego.iov.BufferType.sign_only (true) / data_readonly (false) *)
| OBufHeader                            (* spnego.iov.BufferType.header *)
| OIovRes (bufs : list (option bytes))  (* result of wrap_iov / unwrap_iov: the data of each buffer *)
| OIovBuf (d : option bytes)
| OEnvl (e : envelope)                  (* GroupKeyEnvelope *)
| OSelf (c : client).

Definition optbv (o : option bytes) : pv obj := match o with Some b => VB b | None => VN end.
Definition stv (o : option sec_trailer) : pv obj := match o with Some s => VO (OSt s) | None => VN end.
Definition offv (o : option (Z * Z)) : pv obj := match o with Some (a, b) => VT [VI a; VI b] | None => VN end.
Definition vtv (o : option (list command)) : pv obj := match o with Some c => VO (OVt c) | None => VN end.
Definition cev (c : context_element) : pv obj := VO (OCe c).

Definition st_of (v : pv obj) : option (option sec_trailer) :=
  match v with VO (OSt s) => Some (Some s) | VN => Some None | _ => None end.
Definition off_of (v : pv obj) : option (option (Z * Z)) :=
  match v with VT [VI a; VI b] => Some (Some (a, b)) | VN => Some None | _ => None end.
Definition vt_of (v : pv obj) : option (option (list command)) :=
  match v with VO (OVt c) => Some (Some c) | VN => Some None | _ => None end.
Fixpoint ces_of (l : list (pv obj)) : option (list context_element) :=
  match l with
  | [] => Some []
  | VO (OCe c) :: r => match ces_of r with Some t => Some (c :: t) | None => None end
  | _ => None
  end.

Definition pdu_type (p : pdu) : Z :=
  match p with
  | PRequest _ => c_PT_REQUEST | PResponse _ => c_PT_RESPONSE | PFault _ => c_PT_FAULT
  | PBind _ => c_PT_BIND | PBindAck _ => c_PT_BIND_ACK | PBindNak _ => c_PT_BIND_NAK
  | PAlterContext _ => c_PT_ALTER_CONTEXT | PAlterContextResp _ => c_PT_ALTER_CONTEXT_RESP
  end.

(* AuthenticationProvider.get_empty_trailer(pad_length): the trailer Framing.create_request builds *)
Definition empty_trailer (pv : provider) (pad : Z) : sec_trailer :=
  {| st_type := pv_type pv; st_level := c_PKT_PRIVACY; st_pad_length := pad; st_context_id := 0;
     st_auth_value := Framing.zeros (pv_sig_len pv) |}.

Section WithContext.
Context (wrap : wrap_fn) (unwrap : unwrap_fn) (sch : list Z).

(* SyncRpcClient._send_pdu / AsyncRpcClient._send_pdu for a Request: _prepare_pdu (Framing.prepare_pdu), the write, then one reply
   read from the transport and _process_response (Conversation.receive_response) *)
Definition send_request_pdu (c : client) (rq : request) (offs : option (Z * Z)) : res (pv obj * pv obj) :=
  let* sent := prepare_pdu wrap (is_some (cl_auth c)) (cl_sign c) (request_pack rq) offs in
  let* rsp := receive_response (cl_flavour c) unwrap (cl_auth c) offs (cl_sign c) (cl_stream c) sch in
  Ok (VO (OResp rsp), VO (OSelf (cl_add_sent c sent))).

Definition client_ext : ext obj :=
  {| x_glob := fun x =>
       if String.eqb x "PacketFlags.NONE" then Some (Ok (VI c_PFC_NONE))
       else if String.eqb x "PacketFlags.PFC_FIRST_FRAG" then Some (Ok (VI c_PFC_FIRST_FRAG))
       else if String.eqb x "PacketFlags.PFC_LAST_FRAG" then Some (Ok (VI c_PFC_LAST_FRAG))
       else if String.eqb x "PacketFlags.PFC_SUPPORT_HEADER_SIGN" then Some (Ok (VI c_PFC_SUPPORT_HEADER_SIGN))
       else if String.eqb x "PacketType.BIND" then Some (Ok (VI c_PT_BIND))
       else if String.eqb x "PacketType.ALTER_CONTEXT" then Some (Ok (VI c_PT_ALTER_CONTEXT))
       else if String.eqb x "PacketType.REQUEST" then Some (Ok (VI c_PT_REQUEST))
       else if String.eqb x "AuthenticationLevel.RPC_C_AUTHN_LEVEL_PKT_PRIVACY" then Some (Ok (VI c_PKT_PRIVACY))
       else if String.eqb x "Response" then Some (Ok (VI c_PT_RESPONSE))
       else if String.eqb x "BindNak" then Some (Ok (VI c_PT_BIND_NAK))
       else if String.eqb x "Fault" then Some (Ok (VI c_PT_FAULT))
       else if String.eqb x "spnego.iov.BufferType.sign_only" then Some (Ok (VO (OBufType true)))
       else if String.eqb x "spnego.iov.BufferType.data_readonly" then Some (Ok (VO (OBufType false)))
       else if String.eqb x "spnego.iov.BufferType.header" then Some (Ok (VO OBufHeader))
       else None;
     x_attr := fun a v =>
       match v with
       | VO (OSt s) =>
         if String.eqb a "auth_value" then Some (Ok (VB (st_auth_value s)))
         else if String.eqb a "pad_length" then Some (Ok (VI (st_pad_length s)))
         else None
       | VO (OHdr h) =>
         if String.eqb a "auth_len" then Some (Ok (VI (h_auth_len h)))
         else if String.eqb a "frag_len" then Some (Ok (VI (h_frag_len h)))
         else if String.eqb a "packet_flags" then Some (Ok (VI (h_packet_flags h)))
         else None
       | VO (OResp r) =>
         if String.eqb a "stub_data" then Some (Ok (VB (rs_stub_data r)))
         else if String.eqb a "sec_trailer" then Some (Ok (stv (rs_sec_trailer r)))
         else None
       | VO (OSelf c) =>
         if String.eqb a "_auth" then Some (Ok (match cl_auth c with Some p => VO (OProv p) | None => VN end))
         else if String.eqb a "_sign_header" then Some (Ok (vb (cl_sign c)))
         else None
       | VO (OAuthP ap) =>
         if String.eqb a "provider" then Some (Ok (VI (ap_provider ap)))
         else if String.eqb a "ctx" then Some (Ok (VO (OSpnego ap)))
         else None
       | VO (OSpnego ap) => if String.eqb a "complete" then Some (Ok (vb (ap_complete ap))) else None
       | VO (OIovRes bufs) => if String.eqb a "buffers" then Some (Ok (VL (map (fun d => VO (OIovBuf d)) bufs))) else None
       | VO (OIovBuf d) => if String.eqb a "data" then Some (Ok (optbv d)) else None
       | _ => None
       end;
     x_setattr := fun a o v =>
       match o, v with
       | VO (OSelf c), VI b =>
         if String.eqb a "_sign_header" then Some (Ok (VO (OSelf (cl_set_sign c (negb (b =? 0)))))) else None
       | VO (OAuthP ap), VO (OSpnego ap') =>
         (* the pyspnego context after one of its methods ran (written back by the interpreter): step() consumed a leg *)
         if String.eqb a "ctx" then Some (Ok (VO (OAuthP {| ap_provider := ap_provider ap; ap_legs := ap_legs ap'; ap_complete := ap_complete ap' |})))
         else None
       | _, _ => None
       end;
     x_call := fun f args =>
       if String.eqb f "DataRep" then
         match args with [] => Some (Ok (VO (ODataRep data_rep_default))) | _ => None end
       else if String.eqb f "PDUHeader/version,version_minor,packet_type,packet_flags,data_rep,frag_len,auth_len,call_id" then
         match args with
         | [VI v; VI vm; VI pt; VI fl; VO (ODataRep d); VI frag; VI al; VI cid] =>
           Some (Ok (VO (OHdr {| h_version := v; h_version_minor := vm; h_packet_type := pt; h_packet_flags := fl; h_data_rep := d;
                                 h_frag_len := frag; h_auth_len := al; h_call_id := cid |})))
         | _ => None
         end
       else if String.eqb f "SecTrailer/type,level,pad_length,context_id,auth_value" then
         match args with
         | [VI ty; VI lv; VI pad; VI cid; VB av] =>
           Some (Ok (VO (OSt {| st_type := ty; st_level := lv; st_pad_length := pad; st_context_id := cid; st_auth_value := av |})))
         | _ => None
         end
       else if String.eqb f "Bind/header,sec_trailer,max_xmit_frag,max_recv_frag,assoc_group,contexts" then
         match args with
         | [VO (OHdr h); st; VI mx; VI mr; VI ag; VL cs] =>
           match st_of st, ces_of cs with
           | Some st', Some cs' =>
             Some (Ok (VO (OBind {| b_header := h; b_sec_trailer := st'; b_max_xmit_frag := mx; b_max_recv_frag := mr;
                                    b_assoc_group := ag; b_contexts := cs' |})))
           | _, _ => None
           end
         | _ => None
         end
       else if String.eqb f "AlterContext/header,sec_trailer,max_xmit_frag,max_recv_frag,assoc_group,contexts" then
         match args with
         | [VO (OHdr h); st; VI mx; VI mr; VI ag; VL cs] =>
           match st_of st, ces_of cs with
           | Some st', Some cs' =>
             Some (Ok (VO (OAlter {| b_header := h; b_sec_trailer := st'; b_max_xmit_frag := mx; b_max_recv_frag := mr;
                                     b_assoc_group := ag; b_contexts := cs' |})))
           | _, _ => None
           end
         | _ => None
         end
       else if String.eqb f "Request/header,sec_trailer,alloc_hint,context_id,opnum,obj,stub_data" then
         match args with
         | [VO (OHdr h); st; VI ah; VI cid; VI op; VN; VB stub] =>
           match st_of st with
           | Some st' =>
             Some (Ok (VO (OReq {| rq_header := h; rq_sec_trailer := st'; rq_alloc_hint := ah; rq_context_id := cid;
                                   rq_opnum := op; rq_obj := None; rq_stub_data := stub |})))
           | None => None
           end
         | _ => None
         end
       else if String.eqb f "PDU.unpack" then
         (* RpcDispatch.pdu_unpack with the loop fuel S (length data) of Units_rpc.fuel_for, as Seal.process_response *)
         match args with [VB b] => Some (let* (p, _) := pdu_unpack (S (List.length b)) b in Ok (VO (OPdu p))) | _ => None end
       else if String.eqb f "isinstance" then
         (* only for the two classes nobody subclasses *)
         match args with
         | [VO (OPdu p); VI k] =>
           if (k =? c_PT_BIND_NAK) || (k =? c_PT_FAULT) then Some (Ok (vb (pdu_type p =? k))) else None
         | _ => None
         end
       else if String.eqb f "type" then
         match args with [VO (OPdu p)] => Some (Ok (VI (pdu_type p))) | _ => None end
       else if String.eqb f "GetKey.unpack_response" then
         match args with [VB b] => Some (let* e := GetKey_unpack_response b in Ok (VO (OEnvl e))) | _ => None end
       else None;
     x_meth := fun m r args =>
       match r with
       | VO (OSelf c) =>
         if String.eqb m "_create_pdu_header" then        (* flags defaults to PacketFlags.NONE *)
           match args with
           | [VI pt; VI al; VI cid] => Some (Ok (VO (OHdr (create_pdu_header pt al cid c_PFC_NONE)), r))
           | _ => None
           end
         else if String.eqb m "_create_pdu_header/flags" then
           match args with
           | [VI pt; VI al; VI cid; VI fl] => Some (Ok (VO (OHdr (create_pdu_header pt al cid fl)), r))
           | _ => None
           end
         else if String.eqb m "_create_request/verification_trailer" then
           match args with
           | [VI cid; VI op; VB stub; vt] =>
             match vt_of vt with
             | Some vt' =>
               let '(rq, offs) := create_request (cl_auth c) cid op stub (option_map verification_trailer_pack vt') in
               Some (Ok (VT [VO (OReq rq); offv offs], r))
             | None => None
             end
           | _ => None
           end
         else if String.eqb m "_send_pdu/encrypt_offsets" then
           match args with
           | [VO (OReq rq); VI k; offs] =>
             match off_of offs with
             | Some offs' => if k =? c_PT_RESPONSE then Some (send_request_pdu c rq offs') else None
             | None => None
             end
           | _ => None
           end
         else None
       | VO (OProv pv) =>
         if String.eqb m "get_empty_trailer" then
           match args with [VI pad] => Some (Ok (VO (OSt (empty_trailer pv pad)), r)) | _ => None end
         else if String.eqb m "unwrap" then
           match args with
           | [VB h; VB b; VB t; VB sg; VI s] => Some (let* d := unwrap h b t sg (negb (s =? 0)) in Ok (VB d, r))
           | _ => None
           end
         else None
       | VO (OVt cmds) =>
         if String.eqb m "pack" then match args with [] => Some (Ok (VB (verification_trailer_pack cmds), r)) | _ => None end
         else None
       | VO (OSpnego ap) =>
         if String.eqb m "step" then
           (* pyspnego: the next token (None when there is none), or the script is exhausted *)
           match args with
           | [_] => Some (match ap_legs ap with
                          | [] => Raise KeyError
                          | l :: ls => Ok (match leg_token l with [] => VN | t => VB t end,
                                           VO (OSpnego {| ap_provider := ap_provider ap; ap_legs := ls; ap_complete := leg_complete l |}))
                          end)
           | _ => None
           end
         else if String.eqb m "wrap_iov/encrypt,qop" then
           match args with
           | [VL [VT [VO (OBufType s1); VB h]; VB b; VT [VO (OBufType s2); VB t]; VO OBufHeader]; VI 1; VN] =>
             if Bool.eqb s1 s2 then
               let '(sealed, sg) := wrap h b t s1 in
               Some (Ok (VO (OIovRes [Some h; Some sealed; Some t; Some sg]), r))
             else None
           | _ => None
           end
         else if String.eqb m "unwrap_iov" then
           match args with
           | [VL [VT [VO (OBufType s1); VB h]; VB b; VT [VO (OBufType s2); VB t]; VT [VO OBufHeader; VB sg]]] =>
             if Bool.eqb s1 s2 then
               Some (let* d := unwrap h b t sg s1 in Ok (VO (OIovRes [Some h; Some d; Some t; Some sg]), r))
             else None
           | _ => None
           end
         else None
       | _ => None
       end;
     x_truthy := fun _ => Ok true;            (* dataclass instances: no __bool__, no __len__ *)
     x_eqb := fun _ _ => None;
     x_iter := fun _ => Raise TypeError;
     x_enter := fun v => Ok v;
     x_exit := fun _ o => Ok o;
     x_exc := fun _ => None |}.

Definition WC : world (pv obj) := std_world client_ext.

End WithContext.
