(* What the names, calls and methods used by _security_descriptor.py (sid_to_bytes, ace_to_bytes, acl_to_bytes,
   sd_to_bytes) MEAN, in terms of the model Model/SecDesc.v: the world the regenerated syntax gen/F_sd.v is run in.
   Definitions only; the tie theorems are in Proofs/Flow_sd_enc.v.

   Primitives outside the library and their abstraction:
   * re.compile(p)            := the pattern string itself (ORegex p);
   * <pattern>.match(s)       := the model's recogniser Model.SecDesc.sid_match, for the ONE pattern the model has a
                                 recogniser for (gen/K_sd.k_sid_regex, compared with the expected literal by C08_regex;
                                 C08_grammar says which language sid_match accepts); any other pattern has no meaning here
                                 (falls through to the builtins: TypeError). The result is a match object (truthy) or None;
   * int(s) on a str          := Model.SecDesc.py_int (value of a non-empty run of at most 4300 ASCII digits, CPython's
                                 sys.int_max_str_digits default, leading zeros counted; ValueError otherwise; Python's
                                 int() accepts more strings, none of which passes the regex: see the comment at py_int);
   * s.split(sep), one-character sep := Model.SecDesc.split_on;
   * setitem(data, i, v)      := what vlib/flow.py writes for the subscript store  data[i] = v  on a bytearray
                                 (ValueError for v outside range(256), then IndexError, negative indices allowed).
   Library callees: sid_to_bytes := Model.SecDesc.sid_to_bytes, acl_to_bytes := Model.SecDesc.acl_to_bytes (each has its
   own tie). bytearray / bytes / len / range / .to_bytes / b"".join / + | << ** >= are the builtins of Prelude/PyWorld.v. *)
From V Require Import Prelude.Base Prelude.PyInt Prelude.PySlice Prelude.PyAst Prelude.PyWorld gen.K_sd.
From V Require Import Model.Types Model.SecDesc.
Local Open Scope string_scope.
Local Open Scope list_scope.
Local Open Scope Z_scope.

Inductive obj :=
| ORegex (pattern : pystr)        (* re.compile(pattern) *)
| OMatch.                         (* a re.Match object: only its truth value is used *)

(* bytearray item store  data[i] = v *)
Definition set_item (data : bytes) (i v : Z) : res bytes :=
  if (v <? 0) || (256 <=? v) then Raise ValueError else
  let j := if i <? 0 then len data + i else i in
  if (j <? 0) || (len data <=? j) then Raise IndexError else
  Ok (firstn (Z.to_nat j) data ++ v :: skipn (S (Z.to_nat j)) data).

(* a Python list all of whose elements are bytes objects *)
Fixpoint all_vb (l : list (pv obj)) : option (list bytes) :=
  match l with
  | [] => Some []
  | VB b :: r => match all_vb r with Some t => Some (b :: t) | None => None end
  | _ => None
  end.

Definition lift (r : res bytes) : res (pv obj) := let* b := r in Ok (VB b).

Definition sd_ext : ext obj :=
  {| x_glob := fun _ => None;
     x_attr := fun _ _ => None;
     x_setattr := fun _ _ _ => None;
     x_call := fun f args =>
       if String.eqb f "re.compile" then
         match args with [VS p] => Some (Ok (VO (ORegex p))) | _ => None end
       else if String.eqb f "int" then
         match args with [VS s] => Some (let* z := py_int s in Ok (VI z)) | _ => None end
       else if String.eqb f "setitem" then
         match args with [VB data; VI i; VI v] => Some (let* d := set_item data i v in Ok (VB d)) | _ => None end
       else if String.eqb f "sid_to_bytes" then
         match args with [VS s] => Some (lift (sid_to_bytes s)) | _ => None end
       else if String.eqb f "acl_to_bytes" then
         match args with
         | [VL l] => match all_vb l with Some aces => Some (lift (acl_to_bytes aces)) | None => None end
         | _ => None
         end
       else None;
     x_meth := fun m r args =>
       match r with
       | VO (ORegex p) =>
         if String.eqb m "match" then
           match args with
           | [VS s] => if str_eqb p k_sid_regex then Some (Ok (if sid_match s then VO OMatch else VN, r)) else None
           | _ => None
           end
         else None
       | VS s =>
         if String.eqb m "split" then
           match args with [VS [c]] => Some (Ok (VL (map VS (split_on c s)), r)) | _ => None end
         else None
       | _ => None
       end;
     x_truthy := fun _ => Ok true;
     x_eqb := fun _ _ => None;
     x_iter := fun _ => Raise TypeError;
     x_enter := fun v => Ok v;
     x_exit := fun _ o => Ok o;
     x_exc := fun _ => None |}.

Definition W : world (pv obj) := std_world sd_ext.

(* how the arguments of sd_to_bytes are injected: Optional[List[bytes]] *)
Definition vlist (l : list bytes) : pv obj := VL (map VB l).
Definition vacl (o : option (list bytes)) : pv obj := match o with None => VN | Some l => vlist l end.
Definition acl_of (o : option (list bytes)) : list bytes := match o with None => [] | Some l => l end.
