(* What the names, attributes, calls and methods used by KeyCache.__init__ / load_key / _store_key and by the four public
   functions of _client.py MEAN, in terms of the model: the worlds the regenerated syntax gen/F_cache.v is run in.
   Two worlds, one per model of the cache:
     * `cache_ext`  (section Concrete): Model/Client.v, real octets and envelopes (ccache, cc_get_key, cc_store_key, decrypt_blob,
       encrypt_blob, protection_gke_from_cache); the network callees are oracles (section variables);
     * `acache_ext` (section Abstract): Model/Cache.v, the state machine the C10 theorems are about (cache, get_key, store_key,
       protection_gke, unprotect_finish / protect_finish, the DC oracle `dc`).
   Definitions only; the tie theorems are in Proofs/Flow_cache_*.v.

   Dictionaries.  The model keeps `self._root_keys` as an association list (newest first) and the three-level dictionary
   `self._seed_keys[root_key_id][target_sd][l0]` as ONE association list over triples (Client.ckey).  The dict-valued objects
   below are therefore: the empty dict display `{}` (ODict0), the two association lists, and the two inner levels of the seed
   dictionary seen as the same list restricted to a root key id / to a (root key id, target SD) pair.  `d.setdefault(k, {})`
   on the seed levels returns the next level and leaves the list alone (an absent key and a key bound to an empty inner
   dict are the same thing in the flat list: no lookup can tell them apart); `d.get(k, None)` is the model's lookup;
   "setitem" (the translator's desugaring of `d[k] = v`) is the model's cons.
   PyAst is single-owner: a `setitem` on an inner level held in a LOCAL variable gives that local its new value and does NOT
   write through to `self` (the alias `seed_key = self._seed_keys.setdefault(..).setdefault(..)` of _store_key); no entry
   here pretends otherwise. *)
From V Require Import Prelude.Base Prelude.PyAst Prelude.PyAstMut Prelude.PyWorld gen.Kernels gen.Consts gen.K_cache.
From V Require Import Model.Types Model.Crypto Model.Chain Model.KeyId Model.Gkdi Model.Kek Model.SecDesc Model.Asn1 Model.Pkcs7 Model.Blob
  Model.CryptoWrap Model.Client Model.Cache.
Local Open Scope string_scope.
Local Open Scope list_scope.
Local Open Scope Z_scope.

(* ================================================================================================ concrete *)
Inductive obj :=
| OBlob (b : blob)                                   (* DPAPINGBlob *)
| OKid (k : key_identifier)                          (* KeyIdentifier *)
| OSid (s : pystr)                                   (* SIDDescriptor(value) *)
| OEnv (e : envelope)                                (* GroupKeyEnvelope *)
| OCache (cc : ccache)                               (* KeyCache *)
| OSrv (target : pystr)                              (* SrvRecord: only .target is used *)
| ORootKey (rk : root_key)                           (* RootKey *)
| OKdfP (hash_name : pystr)                          (* KDFParameters(hash_name) *)
| OHash (h : hash)                                   (* hashes.SHA1() .. hashes.SHA512(), what KDFParameters.hash_algorithm returns *)
| OFfcP (p : ffcdh_params)                           (* FFCDHParameters(key_length, field_order, generator) *)
| ODict0                                             (* {} *)
| ORoots (l : list (bytes * root_key))               (* self._root_keys *)
| OSeeds (l : list (ckey * envelope))                (* self._seed_keys *)
| OSeedsR (l : list (ckey * envelope)) (rkid : bytes)               (* self._seed_keys[rkid] *)
| OSeedsRS (l : list (ckey * envelope)) (rkid sd : bytes).          (* self._seed_keys[rkid][sd] : l0 -> envelope *)

Definition venv_opt (o : option envelope) : pv obj := match o with Some e => VO (OEnv e) | None => VN end.
Definition vcache_opt (o : option ccache) : pv obj := match o with Some cc => VO (OCache cc) | None => VN end.
Definition vbytes_opt (o : option bytes) : pv obj := match o with Some b => VB b | None => VN end.
Definition vstr_opt (o : option pystr) : pv obj := match o with Some s => VS s | None => VN end.
Definition bytes_opt_of (v : pv obj) : option (option bytes) :=
  match v with VB b => Some (Some b) | VN => Some None | _ => None end.

Section Concrete.
Context (c : Crypto).
(* the three os.urandom draws of a protect call and what time.time_ns() returns: explicit arguments of the model *)
Context (rnd_cek rnd_iv rnd_kek : bytes) (time_ns : Z).
(* the network: lookup_dc(domain_name) -> SrvRecord.target, and _sync_get_key(server, target_sd, root_key_id, l0, l1, l2,
   username=, password=, auth_protocol=) -> GroupKeyEnvelope, as arbitrary functions of their argument lists (what a domain
   controller answers is not the cache's business); the async twins are the same oracles *)
Context (lookup : list (pv obj) -> res pystr) (getkey : list (pv obj) -> res envelope).

Definition cache_ext : ext obj :=
  {| x_glob := fun x =>
       if String.eqb x "_EPOCH_FILETIME" then Some (Ok (VI c_EPOCH_FILETIME)) else None;
     x_attr := fun a v =>
       match v with
       | VO (OBlob b) =>
         if String.eqb a "protection_descriptor" then Some (Ok (VO (OSid (b_sid b))))
         else if String.eqb a "key_identifier" then Some (Ok (VO (OKid (b_key_identifier b))))
         else None
       | VO (OKid k) =>
         if String.eqb a "root_key_identifier" then Some (Ok (VB (kid_rkid k)))
         else if String.eqb a "l0" then Some (Ok (VI (kid_l0 k)))
         else if String.eqb a "l1" then Some (Ok (VI (kid_l1 k)))
         else if String.eqb a "l2" then Some (Ok (VI (kid_l2 k)))
         else if String.eqb a "domain_name" then Some (Ok (VS (kid_domain k)))
         else None
       | VO (OEnv e) =>
         if String.eqb a "is_public_key" then Some (Ok (vb (gke_is_public_key e)))
         else if String.eqb a "root_key_identifier" then Some (Ok (VB (gke_rkid e)))
         else if String.eqb a "l0" then Some (Ok (VI (gke_l0 e)))
         else if String.eqb a "l1" then Some (Ok (VI (gke_l1 e)))
         else if String.eqb a "l2" then Some (Ok (VI (gke_l2 e)))
         else if String.eqb a "version" then Some (Ok (VI (gke_version e)))
         else if String.eqb a "flags" then Some (Ok (VI (gke_flags e)))
         else if String.eqb a "kdf_algorithm" then Some (Ok (VS (gke_kdf_alg e)))
         else if String.eqb a "kdf_parameters" then Some (Ok (VB (gke_kdf_params e)))
         else if String.eqb a "secret_algorithm" then Some (Ok (VS (gke_secret_alg e)))
         else if String.eqb a "secret_parameters" then Some (Ok (VB (gke_secret_params e)))
         else if String.eqb a "private_key_length" then Some (Ok (VI (gke_priv_len e)))
         else if String.eqb a "public_key_length" then Some (Ok (VI (gke_pub_len e)))
         else if String.eqb a "domain_name" then Some (Ok (VS (gke_domain e)))
         else if String.eqb a "forest_name" then Some (Ok (VS (gke_forest e)))
         else None
       | VO (OKdfP n) =>
         if String.eqb a "hash_algorithm" then Some (let* h := hash_algorithm n in Ok (VO (OHash h))) else None
       | VO (OSrv t) => if String.eqb a "target" then Some (Ok (VS t)) else None
       | VO (OCache cc) =>
         if String.eqb a "_root_keys" then Some (Ok (VO (ORoots (cc_roots cc))))
         else if String.eqb a "_seed_keys" then Some (Ok (VO (OSeeds (cc_seeds cc))))
         else None
       | _ => None
       end;
     x_setattr := fun a o v =>
       match o with
       | VO (OCache cc) =>
         if String.eqb a "_root_keys" then
           match v with
           | VO ODict0 => Some (Ok (VO (OCache {| cc_roots := []; cc_seeds := cc_seeds cc |})))
           | VO (ORoots l) => Some (Ok (VO (OCache {| cc_roots := l; cc_seeds := cc_seeds cc |})))
           | _ => None
           end
         else if String.eqb a "_seed_keys" then
           match v with
           | VO ODict0 => Some (Ok (VO (OCache {| cc_roots := cc_roots cc; cc_seeds := [] |})))
           | VO (OSeeds l) => Some (Ok (VO (OCache {| cc_roots := cc_roots cc; cc_seeds := l |})))
           | _ => None
           end
         else None
       | _ => None
       end;
     x_call := fun f args =>
       if String.eqb f "DPAPINGBlob.unpack" then
         match args with [VB d] => Some (let* b := blob_unpack d in Ok (VO (OBlob b))) | _ => None end
       else if String.eqb f "ProtectionDescriptor.parse" then
         match args with [VS s] => Some (Ok (VO (OSid s))) | _ => None end
       else if String.eqb f "KeyCache" then
         match args with [] => Some (Ok (VO (OCache cc_empty))) | _ => None end
       else if String.eqb f "lookup_dc" || String.eqb f "async_lookup_dc" then
         Some (let* t := lookup args in Ok (VO (OSrv t)))
       else if String.eqb f "_sync_get_key/username,password,auth_protocol"
            || String.eqb f "_async_get_key/username,password,auth_protocol" then
         Some (let* e := getkey args in Ok (VO (OEnv e)))
       else if String.eqb f "_decrypt_blob" then
         match args with [VO (OBlob b); VO (OEnv e)] => Some (let* x := decrypt_blob c b e in Ok (VB x)) | _ => None end
       else if String.eqb f "_encrypt_blob" then
         match args with
         | [VB data; VO (OEnv e); VO (OSid s)] => Some (let* x := encrypt_blob c rnd_cek rnd_iv rnd_kek data e s in Ok (VB x))
         | _ => None
         end
       else if String.eqb f "_get_protection_gke_from_cache" then
         (* the cache is passed as an ARGUMENT: what the callee stores in it is not visible to the caller in PyAst
            (no aliasing); only the envelope comes back *)
         match args with
         | [r; VB sd; VO (OCache cc)] =>
           match bytes_opt_of r with
           | Some rkid => Some (let* (o, _) := protection_gke_from_cache c cc rkid sd time_ns in Ok (venv_opt o))
           | None => None
           end
         | _ => None
         end
       else if String.eqb f "dict" then
         match args with [] => Some (Ok (VO ODict0)) | _ => None end
       else if String.eqb f "setitem" then
         match args with
         | [VO (ORoots l); VB k; VO (ORootKey rk)] => Some (Ok (VO (ORoots ((k, rk) :: l))))
         | [VO (OSeedsRS l rkid sd); VI l0; VO (OEnv e)] => Some (Ok (VO (OSeedsRS (((rkid, sd, l0), e) :: l) rkid sd)))
         | _ => None
         end
       else if String.eqb f "RootKey/key,version,kdf_algorithm,kdf_parameters,secret_algorithm,secret_parameters,private_key_length,public_key_length" then
         match args with
         | [VB key; VI ver; VS kalg; VB kpar; VS salg; sp; VI priv; VI pub] =>
           match bytes_opt_of sp with
           | Some spar => Some (Ok (VO (ORootKey {| rk_key := key; rk_version := ver; rk_kdf_alg := kalg; rk_kdf_params := kpar;
                                                     rk_secret_alg := salg; rk_secret_params := spar; rk_priv_len := priv; rk_pub_len := pub |})))
           | None => None
           end
         | _ => None
         end
       else if String.eqb f "KDFParameters" then
         match args with [VS h] => Some (Ok (VO (OKdfP h))) | _ => None end
       (* ---- callees of _get_protection_gke_from_cache (its own body, gen/F_e2e.v) ---- *)
       else if String.eqb f "time.time_ns" then
         match args with [] => Some (Ok (VI time_ns)) | _ => None end
       else if String.eqb f "KDFParameters.unpack" then
         match args with [VB b] => Some (let* n := KDFParameters_unpack b in Ok (VO (OKdfP n))) | _ => None end
       else if String.eqb f "compute_l2_key" then
         match args with
         | [VO (OHash h); VI l1; VI l2; VO (OEnv rk)] => Some (let* k := compute_l2_key c h l1 l2 rk in Ok (VB k))
         | _ => None
         end
       else if String.eqb f "GroupKeyEnvelope/version,flags,l0,l1,l2,root_key_identifier,kdf_algorithm,kdf_parameters,secret_algorithm,secret_parameters,private_key_length,public_key_length,domain_name,forest_name,l1_key,l2_key" then
         (* the dataclass constructor: stores its arguments *)
         match args with
         | [VI version; VI flags; VI l0; VI l1; VI l2; VB rid; VS ka; VB kp; VS sa; VB sp; VI priv; VI pub; VS dn; VS fn; VB k1; VB k2] =>
           Some (Ok (VO (OEnv {| gke_version := version; gke_flags := flags; gke_l0 := l0; gke_l1 := l1; gke_l2 := l2;
                                 gke_rkid := rid; gke_kdf_alg := ka; gke_kdf_params := kp;
                                 gke_secret_alg := sa; gke_secret_params := sp;
                                 gke_priv_len := priv; gke_pub_len := pub;
                                 gke_domain := dn; gke_forest := fn; gke_l1_key := k1; gke_l2_key := k2 |})))
         | _ => None
         end
       else if String.eqb f "FFCDHParameters/key_length,field_order,generator" then
         match args with
         | [VI kl; VI fo; VI g] => Some (Ok (VO (OFfcP {| ffp_key_length := kl; ffp_field_order := fo; ffp_generator := g |})))
         | _ => None
         end
       else None;
     x_meth := fun m r args =>
       match r with
       | VO (OSid s) =>
         if String.eqb m "get_target_sd" then
           match args with [] => Some (let* sd := get_target_sd s in Ok (VB sd, r)) | _ => None end
         else None
       | VO (OCache cc) =>
         if String.eqb m "_get_key" then
           match args with
           | [VB sd; VB rkid; VI l0; VI l1; VI l2] =>
             Some (let* (o, cc') := cc_get_key c cc sd rkid l0 l1 l2 in Ok (venv_opt o, VO (OCache cc')))
           | _ => None
           end
         else if String.eqb m "_store_key" then
           match args with
           | [VB sd; VO (OEnv e)] => Some (Ok (VN, VO (OCache (cc_store_key cc sd e))))
           | _ => None
           end
         else None
       | VO (OKdfP h) =>
         if String.eqb m "pack" then match args with [] => Some (let* b := KDFParameters_pack h in Ok (VB b, r)) | _ => None end
         else None
       | VO (OFfcP p) =>
         if String.eqb m "pack" then match args with [] => Some (let* b := FFCDHParameters_pack p in Ok (VB b, r)) | _ => None end
         else None
       | VO (OSeeds l) =>
         if String.eqb m "setdefault" then
           match args with [VB rkid; VO ODict0] => Some (Ok (VO (OSeedsR l rkid), r)) | _ => None end
         else None
       | VO (OSeedsR l rkid) =>
         if String.eqb m "setdefault" then
           match args with [VB sd; VO ODict0] => Some (Ok (VO (OSeedsRS l rkid sd), r)) | _ => None end
         else None
       | VO (OSeedsRS l rkid sd) =>
         if String.eqb m "get" then
           match args with [VI l0; VN] => Some (Ok (venv_opt (cc_find_seed l (rkid, sd, l0)), r)) | _ => None end
         else None
       | _ => None
       end;
     (* none of these classes defines __bool__ / __len__: instances are true *)
     x_truthy := fun o =>
       match o with
       | OEnv _ | OCache _ | OSrv _ | OBlob _ | OKid _ | OSid _ | ORootKey _ | OKdfP _ | OFfcP _ | OHash _ => Ok true
       | ODict0 => Ok false
       | ORoots l => Ok (negb (len l =? 0))
       | _ => Raise TypeError       (* truth of a seed level would need "some key bound to a non-empty dict": not used *)
       end;
     x_eqb := fun _ _ => None;
     x_iter := fun _ => Raise TypeError;
     x_enter := fun v => Ok v;
     x_exit := fun _ o => Ok o;
     x_exc := fun _ => None |}.

Definition W : PyAst.world (pv obj) := std_world cache_ext.

(* the same world for Prelude/PyAstMut.v (callees that mutate an argument; final values of the parameters):
   _get_protection_gke_from_cache(root_key_identifier, target_sd, cache) hands the cache back as cc_get_key left it.
   This entry (value AND cache afterwards) is what the callee's own regenerated body computes in this world:
   Proofs/Flow_cache_gke.v, flow_get_protection_gke_from_cache_state *)
Definition MW : mworld (pv obj) :=
  {| mw_base := W;
     mw_call_mut := fun f args =>
       if String.eqb f "_get_protection_gke_from_cache" then
         match args with
         | [r; VB sd; VO (OCache cc)] =>
           match bytes_opt_of r with
           | Some rkid => Some (let* (o, cc') := protection_gke_from_cache c cc rkid sd time_ns in
                                Ok (venv_opt o, [r; VB sd; VO (OCache cc')]))
           | None => None
           end
         | _ => None
         end
       else None;
     mw_meth_mut := fun _ _ _ => None |}.

End Concrete.

(* ================================================================================================ abstract *)
(* Model/Cache.v identifies a security descriptor and a root key id by a number, keeps of an envelope what the cache
   property needs (cenv) and of a public call its request (sd, rk, l0, l1, l2) and the key material it ends up using. *)
Section Abstract.
Context {K RK : Type}.
Notation cenvK := (cenv (K := K)).
Notation cacheK := (cache (K := K) (RK := RK)).

Inductive aobj :=
| AData (sd rk l0 l1 l2 : Z)          (* the octets of a blob that names target SD sd and key (rk, l0, l1, l2) *)
| ABlob (sd rk l0 l1 l2 : Z)          (* DPAPINGBlob.unpack of it *)
| APd (sd : Z)                        (* a protection descriptor whose target SD is sd *)
| AKid (rk l0 l1 l2 : Z)              (* blob.key_identifier *)
| ACenv (e : cenvK)                   (* GroupKeyEnvelope *)
| ACache (ca : cacheK)                (* KeyCache *)
| ASrv                                (* SrvRecord *)
| AKey (k : K).                       (* key material (what the model records of the bytes a call returns: o_key) *)

Definition vcenv_opt (o : option cenvK) : pv aobj := match o with Some e => VO (ACenv e) | None => VN end.
Definition z_opt_of (v : pv aobj) : option (option Z) :=
  match v with VI z => Some (Some z) | VN => Some None | _ => None end.

Context (kdf : Z -> Z -> K -> Z -> Z -> K) (l1seed : RK -> Z -> Z -> Z -> K) (nokey : K).
Context (dc : Z -> option Z -> Z -> Z -> Z -> cenvK).
(* the position (l0, l1, l2) _get_protection_gke_from_cache computes from the clock *)
Context (now0 now1 now2 : Z).

Definition acache_ext : ext aobj :=
  {| x_glob := fun _ => None;
     x_attr := fun a v =>
       match v with
       | VO (ABlob sd rk l0 l1 l2) =>
         if String.eqb a "protection_descriptor" then Some (Ok (VO (APd sd)))
         else if String.eqb a "key_identifier" then Some (Ok (VO (AKid rk l0 l1 l2)))
         else None
       | VO (AKid rk l0 l1 l2) =>
         if String.eqb a "root_key_identifier" then Some (Ok (VI rk))
         else if String.eqb a "l0" then Some (Ok (VI l0))
         else if String.eqb a "l1" then Some (Ok (VI l1))
         else if String.eqb a "l2" then Some (Ok (VI l2))
         else if String.eqb a "domain_name" then Some (Ok (VS []))      (* not in the abstract model *)
         else None
       | VO (ACenv e) => if String.eqb a "is_public_key" then Some (Ok (vb (c_pub e))) else None
       | VO ASrv => if String.eqb a "target" then Some (Ok (VS [])) else None
       | _ => None
       end;
     x_setattr := fun _ _ _ => None;
     x_call := fun f args =>
       if String.eqb f "DPAPINGBlob.unpack" then
         match args with [VO (AData sd rk l0 l1 l2)] => Some (Ok (VO (ABlob sd rk l0 l1 l2))) | _ => None end
       else if String.eqb f "ProtectionDescriptor.parse" then
         match args with [VI sd] => Some (Ok (VO (APd sd))) | _ => None end
       else if String.eqb f "KeyCache" then
         match args with [] => Some (Ok (VO (ACache empty_cache))) | _ => None end
       else if String.eqb f "lookup_dc" || String.eqb f "async_lookup_dc" then
         (* the abstract model has no DNS: a domain controller is always found *)
         Some (Ok (VO ASrv))
       else if String.eqb f "_sync_get_key/username,password,auth_protocol"
            || String.eqb f "_async_get_key/username,password,auth_protocol" then
         (* GetKey(sd, optional root key id, l0, l1, l2) is the model's DC oracle; server and credentials are not in the model *)
         match args with
         | [_; VI sd; r; VI l0; VI l1; VI l2; _; _; _] =>
           match z_opt_of r with Some rko => Some (Ok (VO (ACenv (dc sd rko l0 l1 l2)))) | None => None end
         | _ => None
         end
       else if String.eqb f "_decrypt_blob" then
         (* the key material _decrypt_blob ends up using (get_kek of the envelope for the blob's position): the o_key
            component of Cache.unprotect_finish, which depends neither on the cache nor on the RPC count.
            NOTE: this entry and the next are PROJECTIONS OF THE FUNCTIONS UNDER PROOF (Model/Cache.v has no separate
            function for "use the envelope": it is inlined in unprotect_finish / protect_finish), so the abstract ties do not
            check how the key is derived from the envelope - that is Model/Client.v decrypt_blob / encrypt_blob, tied to the
            source in Proofs/Flow_e2e_*.v.  What the abstract ties DO check is everything around it: which envelope reaches
            this call (the cached one / the DC's reply to exactly (sd, rk, l0, l1, l2) resp. (sd, rko, -1, -1, -1)), for which
            blob / descriptor, whether and where it is stored first, and the cache the call leaves behind.
            No theorem relates Model/Cache.v to Model/Client.v: the abstract and the concrete cache model are connected
            only through the source (these flow ties, the shared k_cache kernels) and the correspondence runs. *)
         match args with
         | [VO (ABlob sd rk l0 l1 l2); VO (ACenv e)] =>
           Some (let* k := o_key (fst (unprotect_finish kdf (empty_cache (RK := RK)) sd l0 l1 l2 e 0)) in Ok (VO (AKey k)))
         | _ => None
         end
       else if String.eqb f "_encrypt_blob" then
         (* likewise for _encrypt_blob (new_kek of the envelope): the o_key component of Cache.protect_finish *)
         match args with
         | [_; VO (ACenv e); VO (APd sd)] =>
           Some (let* k := o_key (fst (protect_finish (empty_cache (RK := RK)) sd e 0)) in Ok (VO (AKey k)))
         | _ => None
         end
       else if String.eqb f "_get_protection_gke_from_cache" then
         match args with
         | [r; VI sd; VO (ACache ca)] =>
           match z_opt_of r with
           | Some rko =>
             Some (match fst (protection_gke kdf l1seed nokey ca sd rko now0 now1 now2) with
                   | None => Ok VN
                   | Some (Ok e) => Ok (VO (ACenv e))
                   | Some (Raise x) => Raise x
                   end)
           | None => None
           end
         | _ => None
         end
       else None;
     x_meth := fun m r args =>
       match r with
       | VO (APd sd) =>
         if String.eqb m "get_target_sd" then match args with [] => Some (Ok (VI sd, r)) | _ => None end else None
       | VO (ACache ca) =>
         if String.eqb m "_get_key" then
           match args with
           | [VI sd; VI rk; VI l0; VI l1; VI l2] =>
             Some (let '(o, ca') := get_key l1seed nokey ca sd rk l0 l1 l2 in Ok (vcenv_opt o, VO (ACache ca')))
           | _ => None
           end
         else if String.eqb m "_store_key" then
           match args with
           | [VI sd; VO (ACenv e)] => Some (Ok (VN, VO (ACache (store_key ca sd e))))
           | _ => None
           end
         else None
       | _ => None
       end;
     x_truthy := fun _ => Ok true;
     x_eqb := fun _ _ => None;
     x_iter := fun _ => Raise TypeError;
     x_enter := fun v => Ok v;
     x_exit := fun _ o => Ok o;
     x_exc := fun _ => None |}.

Definition AW : PyAst.world (pv aobj) := std_world acache_ext.

Definition AMW : mworld (pv aobj) :=
  {| mw_base := AW;
     mw_call_mut := fun f args =>
       if String.eqb f "_get_protection_gke_from_cache" then
         match args with
         | [r; VI sd; VO (ACache ca)] =>
           match z_opt_of r with
           | Some rko =>
             Some (let '(o, ca') := protection_gke kdf l1seed nokey ca sd rko now0 now1 now2 in
                   let* v := match o with
                             | None => Ok VN
                             | Some (Ok e) => Ok (VO (ACenv e))
                             | Some (Raise x) => Raise x
                             end in
                   Ok (v, [r; VI sd; VO (ACache ca')]))
           | None => None
           end
         | _ => None
         end
       else None;
     mw_meth_mut := fun _ _ _ => None |}.

End Abstract.
