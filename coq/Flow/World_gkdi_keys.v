(* What the names, attributes, calls and methods used by the key-derivation functions of _gkdi.py (compute_kdf_context,
   compute_l1_key, compute_l2_key, compute_kek, compute_kek_from_public_key, compute_public_key,
   GroupKeyEnvelope.is_public_key / get_kek / new_kek) MEAN, in terms of the model (Model/Chain.v, Model/Kek.v,
   Model/Gkdi.v, Model/Crypto.v): the world the regenerated syntax gen/F_gkdi.v (part "keys") is run in.
   Definitions only; the tie theorems are in Proofs/Flow_gkdi_keys_chain.v and Proofs/Flow_gkdi_keys_kek.v.

   Conventions:
   - a dataclass instance is the model's record (GroupKeyEnvelope = envelope, KeyIdentifier = key_identifier, FFCDHKey =
     ffcdh_key, ECDHKey = ecdh_key, KDFParameters = its hash_name); a dataclass constructor is the record constructor;
   - uuid.UUID is its bytes_le (model convention);
   - other functions of the library are the MODEL functions: compute_kdf_context, compute_l2_key (Model/Chain.v),
     compute_kek, compute_kek_from_public_key, compute_public_key (Model/Kek.v), FFCDHKey.unpack/.pack, FFCDHParameters.unpack,
     ECDHKey.unpack/.pack,
     ECDHKey.curve_and_hash, KDFParameters.unpack/.hash_algorithm (Model/Gkdi.v), the properties
     GroupKeyEnvelope.is_public_key / KeyIdentifier.is_public_key (gke_is_public_key, kid_is_public_key);
   - primitives outside the library are the model's abstraction of them:
       _crypto.kdf (KBKDFHMAC, SP800-108 counter mode)      := kdf of the Crypto record;
       _crypto.kdf_concat (ConcatKDFHash over otherinfo = algorithm_id + party_uinfo + party_vinfo)
                                                            := concat_kdf of the Crypto record on that concatenation;
       hashes.SHA256() and the hash objects                 := the tokens `hash`; .digest_size := digest_size;
       the curve objects inside ECDHKey.curve_and_hash      := the tokens `curve`;
       pow(b, e, m)                                         := py_pow3 (Model/Kek.v: ValueError when m = 0, else modpow;
                                                               C03_modpow_spec: b^e mod m for e >= 0, m > 0; the library
                                                               only passes e = int.from_bytes(..) here);
       ec.EllipticCurvePublicNumbers(x, y, curve).public_key(), ec.derive_private_key(d, curve),
       private.exchange(ec.ECDH(), public)                  := ec_dh of the Crypto record (ONE primitive of the model: the
                                                               validation errors of the three calls are all folded into
                                                               its result, CryptoLaws.ec_dh_errors: ValueError), so the
                                                               two constructors only record their arguments;
       ec.derive_private_key(d, curve).public_key().public_numbers()  := ec_pub of the Crypto record (its error surfaces
                                                               at .public_key(), the first call whose result is used);
       os.urandom(n)                                        := the section variable `urandom` (an explicit argument of the
                                                               model's new_kek);
       x / y on ints followed by math.ceil                  := py_truediv_ceil (Prelude/TrueDiv.v, the correctly rounded
                                                               binary64 quotient): there is no float among the values of
                                                               the standard world, so the quotient is the token
                                                               OTrueDiv x y and the world below is the standard world
                                                               with `w_bin` extended by the operator "/";
       str.startswith                                       := startswith (Model/Kek.v). *)
From V Require Import Prelude.Base Prelude.PyInt Prelude.PySlice Prelude.PyStr Prelude.TrueDiv Prelude.PyAst Prelude.PyWorld.
From V Require Import gen.Consts gen.C_gkdi gen.K_gkdi.
From V Require Import Model.Types Model.Crypto Model.Chain Model.KeyId Model.Gkdi Model.Kek.
Local Open Scope string_scope.
Local Open Scope list_scope.
Local Open Scope Z_scope.

Inductive obj :=
| OHash (h : hash)                             (* a hashes.HashAlgorithm instance *)
| OCurve (cv : curve)                          (* an ec.EllipticCurve instance *)
| OUuid (b : bytes)                            (* uuid.UUID, as its bytes_le *)
| OEnv (e : envelope)                          (* GroupKeyEnvelope *)
| OKid (k : key_identifier)                    (* KeyIdentifier *)
| OKdfp (hash_name : pystr)                    (* KDFParameters *)
| OFfk (k : ffcdh_key)                         (* FFCDHKey *)
| OFfp (p : ffcdh_params)                      (* FFCDHParameters *)
| OEck (k : ecdh_key)                          (* ECDHKey *)
| OEcNumbers (cv : curve) (x y : Z)            (* ec.EllipticCurvePublicNumbers *)
| OEcPub (cv : curve) (x y : Z)                (* ec.EllipticCurvePublicKey *)
| OEcPriv (cv : curve) (d : Z)                 (* ec.derive_private_key(d, curve) *)
| OEcdh                                        (* ec.ECDH() *)
| OTrueDiv (x y : Z).                          (* the float x / y, kept as its operands *)

Definition curve_eqb (a b : curve) : bool := curve_id a =? curve_id b.

Section WithCrypto.
Context (c : Crypto) (urandom : Z -> bytes).

Definition keys_glob (x : string) : option (res (pv obj)) :=
  if String.eqb x "KDS_SERVICE_LABEL" then Some (Ok (VB c_KDS_SERVICE_LABEL)) else None.

Definition keys_attr (a : string) (v : pv obj) : option (res (pv obj)) :=
  match v with
  | VO (OUuid b) => if String.eqb a "bytes_le" then Some (Ok (VB b)) else None
  | VO (OHash h) => if String.eqb a "digest_size" then Some (Ok (VI (digest_size h))) else None
  | VO (OEnv e) =>
    if String.eqb a "is_public_key" then Some (Ok (vb (gke_is_public_key e)))
    else if String.eqb a "version" then Some (Ok (VI (gke_version e)))
    else if String.eqb a "flags" then Some (Ok (VI (gke_flags e)))
    else if String.eqb a "l0" then Some (Ok (VI (gke_l0 e)))
    else if String.eqb a "l1" then Some (Ok (VI (gke_l1 e)))
    else if String.eqb a "l2" then Some (Ok (VI (gke_l2 e)))
    else if String.eqb a "root_key_identifier" then Some (Ok (VO (OUuid (gke_rkid e))))
    else if String.eqb a "kdf_algorithm" then Some (Ok (VS (gke_kdf_alg e)))
    else if String.eqb a "kdf_parameters" then Some (Ok (VB (gke_kdf_params e)))
    else if String.eqb a "secret_algorithm" then Some (Ok (VS (gke_secret_alg e)))
    else if String.eqb a "secret_parameters" then Some (Ok (VB (gke_secret_params e)))
    else if String.eqb a "private_key_length" then Some (Ok (VI (gke_priv_len e)))
    else if String.eqb a "public_key_length" then Some (Ok (VI (gke_pub_len e)))
    else if String.eqb a "domain_name" then Some (Ok (VS (gke_domain e)))
    else if String.eqb a "forest_name" then Some (Ok (VS (gke_forest e)))
    else if String.eqb a "l1_key" then Some (Ok (VB (gke_l1_key e)))
    else if String.eqb a "l2_key" then Some (Ok (VB (gke_l2_key e)))
    else None
  | VO (OKid k) =>
    if String.eqb a "is_public_key" then Some (Ok (vb (kid_is_public_key k)))
    else if String.eqb a "version" then Some (Ok (VI (kid_version k)))
    else if String.eqb a "flags" then Some (Ok (VI (kid_flags k)))
    else if String.eqb a "l0" then Some (Ok (VI (kid_l0 k)))
    else if String.eqb a "l1" then Some (Ok (VI (kid_l1 k)))
    else if String.eqb a "l2" then Some (Ok (VI (kid_l2 k)))
    else if String.eqb a "root_key_identifier" then Some (Ok (VO (OUuid (kid_rkid k))))
    else if String.eqb a "key_info" then Some (Ok (VB (kid_key_info k)))
    else if String.eqb a "domain_name" then Some (Ok (VS (kid_domain k)))
    else if String.eqb a "forest_name" then Some (Ok (VS (kid_forest k)))
    else None
  | VO (OKdfp n) =>
    if String.eqb a "hash_algorithm" then Some (let* h := hash_algorithm n in Ok (VO (OHash h))) else None
  | VO (OFfk k) =>
    if String.eqb a "key_length" then Some (Ok (VI (ffk_key_length k)))
    else if String.eqb a "field_order" then Some (Ok (VI (ffk_field_order k)))
    else if String.eqb a "generator" then Some (Ok (VI (ffk_generator k)))
    else if String.eqb a "public_key" then Some (Ok (VI (ffk_public_key k)))
    else None
  | VO (OFfp p) =>
    if String.eqb a "key_length" then Some (Ok (VI (ffp_key_length p)))
    else if String.eqb a "field_order" then Some (Ok (VI (ffp_field_order p)))
    else if String.eqb a "generator" then Some (Ok (VI (ffp_generator p)))
    else None
  | VO (OEck k) =>
    if String.eqb a "curve_and_hash" then
      Some (let* (cv, h) := curve_and_hash k in Ok (VT [VO (OCurve cv); VO (OHash h)]))
    else if String.eqb a "curve_name" then Some (Ok (VS (eck_curve_name k)))
    else if String.eqb a "key_length" then Some (Ok (VI (eck_key_length k)))
    else if String.eqb a "x" then Some (Ok (VI (eck_x k)))
    else if String.eqb a "y" then Some (Ok (VI (eck_y k)))
    else None
  | VO (OEcNumbers _ x y) =>
    if String.eqb a "x" then Some (Ok (VI x)) else if String.eqb a "y" then Some (Ok (VI y)) else None
  | _ => None
  end.

Definition keys_call (f : string) (args : list (pv obj)) : option (res (pv obj)) :=
  if String.eqb f "kdf" then
    match args with
    | [VO (OHash h); VB secret; VB label; VB context; VI n] => Some (Ok (VB (kdf c h secret label context n)))
    | _ => None
    end
  else if String.eqb f "kdf_concat/algorithm_id,party_uinfo,party_vinfo,length" then
    match args with
    | [VO (OHash h); VB shared; VB aid; VB pu; VB pvi; VI n] => Some (Ok (VB (concat_kdf c h shared (aid ++ pu ++ pvi) n)))
    | _ => None
    end
  else if String.eqb f "compute_kdf_context" then
    match args with
    | [VO (OUuid g); VI l0; VI l1; VI l2] => Some (let* b := compute_kdf_context g l0 l1 l2 in Ok (VB b))
    | _ => None
    end
  else if String.eqb f "compute_l2_key" then
    match args with
    | [VO (OHash h); VI l1; VI l2; VO (OEnv e)] => Some (let* b := compute_l2_key c h l1 l2 e in Ok (VB b))
    | _ => None
    end
  else if String.eqb f "compute_kek/secret_algorithm,secret_parameters,private_key,public_key"
       || String.eqb f "compute_kek/algorithm,secret_algorithm,secret_parameters,private_key,public_key" then
    match args with
    | [VO (OHash h); VS alg; VB sp; VB priv; VB pub] => Some (let* b := compute_kek c h alg sp priv pub in Ok (VB b))
    | _ => None
    end
  else if String.eqb f "compute_kek_from_public_key/algorithm,seed,secret_algorithm,secret_parameters,public_key,private_key_length" then
    match args with
    | [VO (OHash h); VB seed; VS alg; VB sp; VB pub; VI n] =>
      Some (let* b := compute_kek_from_public_key c h seed alg sp pub n in Ok (VB b))
    | _ => None
    end
  else if String.eqb f "compute_public_key/secret_algorithm,secret_parameters,private_key,peer_public_key" then
    match args with
    | [VS alg; VB sp; VB priv; VB peer] => Some (let* b := compute_public_key c alg sp priv peer in Ok (VB b))
    | _ => None
    end
  else if String.eqb f "KDFParameters.unpack" then
    match args with [VB b] => Some (let* n := KDFParameters_unpack b in Ok (VO (OKdfp n))) | _ => None end
  else if String.eqb f "FFCDHKey.unpack" then
    match args with [VB b] => Some (let* k := FFCDHKey_unpack b in Ok (VO (OFfk k))) | _ => None end
  else if String.eqb f "FFCDHParameters.unpack" then
    match args with [VB b] => Some (let* p := FFCDHParameters_unpack b in Ok (VO (OFfp p))) | _ => None end
  else if String.eqb f "FFCDHKey" then
    match args with
    | [VI kl; VI fo; VI g; VI pk] =>
      Some (Ok (VO (OFfk {| ffk_key_length := kl; ffk_field_order := fo; ffk_generator := g; ffk_public_key := pk |})))
    | _ => None
    end
  else if String.eqb f "ECDHKey.unpack" then
    match args with [VB b] => Some (let* k := ECDHKey_unpack b in Ok (VO (OEck k))) | _ => None end
  else if String.eqb f "ECDHKey" then
    match args with
    | [VS n; VI kl; VI x; VI y] =>
      Some (Ok (VO (OEck {| eck_curve_name := n; eck_key_length := kl; eck_x := x; eck_y := y |})))
    | _ => None
    end
  else if String.eqb f "KeyIdentifier/version,flags,l0,l1,l2,root_key_identifier,key_info,domain_name,forest_name" then
    match args with
    | [VI v; VI fl; VI l0; VI l1; VI l2; VO (OUuid r); VB ki; VS d; VS fo] =>
      Some (Ok (VO (OKid {| kid_version := v; kid_flags := fl; kid_l0 := l0; kid_l1 := l1; kid_l2 := l2; kid_rkid := r;
                            kid_key_info := ki; kid_domain := d; kid_forest := fo |})))
    | _ => None
    end
  (* domain note (audit): CPython's pow(b, e, m) with e < 0 computes a modular inverse and math.ceil(x / y) raises OverflowError
     when the quotient exceeds the float range; py_pow3 / py_truediv_ceil do neither. In the tied functions b, e, m are results of
     int.from_bytes (non-negative) and the quotient is bit_length / 8 of such an integer (far below 2^1024), so the entries are only
     ever used inside their common domain; outside it they are NOT a model of CPython. *)
  else if String.eqb f "pow" then
    match args with [VI b; VI e; VI m] => Some (let* r := py_pow3 b e m in Ok (VI r)) | _ => None end
  else if String.eqb f "hashes.SHA256" then
    match args with [] => Some (Ok (VO (OHash SHA256))) | _ => None end
  else if String.eqb f "ec.EllipticCurvePublicNumbers" then
    match args with [VI x; VI y; VO (OCurve cv)] => Some (Ok (VO (OEcNumbers cv x y))) | _ => None end
  else if String.eqb f "ec.derive_private_key" then
    match args with [VI d; VO (OCurve cv)] => Some (Ok (VO (OEcPriv cv d))) | _ => None end
  else if String.eqb f "ec.ECDH" then
    match args with [] => Some (Ok (VO OEcdh)) | _ => None end
  else if String.eqb f "math.ceil" then
    match args with [VO (OTrueDiv x y)] => Some (Ok (VI (py_truediv_ceil x y))) | _ => None end
  else if String.eqb f "os.urandom" then
    match args with [VI n] => Some (Ok (VB (urandom n))) | _ => None end
  else None.

Definition keys_meth (m : string) (r : pv obj) (args : list (pv obj)) : option (res (pv obj * pv obj)) :=
  match r with
  | VS s =>
    if String.eqb m "startswith" then
      match args with [VS p] => Some (Ok (vb (startswith s p), r)) | _ => None end
    else None
  | VO (OFfk k) =>
    if String.eqb m "pack" then match args with [] => Some (let* b := FFCDHKey_pack k in Ok (VB b, r)) | _ => None end
    else None
  | VO (OEck k) =>
    if String.eqb m "pack" then match args with [] => Some (let* b := ECDHKey_pack k in Ok (VB b, r)) | _ => None end
    else None
  | VO (OEcNumbers cv x y) =>
    if String.eqb m "public_key" then match args with [] => Some (Ok (VO (OEcPub cv x y), r)) | _ => None end
    else None
  | VO (OEcPriv cv d) =>
    if String.eqb m "exchange" then
      match args with
      | [VO OEcdh; VO (OEcPub cv' x y)] =>
        Some (if curve_eqb cv cv' then let* z := ec_dh c cv d (x, y) in Ok (VB z, r) else Raise ValueError)
      | _ => None
      end
    else if String.eqb m "public_key" then
      match args with [] => Some (let* (x, y) := ec_pub c cv d in Ok (VO (OEcPub cv x y), r)) | _ => None end
    else None
  | VO (OEcPub cv x y) =>
    if String.eqb m "public_numbers" then match args with [] => Some (Ok (VO (OEcNumbers cv x y), r)) | _ => None end
    else None
  | _ => None
  end.

Definition keys_ext : ext obj :=
  {| x_glob := keys_glob;
     x_attr := keys_attr;
     x_setattr := fun _ _ _ => None;
     x_call := keys_call;
     x_meth := keys_meth;
     x_truthy := fun _ => Ok true;
     x_eqb := fun _ _ => None;
     x_iter := fun _ => Raise TypeError;
     x_enter := fun v => Ok v;
     x_exit := fun _ o => Ok o;
     x_exc := fun _ => None |}.

(* true division of two ints: the float is kept as its operands (ZeroDivisionError is folded into ValueError as in
   Prelude/PyWorld.v); every other operator is the standard one *)
Definition keys_bin (op : string) (a b : pv obj) : res (pv obj) :=
  if String.eqb op "/" then
    match a, b with
    | VI x, VI y => if y =? 0 then Raise ValueError else Ok (VO (OTrueDiv x y))
    | _, _ => Raise TypeError
    end
  else v_bin op a b.

Definition W : world (pv obj) :=
  let S0 := std_world keys_ext in
  {| w_glob := w_glob S0; w_attr := w_attr S0; w_setattr := w_setattr S0; w_call := w_call S0; w_meth := w_meth S0;
     w_int := w_int S0; w_bytes := w_bytes S0; w_str := w_str S0; w_none := w_none S0; w_bool := w_bool S0;
     w_truthy := w_truthy S0; w_cmp := w_cmp S0;
     w_bin := keys_bin;
     w_neg := w_neg S0; w_tuple := w_tuple S0; w_list := w_list S0; w_untuple := w_untuple S0; w_iter := w_iter S0;
     w_sub := w_sub S0; w_slice := w_slice S0; w_enter := w_enter S0; w_exit := w_exit S0; w_exc := w_exc S0 |}.

End WithCrypto.
