(* What the names, attributes, calls and methods used by the DCE/RPC codecs (_rpc/_pdu.py, _bind.py, _request.py,
   _verification.py) and the endpoint-mapper codecs (_epm.py) MEAN, in terms of the model (Model/Pdu.v, Request.v,
   Bind.v, Verification.v, Epm.v): the world the regenerated syntax gen/F_rpc.v is run in.
   Definitions only; the tie theorems are in Proofs/Flow_rpc_<group>.v.

   Values.  A dataclass instance is the model's record (ODataRep .. OEptMapResult); a class object (the `cls` of a
   classmethod) is OCls; a registry entry (a bound `_unpack`) is OFn; a uuid.UUID is OUuid of its 16 bytes_le octets
   (FRAMEWORK.md); IntEnum / IntFlag members are their ints (VI).  Optional fields are VN / the value, lists are VL,
   the (major, minor) pairs of BindNak and the entry handle are VT.

   Primitives outside the library (their meaning is the model's abstraction, see Model/Pdu.v, Request.v):
     IntEnum lookup  `IntegerRep(x)` ..           := enum_lookup c_<Enum>_values x   (ValueError off the members)
     IntFlag lookup / enums with a _missing_ hook := the identity on ints  (PacketFlags, FaultFlags, CommandFlags;
                                                     CommandType, FloorProtocol)
     uuid.UUID(bytes_le=b)                        := uuid_of_bytes_le b  (ValueError unless 16 octets)
     uuid.UUID(fields=(a,b,c,d,e,f))              := uuid_of_fields below (RFC 4122 layout, as the uuid module documents)
     dataclass constructors                       := the record constructors; a known command / floor class sets the
                                                     class default of `command` / `protocol` and empty raw caches
     enumerate(l)                                 := the list of (index, element) tuples   [not in Prelude/PyWorld.v]
   Library functions called from other library functions are the MODEL functions; those with a loop take the model's
   fuel `mfuel` (a parameter of the world), and the tie theorems are stated for the same `mfuel`.
   x.pack() : the model's pack functions write `le w z` (total) where the source calls z.to_bytes(w, ..), which raises
   OverflowError outside [0, 256^w).  The world therefore gives a nested x.pack() the CHECKED pack
   `ovf (<X>_ranges x) (<X>_pack x)`: the model's bytes when every to_bytes reached from X.pack (recursively) is in
   range, OverflowError otherwise -- literally the right-hand side of X.pack's own tie theorem, so composite packs inherit
   the range conditions.  Only the classes whose pack is called from another pack have an entry (DataRep, PDUHeader,
   SecTrailer, SyntaxId, ContextElement, ContextResult, Command and its subclasses, Floor and its subclasses).
   `.value` of an int: IntEnum / IntFlag members are ints here and do not carry their class; the only use is
   `self.command.value | self.flags.value` in Command.pack, where CommandType (with its _missing_ hook) and CommandFlags
   (an IntFlag) have every int the fields can hold as a member. *)
From V Require Import Prelude.Base Prelude.PyInt Prelude.PySlice Prelude.PyStr Prelude.PyAst Prelude.PyWorld.
From V Require Import Model.Pdu Model.Request Model.RpcLoop Model.Bind Model.Verification Model.Epm.
Local Open Scope string_scope.
Local Open Scope list_scope.
Local Open Scope Z_scope.

Inductive cname :=
| CDataRep | CPDUHeader | CSecTrailer | CFault | CRequest | CResponse
| CSyntaxId | CContextElement | CContextResult | CBind | CAlterContext | CBindAck | CAlterContextResponse | CBindNak
| CCommand | CCommandBitmask | CCommandPContext | CCommandHeader2 | CVerificationTrailer
| CFloor | CTCPFloor | CIPFloor | CRPCConnectionOrientedFloor | CUUIDFloor | CEptMap | CEptMapResult.

(* the values of _COMMAND_TYPE_REGISTRY / _FLOOR_TYPE_REGISTRY *)
Inductive fname :=
| FBitmaskUnpack | FPContextUnpack | FHeader2Unpack
| FTCPUnpack | FIPUnpack | FRPCCOUnpack | FUUIDUnpack.

Inductive obj :=
| OCls (c : cname)
| OFn (f : fname)
| OUuid (u : bytes)
| ODataRep (d : data_rep)
| OHeader (h : pdu_header)
| OSecTrailer (s : sec_trailer)
| OFault (m : fault)
| ORequest (m : request)
| OResponse (m : response)
| OSyntaxId (s : syntax_id)
| OContextElement (c : context_element)
| OContextResult (r : context_result)
| OBind (m : bind_msg)                 (* Bind and AlterContext *)
| OBindAck (m : bind_ack)              (* BindAck and AlterContextResponse *)
| OBindNak (m : bind_nak)
| OCommand (c : command)
| OVT (commands : list command)        (* VerificationTrailer *)
| OFloor (f : floor)
| OEptMap (m : ept_map)
| OEptMapResult (m : ept_map_result).

Notation V := (pv obj).

(* ---- injections of model values -------------------------------------------------------------- *)
Definition vst (s : option sec_trailer) : V := match s with Some t => VO (OSecTrailer t) | None => VN end.
Definition vuuid_opt (u : option bytes) : V := match u with Some b => VO (OUuid b) | None => VN end.
Definition vhandle (h : option (Z * bytes)) : V :=
  match h with Some (a, u) => VT [VI a; VO (OUuid u)] | None => VN end.
Definition vsyntaxes (l : list syntax_id) : V := VL (map (fun s => VO (OSyntaxId s)) l).
Definition vcontexts (l : list context_element) : V := VL (map (fun c => VO (OContextElement c)) l).
Definition vresults (l : list context_result) : V := VL (map (fun r => VO (OContextResult r)) l).
Definition vversions (l : list (Z * Z)) : V := VL (map (fun v => VT [VI (fst v); VI (snd v)]) l).
Definition vcommands (l : list command) : V := VL (map (fun c => VO (OCommand c)) l).
Definition vfloors (l : list floor) : V := VL (map (fun f => VO (OFloor f)) l).
Definition vtowers (l : list (list floor)) : V := VL (map vfloors l).

(* ---- projections back (constructor arguments) ------------------------------------------------ *)
Definition st_of (v : V) : option (option sec_trailer) :=
  match v with VN => Some None | VO (OSecTrailer t) => Some (Some t) | _ => None end.
Definition uuid_opt_of (v : V) : option (option bytes) :=
  match v with VN => Some None | VO (OUuid u) => Some (Some u) | _ => None end.
Definition handle_of (v : V) : option (option (Z * bytes)) :=
  match v with VN => Some None | VT [VI a; VO (OUuid u)] => Some (Some (a, u)) | _ => None end.
Fixpoint syntaxes_of (l : list V) : option (list syntax_id) :=
  match l with
  | [] => Some []
  | VO (OSyntaxId s) :: r => match syntaxes_of r with Some t => Some (s :: t) | None => None end
  | _ => None
  end.
Fixpoint contexts_of (l : list V) : option (list context_element) :=
  match l with
  | [] => Some []
  | VO (OContextElement c) :: r => match contexts_of r with Some t => Some (c :: t) | None => None end
  | _ => None
  end.
Fixpoint results_of (l : list V) : option (list context_result) :=
  match l with
  | [] => Some []
  | VO (OContextResult c) :: r => match results_of r with Some t => Some (c :: t) | None => None end
  | _ => None
  end.
Fixpoint versions_of (l : list V) : option (list (Z * Z)) :=
  match l with
  | [] => Some []
  | VT [VI a; VI b] :: r => match versions_of r with Some t => Some ((a, b) :: t) | None => None end
  | _ => None
  end.
Fixpoint commands_of (l : list V) : option (list command) :=
  match l with
  | [] => Some []
  | VO (OCommand c) :: r => match commands_of r with Some t => Some (c :: t) | None => None end
  | _ => None
  end.
Fixpoint floors_of (l : list V) : option (list floor) :=
  match l with
  | [] => Some []
  | VO (OFloor f) :: r => match floors_of r with Some t => Some (f :: t) | None => None end
  | _ => None
  end.
Fixpoint towers_of (l : list V) : option (list (list floor)) :=
  match l with
  | [] => Some []
  | VL fs :: r => match floors_of fs, towers_of r with Some f, Some t => Some (f :: t) | _, _ => None end
  | _ => None
  end.

(* ---- constructors of the known command / floor classes (class default for command / protocol, empty caches) *)
Definition known_command (k : cmd_kind) (flags : Z) : command :=
  let c := {| cmd_kind_of := k; cmd_command := 0; cmd_flags := flags; cmd_value := [] |} in
  {| cmd_kind_of := k; cmd_command := command_type c; cmd_flags := flags; cmd_value := [] |}.
Definition generic_command (t flags : Z) (value : bytes) : command :=
  {| cmd_kind_of := CK_Generic; cmd_command := t; cmd_flags := flags; cmd_value := value |}.
Definition generic_floor (p : Z) (lhs rhs : bytes) : floor :=
  {| fl_kind := FK_Generic; fl_protocol := p; fl_lhs := lhs; fl_rhs := rhs |}.

(* the per-class _unpack functions of the two registries, as the model inlines them in command_unpack / floor_unpack *)
Definition cmd_kind_unpack (f : fname) (value : bytes) : option (res cmd_kind) :=
  match f with
  | FBitmaskUnpack => Some (Ok (CK_Bitmask (le_val value)))
  | FPContextUnpack =>
      Some (let* interface_id := syntax_id_unpack value in
            let* transfer_syntax := syntax_id_unpack (slice (Some 20) None value) in
            Ok (CK_PContext interface_id transfer_syntax))
  | FHeader2Unpack =>
      Some (let* b0 := index value 0 in
            let* packet_type := enum_lookup c_PacketType_values b0 in
            let* dr := data_rep_unpack (slice (Some 4) (Some 8) value) in
            Ok (CK_Header2 packet_type dr (le_val (slice (Some 8) (Some 12) value))
                  (le_val (slice (Some 12) (Some 14) value)) (le_val (slice (Some 14) (Some 16) value))))
  | _ => None
  end.
Definition floor_kind_unpack (f : fname) (lhs rhs : bytes) : option (res floor_kind) :=
  match f with
  | FTCPUnpack => Some (Ok (FK_TCP (be_val rhs)))
  | FIPUnpack => Some (Ok (FK_IP (be_val rhs)))
  | FRPCCOUnpack => Some (Ok (FK_RPC_CO (le_val rhs)))
  | FUUIDUnpack =>
      Some (let* u := uuid_of_bytes_le (slice None (Some 16) lhs) in
            Ok (FK_UUID u (le_val (slice (Some 16) (Some 18) lhs)) (le_val rhs)))
  | _ => None
  end.

(* uuid.UUID(fields=(time_low, time_mid, time_hi_version, clock_seq_hi_variant, clock_seq_low, node)).bytes_le *)
Definition uuid_of_fields (a b c d e f : Z) : res bytes :=
  if in_range 4 a && in_range 2 b && in_range 2 c && in_range 1 d && in_range 1 e && in_range 6 f
  then Ok (le 4 a ++ le 2 b ++ le 2 c ++ [d; e] ++ be 6 f) else Raise ValueError.

Fixpoint enumerate_from (i : Z) (l : list V) : list V :=
  match l with [] => [] | x :: r => VT [VI i; x] :: enumerate_from (i + 1) r end.

Definition enum_call (members : list Z) (args : list V) : option (res V) :=
  match args with [VI x] => Some (let* v := enum_lookup members x in Ok (VI v)) | _ => None end.
Definition flag_call (args : list V) : option (res V) :=
  match args with [VI x] => Some (Ok (VI x)) | _ => None end.

Definition cmd_attr (a : string) (c : command) : option (res V) :=
  if String.eqb a "command" then Some (Ok (VI (command_type c)))
  else if String.eqb a "flags" then Some (Ok (VI (cmd_flags c)))
  else if String.eqb a "value" then Some (Ok (VB (cmd_value c)))
  else match cmd_kind_of c with
       | CK_Generic => None
       | CK_Bitmask bits => if String.eqb a "bits" then Some (Ok (VI bits)) else None
       | CK_PContext i t =>
           if String.eqb a "interface_id" then Some (Ok (VO (OSyntaxId i)))
           else if String.eqb a "transfer_syntax" then Some (Ok (VO (OSyntaxId t))) else None
       | CK_Header2 pt dr call ctx op =>
           if String.eqb a "packet_type" then Some (Ok (VI pt))
           else if String.eqb a "data_rep" then Some (Ok (VO (ODataRep dr)))
           else if String.eqb a "call_id" then Some (Ok (VI call))
           else if String.eqb a "context_id" then Some (Ok (VI ctx))
           else if String.eqb a "opnum" then Some (Ok (VI op)) else None
       end.

Definition floor_attr (a : string) (f : floor) : option (res V) :=
  if String.eqb a "protocol" then Some (Ok (VI (floor_protocol f)))
  else if String.eqb a "lhs" then Some (Ok (VB (fl_lhs f)))
  else if String.eqb a "rhs" then Some (Ok (VB (fl_rhs f)))
  else match fl_kind f with
       | FK_Generic => None
       | FK_TCP port => if String.eqb a "port" then Some (Ok (VI port)) else None
       | FK_IP addr => if String.eqb a "addr" then Some (Ok (VI addr)) else None
       | FK_RPC_CO vm => if String.eqb a "version_minor" then Some (Ok (VI vm)) else None
       | FK_UUID u v vm =>
           if String.eqb a "uuid" then Some (Ok (VO (OUuid u)))
           else if String.eqb a "version" then Some (Ok (VI v))
           else if String.eqb a "version_minor" then Some (Ok (VI vm)) else None
       end.

Definition rpc_attr (a : string) (v : V) : option (res V) :=
  match v with
  | VI z => if String.eqb a "value" then Some (Ok (VI z)) else None     (* IntEnum / IntFlag member .value *)
  | VO (OUuid u) => if String.eqb a "bytes_le" then Some (Ok (VB u)) else None
  | VO (OCls CVerificationTrailer) => if String.eqb a "signature" then Some (Ok (VB c_VT_signature)) else None
  | VO (ODataRep d) =>
      if String.eqb a "byte_order" then Some (Ok (VI (dr_byte_order d)))
      else if String.eqb a "character" then Some (Ok (VI (dr_character d)))
      else if String.eqb a "floating_point" then Some (Ok (VI (dr_floating_point d))) else None
  | VO (OHeader h) =>
      if String.eqb a "version" then Some (Ok (VI (h_version h)))
      else if String.eqb a "version_minor" then Some (Ok (VI (h_version_minor h)))
      else if String.eqb a "packet_type" then Some (Ok (VI (h_packet_type h)))
      else if String.eqb a "packet_flags" then Some (Ok (VI (h_packet_flags h)))
      else if String.eqb a "data_rep" then Some (Ok (VO (ODataRep (h_data_rep h))))
      else if String.eqb a "frag_len" then Some (Ok (VI (h_frag_len h)))
      else if String.eqb a "auth_len" then Some (Ok (VI (h_auth_len h)))
      else if String.eqb a "call_id" then Some (Ok (VI (h_call_id h))) else None
  | VO (OSecTrailer s) =>
      if String.eqb a "type" then Some (Ok (VI (st_type s)))
      else if String.eqb a "level" then Some (Ok (VI (st_level s)))
      else if String.eqb a "pad_length" then Some (Ok (VI (st_pad_length s)))
      else if String.eqb a "context_id" then Some (Ok (VI (st_context_id s)))
      else if String.eqb a "auth_value" then Some (Ok (VB (st_auth_value s))) else None
  | VO (OFault m) =>
      if String.eqb a "header" then Some (Ok (VO (OHeader (f_header m))))
      else if String.eqb a "sec_trailer" then Some (Ok (vst (f_sec_trailer m)))
      else if String.eqb a "alloc_hint" then Some (Ok (VI (f_alloc_hint m)))
      else if String.eqb a "context_id" then Some (Ok (VI (f_context_id m)))
      else if String.eqb a "cancel_count" then Some (Ok (VI (f_cancel_count m)))
      else if String.eqb a "status" then Some (Ok (VI (f_status m)))
      else if String.eqb a "flags" then Some (Ok (VI (f_flags m)))
      else if String.eqb a "stub_data" then Some (Ok (VB (f_stub_data m))) else None
  | VO (ORequest m) =>
      if String.eqb a "header" then Some (Ok (VO (OHeader (rq_header m))))
      else if String.eqb a "sec_trailer" then Some (Ok (vst (rq_sec_trailer m)))
      else if String.eqb a "alloc_hint" then Some (Ok (VI (rq_alloc_hint m)))
      else if String.eqb a "context_id" then Some (Ok (VI (rq_context_id m)))
      else if String.eqb a "opnum" then Some (Ok (VI (rq_opnum m)))
      else if String.eqb a "obj" then Some (Ok (vuuid_opt (rq_obj m)))
      else if String.eqb a "stub_data" then Some (Ok (VB (rq_stub_data m))) else None
  | VO (OResponse m) =>
      if String.eqb a "header" then Some (Ok (VO (OHeader (rs_header m))))
      else if String.eqb a "sec_trailer" then Some (Ok (vst (rs_sec_trailer m)))
      else if String.eqb a "alloc_hint" then Some (Ok (VI (rs_alloc_hint m)))
      else if String.eqb a "context_id" then Some (Ok (VI (rs_context_id m)))
      else if String.eqb a "cancel_count" then Some (Ok (VI (rs_cancel_count m)))
      else if String.eqb a "stub_data" then Some (Ok (VB (rs_stub_data m))) else None
  | VO (OSyntaxId s) =>
      if String.eqb a "uuid" then Some (Ok (VO (OUuid (sy_uuid s))))
      else if String.eqb a "version" then Some (Ok (VI (sy_version s)))
      else if String.eqb a "version_minor" then Some (Ok (VI (sy_version_minor s))) else None
  | VO (OContextElement c) =>
      if String.eqb a "context_id" then Some (Ok (VI (ce_context_id c)))
      else if String.eqb a "abstract_syntax" then Some (Ok (VO (OSyntaxId (ce_abstract_syntax c))))
      else if String.eqb a "transfer_syntaxes" then Some (Ok (vsyntaxes (ce_transfer_syntaxes c))) else None
  | VO (OContextResult r) =>
      if String.eqb a "result" then Some (Ok (VI (cr_result r)))
      else if String.eqb a "reason" then Some (Ok (VI (cr_reason r)))
      else if String.eqb a "syntax" then Some (Ok (VO (OUuid (cr_syntax r))))
      else if String.eqb a "syntax_version" then Some (Ok (VI (cr_syntax_version r))) else None
  | VO (OBind m) =>
      if String.eqb a "header" then Some (Ok (VO (OHeader (b_header m))))
      else if String.eqb a "sec_trailer" then Some (Ok (vst (b_sec_trailer m)))
      else if String.eqb a "max_xmit_frag" then Some (Ok (VI (b_max_xmit_frag m)))
      else if String.eqb a "max_recv_frag" then Some (Ok (VI (b_max_recv_frag m)))
      else if String.eqb a "assoc_group" then Some (Ok (VI (b_assoc_group m)))
      else if String.eqb a "contexts" then Some (Ok (vcontexts (b_contexts m))) else None
  | VO (OBindAck m) =>
      if String.eqb a "header" then Some (Ok (VO (OHeader (ba_header m))))
      else if String.eqb a "sec_trailer" then Some (Ok (vst (ba_sec_trailer m)))
      else if String.eqb a "max_xmit_frag" then Some (Ok (VI (ba_max_xmit_frag m)))
      else if String.eqb a "max_recv_frag" then Some (Ok (VI (ba_max_recv_frag m)))
      else if String.eqb a "assoc_group" then Some (Ok (VI (ba_assoc_group m)))
      else if String.eqb a "sec_addr" then Some (Ok (VS (ba_sec_addr m)))
      else if String.eqb a "results" then Some (Ok (vresults (ba_results m))) else None
  | VO (OBindNak m) =>
      if String.eqb a "header" then Some (Ok (VO (OHeader (bn_header m))))
      else if String.eqb a "sec_trailer" then Some (Ok (vst (bn_sec_trailer m)))
      else if String.eqb a "reject_reason" then Some (Ok (VI (bn_reject_reason m)))
      else if String.eqb a "versions" then Some (Ok (vversions (bn_versions m))) else None
  | VO (OCommand c) => cmd_attr a c
  | VO (OVT cs) =>
      if String.eqb a "signature" then Some (Ok (VB c_VT_signature))
      else if String.eqb a "commands" then Some (Ok (vcommands cs)) else None
  | VO (OFloor f) => floor_attr a f
  | VO (OEptMap m) =>
      if String.eqb a "obj" then Some (Ok (vuuid_opt (em_obj m)))
      else if String.eqb a "tower" then Some (Ok (vfloors (em_tower m)))
      else if String.eqb a "entry_handle" then Some (Ok (vhandle (em_entry_handle m)))
      else if String.eqb a "max_towers" then Some (Ok (VI (em_max_towers m))) else None
  | VO (OEptMapResult m) =>
      if String.eqb a "entry_handle" then Some (Ok (vhandle (er_entry_handle m)))
      else if String.eqb a "towers" then Some (Ok (vtowers (er_towers m)))
      else if String.eqb a "status" then Some (Ok (VI (er_status m))) else None
  | _ => None
  end.

(* object.__setattr__(cmd, "value", value) / (floor, "lhs" | "rhs", ..): the raw caches of Command.unpack / Floor.unpack *)
Definition rpc_setattr (a : string) (o v : V) : option (res V) :=
  match o, v with
  | VO (OCommand c), VB b =>
      if String.eqb a "value"
      then Some (Ok (VO (OCommand {| cmd_kind_of := cmd_kind_of c; cmd_command := cmd_command c; cmd_flags := cmd_flags c; cmd_value := b |})))
      else None
  | VO (OFloor f), VB b =>
      if String.eqb a "lhs"
      then Some (Ok (VO (OFloor {| fl_kind := fl_kind f; fl_protocol := fl_protocol f; fl_lhs := b; fl_rhs := fl_rhs f |})))
      else if String.eqb a "rhs"
      then Some (Ok (VO (OFloor {| fl_kind := fl_kind f; fl_protocol := fl_protocol f; fl_lhs := fl_lhs f; fl_rhs := b |})))
      else None
  | _, _ => None
  end.

(* ---- field ranges: every z.to_bytes(w, ..) reached from X.pack, in evaluation order ------------------------ *)
Definition ovf (b : bool) (x : bytes) : res bytes := if b then Ok x else Raise OverflowError.

Definition data_rep_ranges (d : data_rep) : bool :=
  in_range 1 (k_datarep_first_octet (dr_byte_order d) (dr_character d)) && in_range 1 (dr_floating_point d).
Definition pdu_header_ranges (h : pdu_header) : bool :=
  in_range 1 (h_version h) && in_range 1 (h_version_minor h) && in_range 1 (h_packet_type h) && in_range 1 (h_packet_flags h)
  && data_rep_ranges (h_data_rep h) && in_range 2 (h_frag_len h) && in_range 2 (h_auth_len h) && in_range 4 (h_call_id h).
Definition sec_trailer_ranges (s : sec_trailer) : bool :=
  in_range 1 (st_type s) && in_range 1 (st_level s) && in_range 1 (st_pad_length s) && in_range 4 (st_context_id s).
(* `self.sec_trailer.pack() if self.sec_trailer else b""` *)
Definition opt_sec_trailer_ranges (s : option sec_trailer) : bool :=
  match s with Some t => sec_trailer_ranges t | None => true end.
Definition syntax_id_ranges (s : syntax_id) : bool := in_range 2 (sy_version s) && in_range 2 (sy_version_minor s).
Definition context_element_ranges (c : context_element) : bool :=
  in_range 2 (ce_context_id c) && in_range 2 (len (ce_transfer_syntaxes c)) && syntax_id_ranges (ce_abstract_syntax c)
  && forallb syntax_id_ranges (ce_transfer_syntaxes c).
Definition context_result_ranges (r : context_result) : bool :=
  in_range 2 (cr_result r) && in_range 2 (cr_reason r) && in_range 4 (cr_syntax_version r).

(* Command.pack on (command, flags, value); a known class first packs its typed fields into `value` *)
Definition command_generic_ranges (command flags : Z) (value : bytes) : bool :=
  in_range 2 (Z.lor command flags) && in_range 2 (len value).
Definition cmd_kind_ranges (k : cmd_kind) : bool :=
  match k with
  | CK_Generic => true
  | CK_Bitmask bits => in_range 4 bits
  | CK_PContext i t => syntax_id_ranges i && syntax_id_ranges t
  | CK_Header2 pt dr call ctx op => in_range 1 pt && data_rep_ranges dr && in_range 4 call && in_range 2 ctx && in_range 2 op
  end.
Definition command_ranges (c : command) : bool :=
  cmd_kind_ranges (cmd_kind_of c) && command_generic_ranges (command_type c) (cmd_flags c) (command_value c).

(* Floor.pack on (protocol, lhs, rhs); a known class first packs its typed fields into lhs / rhs *)
Definition floor_generic_ranges (protocol : Z) (lhs rhs : bytes) : bool :=
  in_range 2 (len lhs + 1) && in_range 1 protocol && in_range 2 (len rhs).
Definition floor_kind_ranges (k : floor_kind) : bool :=
  match k with
  | FK_Generic => true
  | FK_TCP port => in_range 2 port
  | FK_IP addr => in_range 4 addr
  | FK_RPC_CO vm => in_range 2 vm
  | FK_UUID _ v vm => in_range 2 v && in_range 2 vm
  end.
Definition floor_ranges (f : floor) : bool :=
  floor_kind_ranges (fl_kind f) && floor_generic_ranges (floor_protocol f) (floor_lhs f) (floor_rhs f).

(* the messages (their pack is not called from another pack; used in the tie statements) *)
Definition fault_ranges (m : fault) : bool :=
  pdu_header_ranges (f_header m) && in_range 4 (f_alloc_hint m) && in_range 2 (f_context_id m) && in_range 1 (f_cancel_count m)
  && in_range 1 (f_flags m) && in_range 4 (f_status m) && opt_sec_trailer_ranges (f_sec_trailer m).
Definition request_ranges (m : request) : bool :=
  pdu_header_ranges (rq_header m) && in_range 4 (rq_alloc_hint m) && in_range 2 (rq_context_id m) && in_range 2 (rq_opnum m)
  && opt_sec_trailer_ranges (rq_sec_trailer m).
Definition response_ranges (m : response) : bool :=
  pdu_header_ranges (rs_header m) && in_range 4 (rs_alloc_hint m) && in_range 2 (rs_context_id m) && in_range 1 (rs_cancel_count m)
  && opt_sec_trailer_ranges (rs_sec_trailer m).
Definition bind_ranges (m : bind_msg) : bool :=
  pdu_header_ranges (b_header m) && in_range 2 (b_max_xmit_frag m) && in_range 2 (b_max_recv_frag m) && in_range 4 (b_assoc_group m)
  && in_range 4 (len (b_contexts m)) && forallb context_element_ranges (b_contexts m) && opt_sec_trailer_ranges (b_sec_trailer m).
Definition bind_ack_ranges (m : bind_ack) (b_sec_addr : bytes) : bool :=
  forallb context_result_ranges (ba_results m) && pdu_header_ranges (ba_header m)
  && in_range 2 (ba_max_xmit_frag m) && in_range 2 (ba_max_recv_frag m) && in_range 4 (ba_assoc_group m)
  && in_range 2 (len b_sec_addr) && in_range 4 (len (ba_results m)) && opt_sec_trailer_ranges (ba_sec_trailer m).
Definition bind_nak_ranges (m : bind_nak) : bool :=
  forallb (fun v => in_range 1 (fst v) && in_range 1 (snd v)) (bn_versions m) && in_range 1 (len (bn_versions m))
  && pdu_header_ranges (bn_header m) && in_range 2 (bn_reject_reason m).
Definition handle_ranges (h : option (Z * bytes)) : bool := match h with Some (a, _) => in_range 4 a | None => true end.
Definition ept_map_ranges (m : ept_map) : bool :=
  in_range 2 (len (em_tower m)) && forallb floor_ranges (em_tower m) && handle_ranges (em_entry_handle m)
  && in_range 8 (len (tower_bytes (em_tower m))) && in_range 4 (len (tower_bytes (em_tower m))) && in_range 4 (em_max_towers m).
Definition tower_ranges (t : list floor) : bool :=
  in_range 2 (len t) && forallb floor_ranges t && in_range 4 (len (tower_bytes t)).
Definition ept_map_result_ranges (m : ept_map_result) : bool :=
  handle_ranges (er_entry_handle m) && forallb tower_ranges (er_towers m) && in_range 4 (len (er_towers m)) && in_range 4 (er_status m).

(* x.pack() where it is called from another pack: the checked pack of the receiver's class (virtual dispatch on the
   constructor / kind) *)
Definition rpc_pack (o : obj) : option (res bytes) :=
  match o with
  | ODataRep d => Some (ovf (data_rep_ranges d) (data_rep_pack d))
  | OHeader h => Some (ovf (pdu_header_ranges h) (pdu_header_pack h))
  | OSecTrailer s => Some (ovf (sec_trailer_ranges s) (sec_trailer_pack s))
  | OSyntaxId s => Some (ovf (syntax_id_ranges s) (syntax_id_pack s))
  | OContextElement c => Some (ovf (context_element_ranges c) (context_element_pack c))
  | OContextResult r => Some (ovf (context_result_ranges r) (context_result_pack r))
  | OCommand c => Some (ovf (command_ranges c) (command_pack c))
  | OFloor f => Some (ovf (floor_ranges f) (floor_pack f))
  | _ => None
  end.

Section WithFuel.
Context (mfuel : nat).      (* the fuel the model's loops are given *)

Definition lift_fst {A} (inj : A -> obj) (r : res (A * Z)) : res V := let* (x, _) := r in Ok (VO (inj x)).

Definition rpc_call (f : string) (args : list V) : option (res V) :=
  (* ---- enum lookups ---- *)
  if String.eqb f "IntegerRep" then enum_call c_IntegerRep_values args
  else if String.eqb f "CharacterRep" then enum_call c_CharacterRep_values args
  else if String.eqb f "FloatingPointRep" then enum_call c_FloatingPointRep_values args
  else if String.eqb f "PacketType" then enum_call c_PacketType_values args
  else if String.eqb f "SecurityProvider" then enum_call c_SecurityProvider_values args
  else if String.eqb f "AuthenticationLevel" then enum_call c_AuthenticationLevel_values args
  else if String.eqb f "ContextResultCode" then enum_call c_ContextResultCode_values args
  else if String.eqb f "PacketFlags" then flag_call args
  else if String.eqb f "FaultFlags" then flag_call args
  else if String.eqb f "CommandFlags" then flag_call args
  else if String.eqb f "CommandType" then flag_call args
  else if String.eqb f "FloorProtocol" then flag_call args
  (* ---- uuid ---- *)
  else if String.eqb f "uuid.UUID/bytes_le" then
    match args with [VB b] => Some (let* u := uuid_of_bytes_le b in Ok (VO (OUuid u))) | _ => None end
  else if String.eqb f "uuid.UUID/fields" then
    match args with
    | [VT [VI a; VI b; VI c; VI d; VI e; VI n]] => Some (let* u := uuid_of_fields a b c d e n in Ok (VO (OUuid u)))
    | _ => None
    end
  else if String.eqb f "enumerate" then
    match args with [VL l] => Some (Ok (VL (enumerate_from 0 l))) | _ => None end
  (* ---- registries ---- *)
  else if String.eqb f "_COMMAND_TYPE_REGISTRY.get" then
    match args with
    | [VI t; VN] =>
        Some (Ok (if t =? c_CMD_BITMASK_1 then VO (OFn FBitmaskUnpack)
                  else if t =? c_CMD_PCONTEXT then VO (OFn FPContextUnpack)
                  else if t =? c_CMD_HEADER2 then VO (OFn FHeader2Unpack) else VN))
    | _ => None
    end
  else if String.eqb f "_FLOOR_TYPE_REGISTRY.get" then
    match args with
    | [VI p; VN] =>
        Some (Ok (if p =? c_FLOOR_TCP then VO (OFn FTCPUnpack)
                  else if p =? c_FLOOR_IP then VO (OFn FIPUnpack)
                  else if p =? c_FLOOR_RPC_CO then VO (OFn FRPCCOUnpack)
                  else if p =? c_FLOOR_UUID then VO (OFn FUUIDUnpack) else VN))
    | _ => None
    end
  (* ---- calling a local: a registry entry, or `cls` positionally ---- *)
  else if String.eqb f "()" then
    match args with
    | [VO (OFn fn); VI flags; VB value] =>
        match cmd_kind_unpack fn value with
        | Some r => Some (let* k := r in Ok (VO (OCommand (known_command k flags))))
        | None => None
        end
    | [VO (OFn fn); VB lhs; VB rhs] =>
        match floor_kind_unpack fn lhs rhs with
        | Some r => Some (let* k := r in Ok (VO (OFloor (known_floor k))))
        | None => None
        end
    | [VO (OCls CCommand); VI t; VI flags; VB value] => Some (Ok (VO (OCommand (generic_command t flags value))))
    | _ => None
    end
  (* ---- dataclass constructors: `cls(field=..)` ---- *)
  else if String.eqb f "()/byte_order,character,floating_point" then
    match args with
    | [VO (OCls CDataRep); VI a; VI b; VI c] =>
        Some (Ok (VO (ODataRep {| dr_byte_order := a; dr_character := b; dr_floating_point := c |})))
    | _ => None
    end
  else if String.eqb f "()/version,version_minor,packet_type,packet_flags,data_rep,frag_len,auth_len,call_id" then
    match args with
    | [VO (OCls CPDUHeader); VI v; VI vm; VI pt; VI pf; VO (ODataRep d); VI fl; VI al; VI ci] =>
        Some (Ok (VO (OHeader {| h_version := v; h_version_minor := vm; h_packet_type := pt; h_packet_flags := pf;
                                 h_data_rep := d; h_frag_len := fl; h_auth_len := al; h_call_id := ci |})))
    | _ => None
    end
  else if String.eqb f "()/type,level,pad_length,context_id,auth_value" then
    match args with
    | [VO (OCls CSecTrailer); VI t; VI l; VI p; VI c; VB a] =>
        Some (Ok (VO (OSecTrailer {| st_type := t; st_level := l; st_pad_length := p; st_context_id := c; st_auth_value := a |})))
    | _ => None
    end
  else if String.eqb f "()/header,sec_trailer,alloc_hint,context_id,cancel_count,flags,status,stub_data" then
    match args with
    | [VO (OCls CFault); VO (OHeader h); s; VI ah; VI ci; VI cc; VI fl; VI stt; VB sd] =>
        match st_of s with
        | Some s' => Some (Ok (VO (OFault {| f_header := h; f_sec_trailer := s'; f_alloc_hint := ah; f_context_id := ci;
                                             f_cancel_count := cc; f_status := stt; f_flags := fl; f_stub_data := sd |})))
        | None => None
        end
    | _ => None
    end
  else if String.eqb f "()/header,sec_trailer,alloc_hint,context_id,opnum,obj,stub_data" then
    match args with
    | [VO (OCls CRequest); VO (OHeader h); s; VI ah; VI ci; VI op; ob; VB sd] =>
        match st_of s, uuid_opt_of ob with
        | Some s', Some ob' =>
            Some (Ok (VO (ORequest {| rq_header := h; rq_sec_trailer := s'; rq_alloc_hint := ah; rq_context_id := ci;
                                      rq_opnum := op; rq_obj := ob'; rq_stub_data := sd |})))
        | _, _ => None
        end
    | _ => None
    end
  else if String.eqb f "()/header,sec_trailer,alloc_hint,context_id,cancel_count,stub_data" then
    match args with
    | [VO (OCls CResponse); VO (OHeader h); s; VI ah; VI ci; VI cc; VB sd] =>
        match st_of s with
        | Some s' => Some (Ok (VO (OResponse {| rs_header := h; rs_sec_trailer := s'; rs_alloc_hint := ah; rs_context_id := ci;
                                                rs_cancel_count := cc; rs_stub_data := sd |})))
        | None => None
        end
    | _ => None
    end
  else if String.eqb f "()/uuid,version,version_minor" then
    match args with
    | [VO (OCls CSyntaxId); VO (OUuid u); VI v; VI vm] =>
        Some (Ok (VO (OSyntaxId {| sy_uuid := u; sy_version := v; sy_version_minor := vm |})))
    | _ => None
    end
  else if String.eqb f "SyntaxId/uuid,version,version_minor" then
    match args with
    | [VO (OUuid u); VI v; VI vm] => Some (Ok (VO (OSyntaxId {| sy_uuid := u; sy_version := v; sy_version_minor := vm |})))
    | _ => None
    end
  else if String.eqb f "()/context_id,abstract_syntax,transfer_syntaxes" then
    match args with
    | [VO (OCls CContextElement); VI ci; VO (OSyntaxId a); VL l] =>
        match syntaxes_of l with
        | Some ts => Some (Ok (VO (OContextElement {| ce_context_id := ci; ce_abstract_syntax := a; ce_transfer_syntaxes := ts |})))
        | None => None
        end
    | _ => None
    end
  else if String.eqb f "()/result,reason,syntax,syntax_version" then
    match args with
    | [VO (OCls CContextResult); VI r; VI rs; VO (OUuid u); VI sv] =>
        Some (Ok (VO (OContextResult {| cr_result := r; cr_reason := rs; cr_syntax := u; cr_syntax_version := sv |})))
    | _ => None
    end
  else if String.eqb f "()/header,sec_trailer,max_xmit_frag,max_recv_frag,assoc_group,contexts" then
    match args with
    | [VO (OCls c); VO (OHeader h); s; VI mx; VI mr; VI ag; VL l] =>
        match c, st_of s, contexts_of l with
        | (CBind | CAlterContext), Some s', Some cs =>
            Some (Ok (VO (OBind {| b_header := h; b_sec_trailer := s'; b_max_xmit_frag := mx; b_max_recv_frag := mr;
                                   b_assoc_group := ag; b_contexts := cs |})))
        | _, _, _ => None
        end
    | _ => None
    end
  else if String.eqb f "()/header,sec_trailer,max_xmit_frag,max_recv_frag,assoc_group,sec_addr,results" then
    match args with
    | [VO (OCls c); VO (OHeader h); s; VI mx; VI mr; VI ag; VS sa; VL l] =>
        match c, st_of s, results_of l with
        | (CBindAck | CAlterContextResponse), Some s', Some rs =>
            Some (Ok (VO (OBindAck {| ba_header := h; ba_sec_trailer := s'; ba_max_xmit_frag := mx; ba_max_recv_frag := mr;
                                      ba_assoc_group := ag; ba_sec_addr := sa; ba_results := rs |})))
        | _, _, _ => None
        end
    | _ => None
    end
  else if String.eqb f "()/header,sec_trailer,reject_reason,versions" then
    match args with
    | [VO (OCls CBindNak); VO (OHeader h); s; VI rr; VL l] =>
        match st_of s, versions_of l with
        | Some s', Some vs =>
            Some (Ok (VO (OBindNak {| bn_header := h; bn_sec_trailer := s'; bn_reject_reason := rr; bn_versions := vs |})))
        | _, _ => None
        end
    | _ => None
    end
  else if String.eqb f "Command" then
    match args with
    | [VI t; VI flags; VB value] => Some (Ok (VO (OCommand (generic_command t flags value))))
    | _ => None
    end
  else if String.eqb f "()/flags,bits" then
    match args with
    | [VO (OCls CCommandBitmask); VI flags; VI bits] => Some (Ok (VO (OCommand (known_command (CK_Bitmask bits) flags))))
    | _ => None
    end
  else if String.eqb f "()/flags,interface_id,transfer_syntax" then
    match args with
    | [VO (OCls CCommandPContext); VI flags; VO (OSyntaxId i); VO (OSyntaxId t)] =>
        Some (Ok (VO (OCommand (known_command (CK_PContext i t) flags))))
    | _ => None
    end
  else if String.eqb f "()/flags,packet_type,data_rep,call_id,context_id,opnum" then
    match args with
    | [VO (OCls CCommandHeader2); VI flags; VI pt; VO (ODataRep d); VI call; VI ctx; VI op] =>
        Some (Ok (VO (OCommand (known_command (CK_Header2 pt d call ctx op) flags))))
    | _ => None
    end
  else if String.eqb f "()/commands" then
    match args with
    | [VO (OCls CVerificationTrailer); VL l] =>
        match commands_of l with Some cs => Some (Ok (VO (OVT cs))) | None => None end
    | _ => None
    end
  else if String.eqb f "Floor" || String.eqb f "Floor/protocol,lhs,rhs" then
    match args with
    | [VI p; VB lhs; VB rhs] => Some (Ok (VO (OFloor (generic_floor p lhs rhs))))
    | _ => None
    end
  else if String.eqb f "()/protocol,lhs,rhs" then
    match args with
    | [VO (OCls CFloor); VI p; VB lhs; VB rhs] => Some (Ok (VO (OFloor (generic_floor p lhs rhs))))
    | _ => None
    end
  else if String.eqb f "TCPFloor" then
    match args with [VI port] => Some (Ok (VO (OFloor (known_floor (FK_TCP port))))) | _ => None end
  else if String.eqb f "IPFloor" then
    match args with [VI addr] => Some (Ok (VO (OFloor (known_floor (FK_IP addr))))) | _ => None end
  else if String.eqb f "RPCConnectionOrientedFloor" then
    match args with [VI vm] => Some (Ok (VO (OFloor (known_floor (FK_RPC_CO vm))))) | _ => None end
  else if String.eqb f "UUIDFloor" then
    match args with
    | [VO (OUuid u); VI v; VI vm] => Some (Ok (VO (OFloor (known_floor (FK_UUID u v vm)))))
    | _ => None
    end
  else if String.eqb f "()/obj,tower,entry_handle,max_towers" then
    match args with
    | [VO (OCls CEptMap); ob; VL l; eh; VI mt] =>
        match uuid_opt_of ob, floors_of l, handle_of eh with
        | Some ob', Some fs, Some eh' =>
            Some (Ok (VO (OEptMap {| em_obj := ob'; em_tower := fs; em_entry_handle := eh'; em_max_towers := mt |})))
        | _, _, _ => None
        end
    | _ => None
    end
  else if String.eqb f "()/entry_handle,towers,status" then
    match args with
    | [VO (OCls CEptMapResult); eh; VL l; VI stt] =>
        match handle_of eh, towers_of l with
        | Some eh', Some ts =>
            Some (Ok (VO (OEptMapResult {| er_entry_handle := eh'; er_towers := ts; er_status := stt |})))
        | _, _ => None
        end
    | _ => None
    end
  (* ---- other library functions := the model functions ---- *)
  else if String.eqb f "DataRep.unpack" then
    match args with [VB b] => Some (let* d := data_rep_unpack b in Ok (VO (ODataRep d))) | _ => None end
  else if String.eqb f "SyntaxId.unpack" then
    match args with [VB b] => Some (let* s := syntax_id_unpack b in Ok (VO (OSyntaxId s))) | _ => None end
  else if String.eqb f "ContextElement.unpack" then
    match args with [VB b] => Some (lift_fst OContextElement (context_element_unpack mfuel b)) | _ => None end
  else if String.eqb f "ContextResult.unpack" then
    match args with [VB b] => Some (let* r := context_result_unpack b in Ok (VO (OContextResult r))) | _ => None end
  else if String.eqb f "Bind._unpack.__func__" then
    match args with
    | [VO (OCls (CBind | CAlterContext)); VB b; VO (OHeader h); s] =>
        match st_of s with Some s' => Some (lift_fst OBind (bind_unpack mfuel b h s')) | None => None end
    | _ => None
    end
  else if String.eqb f "BindAck._unpack.__func__" then
    match args with
    | [VO (OCls (CBindAck | CAlterContextResponse)); VB b; VO (OHeader h); s] =>
        match st_of s with Some s' => Some (lift_fst OBindAck (bind_ack_unpack mfuel b h s')) | None => None end
    | _ => None
    end
  else if String.eqb f "Command.unpack" then
    match args with [VB b] => Some (let* c := command_unpack b in Ok (VO (OCommand c))) | _ => None end
  else if String.eqb f "Floor.unpack" then
    match args with [VB b] => Some (let* fl := floor_unpack b in Ok (VO (OFloor fl))) | _ => None end
  else None.

Definition rpc_ext : ext obj :=
  {| x_glob := fun x =>
       if String.eqb x "PacketFlags.PFC_OBJECT_UUID" then Some (Ok (VI c_PFC_OBJECT_UUID))
       else if String.eqb x "CommandFlags.SEC_VT_COMMAND_END" then Some (Ok (VI c_SEC_VT_COMMAND_END))
       else None;
     x_attr := rpc_attr;
     x_setattr := rpc_setattr;
     x_call := rpc_call;
     x_meth := fun m r args =>
       if String.eqb m "pack" then
         match r, args with
         | VO o, [] => match rpc_pack o with Some b => Some (let* x := b in Ok (VB x, r)) | None => None end
         | _, _ => None
         end
       else None;
     x_truthy := fun _ => Ok true;       (* classes, functions, dataclass instances and UUIDs are truthy *)
     x_eqb := fun _ _ => None;
     x_iter := fun _ => Raise TypeError;
     x_enter := fun v => Ok v;
     x_exit := fun _ o => Ok o;
     x_exc := fun _ => None |}.

Definition W : world V := std_world rpc_ext.

End WithFuel.
