(* What the names, attributes, calls and methods used by the bind / authentication handshake of _rpc/_client.py
   (_create_bind, _create_alter_context, _process_bind_ack, SyncRpcClient.bind / AsyncRpcClient.bind) and by
   _client._process_bind_result MEAN, at the abstraction of Model/Handshake.v (the model the C15 theorems are about):
     a ContextElement is its context_id, a ContextResult its result code, a BindAck / AlterContextResponse the triple
     (result codes, packet_flags, auth_value of the security trailer if any)  [Handshake.reply],
     a Bind / AlterContext PDU is (flags before FIRST|LAST are or-ed in, token, context ids)  [Handshake.sent],
     a SecTrailer is its auth_value, the RpcClient `self` is Handshake.st plus the provider's script of legs.
   Definitions only; the tie theorems are in Proofs/Flow_client_hs.v. *)
From V Require Import Prelude.Base Prelude.PySlice Prelude.PyAst Prelude.PyWorld.
From V Require Import gen.K_client gen.C_client gen.C_rpc Model.Handshake.
Local Open Scope string_scope.
Local Open Scope list_scope.
Local Open Scope Z_scope.

(* RpcClient: _auth present?, the legs the provider still has, provider.complete, and the run state of Handshake.v *)
Record conn := { cn_auth : bool; cn_legs : list leg; cn_complete : bool; cn_st : st }.
Definition set_steps (s : st) (l : list (option bytes)) : st :=
  {| trace := trace s; steps := l; sign := sign s; server := server s |}.
Definition with_st (c : conn) (s : st) : conn :=
  {| cn_auth := cn_auth c; cn_legs := cn_legs c; cn_complete := cn_complete c; cn_st := s |}.

Inductive obj :=
| OCtx (id : Z)                                   (* ContextElement *)
| OResult (r : Z)                                 (* ContextResult *)
| OAck (alter : bool) (results : list Z) (flags : Z) (tok : option bytes)   (* BindAck (false) / AlterContextResponse (true) *)
| OAckHdr (flags : Z)                             (* ack.header *)
| OTrailer (tok : bytes)                          (* SecTrailer *)
| OHdr (packet_type flags : Z)                    (* PDUHeader built by _create_pdu_header: what Handshake.sent keeps of it *)
| OSent (p : sent)                                (* Bind / AlterContext *)
| OClass (e : expect)                             (* the classes BindAck / AlterContextResponse handed to _send_pdu *)
| OAuth (legs : list leg) (complete : bool) (calls : list (option bytes))
                                                  (* self._auth, the view of the client's state that IS the provider: the legs it still has,
                                                     ctx.complete, and the arguments its step() received so far (Handshake.st's `steps`) *)
| OStep                                           (* the bound method self._auth.step *)
| OSelf (c : conn).

Definition ctxv (i : Z) : pv obj := VO (OCtx i).
Definition resv (r : Z) : pv obj := VO (OResult r).
Definition tokv (t : option bytes) : pv obj := match t with Some b => VB b | None => VN end.
Definition trailerv (t : option bytes) : pv obj := match t with Some b => VO (OTrailer b) | None => VN end.

Fixpoint ids_of (l : list (pv obj)) : option (list Z) :=
  match l with
  | [] => Some []
  | VO (OCtx i) :: r => match ids_of r with Some t => Some (i :: t) | None => None end
  | _ => None
  end.

(* enumerate(l): builtin missing from Prelude/PyWorld.v *)
Fixpoint enum_from (i : Z) (l : list (pv obj)) : list (pv obj) :=
  match l with [] => [] | x :: r => VT [VI i; x] :: enum_from (i + 1) r end.

(* ---- the model's steps, as functions of the client state ---- *)
(* _create_bind: inline in Handshake.bind_run *)
Definition create_bind_hs (ids : list Z) (tok : option bytes) (s : st) : sent * st :=
  match tok with
  | Some t => (SBind (Z.lor c_PFC_NONE c_PFC_SUPPORT_HEADER_SIGN) (Some t) ids, set_sign s true)
  | None => (SBind c_PFC_NONE None ids, s)
  end.
(* _create_alter_context: inline in Handshake.alter_loop *)
Definition create_alter_hs (ids : list Z) (t : bytes) (s : st) : sent :=
  SAlter (k_alter_flags (sign s) c_PFC_SUPPORT_HEADER_SIGN c_PFC_NONE) t ids.
(* provider.step(a): the next leg of the script (KeyError when the script is exhausted, as in Handshake.v) *)
Definition step_hs (c : conn) (a : option bytes) : res (pv obj * pv obj) :=
  match cn_legs c with
  | [] => Raise KeyError
  | l :: ls => Ok (VO (OTrailer (leg_token l)),
                   VO (OSelf {| cn_auth := cn_auth c; cn_legs := ls; cn_complete := leg_complete l;
                                cn_st := snoc_step (cn_st c) a |}))
  end.
(* AuthenticationProvider.step(a) on the provider itself (SyncRpcClient.bind calls it directly) *)
Definition auth_step (legs : list leg) (calls : list (option bytes)) (a : option bytes) : res (pv obj * pv obj) :=
  match legs with
  | [] => Raise KeyError
  | l :: ls => Ok (VO (OTrailer (leg_token l)), VO (OAuth ls (leg_complete l) (calls ++ [a])))
  end.
Definition expect_is_alter (e : expect) : bool := match e with EAlterResp => true | EBindAck => false end.

Definition hs_ext : ext obj :=
  {| x_glob := fun x =>
       if String.eqb x "ContextResultCode.ACCEPTANCE" then Some (Ok (VI c_ACCEPTANCE))
       else if String.eqb x "PacketFlags.NONE" then Some (Ok (VI c_PFC_NONE))
       else if String.eqb x "PacketFlags.PFC_SUPPORT_HEADER_SIGN" then Some (Ok (VI c_PFC_SUPPORT_HEADER_SIGN))
       else if String.eqb x "PacketType.BIND" then Some (Ok (VI c_PT_BIND))
       else if String.eqb x "PacketType.ALTER_CONTEXT" then Some (Ok (VI c_PT_ALTER_CONTEXT))
       else if String.eqb x "BindAck" then Some (Ok (VO (OClass EBindAck)))
       else if String.eqb x "AlterContextResponse" then Some (Ok (VO (OClass EAlterResp)))
       else None;
     x_attr := fun a v =>
       match v with
       | VO (OCtx i) => if String.eqb a "context_id" then Some (Ok (VI i)) else None
       | VO (OResult r) => if String.eqb a "result" then Some (Ok (VI r)) else None
       | VO (OAck _ rs fl tk) =>
         if String.eqb a "results" then Some (Ok (VL (map resv rs)))
         else if String.eqb a "header" then Some (Ok (VO (OAckHdr fl)))
         else if String.eqb a "sec_trailer" then Some (Ok (trailerv tk))
         else None
       | VO (OAckHdr fl) => if String.eqb a "packet_flags" then Some (Ok (VI fl)) else None
       | VO (OTrailer t) => if String.eqb a "auth_value" then Some (Ok (VB t)) else None
       | VO (OAuth _ cpl _) =>
         if String.eqb a "complete" then Some (Ok (vb cpl))
         else if String.eqb a "step" then Some (Ok (VO OStep))
         else None
       | VO (OSelf c) =>
         if String.eqb a "_auth" then Some (Ok (if cn_auth c then VO (OAuth (cn_legs c) (cn_complete c) (steps (cn_st c))) else VN))
         else if String.eqb a "_sign_header" then Some (Ok (vb (sign (cn_st c))))
         else None
       | _ => None
       end;
     x_setattr := fun a o v =>
       match o, v with
       | VO (OSelf c), VI b =>
         if String.eqb a "_sign_header" then Some (Ok (VO (OSelf (with_st c (set_sign (cn_st c) (negb (b =? 0)))))))
         else None
       | VO (OSelf c), VO (OAuth legs cpl calls) =>
         (* the provider after one of its methods ran (written back by the interpreter): its legs, completion and call log *)
         if String.eqb a "_auth" then
           Some (Ok (VO (OSelf {| cn_auth := cn_auth c; cn_legs := legs; cn_complete := cpl; cn_st := set_steps (cn_st c) calls |})))
         else None
       | _, _ => None
       end;
     x_call := fun f args =>
       if String.eqb f "enumerate" then
         match args with [VL l] => Some (Ok (VL (enum_from 0 l))) | _ => None end
       else if String.eqb f "Bind/header,sec_trailer,max_xmit_frag,max_recv_frag,assoc_group,contexts" then
         match args with
         | [VO (OHdr pt fl); VO (OTrailer t); VI _; VI _; VI _; VL cs] =>
           match ids_of cs with
           | Some ids => if pt =? c_PT_BIND then Some (Ok (VO (OSent (SBind fl (Some t) ids)))) else None
           | None => None
           end
         | [VO (OHdr pt fl); VN; VI _; VI _; VI _; VL cs] =>
           match ids_of cs with
           | Some ids => if pt =? c_PT_BIND then Some (Ok (VO (OSent (SBind fl None ids)))) else None
           | None => None
           end
         | _ => None
         end
       else if String.eqb f "AlterContext/header,sec_trailer,max_xmit_frag,max_recv_frag,assoc_group,contexts" then
         match args with
         | [VO (OHdr pt fl); VO (OTrailer t); VI _; VI _; VI _; VL cs] =>
           match ids_of cs with
           | Some ids => if pt =? c_PT_ALTER_CONTEXT then Some (Ok (VO (OSent (SAlter fl t ids)))) else None
           | None => None
           end
         | _ => None
         end
       else None;
     x_meth := fun m r args =>
       match r with
       | VO (OSelf c) =>
         if String.eqb m "_create_pdu_header/flags" then
           match args with [VI pt; VI _; VI _; VI fl] => Some (Ok (VO (OHdr pt fl), r)) | _ => None end
         else if String.eqb m "_wrap_sync" then
           (* await self._wrap_sync(self._auth.step, *args): the provider's step, run in an executor *)
           match args with
           | [VO OStep] => Some (step_hs c None)
           | [VO OStep; VB t] => Some (step_hs c (Some t))
           | _ => None
           end
         else if String.eqb m "_create_bind" then
           match args with
           | [VL cs; tr] =>
             match ids_of cs, tr with
             | Some ids, VO (OTrailer t) =>
               let '(p, s') := create_bind_hs ids (Some t) (cn_st c) in Some (Ok (VO (OSent p), VO (OSelf (with_st c s'))))
             | Some ids, VN =>
               let '(p, s') := create_bind_hs ids None (cn_st c) in Some (Ok (VO (OSent p), VO (OSelf (with_st c s'))))
             | _, _ => None
             end
           | _ => None
           end
         else if String.eqb m "_create_alter_context" then
           match args with
           | [VL cs; VO (OTrailer t)] =>
             match ids_of cs with
             | Some ids => Some (Ok (VO (OSent (create_alter_hs ids t (cn_st c))), r))
             | None => None
             end
           | _ => None
           end
         else if String.eqb m "_send_pdu" then
           match args with
           | [VO (OSent p); VO (OClass e)] =>
             Some (match send_pdu p e (cn_st c) with
                   | (Ok (rs, fl, tk), s') => Ok (VO (OAck (expect_is_alter e) rs fl tk), VO (OSelf (with_st c s')))
                   | (Raise er, _) => Raise er
                   end)
           | _ => None
           end
         else if String.eqb m "_process_bind_ack" then
           match args with
           | [VO (OAck _ rs fl tk); VL cs] =>
             match ids_of cs with
             | Some ids =>
               Some (match process_bind_ack rs fl tk ids (cn_st c) with
                     | (Ok (acc, tk'), s') => Ok (VT [VL (map ctxv acc); tokv tk'], VO (OSelf (with_st c s')))
                     | (Raise er, _) => Raise er
                     end)
             | None => None
             end
           | _ => None
           end
         else None
       | VO (OAuth legs _ calls) =>
         if String.eqb m "step" then
           match args with
           | [] => Some (auth_step legs calls None)
           | [VB t] => Some (auth_step legs calls (Some t))
           | _ => None
           end
         else None
       | _ => None
       end;
     x_truthy := fun _ => Ok true;            (* dataclass instances / class objects: no __bool__, no __len__ *)
     x_eqb := fun _ _ => None;
     x_iter := fun _ => Raise TypeError;
     x_enter := fun v => Ok v;
     x_exit := fun _ o => Ok o;
     x_exc := fun _ => None |}.

Definition WH : world (pv obj) := std_world hs_ext.
