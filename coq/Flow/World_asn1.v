(* What the names, attributes, calls and methods used inside _asn1.py MEAN, in terms of the model Model/Asn1.v: the world
   the regenerated syntax gen/F_asn1.v (part "der") is run in.  Definitions only; tie theorems in Proofs/Flow_asn1_*.v.

   Object conventions (reusable by the CMS layer):
   - TagClass / TypeTagNumber members are ints (IntEnum): VI.  bool is int (VI 0 / VI 1).
   - an ASN1Tag is `VO (OTag t)` (== is tag_eqb); an ASN1Header (NamedTuple, unpacked by `a, b, c = header`) is the tuple
     `VT [VO (OTag t); VI tag_length; VI length]` (inj_header) with the field names tag / tag_length / length;
   - an ASN1Reader is the remaining octets `VO (OReader view)` (`_view`; `_data` is only read inside __init__, where the
     object passes through `OReader0 data`);
   - an ASN1Writer is `VO (OWriter (Writer data tag parent))`: accumulated octets, the tag of a pushed child, and the parent
     AS IT WAS when the child was pushed (a value, not a reference: aliasing is not modelled; `with` gives the finished
     child back to the owner the push method was called on, see writer_exit);
   - a dotted-decimal str (an OID) is its list of arcs `VO (OOid arcs)`, "" being [] (the model's own convention, Model/Asn1.v
     encode_oid / read_oid_content); `.split(".")`, `map(int, ..)`, `str(i)`, `".".join(..)` move between that and `VL [VI ..]`.
   Primitives outside the library: struct.unpack("B", b) (one octet, else StructError), enum lookup TagClass(n) /
   TypeTagNumber(n) (ValueError for a non-member), f-strings over str parts, bytes.replace(one octet, b""), range with step -1. *)
From V Require Import Prelude.PyAst.
From V Require Import Prelude.Base Prelude.PyInt Prelude.PySlice Prelude.PyStr Prelude.PyWorld Prelude.PyAstMut gen.K_asn1 gen.C_asn1.
From V Require Import Model.Asn1.
Local Open Scope string_scope.
Local Open Scope list_scope.
Local Open Scope Z_scope.

(* ---- the writer as a value ---- *)
Inductive writer := Writer (data : bytes) (tag : option tag) (parent : option writer).
Definition wr_data (w : writer) : bytes := match w with Writer d _ _ => d end.
Definition wr_tag (w : writer) : option tag := match w with Writer _ t _ => t end.
Definition wr_parent (w : writer) : option writer := match w with Writer _ _ p => p end.
Definition wr_extend (w : writer) (b : bytes) : writer := match w with Writer d t p => Writer (d ++ b) t p end.
Definition writer_root : writer := Writer [] None None.
(* push_sequence / push_set / ASN1Writer(tag=t, parent=self) *)
Definition writer_push (t : tag) (self : writer) : writer := Writer [] (Some t) (Some self).
(* self.write_X(v): self._data.extend(<packed>) *)
Definition writer_write (packed : res bytes) (self : writer) : res writer := let* b := packed in Ok (wr_extend self b).
(* __exit__ of a child as seen by the owner it was pushed from (the child's _parent IS that owner) *)
Definition writer_exit (child owner : writer) : res writer :=
  match wr_tag child, wr_parent child with
  | Some t, Some _ => let* d := pack_tlv t (wr_data child) in Ok (wr_extend owner d)
  | _, _ => Ok owner
  end.
Definition writer_get_data (self : writer) : res bytes :=
  match wr_parent self, wr_tag self with None, None => Ok (wr_data self) | _, _ => Raise TypeError end.

(* ---- module-level readers of _asn1.py: (value, octets consumed); the model's reader methods are these + advance ---- *)
Definition m_read_boolean (view : bytes) (t : option tag) (h : option header) : res (bool * Z) :=
  let* (raw, consumed) := validate_tag view t (universal_tag c_tag_boolean false) h in
  Ok (existsb (fun x => negb (x =? 0)) raw, consumed).
Definition m_read_integer (view : bytes) (t : option tag) (h : option header) : res (Z * Z) :=
  let* (raw, consumed) := validate_tag view t (universal_tag c_tag_integer false) h in
  let* v := read_int_content raw in Ok (v, consumed).
Definition m_read_enumerated (view : bytes) (t : option tag) (h : option header) : res (Z * Z) :=
  let t' := match t with
            | Some x => x
            | None => match h with Some h' => h_tag h' | None => universal_tag c_tag_enumerated false end
            end in
  m_read_integer view (Some t') h.
Definition m_read_object_identifier (view : bytes) (t : option tag) (h : option header) : res (list Z * Z) :=
  let* (raw, consumed) := validate_tag view t (universal_tag c_tag_oid false) h in
  let* v := read_oid_content raw in Ok (v, consumed).
Definition m_read_str (ty : Z) (view : bytes) (t : option tag) (h : option header) : res (list Z * Z) :=
  let* (raw, consumed) := validate_tag view t (universal_tag ty false) h in
  let* v := utf8_decode raw in Ok (v, consumed).

Inductive obj :=
| OTag (t : tag)                       (* ASN1Tag *)
| OReader (view : bytes)               (* ASN1Reader *)
| ONewReader                           (* object.__new__(ASN1Reader): no attribute yet *)
| OReader0 (data : bytes)              (* inside ASN1Reader.__init__: _data assigned, _view not yet *)
| OWriter (w : writer)                 (* ASN1Writer *)
| ONewWriter                           (* object.__new__(ASN1Writer) *)
| OWriter0 (data : bytes)              (* inside ASN1Writer.__init__: _data assigned *)
| OWriter1 (data : bytes) (t : option tag)   (* .. _data and _tag assigned *)
| OOid (arcs : list Z)                 (* a dotted-decimal str; "" = [] *)
| ODecs (arcs : list Z)                (* oid.split("."): the decimal numerals *)
| OMapInt (arcs : list Z)              (* map(int, <numerals>): lazy, int("") raises when the list is built *)
| ODec (z : Z)                         (* str(z) *)
| OIntType                             (* the builtin `int` passed to map *)
| OEnum (members : list Z).            (* an enum.IntEnum class: its member values *)

Definition vopt_tag (t : option tag) : pv obj := match t with Some x => VO (OTag x) | None => VN end.
Definition inj_header (h : header) : pv obj := VT [VO (OTag (h_tag h)); VI (h_tlen h); VI (h_len h)].
Definition vopt_header (h : option header) : pv obj := match h with Some x => inj_header x | None => VN end.
Definition vopt_str (s : option (list Z)) : pv obj := match s with Some x => VS x | None => VN end.
Definition vopt_writer (w : option writer) : pv obj := match w with Some x => VO (OWriter x) | None => VN end.

Definition tag_of (v : pv obj) : option (option tag) :=
  match v with VO (OTag t) => Some (Some t) | VN => Some None | _ => None end.
Definition header_of (v : pv obj) : option (option header) :=
  match v with
  | VT [VO (OTag t); VI tl; VI l] => Some (Some (mk_header t tl l))
  | VN => Some None
  | _ => None
  end.
Definition hint_of (v : pv obj) : option unit :=
  match v with VS _ | VN => Some tt | _ => None end.
Definition writer_of (v : pv obj) : option (option writer) :=
  match v with VO (OWriter w) => Some (Some w) | VN => Some None | _ => None end.
(* a bool argument: VI 0 / VI 1 *)
Definition bool_of (v : pv obj) : option bool :=
  match v with VI z => if z =? 0 then Some false else if z =? 1 then Some true else None | _ => None end.

Fixpoint all_str (l : list (pv obj)) : option (list Z) :=
  match l with
  | [] => Some []
  | VS s :: r => match all_str r with Some t => Some (s ++ t) | None => None end
  | _ => None
  end.
Fixpoint all_int (l : list (pv obj)) : option (list Z) :=
  match l with
  | [] => Some []
  | VI z :: r => match all_int r with Some t => Some (z :: t) | None => None end
  | _ => None
  end.
Fixpoint all_dec (l : list (pv obj)) : option (list Z) :=
  match l with
  | [] => Some []
  | VO (ODec z) :: r => match all_dec r with Some t => Some (z :: t) | None => None end
  | _ => None
  end.
(* range(a, b, -1) *)
Fixpoint zrange_down (n : nat) (hi : Z) : list (pv obj) :=
  match n with 0%nat => [] | S n' => VI hi :: zrange_down n' (hi - 1) end.

(* the callees `_read_asn1_X(view, tag=, header=, hint=)` and `_validate_tag(data, tag, type_tag, header=, hint=)`:
   optional tag / header / hint decoded, the hint (used for the message text only) dropped *)
Definition with_opts {A} (t h hint : pv obj) (k : option tag -> option header -> res A) (inj : A -> pv obj)
  : option (res (pv obj)) :=
  match tag_of t, header_of h, hint_of hint with
  | Some t', Some h', Some _ => Some (let* r := k t' h' in Ok (inj r))
  | _, _, _ => None
  end.
Definition inj_raw (r : bytes * Z) : pv obj := VT [VB (fst r); VI (snd r)].
Definition inj_bool (r : bool * Z) : pv obj := VT [vb (fst r); VI (snd r)].
Definition inj_int (r : Z * Z) : pv obj := VT [VI (fst r); VI (snd r)].
Definition inj_oid (r : list Z * Z) : pv obj := VT [VO (OOid (fst r)); VI (snd r)].
Definition inj_str (r : list Z * Z) : pv obj := VT [VS (fst r); VI (snd r)].
Definition lift_b (r : res bytes) : res (pv obj) := let* b := r in Ok (VB b).

(* `_pack_asn1_X(value, tag=tag)` *)
Definition with_tag (t : pv obj) (k : option tag -> res bytes) : option (res (pv obj)) :=
  match tag_of t with Some t' => Some (lift_b (k t')) | None => None end.

Definition asn1_glob (x : string) : option (res (pv obj)) :=
  if String.eqb x "TagClass.UNIVERSAL" then Some (Ok (VI c_class_universal))
  else if String.eqb x "TagClass.CONTEXT_SPECIFIC" then Some (Ok (VI c_class_context))
  else if String.eqb x "TypeTagNumber.BOOLEAN" then Some (Ok (VI c_tag_boolean))
  else if String.eqb x "TypeTagNumber.INTEGER" then Some (Ok (VI c_tag_integer))
  else if String.eqb x "TypeTagNumber.OCTET_STRING" then Some (Ok (VI c_tag_octet_string))
  else if String.eqb x "TypeTagNumber.OBJECT_IDENTIFIER" then Some (Ok (VI c_tag_oid))
  else if String.eqb x "TypeTagNumber.ENUMERATED" then Some (Ok (VI c_tag_enumerated))
  else if String.eqb x "TypeTagNumber.UTF8_STRING" then Some (Ok (VI c_tag_utf8))
  else if String.eqb x "TypeTagNumber.SEQUENCE" then Some (Ok (VI c_tag_sequence))
  else if String.eqb x "TypeTagNumber.SET" then Some (Ok (VI c_tag_set))
  else if String.eqb x "TypeTagNumber.GENERALIZED_TIME" then Some (Ok (VI c_tag_gentime))
  else if String.eqb x "int" then Some (Ok (VO OIntType))
  else None.

Definition asn1_attr (a : string) (v : pv obj) : option (res (pv obj)) :=
  match v with
  | VO (OTag t) =>
    if String.eqb a "tag_class" then Some (Ok (VI (t_class t)))
    else if String.eqb a "tag_number" then Some (Ok (VI (t_num t)))
    else if String.eqb a "is_constructed" then Some (Ok (vb (t_cons t)))
    else None
  | VT [VO (OTag t); VI tl; VI l] =>                (* ASN1Header *)
    if String.eqb a "tag" then Some (Ok (VO (OTag t)))
    else if String.eqb a "tag_length" then Some (Ok (VI tl))
    else if String.eqb a "length" then Some (Ok (VI l))
    else None
  | VO (OReader view) => if String.eqb a "_view" then Some (Ok (VB view)) else None
  | VO (OReader0 d) => if String.eqb a "_data" then Some (Ok (VB d)) else None
  | VO (OWriter w) =>
    if String.eqb a "_data" then Some (Ok (VB (wr_data w)))
    else if String.eqb a "_tag" then Some (Ok (vopt_tag (wr_tag w)))
    else if String.eqb a "_parent" then Some (Ok (vopt_writer (wr_parent w)))
    else None
  | _ => None
  end.

Definition asn1_setattr (a : string) (o v : pv obj) : option (res (pv obj)) :=
  match o with
  | VO ONewReader => if String.eqb a "_data" then match v with VB d => Some (Ok (VO (OReader0 d))) | _ => None end else None
  | VO (OReader0 _) | VO (OReader _) =>
    if String.eqb a "_view" then match v with VB b => Some (Ok (VO (OReader b))) | _ => None end else None
  | VO ONewWriter => if String.eqb a "_data" then match v with VB d => Some (Ok (VO (OWriter0 d))) | _ => None end else None
  | VO (OWriter0 d) =>
    if String.eqb a "_tag" then match tag_of v with Some t => Some (Ok (VO (OWriter1 d t))) | None => None end else None
  | VO (OWriter1 d t) =>
    if String.eqb a "_parent" then match writer_of v with Some p => Some (Ok (VO (OWriter (Writer d t p)))) | None => None end
    else None
  | VO (OWriter (Writer d t p)) =>
    if String.eqb a "_data" then match v with VB d' => Some (Ok (VO (OWriter (Writer d' t p)))) | _ => None end
    else if String.eqb a "_tag" then match tag_of v with Some t' => Some (Ok (VO (OWriter (Writer d t' p)))) | None => None end
    else if String.eqb a "_parent" then match writer_of v with Some p' => Some (Ok (VO (OWriter (Writer d t p')))) | None => None end
    else None
  | _ => None
  end.

Definition mk_tag_of (c n b : pv obj) : option (res (pv obj)) :=
  match c, n, bool_of b with
  | VI c', VI n', Some b' => Some (Ok (VO (OTag (mk_tag c' n' b'))))
  | _, _, _ => None
  end.

Definition asn1_call (f : string) (args : list (pv obj)) : option (res (pv obj)) :=
  (* ---- constructors of the NamedTuples and classes ---- *)
  if String.eqb f "ASN1Tag/tag_class,tag_number,is_constructed" || String.eqb f "ASN1Tag" then
    match args with [c; n; b] => mk_tag_of c n b | _ => None end
  else if String.eqb f "ASN1Header/tag,tag_length,length" then
    match args with [VO (OTag t); VI tl; VI l] => Some (Ok (inj_header (mk_header t tl l))) | _ => None end
  else if String.eqb f "ASN1Tag.universal_tag" || String.eqb f "ASN1Tag.universal_tag/is_constructed" then
    match args with
    | [VI n] => Some (Ok (VO (OTag (universal_tag n false))))
    | [VI n; b] => match bool_of b with Some b' => Some (Ok (VO (OTag (universal_tag n b')))) | None => None end
    | _ => None
    end
  else if String.eqb f "ASN1Reader" then
    match args with [VB b] => Some (Ok (VO (OReader b))) | _ => None end
  else if String.eqb f "ASN1Writer" then
    match args with [] => Some (Ok (VO (OWriter writer_root))) | _ => None end
  else if String.eqb f "ASN1Writer/tag,parent" then
    match args with
    | [t; p] => match tag_of t, writer_of p with
                | Some t', Some p' => Some (Ok (VO (OWriter (Writer [] t' p'))))
                | _, _ => None
                end
    | _ => None
    end
  (* ---- primitives outside the library ---- *)
  else if String.eqb f "TagClass" then        (* enum lookup *)
    match args with [VI z] => Some (if (0 <=? z) && (z <=? 3) then Ok (VI z) else Raise ValueError) | _ => None end
  else if String.eqb f "TypeTagNumber" then   (* enum lookup *)
    match args with [VI z] => Some (if universal_ok z then Ok (VI z) else Raise ValueError) | _ => None end
  else if String.eqb f "()" then              (* enum_type(val) *)
    match args with
    | [VO (OEnum ms); VI z] => Some (if existsb (Z.eqb z) ms then Ok (VI z) else Raise ValueError)
    | _ => None
    end
  else if String.eqb f "struct.unpack" then   (* format "B": exactly one octet *)
    match args with
    | [VS [66]; VB b] => Some (match b with [x] => Ok (VT [VI x]) | _ => Raise StructError end)
    | _ => None
    end
  else if String.eqb f "f-string" then        (* str parts only *)
    match all_str args with Some s => Some (Ok (VS s)) | None => None end
  else if String.eqb f "range" then           (* the builtin knows 1 and 2 arguments *)
    match args with
    | [VI a; VI b; VI (-1)] => Some (Ok (VL (zrange_down (Z.to_nat (a - b)) a)))
    | _ => None
    end
  else if String.eqb f "map" then
    match args with [VO OIntType; VO (ODecs arcs)] => Some (Ok (VO (OMapInt arcs))) | _ => None end
  else if String.eqb f "list" then
    match args with
    | [VO (OMapInt arcs)] => Some (match arcs with [] => Raise ValueError | _ => Ok (VL (map VI arcs)) end)
    | _ => None
    end
  else if String.eqb f "str" then
    match args with [VI z] => Some (Ok (VO (ODec z))) | _ => None end
  else if String.eqb f "bytes" then           (* bytes(list of ints): ValueError outside 0..255; bytes(b) is the builtin *)
    match args with
    | [VL l] => match all_int l with
                | Some zs => Some (let* bs := map_res byte_ok zs in Ok (VB bs))
                | None => None
                end
    | _ => None
    end
  (* ---- the library's own functions := the model's ---- *)
  else if String.eqb f "_pack_asn1" then
    match args with
    | [VI c; VI b; VI n; VB d] => Some (lift_b (pack_asn1 c (negb (b =? 0)) n d))
    | _ => None
    end
  else if String.eqb f "_pack_asn1_octet_number" then
    match args with [VI n] => Some (lift_b (pack_octet_number n)) | _ => None end
  else if String.eqb f "_unpack_asn1_octet_number" then
    match args with
    | [VB b] => Some (let* (i, idx) := unpack_octet_number b in Ok (VT [VI i; VI idx]))
    | _ => None
    end
  else if String.eqb f "_encode_object_identifier" then
    match args with [VO (OOid arcs)] => Some (lift_b (encode_oid arcs)) | _ => None end
  else if String.eqb f "_read_asn1_header" then
    match args with [VB b] => Some (let* h := read_asn1_header b in Ok (inj_header h)) | _ => None end
  else if String.eqb f "_validate_tag/header,hint" then
    match args with
    | [VB d; t; VO (OTag ty); h; hint] => with_opts t h hint (fun t' h' => validate_tag d t' ty h') inj_raw
    | _ => None
    end
  else if String.eqb f "_read_asn1_integer/header,hint" then     (* positional tag, from _read_asn1_enumerated *)
    match args with [VB d; t; h; hint] => with_opts t h hint (m_read_integer d) inj_int | _ => None end
  else if String.eqb f "_read_asn1_boolean/tag,header,hint" then
    match args with [VB d; t; h; hint] => with_opts t h hint (m_read_boolean d) inj_bool | _ => None end
  else if String.eqb f "_read_asn1_integer/tag,header,hint" then
    match args with [VB d; t; h; hint] => with_opts t h hint (m_read_integer d) inj_int | _ => None end
  else if String.eqb f "_read_asn1_enumerated/tag,header,hint" then
    match args with [VB d; t; h; hint] => with_opts t h hint (m_read_enumerated d) inj_int | _ => None end
  else if String.eqb f "_read_asn1_object_identifier/tag,header,hint" then
    match args with [VB d; t; h; hint] => with_opts t h hint (m_read_object_identifier d) inj_oid | _ => None end
  else if String.eqb f "_read_asn1_utf8_string/tag,header,hint" then
    match args with [VB d; t; h; hint] => with_opts t h hint (m_read_str c_tag_utf8 d) inj_str | _ => None end
  else if String.eqb f "_read_asn1_generalized_time/tag,header,hint" then
    match args with [VB d; t; h; hint] => with_opts t h hint (m_read_str c_tag_gentime d) inj_str | _ => None end
  else if String.eqb f "_read_asn1_octet_string/tag,header,hint" then
    match args with
    | [VB d; t; h; hint] =>
      with_opts t h hint (fun t' h' => validate_tag d t' (universal_tag c_tag_octet_string false) h') inj_raw
    | _ => None
    end
  else if String.eqb f "_read_asn1_sequence/tag,header,hint" then
    match args with
    | [VB d; t; h; hint] =>
      with_opts t h hint (fun t' h' => validate_tag d t' (universal_tag c_tag_sequence true) h') inj_raw
    | _ => None
    end
  else if String.eqb f "_read_asn1_set/tag,header,hint" then
    match args with
    | [VB d; t; h; hint] =>
      with_opts t h hint (fun t' h' => validate_tag d t' (universal_tag c_tag_set true) h') inj_raw
    | _ => None
    end
  else if String.eqb f "_pack_asn1_boolean/tag" then
    match args with [VI v; t] => with_tag t (pack_boolean (negb (v =? 0))) | _ => None end
  else if String.eqb f "_pack_asn1_integer/tag" then
    match args with [VI v; t] => with_tag t (pack_integer v) | _ => None end
  else if String.eqb f "_pack_asn1_enumerated/tag" then
    match args with [VI v; t] => with_tag t (pack_enumerated v) | _ => None end
  else if String.eqb f "_pack_asn1_octet_string/tag" then
    match args with [VB b; t] => with_tag t (pack_octet_string b) | _ => None end
  else if String.eqb f "_pack_asn1_object_identifier/tag" then
    match args with [VO (OOid arcs); t] => with_tag t (pack_object_identifier arcs) | _ => None end
  else if String.eqb f "_pack_asn1_utf8_string/tag" then
    match args with [VS s; t] => with_tag t (pack_utf8_string s) | _ => None end
  else if String.eqb f "_pack_asn1_generalized_time/tag" then
    match args with [VS s; t] => with_tag t (pack_generalized_time s) | _ => None end
  else None.

(* ---- methods of a reader / writer held in a local (the call sites of the CMS layer) := the model's reader functions ---- *)
Definition reader_opts (args : list (pv obj)) (k : option tag -> option header -> option (res (pv obj * pv obj)))
  : option (res (pv obj * pv obj)) :=
  match args with
  | [] => k None None
  | [t] => match tag_of t with Some t' => k t' None | None => None end
  | [t; h] => match tag_of t, header_of h with Some t', Some h' => k t' h' | _, _ => None end
  | [t; h; hint] => match tag_of t, header_of h, hint_of hint with Some t', Some h', Some _ => k t' h' | _, _, _ => None end
  | _ => None
  end.
Definition reader_rd {A} (view : bytes) (args : list (pv obj))
  (f : bytes -> option tag -> option header -> res (A * bytes)) (inj : A -> pv obj) : option (res (pv obj * pv obj)) :=
  reader_opts args (fun t h => Some (let* (v, rest) := f view t h in Ok (inj v, VO (OReader rest)))).
Definition reader_meth (m : string) (view : bytes) (args : list (pv obj)) : option (res (pv obj * pv obj)) :=
  let rd := fun {A} => @reader_rd A view args in
  if String.eqb m "peek_header" then
    match args with [] => Some (let* h := peek_header view in Ok (inj_header h, VO (OReader view))) | _ => None end
  else if String.eqb m "skip_value" then
    match args with
    | [h] => match header_of h with
             | Some (Some h') => Some (Ok (VN, VO (OReader (skip_value view h'))))
             | _ => None
             end
    | _ => None
    end
  else if String.eqb m "get_remaining_data" then
    match args with [] => Some (Ok (VB (fst (get_remaining_data view)), VO (OReader (snd (get_remaining_data view))))) | _ => None end
  else if String.eqb m "read_boolean" then rd read_boolean vb
  else if String.eqb m "read_integer" then rd read_integer VI
  else if String.eqb m "read_object_identifier" then rd read_object_identifier (fun a => VO (OOid a))
  else if String.eqb m "read_octet_string" then rd read_octet_string VB
  else if String.eqb m "read_sequence" || String.eqb m "read_sequence_of" then rd read_sequence (fun b => VO (OReader b))
  else if String.eqb m "read_set" || String.eqb m "read_set_of" then rd read_set (fun b => VO (OReader b))
  else if String.eqb m "read_utf8_string" then rd read_utf8_string VS
  else if String.eqb m "read_generalized_time" then rd read_generalized_time VS
  else None.

Definition writer_meth (m : string) (w : writer) (args : list (pv obj)) : option (res (pv obj * pv obj)) :=
  let self := VO (OWriter w) in
  let wr := fun (packed : option tag -> res bytes) (t : pv obj) =>
    match tag_of t with
    | Some t' => Some (let* w' := writer_write (packed t') w in Ok (VN, VO (OWriter w')))
    | None => None
    end in
  let push := fun (d : tag) =>
    match args with
    | [] => Some (Ok (VO (OWriter (writer_push d w)), self))
    | [t] => match tag_of t with
             | Some t' => Some (Ok (VO (OWriter (writer_push (opt_tag t' d) w)), self))
             | None => None
             end
    | _ => None
    end in
  if String.eqb m "push_sequence" || String.eqb m "push_sequence_of" then push seq_tag
  else if String.eqb m "push_set" || String.eqb m "push_set_of" then push set_tag
  else if String.eqb m "get_data" then
    match args with [] => Some (let* d := writer_get_data w in Ok (VB d, self)) | _ => None end
  else if String.eqb m "write_raw" then
    match args with [VB b] => Some (Ok (VN, VO (OWriter (wr_extend w b)))) | _ => None end
  else if String.eqb m "write_boolean" then
    match args with [VI v] => wr (pack_boolean (negb (v =? 0))) VN | [VI v; t] => wr (pack_boolean (negb (v =? 0))) t | _ => None end
  else if String.eqb m "write_integer" then
    match args with [VI v] => wr (pack_integer v) VN | [VI v; t] => wr (pack_integer v) t | _ => None end
  else if String.eqb m "write_enumerated" then
    match args with [VI v] => wr (pack_enumerated v) VN | [VI v; t] => wr (pack_enumerated v) t | _ => None end
  else if String.eqb m "write_octet_string" then
    match args with [VB b] => wr (pack_octet_string b) VN | [VB b; t] => wr (pack_octet_string b) t | _ => None end
  else if String.eqb m "write_object_identifier" then
    match args with
    | [VO (OOid a)] => wr (pack_object_identifier a) VN
    | [VO (OOid a); t] => wr (pack_object_identifier a) t
    | _ => None
    end
  else if String.eqb m "write_utf8_string" then
    match args with [VS s] => wr (pack_utf8_string s) VN | [VS s; t] => wr (pack_utf8_string s) t | _ => None end
  else if String.eqb m "write_generalized_time" then
    match args with [VS s] => wr (pack_generalized_time s) VN | [VS s; t] => wr (pack_generalized_time s) t | _ => None end
  else None.

Definition asn1_meth (m : string) (r : pv obj) (args : list (pv obj)) : option (res (pv obj * pv obj)) :=
  if String.eqb m "replace" then            (* bytes.replace(<one octet>, b""): every occurrence removed *)
    match r, args with
    | VB b, [VB [x]; VB []] => Some (Ok (VB (filter (fun y => negb (y =? x)) b), r))
    | _, _ => None
    end
  else if String.eqb m "split" then         (* <dotted decimal>.split(".") *)
    match r, args with VO (OOid arcs), [VS [46]] => Some (Ok (VO (ODecs arcs), r)) | _, _ => None end
  else if String.eqb m "join" then          (* ".".join([str(i) ..]); any other join is the builtin *)
    match r, args with
    | VS [46], [VL l] => match all_dec l with Some arcs => Some (Ok (VO (OOid arcs), r)) | None => None end
    | _, _ => None
    end
  else
    match r with
    | VO (OReader view) => reader_meth m view args
    | VO (OWriter w) => writer_meth m w args
    | _ => None
    end.

Definition asn1_enter (v : pv obj) : res (pv obj) := Ok v.       (* ASN1Writer.__enter__ returns self *)
Definition asn1_exit (y : pv obj) (owner : option (pv obj)) : res (option (pv obj)) :=
  match y, owner with
  | VO (OWriter child), Some (VO (OWriter o)) => let* o' := writer_exit child o in Ok (Some (VO (OWriter o')))
  | _, _ => Ok owner
  end.

Definition asn1_ext : ext obj :=
  {| x_glob := asn1_glob;
     x_attr := asn1_attr;
     x_setattr := asn1_setattr;
     x_call := asn1_call;
     x_meth := asn1_meth;
     x_truthy := fun o => match o with OReader view => Ok (reader_bool view) | _ => Ok true end;
     x_eqb := fun a b => match a, b with OTag x, OTag y => Some (tag_eqb x y) | _, _ => None end;
     x_iter := fun _ => Raise TypeError;
     x_enter := asn1_enter;
     x_exit := asn1_exit;
     x_exc := fun e => if String.eqb e "NotEnougData" then Some NotEnoughData else None |}.

Definition W : world (pv obj) := std_world asn1_ext.
(* the same world for PyAstMut.run_mut (no callee of _asn1.py mutates an argument) *)
Definition MW : mworld (pv obj) :=
  {| mw_base := W; mw_call_mut := fun _ _ => None; mw_meth_mut := fun _ _ _ => None |}.
