(* _pkcs7.py :: def KEKRecipientInfo.unpack(cls, reader, header) : whole body *)
Definition k_flow_KEKRecipientInfo_unpack : pfun :=
  {| pf_params := ["cls"; "reader"; "header"];
     pf_body := [
    SAssign ["reader"] (PMeth "read_sequence/header" (PName "reader") [(PName "header")]);
    SAssign ["version"] (PMeth "read_integer/hint" (PName "reader") [(PStr [75; 69; 75; 82; 101; 99; 105; 112; 105; 101; 110; 116; 73; 110; 102; 111; 46; 118; 101; 114; 115; 105; 111; 110])]);
    SAssign ["kekid"] (PCall "KEKIdentifier.unpack" [(PName "reader")]);
    SAssign ["key_encryption_algorithm"] (PCall "AlgorithmIdentifier.unpack" [(PName "reader")]);
    SAssign ["encrypted_key"] (PMeth "read_octet_string/hint" (PName "reader") [(PStr [75; 69; 75; 82; 101; 99; 105; 112; 105; 101; 110; 116; 73; 110; 102; 111; 46; 101; 110; 99; 114; 121; 112; 116; 101; 100; 75; 101; 121])]);
    SReturn (PCall "KEKRecipientInfo/version,kekid,key_encryption_algorithm,encrypted_key" [(PName "version"); (PName "kekid"); (PName "key_encryption_algorithm"); (PName "encrypted_key")])
  ] |}.
Definition k_flow_KEKRecipientInfo_unpack_defaults : list (string * pexp) := [("header", PNone)].
