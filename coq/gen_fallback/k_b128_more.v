(* _asn1.py :: _pack_asn1_octet_number :: ('while', 0) :  num *)
Definition k_b128_more (num : Z) : bool :=
  (negb (num =? 0)).
