(* _epm.py :: EptMapResult.unpack :: ('if', 1) :  48 + tower_data_offset > len(view) *)
Definition k_eptres_count_guard (tower_data_offset : Z) (len_view : Z) : bool :=
  ((48 + tower_data_offset) >? len_view).
