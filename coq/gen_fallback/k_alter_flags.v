(* _rpc/_client.py :: RpcClient._create_alter_context :: ('assign', 'flags', 0) :  PacketFlags.PFC_SUPPORT_HEADER_SIGN if self._sign_header else PacketFlags.NONE *)
Definition k_alter_flags (self__sign_header : bool) (PacketFlags_PFC_SUPPORT_HEADER_SIGN : Z) (PacketFlags_NONE : Z) : Z :=
  (if self__sign_header then PacketFlags_PFC_SUPPORT_HEADER_SIGN else PacketFlags_NONE).
