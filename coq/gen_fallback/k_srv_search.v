(* _dns.py :: lookup_dc :: ('callarg', 'dns.resolver.resolve', 0, 'search') :  True *)
Definition k_srv_search  : bool :=
  true.
