(* _client.py :: async_ncrypt_unprotect_secret :: shape kernel :  _async_get_key(... password: password  [= password] ...) *)
Definition k_onl_aunprot_kw_password (password : list Z) : list Z :=
  password.
