(* _client.py :: async_ncrypt_unprotect_secret :: ('callarg', '_async_get_key', 0, 'password') :  password *)
Definition k_onl_aunprot_kw_password (password : list Z) : list Z :=
  password.
