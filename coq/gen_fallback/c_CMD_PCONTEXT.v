(* dpapi_ng._rpc._verification :: int(CommandType.SEC_VT_COMMAND_PCONTEXT) *)
Definition c_CMD_PCONTEXT : Z := 2.
