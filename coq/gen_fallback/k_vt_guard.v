(* _rpc/_verification.py :: VerificationTrailer.unpack :: ('if', 1) :  len(view) < 4 *)
Definition k_vt_guard (len_view : Z) : bool :=
  (len_view <? 4).
