(* dpapi_ng._asn1 :: TagClass.CONTEXT_SPECIFIC *)
Definition c_class_context : Z := 2.
