(* _blob.py :: def ProtectionDescriptor.get_target_sd(self) : whole body *)
Definition k_flow_ProtectionDescriptor_get_target_sd : pfun :=
  {| pf_params := ["self"];
     pf_body := [
    SRaise "NotImplementedError"
  ] |}.
