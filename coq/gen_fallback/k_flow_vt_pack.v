(* _rpc/_verification.py :: def VerificationTrailer.pack(self) : whole body *)
Definition k_flow_vt_pack : pfun :=
  {| pf_params := ["self"];
     pf_body := [
    SReturn (PMeth "join" (PBytes []) [(PList [(PAttr (PName "self") "signature"); (PMeth "join" (PBytes []) [(PComp (PMeth "pack" (PName "c") []) ["c"] (PAttr (PName "self") "commands") [])])])])
  ] |}.
