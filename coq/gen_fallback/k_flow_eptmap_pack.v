(* _epm.py :: def EptMap.pack(self) : whole body *)
Definition k_flow_eptmap_pack : pfun :=
  {| pf_params := ["self"];
     pf_body := [
    SAssign ["b_tower"] (PMeth "join" (PBytes []) [(PList [(PMeth "to_bytes/byteorder" (PCall "len" [(PAttr (PName "self") "tower")]) [(PInt 2); (PStr [108; 105; 116; 116; 108; 101])]); (PMeth "join" (PBytes []) [(PComp (PMeth "pack" (PName "f") []) ["f"] (PAttr (PName "self") "tower") [])])])]);
    SAssign ["tower_padding"] (PBin "%" (PNeg (PBin "+" (PCall "len" [(PName "b_tower")]) (PInt 4))) (PInt 8));
    SIf (PAttr (PName "self") "entry_handle") [
      SAssign ["b_entry_handle"] (PBin "+" (PMeth "to_bytes/byteorder" (PSub (PAttr (PName "self") "entry_handle") (PInt 0)) [(PInt 4); (PStr [108; 105; 116; 116; 108; 101])]) (PAttr (PSub (PAttr (PName "self") "entry_handle") (PInt 1)) "bytes_le"))
    ] [
      SAssign ["b_entry_handle"] (PBin "*" (PBytes [0]) (PInt 20))
    ];
    SReturn (PMeth "join" (PBytes []) [(PList [(PBytes [1; 0; 0; 0; 0; 0; 0; 0]); (PIfExp (PAttr (PName "self") "obj") (PAttr (PAttr (PName "self") "obj") "bytes_le") (PBin "*" (PBytes [0]) (PInt 16))); (PBytes [2; 0; 0; 0; 0; 0; 0; 0]); (PMeth "to_bytes/byteorder" (PCall "len" [(PName "b_tower")]) [(PInt 8); (PStr [108; 105; 116; 116; 108; 101])]); (PMeth "to_bytes/byteorder" (PCall "len" [(PName "b_tower")]) [(PInt 4); (PStr [108; 105; 116; 116; 108; 101])]); (PName "b_tower"); (PBin "*" (PBytes [0]) (PName "tower_padding")); (PName "b_entry_handle"); (PMeth "to_bytes/byteorder" (PAttr (PName "self") "max_towers") [(PInt 4); (PStr [108; 105; 116; 116; 108; 101])])])])
  ] |}.
