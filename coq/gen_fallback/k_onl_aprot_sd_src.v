(* _client.py :: async_ncrypt_protect_secret :: shape kernel :  sd = descriptor.get_target_sd() *)
Definition k_onl_aprot_sd_src  : bool :=
  true.
