(* _asn1.py :: def ASN1Reader.peek_header(self) : whole body *)
Definition k_flow_reader_peek_header : pfun :=
  {| pf_params := ["self"];
     pf_body := [
    SReturn (PCall "_read_asn1_header" [(PAttr (PName "self") "_view")])
  ] |}.
