(* _gkdi.py :: def KDFParameters.unpack(cls, data) : whole body *)
Definition k_flow_kdfp_unpack : pfun :=
  {| pf_params := ["cls"; "data"];
     pf_body := [
    SAssign ["view"] (PCall "memoryview" [(PName "data")]);
    SIf (POr (PCmp "!=" (PMeth "tobytes" (PSlice (PName "view") PNone (PInt 8)) []) (PBytes [0; 0; 0; 0; 1; 0; 0; 0])) (PCmp "!=" (PMeth "tobytes" (PSlice (PName "view") (PInt 12) (PInt 16)) []) (PBytes [0; 0; 0; 0]))) [
      SRaise "ValueError"
    ] [];
    SAssign ["hash_length"] (PCall "int.from_bytes/byteorder" [(PSlice (PName "view") (PInt 8) (PInt 12)); (PStr [108; 105; 116; 116; 108; 101])]);
    SAssign ["hash_name"] (PMeth "decode" (PMeth "tobytes" (PSlice (PName "view") (PInt 16) (PBin "-" (PBin "+" (PInt 16) (PName "hash_length")) (PInt 2))) []) [(PStr [117; 116; 102; 45; 49; 54; 45; 108; 101])]);
    SReturn (PCall "KDFParameters/hash_name" [(PName "hash_name")])
  ] |}.
