(* _rpc/_client.py :: RpcClient._create_alter_context :: ('callarg', 'AlterContext', 0, 'max_xmit_frag') :  5840 *)
Definition k_onl_alter_max_xmit  : Z :=
  5840.
