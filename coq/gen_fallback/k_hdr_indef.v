(* _asn1.py :: _read_asn1_header :: ('if', 4) :  length == 128 *)
Definition k_hdr_indef (length : Z) : bool :=
  (length =? 128).
