(* dpapi_ng._rpc._pdu :: sorted(int(x) for x in SecurityProvider) *)
Definition c_SecurityProvider_values : list Z := [0; 9; 10; 14; 16; 68; 255].
