(* _blob.py :: def KeyIdentifier.unpack(cls, data) : whole body *)
Definition k_flow_kid_unpack : pfun :=
  {| pf_params := ["cls"; "data"];
     pf_body := [
    SAssign ["view"] (PCall "memoryview" [(PName "data")]);
    SAssign ["version"] (PCall "int.from_bytes/byteorder" [(PSlice (PName "view") PNone (PInt 4)); (PStr [108; 105; 116; 116; 108; 101])]);
    SIf (PCmp "!=" (PMeth "tobytes" (PSlice (PName "view") (PInt 4) (PInt 8)) []) (PAttr (PName "cls") "magic")) [
      SRaise "ValueError"
    ] [];
    SAssign ["flags"] (PCall "int.from_bytes/byteorder" [(PSlice (PName "view") (PInt 8) (PInt 12)); (PStr [108; 105; 116; 116; 108; 101])]);
    SAssign ["l0_index"] (PCall "int.from_bytes/byteorder" [(PSlice (PName "view") (PInt 12) (PInt 16)); (PStr [108; 105; 116; 116; 108; 101])]);
    SAssign ["l1_index"] (PCall "int.from_bytes/byteorder" [(PSlice (PName "view") (PInt 16) (PInt 20)); (PStr [108; 105; 116; 116; 108; 101])]);
    SAssign ["l2_index"] (PCall "int.from_bytes/byteorder" [(PSlice (PName "view") (PInt 20) (PInt 24)); (PStr [108; 105; 116; 116; 108; 101])]);
    SAssign ["root_key_identifier"] (PCall "uuid.UUID/bytes_le" [(PMeth "tobytes" (PSlice (PName "view") (PInt 24) (PInt 40)) [])]);
    SAssign ["key_info_len"] (PCall "int.from_bytes/byteorder" [(PSlice (PName "view") (PInt 40) (PInt 44)); (PStr [108; 105; 116; 116; 108; 101])]);
    SAssign ["domain_len"] (PCall "int.from_bytes/byteorder" [(PSlice (PName "view") (PInt 44) (PInt 48)); (PStr [108; 105; 116; 116; 108; 101])]);
    SAssign ["forest_len"] (PCall "int.from_bytes/byteorder" [(PSlice (PName "view") (PInt 48) (PInt 52)); (PStr [108; 105; 116; 116; 108; 101])]);
    SAssign ["view"] (PSlice (PName "view") (PInt 52) PNone);
    SAssign ["key_info"] (PMeth "tobytes" (PSlice (PName "view") PNone (PName "key_info_len")) []);
    SAssign ["view"] (PSlice (PName "view") (PName "key_info_len") PNone);
    SAssign ["domain"] (PMeth "decode" (PMeth "tobytes" (PSlice (PName "view") PNone (PBin "-" (PName "domain_len") (PInt 2))) []) [(PStr [117; 116; 102; 45; 49; 54; 45; 108; 101])]);
    SAssign ["view"] (PSlice (PName "view") (PName "domain_len") PNone);
    SAssign ["forest"] (PMeth "decode" (PMeth "tobytes" (PSlice (PName "view") PNone (PBin "-" (PName "forest_len") (PInt 2))) []) [(PStr [117; 116; 102; 45; 49; 54; 45; 108; 101])]);
    SAssign ["view"] (PSlice (PName "view") (PName "forest_len") PNone);
    SReturn (PCall "KeyIdentifier/version,flags,l0,l1,l2,root_key_identifier,key_info,domain_name,forest_name" [(PName "version"); (PName "flags"); (PName "l0_index"); (PName "l1_index"); (PName "l2_index"); (PName "root_key_identifier"); (PName "key_info"); (PName "domain"); (PName "forest")])
  ] |}.
