(* _asn1.py :: _encode_object_identifier :: ('augassign', 'cmp_data', 0) :  cmp_data >> 7 *)
Definition k_oid_shift (cmp_data : Z) : Z :=
  (Z.shiftr cmp_data 7).
