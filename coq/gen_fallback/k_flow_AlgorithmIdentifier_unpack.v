(* _pkcs7.py :: def AlgorithmIdentifier.unpack(cls, reader) : whole body *)
Definition k_flow_AlgorithmIdentifier_unpack : pfun :=
  {| pf_params := ["cls"; "reader"];
     pf_body := [
    SAssign ["reader"] (PMeth "read_sequence" (PName "reader") []);
    SAssign ["algorithm"] (PMeth "read_object_identifier" (PName "reader") []);
    SAssign ["parameters"] PNone;
    SIf (PName "reader") [
      SAssign ["parameters"] (PMeth "get_remaining_data" (PName "reader") [])
    ] [];
    SReturn (PCall "AlgorithmIdentifier/algorithm,parameters" [(PName "algorithm"); (PName "parameters")])
  ] |}.
