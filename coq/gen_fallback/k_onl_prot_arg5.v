(* _client.py :: ncrypt_protect_secret :: ('callarg', '_sync_get_key', 0, 5) :  l2 *)
Definition k_onl_prot_arg5  : Z :=
  (- 1).
