(* _client.py :: ncrypt_protect_secret :: shape kernel :  _sync_get_key(... 5: l2  [= -1] ...) *)
Definition k_onl_prot_arg5  : Z :=
  (-1).
