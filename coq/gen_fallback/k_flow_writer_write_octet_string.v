(* _asn1.py :: def ASN1Writer.write_octet_string(self, value, tag) : whole body *)
Definition k_flow_writer_write_octet_string : pfun :=
  {| pf_params := ["self"; "value"; "tag"];
     pf_body := [
    SExpr (PMeth "extend" (PAttr (PName "self") "_data") [(PCall "_pack_asn1_octet_string/tag" [(PName "value"); (PName "tag")])])
  ] |}.
Definition k_flow_writer_write_octet_string_defaults : list (string * pexp) := [("tag", PNone)].
