(* _crypto.py :: def cek_generate(algorithm) : whole body *)
Definition k_flow_cek_generate : pfun :=
  {| pf_params := ["algorithm"];
     pf_body := [
    SIf (PCmp "==" (PName "algorithm") (PName "AlgorithmOID.AES256_WRAP")) [
      SAssign ["cek"] (PCall "AESGCM.generate_key" [(PInt 256)]);
      SAssign ["cek_iv"] (PCall "os.urandom" [(PInt 12)]);
      SReturn (PTuple [(PName "cek"); (PName "cek_iv")])
    ] [
      SRaise "NotImplementedError"
    ]
  ] |}.
