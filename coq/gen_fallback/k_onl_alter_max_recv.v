(* _rpc/_client.py :: RpcClient._create_alter_context :: ('callarg', 'AlterContext', 0, 'max_recv_frag') :  5840 *)
Definition k_onl_alter_max_recv  : Z :=
  5840.
