(* _client.py :: def ncrypt_unprotect_secret(data, server, username, password, auth_protocol, cache) : whole body *)
Definition k_flow_ncrypt_unprotect_secret : pfun :=
  {| pf_params := ["data"; "server"; "username"; "password"; "auth_protocol"; "cache"];
     pf_body := [
    SAssign ["blob"] (PCall "DPAPINGBlob.unpack" [(PName "data")]);
    SAssign ["target_sd"] (PMeth "get_target_sd" (PAttr (PName "blob") "protection_descriptor") []);
    SAssign ["cache"] (POr (PName "cache") (PCall "KeyCache" []));
    SAssign ["rk"] (PMeth "_get_key" (PName "cache") [(PName "target_sd"); (PAttr (PAttr (PName "blob") "key_identifier") "root_key_identifier"); (PAttr (PAttr (PName "blob") "key_identifier") "l0"); (PAttr (PAttr (PName "blob") "key_identifier") "l1"); (PAttr (PAttr (PName "blob") "key_identifier") "l2")]);
    SIf (PNot (PName "rk")) [
      SIf (PNot (PName "server")) [
        SAssign ["srv"] (PCall "lookup_dc" [(PAttr (PAttr (PName "blob") "key_identifier") "domain_name")]);
        SAssign ["server"] (PAttr (PName "srv") "target")
      ] [];
      SAssign ["rk"] (PCall "_sync_get_key/username,password,auth_protocol" [(PName "server"); (PName "target_sd"); (PAttr (PAttr (PName "blob") "key_identifier") "root_key_identifier"); (PAttr (PAttr (PName "blob") "key_identifier") "l0"); (PAttr (PAttr (PName "blob") "key_identifier") "l1"); (PAttr (PAttr (PName "blob") "key_identifier") "l2"); (PName "username"); (PName "password"); (PName "auth_protocol")])
    ] [];
    SIf (PNot (PAttr (PName "rk") "is_public_key")) [
      SExpr (PMeth "_store_key" (PName "cache") [(PName "target_sd"); (PName "rk")])
    ] [];
    SReturn (PCall "_decrypt_blob" [(PName "blob"); (PName "rk")])
  ] |}.
Definition k_flow_ncrypt_unprotect_secret_defaults : list (string * pexp) := [("server", PNone); ("username", PNone); ("password", PNone); ("auth_protocol", (PStr [110; 101; 103; 111; 116; 105; 97; 116; 101])); ("cache", PNone)].
