(* _crypto.py :: cek_generate :: ('callarg', 'os.urandom', 0, 0) :  12 *)
Definition k_gcm_nonce_len  : Z :=
  12.
