(* _asn1.py :: _pack_asn1 :: ('if', 1) :  tag_number < 31 *)
Definition k_der_low_tag (tag_number : Z) : bool :=
  (tag_number <? 31).
