(* dpapi_ng._epm :: EPM.version *)
Definition c_EPM_version : Z := 3.
