(* /verif/vlib/pysem_src.py :: def t_from_bytes(b) : whole body *)
Definition k_flow_pysem_t_from_bytes : pfun :=
  {| pf_params := ["b"];
     pf_body := [
    SReturn (PTuple [(PCall "int.from_bytes" [(PName "b"); (PStr [108; 105; 116; 116; 108; 101])]); (PCall "int.from_bytes/byteorder" [(PName "b"); (PStr [98; 105; 103])]); (PCall "int.from_bytes/byteorder" [(PSlice (PName "b") (PInt 1) (PInt 3)); (PStr [108; 105; 116; 116; 108; 101])])])
  ] |}.
