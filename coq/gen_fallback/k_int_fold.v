(* _asn1.py :: _read_asn1_integer :: ('assign', 'int_value', 1) :  int_value << 8 | val *)
Definition k_int_fold (int_value : Z) (val : Z) : Z :=
  (Z.lor (Z.shiftl int_value 8) val).
