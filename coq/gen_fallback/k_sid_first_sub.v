(* _security_descriptor.py :: sid_to_bytes :: ('callarg', 'range', 0, 0) :  3 *)
Definition k_sid_first_sub  : Z :=
  3.
