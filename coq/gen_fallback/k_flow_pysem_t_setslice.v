(* /verif/vlib/pysem_src.py :: def t_setslice(b, i, j, y) : whole body *)
Definition k_flow_pysem_t_setslice : pfun :=
  {| pf_params := ["b"; "i"; "j"; "y"];
     pf_body := [
    SAssign ["x"] (PCall "bytearray" [(PName "b")]);
    SAssign ["x"] (PCall "setslice" [(PName "x"); (PName "i"); (PName "j"); (PName "y")]);
    SReturn (PCall "bytes" [(PName "x")])
  ] |}.
