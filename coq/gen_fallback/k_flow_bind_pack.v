(* _rpc/_bind.py :: def Bind.pack(self) : whole body *)
Definition k_flow_bind_pack : pfun :=
  {| pf_params := ["self"];
     pf_body := [
    SReturn (PMeth "join" (PBytes []) [(PList [(PMeth "pack" (PAttr (PName "self") "header") []); (PMeth "to_bytes/byteorder" (PAttr (PName "self") "max_xmit_frag") [(PInt 2); (PStr [108; 105; 116; 116; 108; 101])]); (PMeth "to_bytes/byteorder" (PAttr (PName "self") "max_recv_frag") [(PInt 2); (PStr [108; 105; 116; 116; 108; 101])]); (PMeth "to_bytes/byteorder" (PAttr (PName "self") "assoc_group") [(PInt 4); (PStr [108; 105; 116; 116; 108; 101])]); (PMeth "to_bytes/byteorder" (PCall "len" [(PAttr (PName "self") "contexts")]) [(PInt 4); (PStr [108; 105; 116; 116; 108; 101])]); (PMeth "join" (PBytes []) [(PComp (PMeth "pack" (PName "c") []) ["c"] (PAttr (PName "self") "contexts") [])]); (PIfExp (PAttr (PName "self") "sec_trailer") (PMeth "pack" (PAttr (PName "self") "sec_trailer") []) (PBytes []))])])
  ] |}.
