(* _gkdi.py :: def GroupKeyEnvelope.unpack(cls, data) : whole body *)
Definition k_flow_gke_unpack : pfun :=
  {| pf_params := ["cls"; "data"];
     pf_body := [
    SAssign ["view"] (PCall "memoryview" [(PName "data")]);
    SAssign ["version"] (PCall "int.from_bytes/byteorder" [(PSlice (PName "view") PNone (PInt 4)); (PStr [108; 105; 116; 116; 108; 101])]);
    SIf (PCmp "!=" (PMeth "tobytes" (PSlice (PName "view") (PInt 4) (PInt 8)) []) (PAttr (PName "cls") "magic")) [
      SRaise "ValueError"
    ] [];
    SAssign ["flags"] (PCall "int.from_bytes/byteorder" [(PSlice (PName "view") (PInt 8) (PInt 12)); (PStr [108; 105; 116; 116; 108; 101])]);
    SAssign ["l0_index"] (PCall "int.from_bytes/byteorder" [(PSlice (PName "view") (PInt 12) (PInt 16)); (PStr [108; 105; 116; 116; 108; 101])]);
    SAssign ["l1_index"] (PCall "int.from_bytes/byteorder" [(PSlice (PName "view") (PInt 16) (PInt 20)); (PStr [108; 105; 116; 116; 108; 101])]);
    SAssign ["l2_index"] (PCall "int.from_bytes/byteorder" [(PSlice (PName "view") (PInt 20) (PInt 24)); (PStr [108; 105; 116; 116; 108; 101])]);
    SAssign ["root_key_identifier"] (PCall "uuid.UUID/bytes_le" [(PMeth "tobytes" (PSlice (PName "view") (PInt 24) (PInt 40)) [])]);
    SAssign ["kdf_algo_len"] (PCall "int.from_bytes/byteorder" [(PSlice (PName "view") (PInt 40) (PInt 44)); (PStr [108; 105; 116; 116; 108; 101])]);
    SAssign ["kdf_para_len"] (PCall "int.from_bytes/byteorder" [(PSlice (PName "view") (PInt 44) (PInt 48)); (PStr [108; 105; 116; 116; 108; 101])]);
    SAssign ["sec_algo_len"] (PCall "int.from_bytes/byteorder" [(PSlice (PName "view") (PInt 48) (PInt 52)); (PStr [108; 105; 116; 116; 108; 101])]);
    SAssign ["sec_para_len"] (PCall "int.from_bytes/byteorder" [(PSlice (PName "view") (PInt 52) (PInt 56)); (PStr [108; 105; 116; 116; 108; 101])]);
    SAssign ["priv_key_len"] (PCall "int.from_bytes/byteorder" [(PSlice (PName "view") (PInt 56) (PInt 60)); (PStr [108; 105; 116; 116; 108; 101])]);
    SAssign ["publ_key_len"] (PCall "int.from_bytes/byteorder" [(PSlice (PName "view") (PInt 60) (PInt 64)); (PStr [108; 105; 116; 116; 108; 101])]);
    SAssign ["l1_key_len"] (PCall "int.from_bytes/byteorder" [(PSlice (PName "view") (PInt 64) (PInt 68)); (PStr [108; 105; 116; 116; 108; 101])]);
    SAssign ["l2_key_len"] (PCall "int.from_bytes/byteorder" [(PSlice (PName "view") (PInt 68) (PInt 72)); (PStr [108; 105; 116; 116; 108; 101])]);
    SAssign ["domain_len"] (PCall "int.from_bytes/byteorder" [(PSlice (PName "view") (PInt 72) (PInt 76)); (PStr [108; 105; 116; 116; 108; 101])]);
    SAssign ["forest_len"] (PCall "int.from_bytes/byteorder" [(PSlice (PName "view") (PInt 76) (PInt 80)); (PStr [108; 105; 116; 116; 108; 101])]);
    SAssign ["view"] (PSlice (PName "view") (PInt 80) PNone);
    SAssign ["kdf_algo"] (PMeth "decode" (PMeth "tobytes" (PSlice (PName "view") PNone (PBin "-" (PName "kdf_algo_len") (PInt 2))) []) [(PStr [117; 116; 102; 45; 49; 54; 45; 108; 101])]);
    SAssign ["view"] (PSlice (PName "view") (PName "kdf_algo_len") PNone);
    SAssign ["kdf_param"] (PMeth "tobytes" (PSlice (PName "view") PNone (PName "kdf_para_len")) []);
    SAssign ["view"] (PSlice (PName "view") (PName "kdf_para_len") PNone);
    SAssign ["secret_algo"] (PMeth "decode" (PMeth "tobytes" (PSlice (PName "view") PNone (PBin "-" (PName "sec_algo_len") (PInt 2))) []) [(PStr [117; 116; 102; 45; 49; 54; 45; 108; 101])]);
    SAssign ["view"] (PSlice (PName "view") (PName "sec_algo_len") PNone);
    SAssign ["secret_param"] (PMeth "tobytes" (PSlice (PName "view") PNone (PName "sec_para_len")) []);
    SAssign ["view"] (PSlice (PName "view") (PName "sec_para_len") PNone);
    SAssign ["domain"] (PMeth "decode" (PMeth "tobytes" (PSlice (PName "view") PNone (PBin "-" (PName "domain_len") (PInt 2))) []) [(PStr [117; 116; 102; 45; 49; 54; 45; 108; 101])]);
    SAssign ["view"] (PSlice (PName "view") (PName "domain_len") PNone);
    SAssign ["forest"] (PMeth "decode" (PMeth "tobytes" (PSlice (PName "view") PNone (PBin "-" (PName "forest_len") (PInt 2))) []) [(PStr [117; 116; 102; 45; 49; 54; 45; 108; 101])]);
    SAssign ["view"] (PSlice (PName "view") (PName "forest_len") PNone);
    SAssign ["l1_key"] (PMeth "tobytes" (PSlice (PName "view") PNone (PName "l1_key_len")) []);
    SAssign ["view"] (PSlice (PName "view") (PName "l1_key_len") PNone);
    SAssign ["l2_key"] (PMeth "tobytes" (PSlice (PName "view") PNone (PName "l2_key_len")) []);
    SAssign ["view"] (PSlice (PName "view") (PName "l2_key_len") PNone);
    SReturn (PCall "GroupKeyEnvelope/version,flags,l0,l1,l2,root_key_identifier,kdf_algorithm,kdf_parameters,secret_algorithm,secret_parameters,private_key_length,public_key_length,domain_name,forest_name,l1_key,l2_key" [(PName "version"); (PName "flags"); (PName "l0_index"); (PName "l1_index"); (PName "l2_index"); (PName "root_key_identifier"); (PName "kdf_algo"); (PName "kdf_param"); (PName "secret_algo"); (PName "secret_param"); (PName "priv_key_len"); (PName "publ_key_len"); (PName "domain"); (PName "forest"); (PName "l1_key"); (PName "l2_key")])
  ] |}.
