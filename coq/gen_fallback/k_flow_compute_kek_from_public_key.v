(* _gkdi.py :: def compute_kek_from_public_key(algorithm, seed, secret_algorithm, secret_parameters, public_key, private_key_length) : whole body *)
Definition k_flow_compute_kek_from_public_key : pfun :=
  {| pf_params := ["algorithm"; "seed"; "secret_algorithm"; "secret_parameters"; "public_key"; "private_key_length"];
     pf_body := [
    SAssign ["private_key"] (PCall "kdf" [(PName "algorithm"); (PName "seed"); (PName "KDS_SERVICE_LABEL"); (PMeth "encode" (PBin "+" (PName "secret_algorithm") (PStr [0])) [(PStr [117; 116; 102; 45; 49; 54; 45; 108; 101])]); (PName "private_key_length")]);
    SReturn (PCall "compute_kek/secret_algorithm,secret_parameters,private_key,public_key" [(PName "algorithm"); (PName "secret_algorithm"); (PName "secret_parameters"); (PName "private_key"); (PName "public_key")])
  ] |}.
