(* _epm.py :: def RPCConnectionOrientedFloor._unpack(cls, lhs, rhs) : whole body *)
Definition k_flow_rpccofloor_unpack : pfun :=
  {| pf_params := ["cls"; "lhs"; "rhs"];
     pf_body := [
    SReturn (PCall "RPCConnectionOrientedFloor" [(PCall "int.from_bytes/byteorder" [(PName "rhs"); (PStr [108; 105; 116; 116; 108; 101])])])
  ] |}.
