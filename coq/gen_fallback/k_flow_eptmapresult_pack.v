(* _epm.py :: def EptMapResult.pack(self) : whole body *)
Definition k_flow_eptmapresult_pack : pfun :=
  {| pf_params := ["self"];
     pf_body := [
    SIf (PAttr (PName "self") "entry_handle") [
      SAssign ["b_entry_handle"] (PBin "+" (PMeth "to_bytes/byteorder" (PSub (PAttr (PName "self") "entry_handle") (PInt 0)) [(PInt 4); (PStr [108; 105; 116; 116; 108; 101])]) (PAttr (PSub (PAttr (PName "self") "entry_handle") (PInt 1)) "bytes_le"))
    ] [
      SAssign ["b_entry_handle"] (PBin "*" (PBytes [0]) (PInt 20))
    ];
    SAssign ["b_tower_referents"] (PCall "bytearray" []);
    SAssign ["b_tower"] (PCall "bytearray" []);
    SFor ["idx"; "t"] (PCall "enumerate" [(PAttr (PName "self") "towers")]) [
      SAssign ["b_tower_referents"] (PBin "+" (PName "b_tower_referents") (PMeth "to_bytes/byteorder" (PBin "+" (PName "idx") (PInt 3)) [(PInt 8); (PStr [108; 105; 116; 116; 108; 101])]));
      SAssign ["b_t"] (PMeth "join" (PBytes []) [(PList [(PMeth "to_bytes/byteorder" (PCall "len" [(PName "t")]) [(PInt 2); (PStr [108; 105; 116; 116; 108; 101])]); (PMeth "join" (PBytes []) [(PComp (PMeth "pack" (PName "f") []) ["f"] (PName "t") [])])])]);
      SAssign ["padding"] (PIfExp (PCmp "<" (PBin "+" (PName "idx") (PInt 1)) (PCall "len" [(PAttr (PName "self") "towers")])) (PBin "%" (PNeg (PBin "+" (PCall "len" [(PName "b_t")]) (PInt 4))) (PInt 8)) (PBin "%" (PNeg (PCall "len" [(PName "b_t")])) (PInt 4)));
      SAssign ["b_tower"] (PBin "+" (PName "b_tower") (PMeth "join" (PBytes []) [(PList [(PMeth "to_bytes/byteorder" (PCall "len" [(PName "b_t")]) [(PInt 8); (PStr [108; 105; 116; 116; 108; 101])]); (PMeth "to_bytes/byteorder" (PCall "len" [(PName "b_t")]) [(PInt 4); (PStr [108; 105; 116; 116; 108; 101])]); (PName "b_t"); (PBin "*" (PBytes [0]) (PName "padding"))])]))
    ];
    SReturn (PMeth "join" (PBytes []) [(PList [(PName "b_entry_handle"); (PMeth "to_bytes/byteorder" (PCall "len" [(PAttr (PName "self") "towers")]) [(PInt 4); (PStr [108; 105; 116; 116; 108; 101])]); (PMeth "to_bytes/byteorder" (PCall "len" [(PAttr (PName "self") "towers")]) [(PInt 8); (PStr [108; 105; 116; 116; 108; 101])]); (PBin "*" (PBytes [0]) (PInt 8)); (PMeth "to_bytes/byteorder" (PCall "len" [(PAttr (PName "self") "towers")]) [(PInt 8); (PStr [108; 105; 116; 116; 108; 101])]); (PName "b_tower_referents"); (PName "b_tower"); (PMeth "to_bytes/byteorder" (PAttr (PName "self") "status") [(PInt 4); (PStr [108; 105; 116; 116; 108; 101])])])])
  ] |}.
