(* _asn1.py :: def _pack_asn1_object_identifier(value, tag) : whole body *)
Definition k_flow_pack_asn1_object_identifier : pfun :=
  {| pf_params := ["value"; "tag"];
     pf_body := [
    SIf (PNot (PName "tag")) [
      SAssign ["tag"] (PCall "ASN1Tag.universal_tag" [(PName "TypeTagNumber.OBJECT_IDENTIFIER")])
    ] [];
    SReturn (PCall "_pack_asn1" [(PAttr (PName "tag") "tag_class"); (PAttr (PName "tag") "is_constructed"); (PAttr (PName "tag") "tag_number"); (PCall "_encode_object_identifier" [(PName "value")])])
  ] |}.
Definition k_flow_pack_asn1_object_identifier_defaults : list (string * pexp) := [("tag", PNone)].
