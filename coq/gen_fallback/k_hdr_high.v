(* _asn1.py :: _read_asn1_header :: ('if', 1) :  tag_number == 31 *)
Definition k_hdr_high (tag_number : Z) : bool :=
  (tag_number =? 31).
