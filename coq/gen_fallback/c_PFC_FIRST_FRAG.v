(* dpapi_ng._rpc._pdu :: int(PacketFlags.PFC_FIRST_FRAG) *)
Definition c_PFC_FIRST_FRAG : Z := 1.
