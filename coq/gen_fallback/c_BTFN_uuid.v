(* dpapi_ng._rpc._bind :: bind_time_feature_negotiation().uuid *)
Definition c_BTFN_uuid : list Z := [44; 28; 183; 108; 18; 152; 64; 69; 0; 0; 0; 0; 0; 0; 0; 0].
