(* _asn1.py :: def _read_asn1_generalized_time(data, tag, header, hint) : whole body *)
Definition k_flow_read_asn1_generalized_time : pfun :=
  {| pf_params := ["data"; "tag"; "header"; "hint"];
     pf_body := [
    SAssign ["raw_time"; "consumed"] (PCall "_validate_tag/header,hint" [(PName "data"); (PName "tag"); (PCall "ASN1Tag.universal_tag" [(PName "TypeTagNumber.GENERALIZED_TIME"); (PBool false)]); (PName "header"); (PName "hint")]);
    SReturn (PTuple [(PMeth "decode" (PMeth "tobytes" (PName "raw_time") []) [(PStr [117; 116; 102; 45; 56])]); (PName "consumed")])
  ] |}.
Definition k_flow_read_asn1_generalized_time_defaults : list (string * pexp) := [("tag", PNone); ("header", PNone); ("hint", PNone)].
