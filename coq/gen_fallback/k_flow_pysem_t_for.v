(* /verif/vlib/pysem_src.py :: def t_for(xs) : whole body *)
Definition k_flow_pysem_t_for : pfun :=
  {| pf_params := ["xs"];
     pf_body := [
    SAssign ["acc"] (PList []);
    SAssign ["total"] (PInt 0);
    SFor ["i"; "x"] (PCall "enumerate" [(PName "xs")]) [
      SIf (PCmp "<" (PName "x") (PInt 0)) [
        SContinue
      ] [];
      SIf (PCmp ">" (PName "x") (PInt 1000)) [
        SBreak
      ] [];
      SExpr (PMeth "append" (PName "acc") [(PBin "*" (PName "x") (PName "i"))]);
      SAssign ["total"] (PBin "+" (PName "total") (PName "x"))
    ];
    SReturn (PTuple [(PName "acc"); (PName "total")])
  ] |}.
