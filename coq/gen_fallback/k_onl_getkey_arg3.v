(* _client.py :: _sync_get_key :: shape kernel :  GetKey(... 3: l1  [= l1] ...) *)
Definition k_onl_getkey_arg3 (l1 : Z) : Z :=
  l1.
