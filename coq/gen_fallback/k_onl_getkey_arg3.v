(* _client.py :: _sync_get_key :: ('callarg', 'GetKey', 0, 3) :  l1 *)
Definition k_onl_getkey_arg3 (l1 : Z) : Z :=
  l1.
