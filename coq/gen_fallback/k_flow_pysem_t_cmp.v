(* /verif/vlib/pysem_src.py :: def t_cmp(a, b) : whole body *)
Definition k_flow_pysem_t_cmp : pfun :=
  {| pf_params := ["a"; "b"];
     pf_body := [
    SReturn (PList [(PCmp "<" (PName "a") (PName "b")); (PCmp "<=" (PName "a") (PName "b")); (PCmp "==" (PName "a") (PName "b")); (PCmp "!=" (PName "a") (PName "b")); (PCmp ">" (PName "a") (PName "b")); (PCmp ">=" (PName "a") (PName "b")); (PAnd (PCmp "<=" (PInt 0) (PName "a")) (PCmp "<=" (PName "a") (PName "b"))); (PAnd (PAnd (PCmp "<=" (PInt 0) (PName "a")) (PCmp "<" (PName "a") (PName "b"))) (PCmp "<" (PName "b") (PInt 100))); (PCmp "is" (PName "a") PNone); (PCmp "is not" (PName "b") PNone)])
  ] |}.
