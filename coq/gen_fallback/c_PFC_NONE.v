(* dpapi_ng._rpc._pdu :: int(PacketFlags.NONE) *)
Definition c_PFC_NONE : Z := 0.
