(* _asn1.py :: _read_asn1_integer :: ('augassign', 'int_value', 0) :  int_value * -1 *)
Definition k_int_negate (int_value : Z) : Z :=
  (int_value * (- 1)).
