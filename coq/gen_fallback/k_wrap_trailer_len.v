(* _rpc/_client.py :: RpcClient._prepare_pdu :: shape kernel :  header=view[:o0] body=view[o0:o1] sec_trailer=view[o1:o1+8]; self._auth.wrap(header, body, sec_trailer, self._sign_header) *)
Definition k_wrap_trailer_len  : Z :=
  8.
