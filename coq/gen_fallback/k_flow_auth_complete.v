(* _rpc/_auth.py :: def AuthenticationProvider.complete(self) : whole body *)
Definition k_flow_auth_complete : pfun :=
  {| pf_params := ["self"];
     pf_body := [
    SReturn (PAttr (PAttr (PName "self") "ctx") "complete")
  ] |}.
