(* _gkdi.py :: compute_l2_key : statement-level translation of the whole body *)
Section k_compute_l2_key_sec.
Context {K : Type} (kdf : K -> Z -> Z -> K).
Definition k_compute_l2_key (fuel : nat) (request_l1 : Z) (request_l2 : Z) (rk_l1 : Z) (rk_l2 : Z) (rk_l1_key : K) (rk_l2_key : K) : res K :=
  if (negb (((0 <=? request_l1) && (request_l1 <=? 31)) && ((0 <=? request_l2) && (request_l2 <=? 31)))) then Raise ValueError else
  if ((rk_l1 <? request_l1) || ((rk_l1 =? request_l1) && (rk_l2 <? request_l2))) then Raise ValueError else
  let l1 := rk_l1 in
  let l1_key := rk_l1_key in
  let l2 := rk_l2 in
  let l2_key := rk_l2_key in
  let reseed_l2 := ((l2 =? 31) || (negb (rk_l1 =? request_l1))) in
  let l1 := if ((negb (l2 =? 31)) && (negb (l1 =? request_l1))) then (let l1 := (l1 - 1) in l1) else l1 in
  let* (reseed_l2, l1, l1_key) := while fuel (fun '(reseed_l2, l1, l1_key) => (negb (l1 =? request_l1))) (fun '(reseed_l2, l1, l1_key) => let reseed_l2 := true in let l1 := (l1 - 1) in let l1_key := (kdf l1_key l1 (- 1)) in (reseed_l2, l1, l1_key)) (reseed_l2, l1, l1_key) in
  let '(l2, l2_key) := if reseed_l2 then (let l2 := 31 in let l2_key := (kdf l1_key l1 l2) in (l2, l2_key)) else (l2, l2_key) in
  let* (l2, l2_key) := while fuel (fun '(l2, l2_key) => (negb (l2 =? request_l2))) (fun '(l2, l2_key) => let l2 := (l2 - 1) in let l2_key := (kdf l2_key l1 l2) in (l2, l2_key)) (l2, l2_key) in
  Ok l2_key.
End k_compute_l2_key_sec.
