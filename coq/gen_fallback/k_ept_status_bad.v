(* _client.py :: _process_ept_map_result :: ('if', 0) :  map_response.status != 0 *)
Definition k_ept_status_bad (map_response_status : Z) : bool :=
  (negb (map_response_status =? 0)).
