(* _client.py :: ncrypt_unprotect_secret :: shape kernel :  _sync_get_key(... 5: blob.key_identifier.l2  [= DPAPINGBlob.unpack(data).key_identifier.l2] ...) *)
Definition k_onl_unprot_arg5 (l2 : Z) : Z :=
  l2.
