(* _asn1.py :: _pack_asn1 :: ('augassign', 'identifier_octets', 2) :  identifier_octets | 31 *)
Definition k_der_ident_high (identifier_octets : Z) : Z :=
  (Z.lor identifier_octets 31).
