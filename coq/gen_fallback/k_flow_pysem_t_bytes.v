(* /verif/vlib/pysem_src.py :: def t_bytes(b, n) : whole body *)
Definition k_flow_pysem_t_bytes : pfun :=
  {| pf_params := ["b"; "n"];
     pf_body := [
    SReturn (PMeth "join" (PBytes []) [(PList [(PName "b"); (PMeth "to_bytes" (PName "n") [(PInt 4); (PStr [108; 105; 116; 116; 108; 101])]); (PSlice (PName "b") PNone (PInt 2)); (PMeth "to_bytes/byteorder" (PName "n") [(PInt 2); (PStr [98; 105; 103])])])])
  ] |}.
