(* _client.py :: KeyCache._get_key :: shape kernel :  if not 0 <= l0 <= 2147483647:
    raise ValueError(f'L0 index {l0} is out of range') *)
Definition k_cache_l0_guard (l0 : Z) : bool :=
  (negb ((0 <=? l0) && (l0 <=? 2147483647))).
