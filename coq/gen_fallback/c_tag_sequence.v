(* dpapi_ng._asn1 :: TypeTagNumber.SEQUENCE *)
Definition c_tag_sequence : Z := 16.
