(* dpapi_ng._rpc._client :: NDR.version_minor *)
Definition c_NDR_version_minor : Z := 0.
