(* _rpc/_client.py :: def RpcClient._process_bind_ack(self, ack, contexts) : whole body *)
Definition k_flow_process_bind_ack : pfun :=
  {| pf_params := ["self"; "ack"; "contexts"];
     pf_body := [
    SAssign ["alter_contexts"] (PList []);
    SFor ["idx"; "c"] (PCall "enumerate" [(PName "contexts")]) [
      SAssign ["context_res"] (PSub (PAttr (PName "ack") "results") (PName "idx"));
      SIf (PCmp "==" (PAttr (PName "context_res") "result") (PName "ContextResultCode.ACCEPTANCE")) [
        SExpr (PMeth "append" (PName "alter_contexts") [(PName "c")])
      ] []
    ];
    SIf (PNot (PBin "&" (PAttr (PAttr (PName "ack") "header") "packet_flags") (PName "PacketFlags.PFC_SUPPORT_HEADER_SIGN"))) [
      SSetAttr "self" "_sign_header" (PBool false)
    ] [];
    SAssign ["auth_value"] PNone;
    SIf (PAttr (PName "ack") "sec_trailer") [
      SAssign ["auth_value"] (PAttr (PAttr (PName "ack") "sec_trailer") "auth_value")
    ] [];
    SReturn (PTuple [(PName "alter_contexts"); (PName "auth_value")])
  ] |}.
