(* _gkdi.py :: GroupKeyEnvelope.get_kek :: ('if', 1) :  self.l0 != key_id.l0 *)
Definition k_getkek_l0_mismatch (self_l0 : Z) (key_id_l0 : Z) : bool :=
  (negb (self_l0 =? key_id_l0)).
