(* _security_descriptor.py :: sid_to_bytes :: ('callarg', 'sid.split', 0, 0) :  '-' *)
Definition k_sid_split_sep  : list Z :=
  [45].
