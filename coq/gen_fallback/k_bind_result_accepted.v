(* _client.py :: _process_bind_result :: ('if', 0) :  c.result == ContextResultCode.ACCEPTANCE *)
Definition k_bind_result_accepted (c_result : Z) (ContextResultCode_ACCEPTANCE : Z) : bool :=
  (c_result =? ContextResultCode_ACCEPTANCE).
