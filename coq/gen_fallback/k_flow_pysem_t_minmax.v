(* /verif/vlib/pysem_src.py :: def t_minmax(a, b) : whole body *)
Definition k_flow_pysem_t_minmax : pfun :=
  {| pf_params := ["a"; "b"];
     pf_body := [
    SReturn (PTuple [(PCall "min" [(PName "a"); (PName "b")]); (PCall "max" [(PName "a"); (PName "b")]); (PCall "bool" [(PName "a")]); (PMeth "bit_length" (PName "a") [])])
  ] |}.
