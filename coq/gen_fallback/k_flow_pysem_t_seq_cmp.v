(* /verif/vlib/pysem_src.py :: def t_seq_cmp(x, y) : whole body *)
Definition k_flow_pysem_t_seq_cmp : pfun :=
  {| pf_params := ["x"; "y"];
     pf_body := [
    SReturn (PTuple [(PCmp "==" (PName "x") (PName "y")); (PCmp "!=" (PName "x") (PName "y")); (PCmp "<" (PName "x") (PName "y")); (PCmp "<=" (PName "x") (PName "y")); (PCmp ">" (PName "x") (PName "y")); (PCmp ">=" (PName "x") (PName "y"))])
  ] |}.
