(* _epm.py :: EptMap.pack :: ('assign', 'tower_padding', 0) :  -(len(b_tower) + 4) % 8 *)
Definition k_eptmap_pack_pad (len_b_tower : Z) : Z :=
  ((- (len_b_tower + 4)) mod 8).
