(* dpapi_ng._gkdi :: KDFParameters('').pack()[:8] *)
Definition c_KDF_PARAMS_MAGIC0 : list Z := [0; 0; 0; 0; 1; 0; 0; 0].
