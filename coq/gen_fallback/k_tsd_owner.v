(* _blob.py :: SIDDescriptor.get_target_sd :: ('callarg', 'sd_to_bytes', 0, 'owner') :  'S-1-5-18' *)
Definition k_tsd_owner  : list Z :=
  [83; 45; 49; 45; 53; 45; 49; 56].
