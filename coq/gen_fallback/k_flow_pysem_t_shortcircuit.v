(* /verif/vlib/pysem_src.py :: def t_shortcircuit(xs) : whole body *)
Definition k_flow_pysem_t_shortcircuit : pfun :=
  {| pf_params := ["xs"];
     pf_body := [
    SReturn (PTuple [(PAnd (PCmp ">" (PCall "len" [(PName "xs")]) (PInt 3)) (PSub (PName "xs") (PInt 3))); (POr (PCmp "==" (PCall "len" [(PName "xs")]) (PInt 0)) (PSub (PName "xs") (PInt 0))); (PIfExp (PName "xs") (PSub (PName "xs") (PInt 0)) PNone)])
  ] |}.
