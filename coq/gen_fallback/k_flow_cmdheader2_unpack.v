(* _rpc/_verification.py :: def CommandHeader2._unpack(cls, flags, value) : whole body *)
Definition k_flow_cmdheader2_unpack : pfun :=
  {| pf_params := ["cls"; "flags"; "value"];
     pf_body := [
    SAssign ["view"] (PCall "memoryview" [(PName "value")]);
    SReturn (PCall "()/flags,packet_type,data_rep,call_id,context_id,opnum" [(PName "cls"); (PName "flags"); (PCall "PacketType" [(PSub (PName "view") (PInt 0))]); (PCall "DataRep.unpack" [(PSlice (PName "view") (PInt 4) (PInt 8))]); (PCall "int.from_bytes/byteorder" [(PSlice (PName "view") (PInt 8) (PInt 12)); (PStr [108; 105; 116; 116; 108; 101])]); (PCall "int.from_bytes/byteorder" [(PSlice (PName "view") (PInt 12) (PInt 14)); (PStr [108; 105; 116; 116; 108; 101])]); (PCall "int.from_bytes/byteorder" [(PSlice (PName "view") (PInt 14) (PInt 16)); (PStr [108; 105; 116; 116; 108; 101])])])
  ] |}.
