(* _gkdi.py :: def FFCDHKey.pack(self) : whole body *)
Definition k_flow_ffk_pack : pfun :=
  {| pf_params := ["self"];
     pf_body := [
    SAssign ["b_field_order"] (PMeth "to_bytes/byteorder" (PAttr (PName "self") "field_order") [(PAttr (PName "self") "key_length"); (PStr [98; 105; 103])]);
    SAssign ["b_generator"] (PMeth "to_bytes/byteorder" (PAttr (PName "self") "generator") [(PAttr (PName "self") "key_length"); (PStr [98; 105; 103])]);
    SAssign ["b_pub_key"] (PMeth "to_bytes/byteorder" (PAttr (PName "self") "public_key") [(PAttr (PName "self") "key_length"); (PStr [98; 105; 103])]);
    SReturn (PMeth "join" (PBytes []) [(PList [(PAttr (PName "self") "magic"); (PMeth "to_bytes/byteorder" (PAttr (PName "self") "key_length") [(PInt 4); (PStr [108; 105; 116; 116; 108; 101])]); (PName "b_field_order"); (PName "b_generator"); (PName "b_pub_key")])])
  ] |}.
