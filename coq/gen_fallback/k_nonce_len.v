(* _gkdi.py :: GroupKeyEnvelope.new_kek :: ('callarg', 'os.urandom', 1, 0) :  32 *)
Definition k_nonce_len  : Z :=
  32.
