(* _client.py :: _get_protection_gke_from_cache :: ('assign', 'l0', 0) :  current_time // (32 * 32 * base) *)
Definition k_l0 (current_time : Z) : Z :=
  (current_time / ((32 * 32) * 360000000000)).
