(* dpapi_ng._asn1 :: TypeTagNumber.ENUMERATED *)
Definition c_tag_enumerated : Z := 10.
