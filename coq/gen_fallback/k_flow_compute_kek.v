(* _gkdi.py :: def compute_kek(algorithm, secret_algorithm, secret_parameters, private_key, public_key) : whole body *)
Definition k_flow_compute_kek : pfun :=
  {| pf_params := ["algorithm"; "secret_algorithm"; "secret_parameters"; "private_key"; "public_key"];
     pf_body := [
    SIf (PCmp "==" (PName "secret_algorithm") (PStr [68; 72])) [
      SAssign ["dh_pub_key"] (PCall "FFCDHKey.unpack" [(PName "public_key")]);
      SAssign ["dh_params"] (PCall "FFCDHParameters.unpack" [(POr (PName "secret_parameters") (PBytes []))]);
      SIf (PCmp "!=" (PTuple [(PAttr (PName "dh_pub_key") "key_length"); (PAttr (PName "dh_pub_key") "field_order"); (PAttr (PName "dh_pub_key") "generator")]) (PTuple [(PAttr (PName "dh_params") "key_length"); (PAttr (PName "dh_params") "field_order"); (PAttr (PName "dh_params") "generator")])) [
        SRaise "ValueError"
      ] [];
      SIf (PNot (PAnd (PCmp "<" (PInt 1) (PAttr (PName "dh_pub_key") "public_key")) (PCmp "<" (PAttr (PName "dh_pub_key") "public_key") (PBin "-" (PAttr (PName "dh_pub_key") "field_order") (PInt 1))))) [
        SRaise "ValueError"
      ] [];
      SAssign ["shared_secret_int"] (PCall "pow" [(PAttr (PName "dh_pub_key") "public_key"); (PCall "int.from_bytes/byteorder" [(PName "private_key"); (PStr [98; 105; 103])]); (PAttr (PName "dh_pub_key") "field_order")]);
      SAssign ["shared_secret"] (PMeth "to_bytes/byteorder" (PName "shared_secret_int") [(PAttr (PName "dh_pub_key") "key_length"); (PStr [98; 105; 103])]);
      SAssign ["secret_hash_algorithm"] (PCall "hashes.SHA256" [])
    ] [
      SIf (PMeth "startswith" (PName "secret_algorithm") [(PStr [69; 67; 68; 72; 95; 80])]) [
        SAssign ["ecdh_pub_key_info"] (PCall "ECDHKey.unpack" [(PName "public_key")]);
        SAssign ["curve"; "secret_hash_algorithm"] (PAttr (PName "ecdh_pub_key_info") "curve_and_hash");
        SAssign ["ecdh_pub_key"] (PMeth "public_key" (PCall "ec.EllipticCurvePublicNumbers" [(PAttr (PName "ecdh_pub_key_info") "x"); (PAttr (PName "ecdh_pub_key_info") "y"); (PName "curve")]) []);
        SAssign ["ecdh_private"] (PCall "ec.derive_private_key" [(PCall "int.from_bytes/byteorder" [(PName "private_key"); (PStr [98; 105; 103])]); (PName "curve")]);
        SAssign ["shared_secret"] (PMeth "exchange" (PName "ecdh_private") [(PCall "ec.ECDH" []); (PName "ecdh_pub_key")])
      ] [
        SRaise "NotImplementedError"
      ]
    ];
    SAssign ["kek_context"] (PMeth "encode" (PStr [75; 68; 83; 32; 112; 117; 98; 108; 105; 99; 32; 107; 101; 121; 0]) [(PStr [117; 116; 102; 45; 49; 54; 45; 108; 101])]);
    SAssign ["secret"] (PCall "kdf_concat/algorithm_id,party_uinfo,party_vinfo,length" [(PName "secret_hash_algorithm"); (PName "shared_secret"); (PMeth "encode" (PStr [83; 72; 65; 53; 49; 50; 0]) [(PStr [117; 116; 102; 45; 49; 54; 45; 108; 101])]); (PName "kek_context"); (PName "KDS_SERVICE_LABEL"); (PAttr (PName "secret_hash_algorithm") "digest_size")]);
    SReturn (PCall "kdf" [(PName "algorithm"); (PName "secret"); (PName "KDS_SERVICE_LABEL"); (PName "kek_context"); (PInt 32)])
  ] |}.
