(* _client.py :: def _process_bind_result(requested_contexts, bind_ack, desired_context) : whole body *)
Definition k_flow_process_bind_result : pfun :=
  {| pf_params := ["requested_contexts"; "bind_ack"; "desired_context"];
     pf_body := [
    SAssign ["accepted_ids"] (PList []);
    SFor ["idx"; "c"] (PCall "enumerate" [(PAttr (PName "bind_ack") "results")]) [
      SIf (PCmp "==" (PAttr (PName "c") "result") (PName "ContextResultCode.ACCEPTANCE")) [
        SAssign ["ctx"] (PSub (PName "requested_contexts") (PName "idx"));
        SExpr (PMeth "append" (PName "accepted_ids") [(PAttr (PName "ctx") "context_id")])
      ] []
    ];
    SIf (PCmp "not in" (PName "desired_context") (PName "accepted_ids")) [
      SRaise "ValueError"
    ] [];
    SReturn PNone
  ] |}.
