(* _gkdi.py :: GroupKeyEnvelope.new_kek :: ('callarg', 'os.urandom', 0, 0) :  math.ceil(self.private_key_length / 8) *)
Definition k_ceil_priv_new (self_private_key_length : Z) : Z :=
  (py_truediv_ceil self_private_key_length 8).
