(* _epm.py :: def Floor.unpack(cls, data) : whole body *)
Definition k_flow_floor_unpack : pfun :=
  {| pf_params := ["cls"; "data"];
     pf_body := [
    SAssign ["view"] (PCall "memoryview" [(PName "data")]);
    SAssign ["lhs_len"] (PCall "int.from_bytes/byteorder" [(PSlice (PName "view") PNone (PInt 2)); (PStr [108; 105; 116; 116; 108; 101])]);
    SAssign ["proto"] (PCall "FloorProtocol" [(PSub (PName "view") (PInt 2))]);
    SAssign ["lhs"] (PMeth "tobytes" (PSlice (PName "view") (PInt 3) (PBin "+" (PName "lhs_len") (PInt 2))) []);
    SAssign ["offset"] (PBin "+" (PName "lhs_len") (PInt 2));
    SAssign ["rhs_len"] (PCall "int.from_bytes/byteorder" [(PSlice (PName "view") (PName "offset") (PBin "+" (PName "offset") (PInt 2))); (PStr [108; 105; 116; 116; 108; 101])]);
    SAssign ["rhs"] (PMeth "tobytes" (PSlice (PName "view") (PBin "+" (PName "offset") (PInt 2)) (PBin "+" (PBin "+" (PName "offset") (PName "rhs_len")) (PInt 2))) []);
    SAssign ["unpack_func"] (PCall "_FLOOR_TYPE_REGISTRY.get" [(PName "proto"); PNone]);
    SIf (PName "unpack_func") [
      SAssign ["floor"] (PCall "()" [(PName "unpack_func"); (PName "lhs"); (PName "rhs")]);
      SSetAttr "floor" "lhs" (PName "lhs");
      SSetAttr "floor" "rhs" (PName "rhs");
      SReturn (PName "floor")
    ] [
      SReturn (PCall "()/protocol,lhs,rhs" [(PName "cls"); (PName "proto"); (PName "lhs"); (PName "rhs")])
    ]
  ] |}.
