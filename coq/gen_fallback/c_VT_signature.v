(* dpapi_ng._rpc._verification :: VerificationTrailer([]).signature *)
Definition c_VT_signature : list Z := [138; 227; 19; 113; 2; 244; 54; 113].
