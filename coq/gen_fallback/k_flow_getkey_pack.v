(* _gkdi.py :: def GetKey.pack(self) : whole body *)
Definition k_flow_getkey_pack : pfun :=
  {| pf_params := ["self"];
     pf_body := [
    SAssign ["target_sd_len"] (PMeth "to_bytes/byteorder" (PCall "len" [(PAttr (PName "self") "target_sd")]) [(PInt 8); (PStr [108; 105; 116; 116; 108; 101])]);
    SIf (PAttr (PName "self") "root_key_id") [
      SAssign ["b_root_key"] (PBin "+" (PBytes [0; 0; 2; 0; 0; 0; 0; 0]) (PAttr (PAttr (PName "self") "root_key_id") "bytes_le"))
    ] [
      SAssign ["b_root_key"] (PBin "*" (PBytes [0]) (PInt 8))
    ];
    SReturn (PMeth "join" (PBytes []) [(PList [(PName "target_sd_len"); (PName "target_sd_len"); (PAttr (PName "self") "target_sd"); (PBin "*" (PBytes [0]) (PBin "%" (PNeg (PCall "len" [(PAttr (PName "self") "target_sd")])) (PInt 8))); (PName "b_root_key"); (PMeth "to_bytes/byteorder,signed" (PAttr (PName "self") "l0_key_id") [(PInt 4); (PStr [108; 105; 116; 116; 108; 101]); (PBool true)]); (PMeth "to_bytes/byteorder,signed" (PAttr (PName "self") "l1_key_id") [(PInt 4); (PStr [108; 105; 116; 116; 108; 101]); (PBool true)]); (PMeth "to_bytes/byteorder,signed" (PAttr (PName "self") "l2_key_id") [(PInt 4); (PStr [108; 105; 116; 116; 108; 101]); (PBool true)])])])
  ] |}.
