(* _rpc/_request.py :: Request._unpack :: ('if', 0) :  header.packet_flags & PacketFlags.PFC_OBJECT_UUID *)
Definition k_req_obj_mask (header_packet_flags : Z) (PacketFlags_PFC_OBJECT_UUID : Z) : Z :=
  (Z.land header_packet_flags PacketFlags_PFC_OBJECT_UUID).
