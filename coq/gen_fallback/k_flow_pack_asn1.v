(* _asn1.py :: def _pack_asn1(tag_class, constructed, tag_number, data) : whole body *)
Definition k_flow_pack_asn1 : pfun :=
  {| pf_params := ["tag_class"; "constructed"; "tag_number"; "data"];
     pf_body := [
    SAssign ["b_asn1_data"] (PCall "bytearray" []);
    SIf (POr (PCmp "<" (PName "tag_class") (PInt 0)) (PCmp ">" (PName "tag_class") (PInt 3))) [
      SRaise "ValueError"
    ] [];
    SAssign ["identifier_octets"] (PBin "<<" (PName "tag_class") (PInt 6));
    SAssign ["identifier_octets"] (PBin "|" (PName "identifier_octets") (PBin "<<" (PIfExp (PName "constructed") (PInt 1) (PInt 0)) (PInt 5)));
    SIf (PCmp "<" (PName "tag_number") (PInt 31)) [
      SAssign ["identifier_octets"] (PBin "|" (PName "identifier_octets") (PName "tag_number"));
      SExpr (PMeth "append" (PName "b_asn1_data") [(PName "identifier_octets")])
    ] [
      SAssign ["identifier_octets"] (PBin "|" (PName "identifier_octets") (PInt 31));
      SExpr (PMeth "append" (PName "b_asn1_data") [(PName "identifier_octets")]);
      SExpr (PMeth "extend" (PName "b_asn1_data") [(PCall "_pack_asn1_octet_number" [(PName "tag_number")])])
    ];
    SAssign ["length"] (PCall "len" [(PName "data")]);
    SIf (PCmp "<" (PName "length") (PInt 128)) [
      SExpr (PMeth "append" (PName "b_asn1_data") [(PName "length")])
    ] [
      SAssign ["length_octets"] (PCall "bytearray" []);
      SWhile (PName "length") [
        SExpr (PMeth "append" (PName "length_octets") [(PBin "&" (PName "length") (PInt 255))]);
        SAssign ["length"] (PBin ">>" (PName "length") (PInt 8))
      ];
      SExpr (PMeth "reverse" (PName "length_octets") []);
      SExpr (PMeth "append" (PName "b_asn1_data") [(PBin "|" (PCall "len" [(PName "length_octets")]) (PInt 128))]);
      SExpr (PMeth "extend" (PName "b_asn1_data") [(PName "length_octets")])
    ];
    SReturn (PBin "+" (PCall "bytes" [(PName "b_asn1_data")]) (PCall "bytes" [(PName "data")]))
  ] |}.
