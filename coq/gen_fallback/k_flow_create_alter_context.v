(* _rpc/_client.py :: def RpcClient._create_alter_context(self, contexts, sec_trailer) : whole body *)
Definition k_flow_create_alter_context : pfun :=
  {| pf_params := ["self"; "contexts"; "sec_trailer"];
     pf_body := [
    SAssign ["flags"] (PIfExp (PAttr (PName "self") "_sign_header") (PName "PacketFlags.PFC_SUPPORT_HEADER_SIGN") (PName "PacketFlags.NONE"));
    SReturn (PCall "AlterContext/header,sec_trailer,max_xmit_frag,max_recv_frag,assoc_group,contexts" [(PMeth "_create_pdu_header/flags" (PName "self") [(PName "PacketType.ALTER_CONTEXT"); (PCall "len" [(PAttr (PName "sec_trailer") "auth_value")]); (PInt 1); (PName "flags")]); (PName "sec_trailer"); (PInt 5840); (PInt 5840); (PInt 0); (PName "contexts")])
  ] |}.
