(* _dns.py :: lookup_dc :: ('assign', 'record', 0) :  f'_ldap._tcp.dc._msdcs.{domain_name}' *)
Definition k_srv_name_domain (domain_name : list Z) : list Z :=
  ([95; 108; 100; 97; 112; 46; 95; 116; 99; 112; 46; 100; 99; 46; 95; 109; 115; 100; 99; 115; 46] ++ domain_name).
