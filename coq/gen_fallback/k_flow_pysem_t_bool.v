(* /verif/vlib/pysem_src.py :: def t_bool(a, b) : whole body *)
Definition k_flow_pysem_t_bool : pfun :=
  {| pf_params := ["a"; "b"];
     pf_body := [
    SReturn (PTuple [(PAnd (PName "a") (PName "b")); (POr (PName "a") (PName "b")); (PNot (PName "a")); (PAnd (POr (PName "a") (PName "b")) (PName "a")); (PIfExp (PName "b") (PName "a") (PInt (-1)))])
  ] |}.
