(* _rpc/_verification.py :: def CommandBitmask.pack(self) : whole body *)
Definition k_flow_cmdbitmask_pack : pfun :=
  {| pf_params := ["self"];
     pf_body := [
    SReturn (PMeth "pack" (PCall "Command" [(PAttr (PName "self") "command"); (PAttr (PName "self") "flags"); (PMeth "to_bytes/byteorder" (PAttr (PName "self") "bits") [(PInt 4); (PStr [108; 105; 116; 116; 108; 101])])]) [])
  ] |}.
