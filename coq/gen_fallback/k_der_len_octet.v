(* _asn1.py :: _pack_asn1 :: ('callarg', 'length_octets.append', 0, 0) :  length & 255 *)
Definition k_der_len_octet (length : Z) : Z :=
  (Z.land length 255).
