(* dpapi_ng._gkdi :: FFCDHKey.magic *)
Definition c_FFCDH_KEY_MAGIC : list Z := [68; 72; 80; 66].
