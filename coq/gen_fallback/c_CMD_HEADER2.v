(* dpapi_ng._rpc._verification :: int(CommandType.SEC_VT_COMMAND_HEADER2) *)
Definition c_CMD_HEADER2 : Z := 3.
