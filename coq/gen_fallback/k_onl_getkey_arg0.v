(* _client.py :: _sync_get_key :: shape kernel :  GetKey(... 0: target_sd  [= target_sd] ...) *)
Definition k_onl_getkey_arg0 (target_sd : list Z) : list Z :=
  target_sd.
