(* _client.py :: _sync_get_key :: ('callarg', 'GetKey', 0, 0) :  target_sd *)
Definition k_onl_getkey_arg0 (target_sd : list Z) : list Z :=
  target_sd.
