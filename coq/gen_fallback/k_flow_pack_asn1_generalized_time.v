(* _asn1.py :: def _pack_asn1_generalized_time(value, tag) : whole body *)
Definition k_flow_pack_asn1_generalized_time : pfun :=
  {| pf_params := ["value"; "tag"];
     pf_body := [
    SIf (PNot (PName "tag")) [
      SAssign ["tag"] (PCall "ASN1Tag.universal_tag" [(PName "TypeTagNumber.GENERALIZED_TIME")])
    ] [];
    SReturn (PCall "_pack_asn1" [(PAttr (PName "tag") "tag_class"); (PAttr (PName "tag") "is_constructed"); (PAttr (PName "tag") "tag_number"); (PMeth "encode" (PName "value") [(PStr [117; 116; 102; 45; 56])])])
  ] |}.
Definition k_flow_pack_asn1_generalized_time_defaults : list (string * pexp) := [("tag", PNone)].
