(* _epm.py :: def TCPFloor._unpack(cls, lhs, rhs) : whole body *)
Definition k_flow_tcpfloor_unpack : pfun :=
  {| pf_params := ["cls"; "lhs"; "rhs"];
     pf_body := [
    SReturn (PCall "TCPFloor" [(PCall "int.from_bytes/byteorder" [(PName "rhs"); (PStr [98; 105; 103])])])
  ] |}.
