(* _asn1.py :: _read_asn1_header :: ('augassign', 'length', 0) :  length + (octet_val << 8 * (length_octets - 1 - idx)) *)
Definition k_hdr_len_acc (length : Z) (octet_val : Z) (length_octets : Z) (idx : Z) : Z :=
  (length + (Z.shiftl octet_val (8 * ((length_octets - 1) - idx)))).
