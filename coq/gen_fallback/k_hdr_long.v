(* _asn1.py :: _read_asn1_header :: ('if', 5) :  length & 128 *)
Definition k_hdr_long (length : Z) : Z :=
  (Z.land length 128).
