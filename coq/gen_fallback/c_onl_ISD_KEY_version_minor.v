(* dpapi_ng._gkdi :: ISD_KEY.version_minor *)
Definition c_onl_ISD_KEY_version_minor : Z := 0.
