(* dpapi_ng._client :: _ISD_KEY_CONTEXTS[0].context_id *)
Definition c_onl_isd_ctx_id : Z := 0.
