(* _rpc/_client.py :: SyncRpcClient._send_pdu :: shape kernel :  statement skeleton of SyncRpcClient._send_pdu (send, header loop, buffer, body loop, _process_response) *)
Definition k_recv_sync_shape  : bool :=
  true.
