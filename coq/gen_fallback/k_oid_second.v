(* _asn1.py :: _read_asn1_object_identifier :: ('assign', 'second_element', 0) :  first_element % 40 *)
Definition k_oid_second (first_element : Z) : Z :=
  (first_element mod 40).
