(* _client.py :: _sync_get_key :: shape kernel :  rpc.request(0, ept_map.opnum, ept_map.pack()) *)
Definition k_onl_sync_epm_ctx (epm_context_id : Z) : Z :=
  0.
