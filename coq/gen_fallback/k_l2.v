(* _client.py :: _get_protection_gke_from_cache :: ('assign', 'l2', 0) :  current_time % (32 * base) // base *)
Definition k_l2 (current_time : Z) : Z :=
  ((current_time mod (32 * 360000000000)) / 360000000000).
