(* _security_descriptor.py :: sd_to_bytes :: ('augassign', 'current_offset', 0) :  current_offset + len(sacl_bytes) *)
Definition k_sd_off_sacl (current_offset : Z) (len_sacl_bytes : Z) : Z :=
  (current_offset + len_sacl_bytes).
