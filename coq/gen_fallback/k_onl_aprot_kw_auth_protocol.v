(* _client.py :: async_ncrypt_protect_secret :: shape kernel :  _async_get_key(... auth_protocol: auth_protocol  [= auth_protocol] ...) *)
Definition k_onl_aprot_kw_auth_protocol (auth_protocol : list Z) : list Z :=
  auth_protocol.
