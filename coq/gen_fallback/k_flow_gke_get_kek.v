(* _gkdi.py :: def GroupKeyEnvelope.get_kek(self, key_id) : whole body *)
Definition k_flow_gke_get_kek : pfun :=
  {| pf_params := ["self"; "key_id"];
     pf_body := [
    SIf (PAttr (PName "self") "is_public_key") [
      SRaise "ValueError"
    ] [];
    SIf (PCmp "!=" (PAttr (PName "self") "l0") (PAttr (PName "key_id") "l0")) [
      SRaise "ValueError"
    ] [];
    SIf (PCmp "!=" (PAttr (PName "self") "kdf_algorithm") (PStr [83; 80; 56; 48; 48; 95; 49; 48; 56; 95; 67; 84; 82; 95; 72; 77; 65; 67])) [
      SRaise "NotImplementedError"
    ] [];
    SAssign ["kdf_parameters"] (PCall "KDFParameters.unpack" [(PAttr (PName "self") "kdf_parameters")]);
    SAssign ["hash_algo"] (PAttr (PName "kdf_parameters") "hash_algorithm");
    SAssign ["l2_key"] (PCall "compute_l2_key" [(PName "hash_algo"); (PAttr (PName "key_id") "l1"); (PAttr (PName "key_id") "l2"); (PName "self")]);
    SIf (PAttr (PName "key_id") "is_public_key") [
      SReturn (PCall "compute_kek_from_public_key/algorithm,seed,secret_algorithm,secret_parameters,public_key,private_key_length" [(PName "hash_algo"); (PName "l2_key"); (PAttr (PName "self") "secret_algorithm"); (PAttr (PName "self") "secret_parameters"); (PAttr (PName "key_id") "key_info"); (PCall "math.ceil" [(PBin "/" (PAttr (PName "self") "private_key_length") (PInt 8))])])
    ] [
      SReturn (PCall "kdf" [(PName "hash_algo"); (PName "l2_key"); (PName "KDS_SERVICE_LABEL"); (PAttr (PName "key_id") "key_info"); (PInt 32)])
    ]
  ] |}.
