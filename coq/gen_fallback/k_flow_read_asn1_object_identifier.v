(* _asn1.py :: def _read_asn1_object_identifier(data, tag, header, hint) : whole body *)
Definition k_flow_read_asn1_object_identifier : pfun :=
  {| pf_params := ["data"; "tag"; "header"; "hint"];
     pf_body := [
    SAssign ["raw_oid"; "consumed"] (PCall "_validate_tag/header,hint" [(PName "data"); (PName "tag"); (PCall "ASN1Tag.universal_tag" [(PName "TypeTagNumber.OBJECT_IDENTIFIER"); (PBool false)]); (PName "header"); (PName "hint")]);
    SIf (PNot (PName "raw_oid")) [
      SRaise "ValueError"
    ] [];
    SAssign ["first_element"] (PSub (PCall "struct.unpack" [(PStr [66]); (PSlice (PName "raw_oid") PNone (PInt 1))]) (PInt 0));
    SAssign ["second_element"] (PBin "%" (PName "first_element") (PInt 40));
    SAssign ["ids"] (PList [(PBin "//" (PBin "-" (PName "first_element") (PName "second_element")) (PInt 40)); (PName "second_element")]);
    SAssign ["idx"] (PInt 1);
    SWhile (PCmp "!=" (PName "idx") (PCall "len" [(PName "raw_oid")])) [
      SAssign ["oid"; "octet_len"] (PCall "_unpack_asn1_octet_number" [(PSlice (PName "raw_oid") (PName "idx") PNone)]);
      SExpr (PMeth "append" (PName "ids") [(PName "oid")]);
      SAssign ["idx"] (PBin "+" (PName "idx") (PName "octet_len"))
    ];
    SReturn (PTuple [(PMeth "join" (PStr [46]) [(PComp (PCall "str" [(PName "i")]) ["i"] (PName "ids") [])]); (PName "consumed")])
  ] |}.
Definition k_flow_read_asn1_object_identifier_defaults : list (string * pexp) := [("tag", PNone); ("header", PNone); ("hint", PNone)].
