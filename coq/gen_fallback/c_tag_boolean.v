(* dpapi_ng._asn1 :: TypeTagNumber.BOOLEAN *)
Definition c_tag_boolean : Z := 1.
