(* dpapi_ng._rpc._pdu :: int(PacketType.RESPONSE) *)
Definition c_PT_RESPONSE : Z := 2.
