(* _dns.py :: lookup_dc :: ('if', 0) :  domain_name *)
Definition k_srv_name_test (domain_name : list Z) : bool :=
  (negb (Nat.eqb (length domain_name) 0)).
