(* _blob.py :: def KeyIdentifier.is_public_key(self) : whole body *)
Definition k_flow_kid_is_public_key : pfun :=
  {| pf_params := ["self"];
     pf_body := [
    SReturn (PCall "bool" [(PBin "&" (PAttr (PName "self") "flags") (PInt 1))])
  ] |}.
