(* dpapi_ng._security_descriptor :: ace_to_bytes('S-1-1-0', 2) *)
Definition c_sd_vec_ace : list Z := [0; 0; 20; 0; 2; 0; 0; 0; 1; 1; 0; 0; 0; 0; 0; 1; 0; 0; 0; 0].
