(* dpapi_ng._client :: _EPT_MAP_ISD_KEY.opnum *)
Definition c_onl_ept_map_opnum : Z := 3.
