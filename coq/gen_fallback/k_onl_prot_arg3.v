(* _client.py :: ncrypt_protect_secret :: shape kernel :  _sync_get_key(... 3: l0  [= -1] ...) *)
Definition k_onl_prot_arg3  : Z :=
  (-1).
