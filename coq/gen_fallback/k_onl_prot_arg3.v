(* _client.py :: ncrypt_protect_secret :: ('callarg', '_sync_get_key', 0, 3) :  l0 *)
Definition k_onl_prot_arg3  : Z :=
  (- 1).
