(* dpapi_ng._gkdi :: ECDHKey('P521', 0, 0, 0).pack()[:4] *)
Definition c_ECDH_P521_MAGIC : list Z := [69; 67; 75; 53].
