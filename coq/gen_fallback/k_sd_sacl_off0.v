(* _security_descriptor.py :: sd_to_bytes :: ('assign', 'sacl_offset', 0) :  0 *)
Definition k_sd_sacl_off0  : Z :=
  0.
