(* _pkcs7.py :: def AlgorithmIdentifier.pack(self, writer) : whole body *)
Definition k_flow_AlgorithmIdentifier_pack : pfun :=
  {| pf_params := ["self"; "writer"];
     pf_body := [
    SWith (PMeth "push_sequence" (PName "writer") []) (Some "w") [
      SExpr (PMeth "write_object_identifier" (PName "w") [(PAttr (PName "self") "algorithm")]);
      SIf (PAttr (PName "self") "parameters") [
        SExpr (PMeth "write_raw" (PName "w") [(PAttr (PName "self") "parameters")])
      ] []
    ]
  ] |}.
