(* _rpc/_client.py :: RpcClient._process_response :: shape kernel :  header=view[:o0] body=view[o0:off] sec_trailer=view[off:off+8] signature=view[off+8:]; response[o0:off] = dec_stub *)
Definition k_unwrap_trailer_len  : Z :=
  8.
