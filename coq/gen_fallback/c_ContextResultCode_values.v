(* dpapi_ng._rpc._bind :: sorted(int(x) for x in ContextResultCode) *)
Definition c_ContextResultCode_values : list Z := [0; 1; 2; 3].
