(* _gkdi.py :: compute_kek :: ('callarg', 'kdf', 0, 4) :  32 *)
Definition k_kek_len_pub  : Z :=
  32.
