(* _epm.py :: def EptMap.unpack(cls, data) : whole body *)
Definition k_flow_eptmap_unpack : pfun :=
  {| pf_params := ["cls"; "data"];
     pf_body := [
    SAssign ["view"] (PCall "memoryview" [(PName "data")]);
    SAssign ["b_obj"] (PMeth "tobytes" (PSlice (PName "view") (PInt 8) (PInt 24)) []);
    SIf (PCmp "==" (PName "b_obj") (PBin "*" (PBytes [0]) (PInt 16))) [
      SAssign ["obj"] PNone
    ] [
      SAssign ["obj"] (PCall "uuid.UUID/bytes_le" [(PName "b_obj")])
    ];
    SAssign ["view"] (PSlice (PName "view") (PInt 32) PNone);
    SAssign ["tower_length"] (PCall "int.from_bytes/byteorder" [(PSlice (PName "view") PNone (PInt 8)); (PStr [108; 105; 116; 116; 108; 101])]);
    SAssign ["padding"] (PBin "%" (PNeg (PBin "+" (PName "tower_length") (PInt 4))) (PInt 8));
    SAssign ["floor_len"] (PCall "int.from_bytes/byteorder" [(PSlice (PName "view") (PInt 12) (PInt 14)); (PStr [108; 105; 116; 116; 108; 101])]);
    SAssign ["view"] (PSlice (PName "view") (PInt 14) PNone);
    SAssign ["tower"] (PList []);
    SFor ["_"] (PCall "range" [(PName "floor_len")]) [
      SAssign ["floor"] (PCall "Floor.unpack" [(PName "view")]);
      SAssign ["view"] (PSlice (PName "view") (PBin "+" (PBin "+" (PCall "len" [(PAttr (PName "floor") "lhs")]) (PCall "len" [(PAttr (PName "floor") "rhs")])) (PInt 5)) PNone);
      SExpr (PMeth "append" (PName "tower") [(PName "floor")])
    ];
    SAssign ["view"] (PSlice (PName "view") (PName "padding") PNone);
    SAssign ["b_entry_handle"] (PMeth "tobytes" (PSlice (PName "view") PNone (PInt 20)) []);
    SIf (PCmp "==" (PName "b_entry_handle") (PBin "*" (PBytes [0]) (PInt 20))) [
      SAssign ["entry_handle"] PNone
    ] [
      SAssign ["entry_handle"] (PTuple [(PCall "int.from_bytes/byteorder" [(PSlice (PName "view") PNone (PInt 4)); (PStr [108; 105; 116; 116; 108; 101])]); (PCall "uuid.UUID/bytes_le" [(PMeth "tobytes" (PSlice (PName "view") (PInt 4) (PInt 20)) [])])])
    ];
    SAssign ["max_towers"] (PCall "int.from_bytes/byteorder" [(PSlice (PName "view") (PInt 20) (PInt 24)); (PStr [108; 105; 116; 116; 108; 101])]);
    SReturn (PCall "()/obj,tower,entry_handle,max_towers" [(PName "cls"); (PName "obj"); (PName "tower"); (PName "entry_handle"); (PName "max_towers")])
  ] |}.
