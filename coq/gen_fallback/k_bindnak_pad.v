(* _rpc/_bind.py :: BindNak.pack :: ('assign', 'padding', 0) :  -(2 + len(b_versions)) % 4 *)
Definition k_bindnak_pad (len_b_versions : Z) : Z :=
  ((- (2 + len_b_versions)) mod 4).
