(* dpapi_ng._client :: _EPM_CONTEXTS[0].context_id *)
Definition c_onl_epm_ctx_id : Z := 0.
