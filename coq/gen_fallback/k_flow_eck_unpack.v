(* _gkdi.py :: def ECDHKey.unpack(cls, data) : whole body *)
Definition k_flow_eck_unpack : pfun :=
  {| pf_params := ["cls"; "data"];
     pf_body := [
    SAssign ["view"] (PCall "memoryview" [(PName "data")]);
    SAssign ["curve_id"] (PCall "int.from_bytes/byteorder" [(PSlice (PName "view") PNone (PInt 4)); (PStr [108; 105; 116; 116; 108; 101])]);
    SAssign ["curve"] (PMeth "get" (PCall "dict" [(PTuple [(PInt 827016005); (PStr [80; 50; 53; 54])]); (PTuple [(PInt 860570437); (PStr [80; 51; 56; 52])]); (PTuple [(PInt 894124869); (PStr [80; 53; 50; 49])])]) [(PName "curve_id"); PNone]);
    SIf (PNot (PName "curve")) [
      SRaise "ValueError"
    ] [];
    SAssign ["length"] (PCall "int.from_bytes/byteorder" [(PSlice (PName "view") (PInt 4) (PInt 8)); (PStr [108; 105; 116; 116; 108; 101])]);
    SAssign ["x"] (PMeth "tobytes" (PSlice (PName "view") (PInt 8) (PBin "+" (PInt 8) (PName "length"))) []);
    SAssign ["view"] (PSlice (PName "view") (PBin "+" (PInt 8) (PName "length")) PNone);
    SAssign ["y"] (PMeth "tobytes" (PSlice (PName "view") PNone (PName "length")) []);
    SReturn (PCall "ECDHKey/curve_name,key_length,x,y" [(PName "curve"); (PName "length"); (PCall "int.from_bytes/byteorder" [(PName "x"); (PStr [98; 105; 103])]); (PCall "int.from_bytes/byteorder" [(PName "y"); (PStr [98; 105; 103])])])
  ] |}.
