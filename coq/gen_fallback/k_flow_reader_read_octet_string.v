(* _asn1.py :: def ASN1Reader.read_octet_string(self, tag, header, hint) : whole body *)
Definition k_flow_reader_read_octet_string : pfun :=
  {| pf_params := ["self"; "tag"; "header"; "hint"];
     pf_body := [
    SAssign ["val"; "consumed"] (PCall "_read_asn1_octet_string/tag,header,hint" [(PAttr (PName "self") "_view"); (PName "tag"); (PName "header"); (PName "hint")]);
    SSetAttr "self" "_view" (PSlice (PAttr (PName "self") "_view") (PName "consumed") PNone);
    SReturn (PMeth "tobytes" (PName "val") [])
  ] |}.
Definition k_flow_reader_read_octet_string_defaults : list (string * pexp) := [("tag", PNone); ("header", PNone); ("hint", PNone)].
