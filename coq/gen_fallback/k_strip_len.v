(* _client.py :: _process_get_key_result :: ('augassign', 'pad_length', 0) :  pad_length - response.sec_trailer.pad_length *)
Definition k_strip_len (pad_length : Z) (response_sec_trailer_pad_length : Z) : Z :=
  (pad_length - response_sec_trailer_pad_length).
