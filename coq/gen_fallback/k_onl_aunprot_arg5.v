(* _client.py :: async_ncrypt_unprotect_secret :: ('callarg', '_async_get_key', 0, 5) :  blob.key_identifier.l2 *)
Definition k_onl_aunprot_arg5 (blob_key_identifier_l2 : Z) : Z :=
  blob_key_identifier_l2.
