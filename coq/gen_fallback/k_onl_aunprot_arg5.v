(* _client.py :: async_ncrypt_unprotect_secret :: shape kernel :  _async_get_key(... 5: blob.key_identifier.l2  [= DPAPINGBlob.unpack(data).key_identifier.l2] ...) *)
Definition k_onl_aunprot_arg5 (l2 : Z) : Z :=
  l2.
