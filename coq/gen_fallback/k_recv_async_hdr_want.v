(* _rpc/_client.py :: AsyncRpcClient._send_pdu :: ('callarg', 'self._reader.readexactly', 0, 0) :  16 *)
Definition k_recv_async_hdr_want  : Z :=
  16.
