(* _client.py :: async_ncrypt_protect_secret :: shape kernel :  _async_get_key(... 5: l2  [= -1] ...) *)
Definition k_onl_aprot_arg5  : Z :=
  (-1).
