(* _client.py :: async_ncrypt_protect_secret :: ('callarg', '_async_get_key', 0, 5) :  l2 *)
Definition k_onl_aprot_arg5  : Z :=
  (- 1).
