(* _pkcs7.py :: def RecipientInfo.unpack(cls, reader) : whole body *)
Definition k_flow_RecipientInfo_unpack : pfun :=
  {| pf_params := ["cls"; "reader"];
     pf_body := [
    SAssign ["header"] (PMeth "peek_header" (PName "reader") []);
    SAssign ["tag"] (PAttr (PName "header") "tag");
    SIf (PAnd (PCmp "==" (PAttr (PName "tag") "tag_class") (PName "TagClass.CONTEXT_SPECIFIC")) (PCmp "==" (PAttr (PName "tag") "tag_number") (PName "KEKRecipientInfo.choice"))) [
      SReturn (PCall "KEKRecipientInfo.unpack/header" [(PName "reader"); (PName "header")])
    ] [];
    SRaise "NotImplementedError"
  ] |}.
