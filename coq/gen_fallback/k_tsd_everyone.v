(* _blob.py :: SIDDescriptor.get_target_sd :: ('callarg', 'ace_to_bytes', 1, 0) :  'S-1-1-0' *)
Definition k_tsd_everyone  : list Z :=
  [83; 45; 49; 45; 49; 45; 48].
