(* dpapi_ng._asn1 :: TypeTagNumber.UTF8_STRING *)
Definition c_tag_utf8 : Z := 12.
