(* _dns.py :: lookup_dc :: ('callarg', 'dns.resolver.resolve', 0, 1) :  'SRV' *)
Definition k_srv_rdtype  : list Z :=
  [83; 82; 86].
