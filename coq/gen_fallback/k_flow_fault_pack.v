(* _rpc/_pdu.py :: def Fault.pack(self) : whole body *)
Definition k_flow_fault_pack : pfun :=
  {| pf_params := ["self"];
     pf_body := [
    SReturn (PMeth "join" (PBytes []) [(PList [(PMeth "pack" (PAttr (PName "self") "header") []); (PMeth "to_bytes/byteorder" (PAttr (PName "self") "alloc_hint") [(PInt 4); (PStr [108; 105; 116; 116; 108; 101])]); (PMeth "to_bytes/byteorder" (PAttr (PName "self") "context_id") [(PInt 2); (PStr [108; 105; 116; 116; 108; 101])]); (PMeth "to_bytes/byteorder" (PAttr (PName "self") "cancel_count") [(PInt 1); (PStr [108; 105; 116; 116; 108; 101])]); (PMeth "to_bytes/byteorder" (PAttr (PName "self") "flags") [(PInt 1); (PStr [108; 105; 116; 116; 108; 101])]); (PMeth "to_bytes/byteorder" (PAttr (PName "self") "status") [(PInt 4); (PStr [108; 105; 116; 116; 108; 101])]); (PBytes [0; 0; 0; 0]); (PAttr (PName "self") "stub_data"); (PIfExp (PAttr (PName "self") "sec_trailer") (PMeth "pack" (PAttr (PName "self") "sec_trailer") []) (PBytes []))])])
  ] |}.
