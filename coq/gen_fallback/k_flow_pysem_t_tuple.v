(* /verif/vlib/pysem_src.py :: def t_tuple(p) : whole body *)
Definition k_flow_pysem_t_tuple : pfun :=
  {| pf_params := ["p"];
     pf_body := [
    SAssign ["a"; "b"] (PName "p");
    SAssign ["a"; "b"] (PTuple [(PName "b"); (PName "a")]);
    SReturn (PTuple [(PName "a"); (PName "b"); (PCmp "==" (PTuple [(PName "a"); (PName "b")]) (PName "p"))])
  ] |}.
