(* _pkcs7.py :: def KEKIdentifier.pack(self, writer) : whole body *)
Definition k_flow_KEKIdentifier_pack : pfun :=
  {| pf_params := ["self"; "writer"];
     pf_body := [
    SWith (PMeth "push_sequence" (PName "writer") []) (Some "w") [
      SExpr (PMeth "write_octet_string" (PName "w") [(PAttr (PName "self") "key_identifier")]);
      SIf (PAttr (PName "self") "date") [
        SExpr (PMeth "write_generalized_time" (PName "w") [(PAttr (PName "self") "date")])
      ] [];
      SIf (PAttr (PName "self") "other") [
        SExpr (PMeth "pack" (PAttr (PName "self") "other") [(PName "w")])
      ] []
    ]
  ] |}.
