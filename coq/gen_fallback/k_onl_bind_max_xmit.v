(* _rpc/_client.py :: RpcClient._create_bind :: ('callarg', 'Bind', 0, 'max_xmit_frag') :  5840 *)
Definition k_onl_bind_max_xmit  : Z :=
  5840.
