(* _asn1.py :: _validate_tag :: ('if', 3) :  len(view) < data_length *)
Definition k_vt_short (len_view : Z) (data_length : Z) : bool :=
  (len_view <? data_length).
