(* _security_descriptor.py :: sid_to_bytes :: ('callarg', 'sub_auth.to_bytes', 0, 'byteorder') :  'little' *)
Definition k_sid_sub_order  : list Z :=
  [108; 105; 116; 116; 108; 101].
