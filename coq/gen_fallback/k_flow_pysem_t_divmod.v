(* /verif/vlib/pysem_src.py :: def t_divmod(a, b) : whole body *)
Definition k_flow_pysem_t_divmod : pfun :=
  {| pf_params := ["a"; "b"];
     pf_body := [
    SIf (PCmp "==" (PName "b") (PInt 0)) [
      SReturn PNone
    ] [];
    SReturn (PTuple [(PBin "//" (PName "a") (PName "b")); (PBin "%" (PName "a") (PName "b"))])
  ] |}.
