(* _client.py :: def KeyCache.__init__(self) : whole body *)
Definition k_flow_keycache_init : pfun :=
  {| pf_params := ["self"];
     pf_body := [
    SSetAttr "self" "_root_keys" (PCall "dict" []);
    SSetAttr "self" "_seed_keys" (PCall "dict" [])
  ] |}.
