(* /verif/vlib/pysem_src.py :: def t_list_eq(x, y) : whole body *)
Definition k_flow_pysem_t_list_eq : pfun :=
  {| pf_params := ["x"; "y"];
     pf_body := [
    SReturn (PTuple [(PCmp "==" (PName "x") (PName "y")); (PCmp "!=" (PName "x") (PName "y"))])
  ] |}.
