(* _rpc/_verification.py :: def CommandHeader2.pack(self) : whole body *)
Definition k_flow_cmdheader2_pack : pfun :=
  {| pf_params := ["self"];
     pf_body := [
    SAssign ["value"] (PMeth "join" (PBytes []) [(PList [(PMeth "to_bytes/byteorder" (PAttr (PName "self") "packet_type") [(PInt 1); (PStr [108; 105; 116; 116; 108; 101])]); (PBytes [0; 0; 0]); (PMeth "pack" (PAttr (PName "self") "data_rep") []); (PMeth "to_bytes/byteorder" (PAttr (PName "self") "call_id") [(PInt 4); (PStr [108; 105; 116; 116; 108; 101])]); (PMeth "to_bytes/byteorder" (PAttr (PName "self") "context_id") [(PInt 2); (PStr [108; 105; 116; 116; 108; 101])]); (PMeth "to_bytes/byteorder" (PAttr (PName "self") "opnum") [(PInt 2); (PStr [108; 105; 116; 116; 108; 101])])])]);
    SReturn (PMeth "pack" (PCall "Command" [(PAttr (PName "self") "command"); (PAttr (PName "self") "flags"); (PName "value")]) [])
  ] |}.
