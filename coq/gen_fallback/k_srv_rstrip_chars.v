(* _dns.py :: _get_highest_answer :: ('callarg', '?.rstrip', 0, 0) :  '.' *)
Definition k_srv_rstrip_chars  : list Z :=
  [46].
