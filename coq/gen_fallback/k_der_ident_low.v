(* _asn1.py :: _pack_asn1 :: ('augassign', 'identifier_octets', 1) :  identifier_octets | tag_number *)
Definition k_der_ident_low (identifier_octets : Z) (tag_number : Z) : Z :=
  (Z.lor identifier_octets tag_number).
