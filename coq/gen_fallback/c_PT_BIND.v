(* dpapi_ng._rpc._pdu :: int(PacketType.BIND) *)
Definition c_PT_BIND : Z := 11.
