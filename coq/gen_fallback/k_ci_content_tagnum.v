(* _pkcs7.py :: ContentInfo.pack :: ('callarg', 'ASN1Tag', 0, 'tag_number') :  0 *)
Definition k_ci_content_tagnum  : Z :=
  0.
