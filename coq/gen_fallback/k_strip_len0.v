(* _client.py :: _process_get_key_result :: ('assign', 'pad_length', 0) :  len(response.stub_data) *)
Definition k_strip_len0 (len_response_stub_data : Z) : Z :=
  len_response_stub_data.
