(* _rpc/_pdu.py :: PDU.unpack :: ('if', 0) :  header.auth_len *)
Definition k_pdu_has_trailer (header_auth_len : Z) : bool :=
  (negb (header_auth_len =? 0)).
