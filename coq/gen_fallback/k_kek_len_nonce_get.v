(* _gkdi.py :: GroupKeyEnvelope.get_kek :: ('callarg', 'kdf', 0, 4) :  32 *)
Definition k_kek_len_nonce_get  : Z :=
  32.
