(* dpapi_ng._rpc._bind :: bind_time_feature_negotiation().version_minor *)
Definition c_BTFN_version_minor : Z := 0.
