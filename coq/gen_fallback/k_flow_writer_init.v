(* _asn1.py :: def ASN1Writer.__init__(self, tag, parent) : whole body *)
Definition k_flow_writer_init : pfun :=
  {| pf_params := ["self"; "tag"; "parent"];
     pf_body := [
    SSetAttr "self" "_data" (PCall "bytearray" []);
    SSetAttr "self" "_tag" (PName "tag");
    SSetAttr "self" "_parent" (PName "parent")
  ] |}.
Definition k_flow_writer_init_defaults : list (string * pexp) := [("tag", PNone); ("parent", PNone)].
