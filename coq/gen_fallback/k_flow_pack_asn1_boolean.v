(* _asn1.py :: def _pack_asn1_boolean(value, tag) : whole body *)
Definition k_flow_pack_asn1_boolean : pfun :=
  {| pf_params := ["value"; "tag"];
     pf_body := [
    SIf (PNot (PName "tag")) [
      SAssign ["tag"] (PCall "ASN1Tag.universal_tag" [(PName "TypeTagNumber.BOOLEAN")])
    ] [];
    SReturn (PCall "_pack_asn1" [(PAttr (PName "tag") "tag_class"); (PAttr (PName "tag") "is_constructed"); (PAttr (PName "tag") "tag_number"); (PIfExp (PName "value") (PBytes [255]) (PBytes [0]))])
  ] |}.
Definition k_flow_pack_asn1_boolean_defaults : list (string * pexp) := [("tag", PNone)].
