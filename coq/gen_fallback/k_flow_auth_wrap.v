(* _rpc/_auth.py :: def AuthenticationProvider.wrap(self, header, body, trailer, sign_header) : whole body *)
Definition k_flow_auth_wrap : pfun :=
  {| pf_params := ["self"; "header"; "body"; "trailer"; "sign_header"];
     pf_body := [
    SAssign ["sign_buffer_type"] (PIfExp (PName "sign_header") (PName "spnego.iov.BufferType.sign_only") (PName "spnego.iov.BufferType.data_readonly"));
    SAssign ["res"] (PMeth "wrap_iov/encrypt,qop" (PAttr (PName "self") "ctx") [(PList [(PTuple [(PName "sign_buffer_type"); (PName "header")]); (PName "body"); (PTuple [(PName "sign_buffer_type"); (PName "trailer")]); (PName "spnego.iov.BufferType.header")]); (PBool true); PNone]);
    SReturn (PMeth "join" (PBytes []) [(PList [(PName "header"); (POr (PAttr (PSub (PAttr (PName "res") "buffers") (PInt 1)) "data") (PBytes [])); (PName "trailer"); (POr (PAttr (PSub (PAttr (PName "res") "buffers") (PInt 3)) "data") (PBytes []))])])
  ] |}.
