(* _client.py :: def KeyCache._store_key(self, target_sd, key) : whole body *)
Definition k_flow_keycache_store_key : pfun :=
  {| pf_params := ["self"; "target_sd"; "key"];
     pf_body := [
    SAssign ["seed_key"] (PMeth "setdefault" (PMeth "setdefault" (PAttr (PName "self") "_seed_keys") [(PAttr (PName "key") "root_key_identifier"); (PCall "dict" [])]) [(PName "target_sd"); (PCall "dict" [])]);
    SAssign ["existing"] (PMeth "get" (PName "seed_key") [(PAttr (PName "key") "l0"); PNone]);
    SIf (POr (PNot (PName "existing")) (POr (PCmp ">" (PAttr (PName "key") "l1") (PAttr (PName "existing") "l1")) (PAnd (PCmp "==" (PAttr (PName "key") "l1") (PAttr (PName "existing") "l1")) (PCmp ">" (PAttr (PName "key") "l2") (PAttr (PName "existing") "l2"))))) [
      SAssign ["seed_key"] (PCall "setitem" [(PName "seed_key"); (PAttr (PName "key") "l0"); (PName "key")])
    ] []
  ] |}.
