(* _asn1.py :: def _pack_asn1_enumerated(value, tag) : whole body *)
Definition k_flow_pack_asn1_enumerated : pfun :=
  {| pf_params := ["value"; "tag"];
     pf_body := [
    SReturn (PCall "_pack_asn1_integer/tag" [(PName "value"); (POr (PName "tag") (PCall "ASN1Tag.universal_tag" [(PName "TypeTagNumber.ENUMERATED")]))])
  ] |}.
Definition k_flow_pack_asn1_enumerated_defaults : list (string * pexp) := [("tag", PNone)].
