(* _asn1.py :: def ASN1Writer.push_sequence(self, tag) : whole body *)
Definition k_flow_writer_push_sequence : pfun :=
  {| pf_params := ["self"; "tag"];
     pf_body := [
    SIf (PNot (PName "tag")) [
      SAssign ["tag"] (PCall "ASN1Tag.universal_tag/is_constructed" [(PName "TypeTagNumber.SEQUENCE"); (PBool true)])
    ] [];
    SReturn (PCall "ASN1Writer/tag,parent" [(PName "tag"); (PName "self")])
  ] |}.
Definition k_flow_writer_push_sequence_defaults : list (string * pexp) := [("tag", PNone)].
