(* dpapi_ng._gkdi :: GetKey(b'', uuid.UUID(int=0)).pack()[16:24] *)
Definition c_GETKEY_REFERENT : list Z := [0; 0; 2; 0; 0; 0; 0; 0].
