(* _security_descriptor.py :: sd_to_bytes :: ('augassign', 'current_offset', 1) :  current_offset + len(dacl_bytes) *)
Definition k_sd_off_dacl (current_offset : Z) (len_dacl_bytes : Z) : Z :=
  (current_offset + len_dacl_bytes).
