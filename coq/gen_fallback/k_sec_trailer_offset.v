(* _rpc/_client.py :: RpcClient._process_response :: ('assign', 'sec_trailer_offset', 0) :  pdu_header.frag_len - (pdu_header.auth_len + 8) *)
Definition k_sec_trailer_offset (pdu_header_frag_len : Z) (pdu_header_auth_len : Z) : Z :=
  (pdu_header_frag_len - (pdu_header_auth_len + 8)).
