(* dpapi_ng._security_descriptor :: acl_to_bytes([ace_to_bytes('S-1-5-18', 1), ace_to_bytes('S-1-1-0', 2)]) *)
Definition c_sd_vec_acl : list Z := [2; 0; 48; 0; 2; 0; 0; 0; 0; 0; 20; 0; 1; 0; 0; 0; 1; 1; 0; 0; 0; 0; 0; 5; 18; 0; 0; 0; 0; 0; 20; 0; 2; 0; 0; 0; 1; 1; 0; 0; 0; 0; 0; 1; 0; 0; 0; 0].
