(* /verif/vlib/pysem_src.py :: def t_index(x, i) : whole body *)
Definition k_flow_pysem_t_index : pfun :=
  {| pf_params := ["x"; "i"];
     pf_body := [
    SReturn (PSub (PName "x") (PName "i"))
  ] |}.
