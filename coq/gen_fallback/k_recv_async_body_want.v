(* _rpc/_client.py :: AsyncRpcClient._send_pdu :: ('callarg', 'self._reader.readexactly', 1, 0) :  len(resp) - 16 *)
Definition k_recv_async_body_want (len_resp : Z) : Z :=
  (len_resp - 16).
