(* _rpc/_request.py :: def Request._unpack(cls, data, header, sec_trailer) : whole body *)
Definition k_flow_request_unpack : pfun :=
  {| pf_params := ["cls"; "data"; "header"; "sec_trailer"];
     pf_body := [
    SAssign ["view"] (PCall "memoryview" [(PName "data")]);
    SAssign ["alloc_hint"] (PCall "int.from_bytes/byteorder" [(PSlice (PName "view") PNone (PInt 4)); (PStr [108; 105; 116; 116; 108; 101])]);
    SAssign ["context_id"] (PCall "int.from_bytes/byteorder" [(PSlice (PName "view") (PInt 4) (PInt 6)); (PStr [108; 105; 116; 116; 108; 101])]);
    SAssign ["opnum"] (PCall "int.from_bytes/byteorder" [(PSlice (PName "view") (PInt 6) (PInt 8)); (PStr [108; 105; 116; 116; 108; 101])]);
    SAssign ["view"] (PSlice (PName "view") (PInt 8) PNone);
    SAssign ["obj"] PNone;
    SIf (PBin "&" (PAttr (PName "header") "packet_flags") (PName "PacketFlags.PFC_OBJECT_UUID")) [
      SAssign ["obj"] (PCall "uuid.UUID/bytes_le" [(PMeth "tobytes" (PSlice (PName "view") PNone (PInt 16)) [])]);
      SAssign ["view"] (PSlice (PName "view") (PInt 16) PNone)
    ] [];
    SReturn (PCall "()/header,sec_trailer,alloc_hint,context_id,opnum,obj,stub_data" [(PName "cls"); (PName "header"); (PName "sec_trailer"); (PName "alloc_hint"); (PName "context_id"); (PName "opnum"); (PName "obj"); (PMeth "tobytes" (PName "view") [])])
  ] |}.
