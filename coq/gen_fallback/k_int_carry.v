(* _asn1.py :: _pack_asn1_integer :: ('if', 4) :  val < 255 *)
Definition k_int_carry (val : Z) : bool :=
  (val <? 255).
