(* _pkcs7.py :: EncryptedContentInfo.unpack :: ('callarg', 'ASN1Tag', 0, 'tag_number') :  0 *)
Definition k_eci_content_tagnum_r  : Z :=
  0.
