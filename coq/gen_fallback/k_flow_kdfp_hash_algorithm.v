(* _gkdi.py :: def KDFParameters.hash_algorithm(self) : whole body *)
Definition k_flow_kdfp_hash_algorithm : pfun :=
  {| pf_params := ["self"];
     pf_body := [
    SIf (PCmp "==" (PAttr (PName "self") "hash_name") (PStr [83; 72; 65; 49])) [
      SReturn (PCall "hashes.SHA1" [])
    ] [
      SIf (PCmp "==" (PAttr (PName "self") "hash_name") (PStr [83; 72; 65; 50; 53; 54])) [
        SReturn (PCall "hashes.SHA256" [])
      ] [
        SIf (PCmp "==" (PAttr (PName "self") "hash_name") (PStr [83; 72; 65; 51; 56; 52])) [
          SReturn (PCall "hashes.SHA384" [])
        ] [
          SIf (PCmp "==" (PAttr (PName "self") "hash_name") (PStr [83; 72; 65; 53; 49; 50])) [
            SReturn (PCall "hashes.SHA512" [])
          ] [
            SRaise "NotImplementedError"
          ]
        ]
      ]
    ]
  ] |}.
