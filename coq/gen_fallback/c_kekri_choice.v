(* dpapi_ng._pkcs7 :: KEKRecipientInfo.choice *)
Definition c_kekri_choice : Z := 2.
