(* _gkdi.py :: GroupKeyEnvelope.new_kek :: ('callarg', 'kdf', 0, 4) :  32 *)
Definition k_kek_len_nonce_new  : Z :=
  32.
