(* _asn1.py :: def ASN1Reader.get_remaining_data(self) : whole body *)
Definition k_flow_reader_get_remaining_data : pfun :=
  {| pf_params := ["self"];
     pf_body := [
    SAssign ["data"] (PMeth "tobytes" (PAttr (PName "self") "_view") []);
    SSetAttr "self" "_view" (PCall "memoryview" [(PBytes [])]);
    SReturn (PName "data")
  ] |}.
