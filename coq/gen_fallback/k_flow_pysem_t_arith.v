(* /verif/vlib/pysem_src.py :: def t_arith(a, b) : whole body *)
Definition k_flow_pysem_t_arith : pfun :=
  {| pf_params := ["a"; "b"];
     pf_body := [
    SReturn (PTuple [(PBin "+" (PName "a") (PName "b")); (PBin "-" (PName "a") (PName "b")); (PBin "*" (PName "a") (PName "b")); (PBin "<<" (PName "a") (PInt 3)); (PBin ">>" (PName "a") (PInt 2)); (PBin "&" (PName "a") (PName "b")); (PBin "|" (PName "a") (PName "b")); (PBin "^" (PName "a") (PName "b")); (PNeg (PName "a")); (PBin "**" (PName "a") (PInt 2))])
  ] |}.
