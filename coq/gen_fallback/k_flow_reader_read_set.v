(* _asn1.py :: def ASN1Reader.read_set(self, tag, header, hint) : whole body *)
Definition k_flow_reader_read_set : pfun :=
  {| pf_params := ["self"; "tag"; "header"; "hint"];
     pf_body := [
    SAssign ["new_view"; "consumed"] (PCall "_read_asn1_set/tag,header,hint" [(PAttr (PName "self") "_view"); (PName "tag"); (PName "header"); (PName "hint")]);
    SSetAttr "self" "_view" (PSlice (PAttr (PName "self") "_view") (PName "consumed") PNone);
    SReturn (PCall "ASN1Reader" [(PName "new_view")])
  ] |}.
Definition k_flow_reader_read_set_defaults : list (string * pexp) := [("tag", PNone); ("header", PNone); ("hint", PNone)].
