(* dpapi_ng._client :: _EPOCH_FILETIME *)
Definition c_EPOCH_FILETIME : Z := 116444736000000000.
