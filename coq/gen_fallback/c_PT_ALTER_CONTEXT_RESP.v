(* dpapi_ng._rpc._pdu :: int(PacketType.ALTER_CONTEXT_RESP) *)
Definition c_PT_ALTER_CONTEXT_RESP : Z := 15.
