(* dpapi_ng._blob :: KeyIdentifier.magic *)
Definition c_KEYID_MAGIC : list Z := [75; 68; 83; 75].
