(* _gkdi.py :: def compute_kdf_context(key_guid, l0, l1, l2) : whole body *)
Definition k_flow_compute_kdf_context : pfun :=
  {| pf_params := ["key_guid"; "l0"; "l1"; "l2"];
     pf_body := [
    SReturn (PMeth "join" (PBytes []) [(PList [(PAttr (PName "key_guid") "bytes_le"); (PMeth "to_bytes/byteorder,signed" (PName "l0") [(PInt 4); (PStr [108; 105; 116; 116; 108; 101]); (PBool true)]); (PMeth "to_bytes/byteorder,signed" (PName "l1") [(PInt 4); (PStr [108; 105; 116; 116; 108; 101]); (PBool true)]); (PMeth "to_bytes/byteorder,signed" (PName "l2") [(PInt 4); (PStr [108; 105; 116; 116; 108; 101]); (PBool true)])])])
  ] |}.
