(* /verif/vlib/pysem_src.py :: def t_aug(a) : whole body *)
Definition k_flow_pysem_t_aug : pfun :=
  {| pf_params := ["a"];
     pf_body := [
    SAssign ["a"] (PBin "+" (PName "a") (PInt 1));
    SAssign ["a"] (PBin "<<" (PName "a") (PInt 2));
    SAssign ["a"] (PBin "|" (PName "a") (PInt 1));
    SAssign ["a"] (PBin "-" (PName "a") (PInt 3));
    SAssign ["a"] (PBin "*" (PName "a") (PInt 5));
    SAssign ["a"] (PBin "//" (PName "a") (PInt 2));
    SAssign ["a"] (PBin "%" (PName "a") (PInt 1000));
    SAssign ["a"] (PBin "^" (PName "a") (PInt 21));
    SAssign ["a"] (PBin "&" (PName "a") (PInt 4095));
    SAssign ["a"] (PBin ">>" (PName "a") (PInt 1));
    SReturn (PName "a")
  ] |}.
