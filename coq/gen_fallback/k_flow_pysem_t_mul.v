(* /verif/vlib/pysem_src.py :: def t_mul(b, n) : whole body *)
Definition k_flow_pysem_t_mul : pfun :=
  {| pf_params := ["b"; "n"];
     pf_body := [
    SReturn (PTuple [(PBin "*" (PName "b") (PName "n")); (PBin "*" (PName "n") (PName "b")); (PBin "*" (PBytes [0]) (PName "n"))])
  ] |}.
