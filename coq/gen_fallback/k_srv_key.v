(* _dns.py :: _get_highest_answer :: ('lambda', 0) :  (a.priority, -a.weight) *)
Definition k_srv_key (a_priority : Z) (a_weight : Z) : (Z * Z) :=
  (a_priority, (- a_weight)).
