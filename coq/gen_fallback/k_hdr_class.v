(* _asn1.py :: _read_asn1_header :: ('callarg', 'TagClass', 0, 0) :  (octet1 & 192) >> 6 *)
Definition k_hdr_class (octet1 : Z) : Z :=
  (Z.shiftr (Z.land octet1 192) 6).
