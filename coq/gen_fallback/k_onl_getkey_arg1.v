(* _client.py :: _sync_get_key :: shape kernel :  GetKey(... 1: root_key_id  [= root_key_id] ...) *)
Definition k_onl_getkey_arg1 (root_key_id : list Z) : list Z :=
  root_key_id.
