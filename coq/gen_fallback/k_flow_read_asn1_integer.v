(* _asn1.py :: def _read_asn1_integer(data, tag, header, hint) : whole body *)
Definition k_flow_read_asn1_integer : pfun :=
  {| pf_params := ["data"; "tag"; "header"; "hint"];
     pf_body := [
    SAssign ["raw_int"; "consumed"] (PCall "_validate_tag/header,hint" [(PName "data"); (PName "tag"); (PCall "ASN1Tag.universal_tag" [(PName "TypeTagNumber.INTEGER"); (PBool false)]); (PName "header"); (PName "hint")]);
    SAssign ["b_int"] (PCall "bytearray" [(PName "raw_int")]);
    SIf (PNot (PName "b_int")) [
      SRaise "ValueError"
    ] [];
    SAssign ["is_negative"] (PBin "&" (PSub (PName "b_int") (PInt 0)) (PInt 128));
    SIf (PName "is_negative") [
      SFor ["i"] (PCall "range" [(PCall "len" [(PName "b_int")])]) [
        SAssign ["b_int"] (PCall "setitem" [(PName "b_int"); (PName "i"); (PBin "-" (PInt 255) (PSub (PName "b_int") (PName "i")))])
      ];
      SFor ["i"] (PCall "range" [(PBin "-" (PCall "len" [(PName "b_int")]) (PInt 1)); (PInt (-1)); (PInt (-1))]) [
        SIf (PCmp "==" (PSub (PName "b_int") (PName "i")) (PInt 255)) [
          SAssign ["b_int"] (PCall "setitem" [(PName "b_int"); (PName "i"); (PInt 0)]);
          SContinue
        ] [
          SAssign ["b_int"] (PCall "setitem" [(PName "b_int"); (PName "i"); (PBin "+" (PSub (PName "b_int") (PName "i")) (PInt 1))]);
          SBreak
        ]
      ]
    ] [];
    SAssign ["int_value"] (PInt 0);
    SFor ["val"] (PName "b_int") [
      SAssign ["int_value"] (PBin "|" (PBin "<<" (PName "int_value") (PInt 8)) (PName "val"))
    ];
    SIf (PName "is_negative") [
      SAssign ["int_value"] (PBin "*" (PName "int_value") (PInt (-1)))
    ] [];
    SReturn (PTuple [(PName "int_value"); (PName "consumed")])
  ] |}.
Definition k_flow_read_asn1_integer_defaults : list (string * pexp) := [("tag", PNone); ("header", PNone); ("hint", PNone)].
