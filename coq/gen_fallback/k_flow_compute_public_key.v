(* _gkdi.py :: def compute_public_key(secret_algorithm, secret_parameters, private_key, peer_public_key) : whole body *)
Definition k_flow_compute_public_key : pfun :=
  {| pf_params := ["secret_algorithm"; "secret_parameters"; "private_key"; "peer_public_key"];
     pf_body := [
    SIf (PCmp "==" (PName "secret_algorithm") (PStr [68; 72])) [
      SAssign ["dh_pub_key"] (PCall "FFCDHKey.unpack" [(PName "peer_public_key")]);
      SAssign ["my_pub_key"] (PCall "pow" [(PAttr (PName "dh_pub_key") "generator"); (PCall "int.from_bytes/byteorder" [(PName "private_key"); (PStr [98; 105; 103])]); (PAttr (PName "dh_pub_key") "field_order")]);
      SReturn (PMeth "pack" (PCall "FFCDHKey" [(PAttr (PName "dh_pub_key") "key_length"); (PAttr (PName "dh_pub_key") "field_order"); (PAttr (PName "dh_pub_key") "generator"); (PName "my_pub_key")]) [])
    ] [
      SIf (PMeth "startswith" (PName "secret_algorithm") [(PStr [69; 67; 68; 72; 95; 80])]) [
        SAssign ["ecdh_pub_key"] (PCall "ECDHKey.unpack" [(PName "peer_public_key")]);
        SAssign ["curve"] (PSub (PAttr (PName "ecdh_pub_key") "curve_and_hash") (PInt 0));
        SAssign ["ecdh_private"] (PCall "ec.derive_private_key" [(PCall "int.from_bytes/byteorder" [(PName "private_key"); (PStr [98; 105; 103])]); (PName "curve")]);
        SAssign ["my_ecdh_pub_key"] (PMeth "public_numbers" (PMeth "public_key" (PName "ecdh_private") []) []);
        SReturn (PMeth "pack" (PCall "ECDHKey" [(PAttr (PName "ecdh_pub_key") "curve_name"); (PAttr (PName "ecdh_pub_key") "key_length"); (PAttr (PName "my_ecdh_pub_key") "x"); (PAttr (PName "my_ecdh_pub_key") "y")]) [])
      ] [
        SRaise "NotImplementedError"
      ]
    ]
  ] |}.
