(* _asn1.py :: def ASN1Reader.__init__(self, data) : whole body *)
Definition k_flow_reader_init : pfun :=
  {| pf_params := ["self"; "data"];
     pf_body := [
    SSetAttr "self" "_data" (PName "data");
    SSetAttr "self" "_view" (PCall "memoryview" [(PAttr (PName "self") "_data")])
  ] |}.
