(* _dns.py :: lookup_dc :: ('assign', 'record', 1) :  f'_ldap._tcp.dc._msdcs' *)
Definition k_srv_name_bare  : list Z :=
  ([95; 108; 100; 97; 112; 46; 95; 116; 99; 112; 46; 100; 99; 46; 95; 109; 115; 100; 99; 115]).
