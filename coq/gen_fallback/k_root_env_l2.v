(* _client.py :: KeyCache._get_key :: ('callarg', 'GroupKeyEnvelope', 0, 'l2') :  31 *)
Definition k_root_env_l2  : Z :=
  31.
