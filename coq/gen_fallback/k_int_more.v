(* _asn1.py :: _pack_asn1_integer :: ('while', 0) :  value > limit *)
Definition k_int_more (value : Z) (limit : Z) : bool :=
  (value >? limit).
