(* _gkdi.py :: def ECDHKey.curve_and_hash(self) : whole body *)
Definition k_flow_eck_curve_and_hash : pfun :=
  {| pf_params := ["self"];
     pf_body := [
    SReturn (PSub (PCall "dict" [(PTuple [(PStr [80; 50; 53; 54]); (PTuple [(PCall "ec.SECP256R1" []); (PCall "hashes.SHA256" [])])]); (PTuple [(PStr [80; 51; 56; 52]); (PTuple [(PCall "ec.SECP384R1" []); (PCall "hashes.SHA384" [])])]); (PTuple [(PStr [80; 53; 50; 49]); (PTuple [(PCall "ec.SECP521R1" []); (PCall "hashes.SHA512" [])])])]) (PAttr (PName "self") "curve_name"))
  ] |}.
