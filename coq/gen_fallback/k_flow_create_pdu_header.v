(* _rpc/_client.py :: def RpcClient._create_pdu_header(self, packet_type, auth_len, call_id, flags) : whole body *)
Definition k_flow_create_pdu_header : pfun :=
  {| pf_params := ["self"; "packet_type"; "auth_len"; "call_id"; "flags"];
     pf_body := [
    SReturn (PCall "PDUHeader/version,version_minor,packet_type,packet_flags,data_rep,frag_len,auth_len,call_id" [(PInt 5); (PInt 0); (PName "packet_type"); (PBin "|" (PBin "|" (PName "flags") (PName "PacketFlags.PFC_FIRST_FRAG")) (PName "PacketFlags.PFC_LAST_FRAG")); (PCall "DataRep" []); (PInt 0); (PName "auth_len"); (PName "call_id")])
  ] |}.
Definition k_flow_create_pdu_header_defaults : list (string * pexp) := [("flags", (PName "PacketFlags.NONE"))].
