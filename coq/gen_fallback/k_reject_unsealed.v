(* _rpc/_client.py :: RpcClient._process_response :: shape kernel :  if self._auth and encrypt_offsets and (not pdu_header.auth_len):
    raise ValueError('Received response without a security trailer for a request that was sealed') *)
Definition k_reject_unsealed (self__auth : bool) (encrypt_offsets : bool) (pdu_header_auth_len : Z) : bool :=
  (self__auth && encrypt_offsets && (negb (negb (pdu_header_auth_len =? 0)))).
