(* dpapi_ng._asn1 :: TypeTagNumber.OBJECT_IDENTIFIER *)
Definition c_tag_oid : Z := 6.
