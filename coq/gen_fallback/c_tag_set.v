(* dpapi_ng._asn1 :: TypeTagNumber.SET *)
Definition c_tag_set : Z := 17.
