(* _client.py :: _get_protection_gke_from_cache :: ('assign', 'current_time', 0) :  time.time_ns() // 100 + _EPOCH_FILETIME *)
Definition k_now (time_ns : Z) : Z :=
  ((time_ns / 100) + 116444736000000000).
