(* _rpc/_pdu.py :: def DataRep.unpack(cls, data) : whole body *)
Definition k_flow_datarep_unpack : pfun :=
  {| pf_params := ["cls"; "data"];
     pf_body := [
    SAssign ["view"] (PCall "memoryview" [(PName "data")]);
    SReturn (PCall "()/byte_order,character,floating_point" [(PName "cls"); (PCall "IntegerRep" [(PBin ">>" (PBin "&" (PSub (PName "view") (PInt 0)) (PInt 240)) (PInt 4))]); (PCall "CharacterRep" [(PBin "&" (PSub (PName "view") (PInt 0)) (PInt 15))]); (PCall "FloatingPointRep" [(PSub (PName "view") (PInt 1))])])
  ] |}.
