(* _client.py :: _get_protection_gke_from_cache :: ('assign', 'l1', 0) :  current_time % (32 * 32 * base) // (32 * base) *)
Definition k_l1 (current_time : Z) : Z :=
  ((current_time mod ((32 * 32) * 360000000000)) / (32 * 360000000000)).
