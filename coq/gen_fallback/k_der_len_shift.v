(* _asn1.py :: _pack_asn1 :: ('augassign', 'length', 0) :  length >> 8 *)
Definition k_der_len_shift (length : Z) : Z :=
  (Z.shiftr length 8).
