(* _asn1.py :: _pack_asn1 :: ('augassign', 'identifier_octets', 0) :  identifier_octets | (1 if constructed else 0) << 5 *)
Definition k_der_ident_cons (identifier_octets : Z) (constructed : bool) : Z :=
  (Z.lor identifier_octets (Z.shiftl (if constructed then 1 else 0) 5)).
