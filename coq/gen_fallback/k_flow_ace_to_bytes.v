(* _security_descriptor.py :: def ace_to_bytes(sid, access_mask) : whole body *)
Definition k_flow_ace_to_bytes : pfun :=
  {| pf_params := ["sid"; "access_mask"];
     pf_body := [
    SAssign ["b_sid"] (PCall "sid_to_bytes" [(PName "sid")]);
    SReturn (PMeth "join" (PBytes []) [(PList [(PBytes [0; 0]); (PMeth "to_bytes/byteorder" (PBin "+" (PInt 8) (PCall "len" [(PName "b_sid")])) [(PInt 2); (PStr [108; 105; 116; 116; 108; 101])]); (PMeth "to_bytes/byteorder" (PName "access_mask") [(PInt 4); (PStr [108; 105; 116; 116; 108; 101])]); (PName "b_sid")])])
  ] |}.
