(* _security_descriptor.py :: sid_to_bytes :: ('callarg', 'authority.to_bytes', 0, 'byteorder') :  'big' *)
Definition k_sid_auth_order  : list Z :=
  [98; 105; 103].
