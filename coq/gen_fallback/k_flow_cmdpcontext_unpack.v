(* _rpc/_verification.py :: def CommandPContext._unpack(cls, flags, value) : whole body *)
Definition k_flow_cmdpcontext_unpack : pfun :=
  {| pf_params := ["cls"; "flags"; "value"];
     pf_body := [
    SAssign ["interface_id"] (PCall "SyntaxId.unpack" [(PName "value")]);
    SAssign ["transfer_syntax"] (PCall "SyntaxId.unpack" [(PSlice (PName "value") (PInt 20) PNone)]);
    SReturn (PCall "()/flags,interface_id,transfer_syntax" [(PName "cls"); (PName "flags"); (PName "interface_id"); (PName "transfer_syntax")])
  ] |}.
