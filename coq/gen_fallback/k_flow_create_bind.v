(* _rpc/_client.py :: def RpcClient._create_bind(self, contexts, sec_trailer) : whole body *)
Definition k_flow_create_bind : pfun :=
  {| pf_params := ["self"; "contexts"; "sec_trailer"];
     pf_body := [
    SAssign ["flags"] (PName "PacketFlags.NONE");
    SAssign ["auth_len"] (PInt 0);
    SIf (PName "sec_trailer") [
      SSetAttr "self" "_sign_header" (PBool true);
      SAssign ["flags"] (PBin "|" (PName "flags") (PName "PacketFlags.PFC_SUPPORT_HEADER_SIGN"));
      SAssign ["auth_len"] (PCall "len" [(PAttr (PName "sec_trailer") "auth_value")])
    ] [];
    SReturn (PCall "Bind/header,sec_trailer,max_xmit_frag,max_recv_frag,assoc_group,contexts" [(PMeth "_create_pdu_header/flags" (PName "self") [(PName "PacketType.BIND"); (PName "auth_len"); (PInt 1); (PName "flags")]); (PName "sec_trailer"); (PInt 5840); (PInt 5840); (PInt 0); (PName "contexts")])
  ] |}.
Definition k_flow_create_bind_defaults : list (string * pexp) := [("sec_trailer", PNone)].
