(* _rpc/_client.py :: RpcClient._process_bind_ack :: ('if', 1) :  not ack.header.packet_flags & PacketFlags.PFC_SUPPORT_HEADER_SIGN *)
Definition k_ack_clears_sign (ack_header_packet_flags : Z) (PacketFlags_PFC_SUPPORT_HEADER_SIGN : Z) : bool :=
  (negb (negb ((Z.land ack_header_packet_flags PacketFlags_PFC_SUPPORT_HEADER_SIGN) =? 0))).
