(* _crypto.py :: cek_generate :: shape kernel :  cek = AESGCM.generate_key(256); cek_iv = os.urandom(12); return cek, cek_iv *)
Definition k_cek_generate_draws  : (Z * Z) :=
  (256, 12).
