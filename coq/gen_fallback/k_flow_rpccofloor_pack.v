(* _epm.py :: def RPCConnectionOrientedFloor.pack(self) : whole body *)
Definition k_flow_rpccofloor_pack : pfun :=
  {| pf_params := ["self"];
     pf_body := [
    SReturn (PMeth "pack" (PCall "Floor" [(PAttr (PName "self") "protocol"); (PBytes []); (PMeth "to_bytes/byteorder" (PAttr (PName "self") "version_minor") [(PInt 2); (PStr [108; 105; 116; 116; 108; 101])])]) [])
  ] |}.
