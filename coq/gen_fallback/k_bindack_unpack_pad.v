(* _rpc/_bind.py :: BindAck._unpack :: ('assign', 'padding', 0) :  -(2 + sec_addr_len) % 4 *)
Definition k_bindack_unpack_pad (sec_addr_len : Z) : Z :=
  ((- (2 + sec_addr_len)) mod 4).
