(* dpapi_ng._blob :: ProtectionDescriptorType.SID.value *)
Definition c_oid_pd_sid : list Z := [49; 46; 51; 46; 54; 46; 49; 46; 52; 46; 49; 46; 51; 49; 49; 46; 55; 52; 46; 49; 46; 49].
