(* _rpc/_pdu.py :: def PDUHeader.unpack(cls, data) : whole body *)
Definition k_flow_pduheader_unpack : pfun :=
  {| pf_params := ["cls"; "data"];
     pf_body := [
    SAssign ["view"] (PCall "memoryview" [(PName "data")]);
    SReturn (PCall "()/version,version_minor,packet_type,packet_flags,data_rep,frag_len,auth_len,call_id" [(PName "cls"); (PSub (PName "view") (PInt 0)); (PSub (PName "view") (PInt 1)); (PCall "PacketType" [(PSub (PName "view") (PInt 2))]); (PCall "PacketFlags" [(PSub (PName "view") (PInt 3))]); (PCall "DataRep.unpack" [(PSlice (PName "view") (PInt 4) (PInt 8))]); (PCall "int.from_bytes/byteorder" [(PSlice (PName "view") (PInt 8) (PInt 10)); (PStr [108; 105; 116; 116; 108; 101])]); (PCall "int.from_bytes/byteorder" [(PSlice (PName "view") (PInt 10) (PInt 12)); (PStr [108; 105; 116; 116; 108; 101])]); (PCall "int.from_bytes/byteorder" [(PSlice (PName "view") (PInt 12) (PInt 16)); (PStr [108; 105; 116; 116; 108; 101])])])
  ] |}.
