(* _epm.py :: def UUIDFloor._unpack(cls, lhs, rhs) : whole body *)
Definition k_flow_uuidfloor_unpack : pfun :=
  {| pf_params := ["cls"; "lhs"; "rhs"];
     pf_body := [
    SAssign ["object_uuid"] (PCall "uuid.UUID/bytes_le" [(PSlice (PName "lhs") PNone (PInt 16))]);
    SAssign ["version"] (PCall "int.from_bytes/byteorder" [(PSlice (PName "lhs") (PInt 16) (PInt 18)); (PStr [108; 105; 116; 116; 108; 101])]);
    SAssign ["version_minor"] (PCall "int.from_bytes/byteorder" [(PName "rhs"); (PStr [108; 105; 116; 116; 108; 101])]);
    SReturn (PCall "UUIDFloor" [(PName "object_uuid"); (PName "version"); (PName "version_minor")])
  ] |}.
