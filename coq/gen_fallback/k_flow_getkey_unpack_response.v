(* _gkdi.py :: def GetKey.unpack_response(cls, data) : whole body *)
Definition k_flow_getkey_unpack_response : pfun :=
  {| pf_params := ["cls"; "data"];
     pf_body := [
    SAssign ["view"] (PCall "memoryview" [(PName "data")]);
    SAssign ["hresult"] (PCall "int.from_bytes/byteorder" [(PSlice (PName "view") (PInt (-4)) PNone); (PStr [108; 105; 116; 116; 108; 101])]);
    SAssign ["view"] (PSlice (PName "view") PNone (PInt (-4)));
    SIf (PCmp "!=" (PName "hresult") (PInt 0)) [
      SRaise "ValueError"
    ] [];
    SAssign ["key_length"] (PCall "int.from_bytes/byteorder" [(PSlice (PName "view") PNone (PInt 4)); (PStr [108; 105; 116; 116; 108; 101])]);
    SAssign ["view"] (PSlice (PName "view") (PInt 8) PNone);
    SReturn (PCall "GroupKeyEnvelope.unpack" [(PSlice (PName "view") (PInt 16) (PBin "+" (PInt 16) (PName "key_length")))])
  ] |}.
