(* _asn1.py :: _pack_asn1 :: ('if', 2) :  length < 128 *)
Definition k_der_short_len (length : Z) : bool :=
  (length <? 128).
