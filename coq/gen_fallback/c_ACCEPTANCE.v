(* dpapi_ng._rpc._bind :: int(ContextResultCode.ACCEPTANCE) *)
Definition c_ACCEPTANCE : Z := 0.
