(* _pkcs7.py :: EncryptedContentInfo.pack :: ('callarg', 'ASN1Tag', 0, 'tag_number') :  0 *)
Definition k_eci_content_tagnum  : Z :=
  0.
