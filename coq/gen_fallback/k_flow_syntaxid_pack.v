(* _rpc/_bind.py :: def SyntaxId.pack(self) : whole body *)
Definition k_flow_syntaxid_pack : pfun :=
  {| pf_params := ["self"];
     pf_body := [
    SReturn (PMeth "join" (PBytes []) [(PList [(PAttr (PAttr (PName "self") "uuid") "bytes_le"); (PMeth "to_bytes/byteorder" (PAttr (PName "self") "version") [(PInt 2); (PStr [108; 105; 116; 116; 108; 101])]); (PMeth "to_bytes/byteorder" (PAttr (PName "self") "version_minor") [(PInt 2); (PStr [108; 105; 116; 116; 108; 101])])])])
  ] |}.
