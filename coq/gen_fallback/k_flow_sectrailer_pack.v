(* _rpc/_pdu.py :: def SecTrailer.pack(self) : whole body *)
Definition k_flow_sectrailer_pack : pfun :=
  {| pf_params := ["self"];
     pf_body := [
    SReturn (PMeth "join" (PBytes []) [(PList [(PMeth "to_bytes/byteorder" (PAttr (PName "self") "type") [(PInt 1); (PStr [108; 105; 116; 116; 108; 101])]); (PMeth "to_bytes/byteorder" (PAttr (PName "self") "level") [(PInt 1); (PStr [108; 105; 116; 116; 108; 101])]); (PMeth "to_bytes/byteorder" (PAttr (PName "self") "pad_length") [(PInt 1); (PStr [108; 105; 116; 116; 108; 101])]); (PBytes [0]); (PMeth "to_bytes/byteorder" (PAttr (PName "self") "context_id") [(PInt 4); (PStr [108; 105; 116; 116; 108; 101])]); (PAttr (PName "self") "auth_value")])])
  ] |}.
