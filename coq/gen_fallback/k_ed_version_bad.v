(* _pkcs7.py :: EnvelopedData.unpack :: ('if', 0) :  version != 2 *)
Definition k_ed_version_bad (version : Z) : bool :=
  (negb (version =? 2)).
