(* _rpc/_client.py :: def RpcClient._create_request(self, context_id, opnum, stub_data, verification_trailer) : whole body *)
Definition k_flow_create_request : pfun :=
  {| pf_params := ["self"; "context_id"; "opnum"; "stub_data"; "verification_trailer"];
     pf_body := [
    SIf (PName "verification_trailer") [
      SAssign ["padding"] (PBin "%" (PNeg (PCall "len" [(PName "stub_data")])) (PInt 4));
      SAssign ["stub_data"] (PBin "+" (PName "stub_data") (PBin "+" (PBin "*" (PBytes [0]) (PName "padding")) (PMeth "pack" (PName "verification_trailer") [])))
    ] [];
    SAssign ["auth_len"] (PInt 0);
    SAssign ["sec_trailer"] PNone;
    SAssign ["encrypt_offsets"] PNone;
    SIf (PAttr (PName "self") "_auth") [
      SAssign ["pad_length"] (PBin "%" (PNeg (PCall "len" [(PName "stub_data")])) (PInt 16));
      SAssign ["stub_data"] (PBin "+" (PName "stub_data") (PBin "*" (PBytes [0]) (PName "pad_length")));
      SAssign ["sec_trailer"] (PMeth "get_empty_trailer" (PAttr (PName "self") "_auth") [(PName "pad_length")]);
      SAssign ["auth_len"] (PCall "len" [(PAttr (PName "sec_trailer") "auth_value")]);
      SAssign ["encrypt_offsets"] (PTuple [(PInt 24); (PBin "+" (PInt 24) (PCall "len" [(PName "stub_data")]))])
    ] [];
    SReturn (PTuple [(PCall "Request/header,sec_trailer,alloc_hint,context_id,opnum,obj,stub_data" [(PMeth "_create_pdu_header" (PName "self") [(PName "PacketType.REQUEST"); (PName "auth_len"); (PInt 1)]); (PName "sec_trailer"); (PCall "len" [(PName "stub_data")]); (PName "context_id"); (PName "opnum"); PNone; (PName "stub_data")]); (PName "encrypt_offsets")])
  ] |}.
Definition k_flow_create_request_defaults : list (string * pexp) := [("verification_trailer", PNone)].
