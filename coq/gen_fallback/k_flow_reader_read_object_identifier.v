(* _asn1.py :: def ASN1Reader.read_object_identifier(self, tag, header, hint) : whole body *)
Definition k_flow_reader_read_object_identifier : pfun :=
  {| pf_params := ["self"; "tag"; "header"; "hint"];
     pf_body := [
    SAssign ["val"; "consumed"] (PCall "_read_asn1_object_identifier/tag,header,hint" [(PAttr (PName "self") "_view"); (PName "tag"); (PName "header"); (PName "hint")]);
    SSetAttr "self" "_view" (PSlice (PAttr (PName "self") "_view") (PName "consumed") PNone);
    SReturn (PName "val")
  ] |}.
Definition k_flow_reader_read_object_identifier_defaults : list (string * pexp) := [("tag", PNone); ("header", PNone); ("hint", PNone)].
