(* dpapi_ng._pkcs7 :: EnvelopedData.CONTENT_TYPE_ENVELOPED_DATA_OID *)
Definition c_oid_enveloped_data : list Z := [49; 46; 50; 46; 56; 52; 48; 46; 49; 49; 51; 53; 52; 57; 46; 49; 46; 55; 46; 51].
