(* dpapi_ng._rpc._pdu :: int(AuthenticationLevel.RPC_C_AUTHN_LEVEL_PKT_PRIVACY) *)
Definition c_PKT_PRIVACY : Z := 6.
