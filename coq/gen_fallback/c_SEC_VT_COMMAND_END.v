(* dpapi_ng._rpc._verification :: int(CommandFlags.SEC_VT_COMMAND_END) *)
Definition c_SEC_VT_COMMAND_END : Z := 16384.
