(* _client.py :: _sync_get_key :: shape kernel :  GetKey(... 4: l2  [= l2] ...) *)
Definition k_onl_getkey_arg4 (l2 : Z) : Z :=
  l2.
