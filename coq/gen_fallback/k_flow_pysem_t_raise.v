(* /verif/vlib/pysem_src.py :: def t_raise(a) : whole body *)
Definition k_flow_pysem_t_raise : pfun :=
  {| pf_params := ["a"];
     pf_body := [
    SIf (PCmp "<" (PName "a") (PInt 0)) [
      SRaise "ValueError"
    ] [];
    SIf (PCmp ">" (PName "a") (PInt 100)) [
      SRaise "NotImplementedError"
    ] [];
    SReturn (PName "a")
  ] |}.
