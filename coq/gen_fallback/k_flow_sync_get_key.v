(* _client.py :: def _sync_get_key(server, target_sd, root_key_id, l0, l1, l2, username, password, auth_protocol) : whole body *)
Definition k_flow_sync_get_key : pfun :=
  {| pf_params := ["server"; "target_sd"; "root_key_id"; "l0"; "l1"; "l2"; "username"; "password"; "auth_protocol"];
     pf_body := [
    SWith (PCall "create_rpc_connection" [(PName "server")]) (Some "rpc") [
      SAssign ["context_id"] (PAttr (PSub (PName "_EPM_CONTEXTS") (PInt 0)) "context_id");
      SAssign ["ack"] (PMeth "bind/contexts" (PName "rpc") [(PName "_EPM_CONTEXTS")]);
      SExpr (PCall "_process_bind_result" [(PName "_EPM_CONTEXTS"); (PName "ack"); (PName "context_id")]);
      SAssign ["ept_map"] (PName "_EPT_MAP_ISD_KEY");
      SAssign ["resp"] (PMeth "request" (PName "rpc") [(PInt 0); (PAttr (PName "ept_map") "opnum"); (PMeth "pack" (PName "ept_map") [])]);
      SAssign ["isd_key_port"] (PCall "_process_ept_map_result" [(PName "resp")])
    ];
    SWith (PCall "create_rpc_connection/username,password,auth_protocol" [(PName "server"); (PName "isd_key_port"); (PName "username"); (PName "password"); (PName "auth_protocol")]) (Some "rpc") [
      SAssign ["context_id"] (PAttr (PSub (PName "_ISD_KEY_CONTEXTS") (PInt 0)) "context_id");
      SAssign ["ack"] (PMeth "bind/contexts" (PName "rpc") [(PName "_ISD_KEY_CONTEXTS")]);
      SExpr (PCall "_process_bind_result" [(PName "_ISD_KEY_CONTEXTS"); (PName "ack"); (PName "context_id")]);
      SAssign ["get_key"] (PCall "GetKey" [(PName "target_sd"); (PName "root_key_id"); (PName "l0"); (PName "l1"); (PName "l2")]);
      SAssign ["resp"] (PMeth "request/verification_trailer" (PName "rpc") [(PName "context_id"); (PAttr (PName "get_key") "opnum"); (PMeth "pack" (PName "get_key") []); (PName "_VERIFICATION_TRAILER")]);
      SReturn (PCall "_process_get_key_result" [(PName "resp")])
    ]
  ] |}.
Definition k_flow_sync_get_key_defaults : list (string * pexp) := [("root_key_id", PNone); ("l0", (PInt (-1))); ("l1", (PInt (-1))); ("l2", (PInt (-1))); ("username", PNone); ("password", PNone); ("auth_protocol", (PStr [110; 101; 103; 111; 116; 105; 97; 116; 101]))].
