(* _client.py :: _process_get_key_result :: ('if', 0) :  response.sec_trailer and response.sec_trailer.pad_length *)
Definition k_strip_test (response_sec_trailer : bool) (response_sec_trailer_pad_length : Z) : bool :=
  (response_sec_trailer && (negb (response_sec_trailer_pad_length =? 0))).
