(* /verif/vlib/pysem_src.py :: def t_decode(b) : whole body *)
Definition k_flow_pysem_t_decode : pfun :=
  {| pf_params := ["b"];
     pf_body := [
    SReturn (PTuple [(PMeth "decode" (PName "b") [(PStr [117; 116; 102; 45; 56])]); (PCall "len" [(PName "b")])])
  ] |}.
