(* _asn1.py :: _pack_asn1_octet_number :: ('augassign', 'octet_value', 0) :  octet_value | 128 *)
Definition k_b128_cont (octet_value : Z) : Z :=
  (Z.lor octet_value 128).
