(* dpapi_ng._rpc._pdu :: int(PacketType.BIND_ACK) *)
Definition c_PT_BIND_ACK : Z := 12.
