(* _client.py :: ncrypt_protect_secret :: shape kernel :  _sync_get_key(... username: username  [= username] ...) *)
Definition k_onl_prot_kw_username (username : list Z) : list Z :=
  username.
