(* _epm.py :: EptMapResult.unpack :: ('assign', 'padding', 0) :  -(tower_length + 4) % 8 *)
Definition k_eptres_unpack_pad (tower_length : Z) : Z :=
  ((- (tower_length + 4)) mod 8).
