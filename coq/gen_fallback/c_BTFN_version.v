(* dpapi_ng._rpc._bind :: bind_time_feature_negotiation().version *)
Definition c_BTFN_version : Z := 1.
