(* _security_descriptor.py :: sd_to_bytes :: ('assign', 'control', 0) :  128 << 8 *)
Definition k_sd_control0  : Z :=
  (Z.shiftl 128 8).
