(* _security_descriptor.py :: ace_to_bytes :: ('callarg', 'access_mask.to_bytes', 0, 0) :  4 *)
Definition k_ace_mask_width  : Z :=
  4.
