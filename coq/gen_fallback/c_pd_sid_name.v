(* dpapi_ng._blob :: ProtectionDescriptorType.SID.name *)
Definition c_pd_sid_name : list Z := [83; 73; 68].
