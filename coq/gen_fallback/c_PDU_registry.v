(* dpapi_ng._rpc._pdu :: sorted(int(k) for k in _PACKET_TYPE_REGISTRY) *)
Definition c_PDU_registry : list Z := [0; 2; 3; 11; 12; 13; 14; 15].
