(* dpapi_ng._gkdi :: GetKey(b'', None).pack()[16:24] *)
Definition c_GETKEY_NULLPTR : list Z := [0; 0; 0; 0; 0; 0; 0; 0].
