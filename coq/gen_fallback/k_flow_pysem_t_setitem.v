(* /verif/vlib/pysem_src.py :: def t_setitem(b, i, v) : whole body *)
Definition k_flow_pysem_t_setitem : pfun :=
  {| pf_params := ["b"; "i"; "v"];
     pf_body := [
    SAssign ["x"] (PCall "bytearray" [(PName "b")]);
    SAssign ["x"] (PCall "setitem" [(PName "x"); (PName "i"); (PName "v")]);
    SAssign ["x"] (PCall "setitem" [(PName "x"); (PName "i"); (PBin "+" (PSub (PName "x") (PName "i")) (PInt 1))]);
    SExpr (PMeth "append" (PName "x") [(PInt 7)]);
    SExpr (PMeth "reverse" (PName "x") []);
    SReturn (PTuple [(PCall "bytes" [(PName "x")]); (PCall "len" [(PName "x")])])
  ] |}.
