(* dpapi_ng._rpc._pdu :: int(PacketType.BIND_NAK) *)
Definition c_PT_BIND_NAK : Z := 13.
