(* _rpc/_verification.py :: def CommandBitmask._unpack(cls, flags, value) : whole body *)
Definition k_flow_cmdbitmask_unpack : pfun :=
  {| pf_params := ["cls"; "flags"; "value"];
     pf_body := [
    SReturn (PCall "()/flags,bits" [(PName "cls"); (PName "flags"); (PCall "int.from_bytes/byteorder" [(PName "value"); (PStr [108; 105; 116; 116; 108; 101])])])
  ] |}.
