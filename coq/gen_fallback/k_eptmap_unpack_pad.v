(* _epm.py :: EptMap.unpack :: ('assign', 'padding', 0) :  -(tower_length + 4) % 8 *)
Definition k_eptmap_unpack_pad (tower_length : Z) : Z :=
  ((- (tower_length + 4)) mod 8).
