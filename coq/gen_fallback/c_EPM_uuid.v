(* dpapi_ng._epm :: EPM.uuid *)
Definition c_EPM_uuid : list Z := [8; 131; 175; 225; 31; 93; 201; 17; 145; 164; 8; 0; 43; 20; 160; 250].
