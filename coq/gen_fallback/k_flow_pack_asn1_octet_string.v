(* _asn1.py :: def _pack_asn1_octet_string(b_data, tag) : whole body *)
Definition k_flow_pack_asn1_octet_string : pfun :=
  {| pf_params := ["b_data"; "tag"];
     pf_body := [
    SIf (PNot (PName "tag")) [
      SAssign ["tag"] (PCall "ASN1Tag.universal_tag" [(PName "TypeTagNumber.OCTET_STRING")])
    ] [];
    SReturn (PCall "_pack_asn1" [(PAttr (PName "tag") "tag_class"); (PAttr (PName "tag") "is_constructed"); (PAttr (PName "tag") "tag_number"); (PName "b_data")])
  ] |}.
Definition k_flow_pack_asn1_octet_string_defaults : list (string * pexp) := [("tag", PNone)].
