(* dpapi_ng._gkdi :: GetKey(b'').opnum *)
Definition c_onl_getkey_opnum : Z := 0.
