(* dpapi_ng._crypto :: AlgorithmOID.AES256_GCM.value *)
Definition c_oid_aes256_gcm : list Z := [50; 46; 49; 54; 46; 56; 52; 48; 46; 49; 46; 49; 48; 49; 46; 51; 46; 52; 46; 49; 46; 52; 54].
