(* dpapi_ng._epm :: int(FloorProtocol.IP) *)
Definition c_FLOOR_IP : Z := 9.
