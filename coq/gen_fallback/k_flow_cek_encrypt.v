(* _crypto.py :: def cek_encrypt(algorithm, parameters, kek, value) : whole body *)
Definition k_flow_cek_encrypt : pfun :=
  {| pf_params := ["algorithm"; "parameters"; "kek"; "value"];
     pf_body := [
    SIf (PCmp "==" (PName "algorithm") (PName "AlgorithmOID.AES256_WRAP")) [
      SReturn (PCall "keywrap.aes_key_wrap" [(PName "kek"); (PName "value")])
    ] [
      SRaise "NotImplementedError"
    ]
  ] |}.
