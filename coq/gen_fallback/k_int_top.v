(* _asn1.py :: _pack_asn1_integer :: ('callarg', 'b_int.append', 2, 0) :  (255 - value if is_negative else value) & 255 *)
Definition k_int_top (value : Z) (is_negative : bool) : Z :=
  (Z.land (if is_negative then (255 - value) else value) 255).
