(* _epm.py :: def TCPFloor.pack(self) : whole body *)
Definition k_flow_tcpfloor_pack : pfun :=
  {| pf_params := ["self"];
     pf_body := [
    SReturn (PMeth "pack" (PCall "Floor" [(PAttr (PName "self") "protocol"); (PBytes []); (PMeth "to_bytes/byteorder" (PAttr (PName "self") "port") [(PInt 2); (PStr [98; 105; 103])])]) [])
  ] |}.
