(* _pkcs7.py :: def EncryptedContentInfo.pack(self, writer) : whole body *)
Definition k_flow_EncryptedContentInfo_pack : pfun :=
  {| pf_params := ["self"; "writer"];
     pf_body := [
    SWith (PMeth "push_sequence" (PName "writer") []) (Some "w") [
      SExpr (PMeth "write_object_identifier" (PName "w") [(PAttr (PName "self") "content_type")]);
      SExpr (PMeth "pack" (PAttr (PName "self") "algorithm") [(PName "w")]);
      SIf (PAttr (PName "self") "content") [
        SExpr (PMeth "write_octet_string" (PName "w") [(PAttr (PName "self") "content"); (PCall "ASN1Tag/tag_class,tag_number,is_constructed" [(PName "TagClass.CONTEXT_SPECIFIC"); (PInt 0); (PBool false)])])
      ] []
    ]
  ] |}.
