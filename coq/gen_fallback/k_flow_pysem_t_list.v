(* /verif/vlib/pysem_src.py :: def t_list(xs, v) : whole body *)
Definition k_flow_pysem_t_list : pfun :=
  {| pf_params := ["xs"; "v"];
     pf_body := [
    SAssign ["ys"] (PCall "list" [(PName "xs")]);
    SExpr (PMeth "append" (PName "ys") [(PName "v")]);
    SAssign ["ys"] (PCall "setitem" [(PName "ys"); (PInt 0); (PName "v")]);
    SExpr (PMeth "extend" (PName "ys") [(PList [(PInt 1); (PInt 2)])]);
    SExpr (PMeth "reverse" (PName "ys") []);
    SReturn (PTuple [(PName "ys"); (PCmp "in" (PName "v") (PName "ys")); (PCmp "not in" (PName "v") (PName "xs")); (PCall "len" [(PName "ys")]); (PCall "list" [(PCall "reversed" [(PName "ys")])])])
  ] |}.
