(* _client.py :: ncrypt_unprotect_secret :: shape kernel :  _sync_get_key(... 3: blob.key_identifier.l0  [= DPAPINGBlob.unpack(data).key_identifier.l0] ...) *)
Definition k_onl_unprot_arg3 (l0 : Z) : Z :=
  l0.
