(* _client.py :: ncrypt_unprotect_secret :: ('callarg', '_sync_get_key', 0, 3) :  blob.key_identifier.l0 *)
Definition k_onl_unprot_arg3 (blob_key_identifier_l0 : Z) : Z :=
  blob_key_identifier_l0.
