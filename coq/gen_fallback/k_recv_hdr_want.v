(* _rpc/_client.py :: SyncRpcClient._send_pdu :: ('callarg', 'self._sock.recv', 0, 0) :  16 - len(header) *)
Definition k_recv_hdr_want (len_header : Z) : Z :=
  (16 - len_header).
