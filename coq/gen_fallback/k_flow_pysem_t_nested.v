(* /verif/vlib/pysem_src.py :: def t_nested(n) : whole body *)
Definition k_flow_pysem_t_nested : pfun :=
  {| pf_params := ["n"];
     pf_body := [
    SAssign ["out"] (PList []);
    SFor ["i"] (PCall "range" [(PName "n")]) [
      SFor ["j"] (PCall "range" [(PName "i")]) [
        SIf (PCmp "==" (PName "j") (PInt 2)) [
          SBreak
        ] [];
        SExpr (PMeth "append" (PName "out") [(PTuple [(PName "i"); (PName "j")])])
      ];
      SIf (PCmp "==" (PName "i") (PInt 5)) [
        SReturn (PName "out")
      ] []
    ];
    SReturn (PName "out")
  ] |}.
