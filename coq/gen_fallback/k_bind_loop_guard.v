(* _rpc/_client.py :: SyncRpcClient.bind :: ('while', 0) :  not self._auth.complete *)
Definition k_bind_loop_guard (self__auth_complete : bool) : bool :=
  (negb self__auth_complete).
