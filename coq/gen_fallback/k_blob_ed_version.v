(* _blob.py :: DPAPINGBlob.pack :: ('callarg', 'EnvelopedData', 0, 'version') :  2 *)
Definition k_blob_ed_version  : Z :=
  2.
