(* dpapi_ng._rpc._client :: create_rpc_connection.__defaults__[0] *)
Definition c_onl_default_port : Z := 135.
