(* _crypto.py :: def kdf_concat(algorithm, shared_secret, algorithm_id, party_uinfo, party_vinfo, length) : whole body *)
Definition k_flow_kdf_concat : pfun :=
  {| pf_params := ["algorithm"; "shared_secret"; "algorithm_id"; "party_uinfo"; "party_vinfo"; "length"];
     pf_body := [
    SAssign ["otherinfo"] (PMeth "join" (PBytes []) [(PList [(PName "algorithm_id"); (PName "party_uinfo"); (PName "party_vinfo")])]);
    SReturn (PMeth "derive" (PCall "ConcatKDFHash/length,otherinfo" [(PName "algorithm"); (PName "length"); (PName "otherinfo")]) [(PName "shared_secret")])
  ] |}.
