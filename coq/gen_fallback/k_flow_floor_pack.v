(* _epm.py :: def Floor.pack(self) : whole body *)
Definition k_flow_floor_pack : pfun :=
  {| pf_params := ["self"];
     pf_body := [
    SReturn (PMeth "join" (PBytes []) [(PList [(PMeth "to_bytes/byteorder" (PBin "+" (PCall "len" [(PAttr (PName "self") "lhs")]) (PInt 1)) [(PInt 2); (PStr [108; 105; 116; 116; 108; 101])]); (PMeth "to_bytes/byteorder" (PAttr (PName "self") "protocol") [(PInt 1); (PStr [108; 105; 116; 116; 108; 101])]); (PAttr (PName "self") "lhs"); (PMeth "to_bytes/byteorder" (PCall "len" [(PAttr (PName "self") "rhs")]) [(PInt 2); (PStr [108; 105; 116; 116; 108; 101])]); (PAttr (PName "self") "rhs")])])
  ] |}.
