(* _gkdi.py :: GetKey.unpack :: ('assign', 'padding', 0) :  -target_sd_len % 8 *)
Definition k_getkey_unpack_pad (target_sd_len : Z) : Z :=
  ((- target_sd_len) mod 8).
