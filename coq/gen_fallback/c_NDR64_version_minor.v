(* dpapi_ng._rpc._client :: NDR64.version_minor *)
Definition c_NDR64_version_minor : Z := 0.
