(* _client.py :: _encrypt_blob :: ('callarg', 'parameters.write_integer', 0, 0) :  16 *)
Definition k_gcm_icv_len  : Z :=
  16.
