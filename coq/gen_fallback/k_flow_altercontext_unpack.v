(* _rpc/_bind.py :: def AlterContext._unpack(cls, data, header, sec_trailer) : whole body *)
Definition k_flow_altercontext_unpack : pfun :=
  {| pf_params := ["cls"; "data"; "header"; "sec_trailer"];
     pf_body := [
    SReturn (PCall "Bind._unpack.__func__" [(PName "cls"); (PName "data"); (PName "header"); (PName "sec_trailer")])
  ] |}.
