(* _asn1.py :: def _encode_object_identifier(oid) : whole body *)
Definition k_flow_encode_object_identifier : pfun :=
  {| pf_params := ["oid"];
     pf_body := [
    SAssign ["cmps"] (PCall "list" [(PCall "map" [(PName "int"); (PMeth "split" (PName "oid") [(PStr [46])])])]);
    SIf (POr (PCmp ">" (PSub (PName "cmps") (PInt 0)) (PInt 39)) (PCmp ">" (PSub (PName "cmps") (PInt 1)) (PInt 39))) [
      SRaise "ValueError"
    ] [];
    SAssign ["cmps"] (PBin "+" (PList [(PBin "+" (PBin "*" (PInt 40) (PSub (PName "cmps") (PInt 0))) (PSub (PName "cmps") (PInt 1)))]) (PSlice (PName "cmps") (PInt 2) PNone));
    SExpr (PMeth "reverse" (PName "cmps") []);
    SAssign ["result"] (PList []);
    SFor ["cmp_data"] (PName "cmps") [
      SExpr (PMeth "append" (PName "result") [(PBin "&" (PName "cmp_data") (PInt 127))]);
      SWhile (PCmp ">" (PName "cmp_data") (PInt 127)) [
        SAssign ["cmp_data"] (PBin ">>" (PName "cmp_data") (PInt 7));
        SExpr (PMeth "append" (PName "result") [(PBin "|" (PInt 128) (PBin "&" (PName "cmp_data") (PInt 127)))])
      ]
    ];
    SExpr (PMeth "reverse" (PName "result") []);
    SReturn (PCall "bytes" [(PName "result")])
  ] |}.
