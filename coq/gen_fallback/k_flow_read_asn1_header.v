(* _asn1.py :: def _read_asn1_header(data) : whole body *)
Definition k_flow_read_asn1_header : pfun :=
  {| pf_params := ["data"];
     pf_body := [
    SAssign ["view"] (PCall "memoryview" [(PName "data")]);
    SIf (PNot (PName "view")) [
      SRaise "NotEnougData"
    ] [];
    SAssign ["octet1"] (PSub (PCall "struct.unpack" [(PStr [66]); (PSlice (PName "view") PNone (PInt 1))]) (PInt 0));
    SAssign ["tag_class"] (PCall "TagClass" [(PBin ">>" (PBin "&" (PName "octet1") (PInt 192)) (PInt 6))]);
    SAssign ["constructed"] (PCall "bool" [(PBin "&" (PName "octet1") (PInt 32))]);
    SAssign ["tag_number"] (PBin "&" (PName "octet1") (PInt 31));
    SAssign ["tag_octets"] (PInt 1);
    SIf (PCmp "==" (PName "tag_number") (PInt 31)) [
      SAssign ["tag_number"; "octet_count"] (PCall "_unpack_asn1_octet_number" [(PSlice (PName "view") (PInt 1) PNone)]);
      SAssign ["tag_octets"] (PBin "+" (PName "tag_octets") (PName "octet_count"))
    ] [];
    SIf (PCmp "==" (PName "tag_class") (PName "TagClass.UNIVERSAL")) [
      SAssign ["tag_number"] (PCall "TypeTagNumber" [(PName "tag_number")])
    ] [];
    SAssign ["view"] (PSlice (PName "view") (PName "tag_octets") PNone);
    SIf (PNot (PName "view")) [
      SRaise "NotEnougData"
    ] [];
    SAssign ["length"] (PSub (PCall "struct.unpack" [(PStr [66]); (PSlice (PName "view") PNone (PInt 1))]) (PInt 0));
    SAssign ["length_octets"] (PInt 1);
    SIf (PCmp "==" (PName "length") (PInt 128)) [
      SRaise "ValueError"
    ] [
      SIf (PBin "&" (PName "length") (PInt 128)) [
        SAssign ["length_octets"] (PBin "+" (PName "length_octets") (PBin "&" (PName "length") (PInt 127)));
        SAssign ["length"] (PInt 0);
        SFor ["idx"] (PCall "range" [(PInt 1); (PName "length_octets")]) [
          SIf (PCmp "<" (PCall "len" [(PName "view")]) (PBin "+" (PName "idx") (PInt 1))) [
            SRaise "NotEnougData"
          ] [];
          SAssign ["octet_val"] (PSub (PCall "struct.unpack" [(PStr [66]); (PSlice (PName "view") (PName "idx") (PBin "+" (PName "idx") (PInt 1)))]) (PInt 0));
          SAssign ["length"] (PBin "+" (PName "length") (PBin "<<" (PName "octet_val") (PBin "*" (PInt 8) (PBin "-" (PBin "-" (PName "length_octets") (PInt 1)) (PName "idx")))))
        ]
      ] []
    ];
    SReturn (PCall "ASN1Header/tag,tag_length,length" [(PCall "ASN1Tag/tag_class,tag_number,is_constructed" [(PName "tag_class"); (PName "tag_number"); (PName "constructed")]); (PBin "+" (PName "tag_octets") (PName "length_octets")); (PName "length")])
  ] |}.
