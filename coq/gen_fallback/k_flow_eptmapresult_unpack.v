(* _epm.py :: def EptMapResult.unpack(cls, data) : whole body *)
Definition k_flow_eptmapresult_unpack : pfun :=
  {| pf_params := ["cls"; "data"];
     pf_body := [
    SAssign ["view"] (PCall "memoryview" [(PName "data")]);
    SAssign ["status"] (PCall "int.from_bytes/byteorder" [(PSlice (PName "view") (PInt (-4)) PNone); (PStr [108; 105; 116; 116; 108; 101])]);
    SAssign ["b_entry_handle"] (PMeth "tobytes" (PSlice (PName "view") PNone (PInt 20)) []);
    SIf (PCmp "==" (PName "b_entry_handle") (PBin "*" (PBytes [0]) (PInt 20))) [
      SAssign ["entry_handle"] PNone
    ] [
      SAssign ["entry_handle"] (PTuple [(PCall "int.from_bytes/byteorder" [(PSlice (PName "view") PNone (PInt 4)); (PStr [108; 105; 116; 116; 108; 101])]); (PCall "uuid.UUID/bytes_le" [(PMeth "tobytes" (PSlice (PName "view") (PInt 4) (PInt 20)) [])])])
    ];
    SAssign ["tower_count"] (PCall "int.from_bytes/byteorder" [(PSlice (PName "view") (PInt 40) (PInt 48)); (PStr [108; 105; 116; 116; 108; 101])]);
    SAssign ["tower_data_offset"] (PBin "*" (PInt 8) (PName "tower_count"));
    SIf (PCmp ">" (PBin "+" (PInt 48) (PName "tower_data_offset")) (PCall "len" [(PName "view")])) [
      SRaise "ValueError"
    ] [];
    SAssign ["view"] (PSlice (PName "view") (PBin "+" (PInt 48) (PName "tower_data_offset")) PNone);
    SAssign ["towers"] (PList []);
    SFor ["_"] (PCall "range" [(PName "tower_count")]) [
      SAssign ["tower_length"] (PCall "int.from_bytes/byteorder" [(PSlice (PName "view") PNone (PInt 8)); (PStr [108; 105; 116; 116; 108; 101])]);
      SAssign ["padding"] (PBin "%" (PNeg (PBin "+" (PName "tower_length") (PInt 4))) (PInt 8));
      SAssign ["floor_len"] (PCall "int.from_bytes/byteorder" [(PSlice (PName "view") (PInt 12) (PInt 14)); (PStr [108; 105; 116; 116; 108; 101])]);
      SAssign ["view"] (PSlice (PName "view") (PInt 14) PNone);
      SAssign ["tower"] (PList []);
      SFor ["_"] (PCall "range" [(PName "floor_len")]) [
        SAssign ["floor"] (PCall "Floor.unpack" [(PName "view")]);
        SAssign ["view"] (PSlice (PName "view") (PBin "+" (PBin "+" (PCall "len" [(PAttr (PName "floor") "lhs")]) (PCall "len" [(PAttr (PName "floor") "rhs")])) (PInt 5)) PNone);
        SExpr (PMeth "append" (PName "tower") [(PName "floor")])
      ];
      SExpr (PMeth "append" (PName "towers") [(PName "tower")]);
      SAssign ["view"] (PSlice (PName "view") (PName "padding") PNone)
    ];
    SReturn (PCall "()/entry_handle,towers,status" [(PName "cls"); (PName "entry_handle"); (PName "towers"); (PName "status")])
  ] |}.
