(* _rpc/_client.py :: def RpcClient._process_response(self, response, pdu_header, resp_type, encrypt_offsets) : whole body *)
Definition k_flow_process_response : pfun :=
  {| pf_params := ["self"; "response"; "pdu_header"; "resp_type"; "encrypt_offsets"];
     pf_body := [
    SIf (PAnd (PAttr (PName "self") "_auth") (PAnd (PName "encrypt_offsets") (PAttr (PName "pdu_header") "auth_len"))) [
      SAssign ["view"] (PCall "memoryview" [(PName "response")]);
      SAssign ["sec_trailer_offset"] (PBin "-" (PAttr (PName "pdu_header") "frag_len") (PBin "+" (PAttr (PName "pdu_header") "auth_len") (PInt 8)));
      SAssign ["header"] (PMeth "tobytes" (PSlice (PName "view") PNone (PSub (PName "encrypt_offsets") (PInt 0))) []);
      SAssign ["body"] (PMeth "tobytes" (PSlice (PName "view") (PSub (PName "encrypt_offsets") (PInt 0)) (PName "sec_trailer_offset")) []);
      SAssign ["sec_trailer"] (PMeth "tobytes" (PSlice (PName "view") (PName "sec_trailer_offset") (PBin "+" (PName "sec_trailer_offset") (PInt 8))) []);
      SAssign ["signature"] (PMeth "tobytes" (PSlice (PName "view") (PBin "+" (PName "sec_trailer_offset") (PInt 8)) PNone) []);
      SAssign ["dec_stub"] (PMeth "unwrap" (PAttr (PName "self") "_auth") [(PName "header"); (PName "body"); (PName "sec_trailer"); (PName "signature"); (PAttr (PName "self") "_sign_header")]);
      SAssign ["response"] (PCall "setslice" [(PName "response"); (PSub (PName "encrypt_offsets") (PInt 0)); (PName "sec_trailer_offset"); (PName "dec_stub")])
    ] [];
    SAssign ["pdu_resp"] (PCall "PDU.unpack" [(PName "response")]);
    SIf (PCall "isinstance" [(PName "pdu_resp"); (PName "BindNak")]) [
      SRaise "ValueError"
    ] [
      SIf (PCall "isinstance" [(PName "pdu_resp"); (PName "Fault")]) [
        SRaise "ValueError"
      ] [
        SIf (PCmp "is not" (PCall "type" [(PName "pdu_resp")]) (PName "resp_type")) [
          SRaise "ValueError"
        ] []
      ]
    ];
    SIf (PAnd (PAttr (PName "self") "_auth") (PAnd (PName "encrypt_offsets") (PNot (PAttr (PName "pdu_header") "auth_len")))) [
      SRaise "ValueError"
    ] [];
    SReturn (PName "pdu_resp")
  ] |}.
Definition k_flow_process_response_defaults : list (string * pexp) := [("encrypt_offsets", PNone)].
