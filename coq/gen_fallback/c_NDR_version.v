(* dpapi_ng._rpc._client :: NDR.version *)
Definition c_NDR_version : Z := 2.
