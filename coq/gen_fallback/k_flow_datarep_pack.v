(* _rpc/_pdu.py :: def DataRep.pack(self) : whole body *)
Definition k_flow_datarep_pack : pfun :=
  {| pf_params := ["self"];
     pf_body := [
    SAssign ["first_octet"] (PBin "|" (PBin "<<" (PAttr (PName "self") "byte_order") (PInt 4)) (PAttr (PName "self") "character"));
    SReturn (PMeth "join" (PBytes []) [(PList [(PMeth "to_bytes/byteorder" (PName "first_octet") [(PInt 1); (PStr [108; 105; 116; 116; 108; 101])]); (PMeth "to_bytes/byteorder" (PAttr (PName "self") "floating_point") [(PInt 1); (PStr [108; 105; 116; 116; 108; 101])]); (PBytes [0; 0])])])
  ] |}.
