(* _rpc/_bind.py :: def ContextElement.unpack(cls, data) : whole body *)
Definition k_flow_contextelement_unpack : pfun :=
  {| pf_params := ["cls"; "data"];
     pf_body := [
    SAssign ["view"] (PCall "memoryview" [(PName "data")]);
    SAssign ["context_id"] (PCall "int.from_bytes/byteorder" [(PSlice (PName "view") PNone (PInt 2)); (PStr [108; 105; 116; 116; 108; 101])]);
    SAssign ["num_transfers"] (PCall "int.from_bytes/byteorder" [(PSlice (PName "view") (PInt 2) (PInt 4)); (PStr [108; 105; 116; 116; 108; 101])]);
    SAssign ["abstract_syntax"] (PCall "SyntaxId.unpack" [(PSlice (PName "view") (PInt 4) PNone)]);
    SAssign ["view"] (PSlice (PName "view") (PInt 24) PNone);
    SAssign ["transfer_syntaxes"] (PList []);
    SFor ["_"] (PCall "range" [(PName "num_transfers")]) [
      SExpr (PMeth "append" (PName "transfer_syntaxes") [(PCall "SyntaxId.unpack" [(PName "view")])]);
      SAssign ["view"] (PSlice (PName "view") (PInt 20) PNone)
    ];
    SReturn (PCall "()/context_id,abstract_syntax,transfer_syntaxes" [(PName "cls"); (PName "context_id"); (PName "abstract_syntax"); (PName "transfer_syntaxes")])
  ] |}.
