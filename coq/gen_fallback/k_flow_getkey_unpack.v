(* _gkdi.py :: def GetKey.unpack(cls, data) : whole body *)
Definition k_flow_getkey_unpack : pfun :=
  {| pf_params := ["cls"; "data"];
     pf_body := [
    SAssign ["view"] (PCall "memoryview" [(PName "data")]);
    SAssign ["target_sd_len"] (PCall "int.from_bytes/byteorder" [(PSlice (PName "view") PNone (PInt 4)); (PStr [108; 105; 116; 116; 108; 101])]);
    SAssign ["target_sd"] (PMeth "tobytes" (PSlice (PName "view") (PInt 16) (PBin "+" (PInt 16) (PName "target_sd_len"))) []);
    SAssign ["padding"] (PBin "%" (PNeg (PName "target_sd_len")) (PInt 8));
    SAssign ["view"] (PSlice (PName "view") (PBin "+" (PBin "+" (PInt 16) (PName "target_sd_len")) (PName "padding")) PNone);
    SAssign ["root_key_referent"] (PMeth "tobytes" (PSlice (PName "view") PNone (PInt 8)) []);
    SIf (PCmp "==" (PName "root_key_referent") (PBin "*" (PBytes [0]) (PInt 8))) [
      SAssign ["root_key_id"] PNone;
      SAssign ["view"] (PSlice (PName "view") (PInt 8) PNone)
    ] [
      SAssign ["root_key_id"] (PCall "uuid.UUID/bytes_le" [(PMeth "tobytes" (PSlice (PName "view") (PInt 8) (PInt 24)) [])]);
      SAssign ["view"] (PSlice (PName "view") (PInt 24) PNone)
    ];
    SAssign ["l0_key_id"] (PCall "int.from_bytes/byteorder,signed" [(PSlice (PName "view") PNone (PInt 4)); (PStr [108; 105; 116; 116; 108; 101]); (PBool true)]);
    SAssign ["l1_key_id"] (PCall "int.from_bytes/byteorder,signed" [(PSlice (PName "view") (PInt 4) (PInt 8)); (PStr [108; 105; 116; 116; 108; 101]); (PBool true)]);
    SAssign ["l2_key_id"] (PCall "int.from_bytes/byteorder,signed" [(PSlice (PName "view") (PInt 8) (PInt 12)); (PStr [108; 105; 116; 116; 108; 101]); (PBool true)]);
    SReturn (PCall "GetKey/target_sd,root_key_id,l0_key_id,l1_key_id,l2_key_id" [(PName "target_sd"); (PName "root_key_id"); (PName "l0_key_id"); (PName "l1_key_id"); (PName "l2_key_id")])
  ] |}.
