(* dpapi_ng._gkdi :: GroupKeyEnvelope.magic *)
Definition c_GKE_MAGIC : list Z := [75; 68; 83; 75].
