(* _client.py :: async_ncrypt_unprotect_secret :: shape kernel :  _async_get_key(... argument 2 = blob.key_identifier.root_key_identifier ...) *)
Definition k_onl_aunprot_arg2 (blob_key_identifier_root_key_identifier : list Z) : list Z :=
  blob_key_identifier_root_key_identifier.
