(* _client.py :: async_ncrypt_unprotect_secret :: shape kernel :  _async_get_key(... 2: blob.key_identifier.root_key_identifier  [= DPAPINGBlob.unpack(data).key_identifier.root_key_identifier] ...) *)
Definition k_onl_aunprot_arg2 (root_key_identifier : list Z) : list Z :=
  root_key_identifier.
