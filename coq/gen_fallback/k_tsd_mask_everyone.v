(* _blob.py :: SIDDescriptor.get_target_sd :: ('callarg', 'ace_to_bytes', 1, 1) :  2 *)
Definition k_tsd_mask_everyone  : Z :=
  2.
