(* _rpc/_client.py :: RpcClient._create_request :: ('assign', 'padding', 0) :  -len(stub_data) % 4 *)
Definition k_vt_pad (len_stub_data : Z) : Z :=
  ((- len_stub_data) mod 4).
