(* /verif/vlib/pysem_src.py :: def o_attr(xs, k) : whole body *)
Definition k_flow_pysem_o_attr : pfun :=
  {| pf_params := ["xs"; "k"];
     pf_body := [
    SAssign ["b"] (PCall "Box" []);
    SSetAttr "b" "n" (PName "k");
    SSetAttr "b" "n" (PBin "+" (PAttr (PName "b") "n") (PCall "len" [(PName "xs")]));
    SSetAttr "b" "tag" (PBin "*" (PBytes [116]) (PName "k"));
    SExpr (PMeth "append" (PAttr (PName "b") "items") [(PName "k")]);
    SExpr (PMeth "extend" (PAttr (PName "b") "items") [(PName "xs")]);
    SFor ["x"] (PName "xs") [
      SIf (PCmp "==" (PName "x") (PInt 3)) [
        SExpr (PMeth "append" (PAttr (PName "b") "items") [(PNeg (PName "x"))])
      ] []
    ];
    SReturn (PTuple [(PAttr (PName "b") "n"); (PAttr (PName "b") "tag"); (PAttr (PName "b") "items"); (PCall "len" [(PAttr (PName "b") "items")])])
  ] |}.
