(* _client.py :: ncrypt_unprotect_secret :: shape kernel :  _sync_get_key(... argument 2 = blob.key_identifier.root_key_identifier ...) *)
Definition k_onl_unprot_arg2 (blob_key_identifier_root_key_identifier : list Z) : list Z :=
  blob_key_identifier_root_key_identifier.
