(* _client.py :: ncrypt_unprotect_secret :: shape kernel :  _sync_get_key(... 2: blob.key_identifier.root_key_identifier  [= DPAPINGBlob.unpack(data).key_identifier.root_key_identifier] ...) *)
Definition k_onl_unprot_arg2 (root_key_identifier : list Z) : list Z :=
  root_key_identifier.
