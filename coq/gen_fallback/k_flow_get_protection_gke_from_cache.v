(* _client.py :: def _get_protection_gke_from_cache(root_key_identifier, target_sd, cache) : whole body *)
Definition k_flow_get_protection_gke_from_cache : pfun :=
  {| pf_params := ["root_key_identifier"; "target_sd"; "cache"];
     pf_body := [
    SIf (PNot (PName "root_key_identifier")) [
      SReturn PNone
    ] [];
    SAssign ["current_time"] (PBin "+" (PBin "//" (PCall "time.time_ns" []) (PInt 100)) (PName "_EPOCH_FILETIME"));
    SAssign ["base"] (PInt 360000000000);
    SAssign ["l0"] (PBin "//" (PName "current_time") (PBin "*" (PBin "*" (PInt 32) (PInt 32)) (PName "base")));
    SAssign ["l1"] (PBin "//" (PBin "%" (PName "current_time") (PBin "*" (PBin "*" (PInt 32) (PInt 32)) (PName "base"))) (PBin "*" (PInt 32) (PName "base")));
    SAssign ["l2"] (PBin "//" (PBin "%" (PName "current_time") (PBin "*" (PInt 32) (PName "base"))) (PName "base"));
    SAssign ["rk"] (PMeth "_get_key" (PName "cache") [(PName "target_sd"); (PName "root_key_identifier"); (PName "l0"); (PName "l1"); (PName "l2")]);
    SIf (PNot (PName "rk")) [
      SReturn PNone
    ] [];
    SAssign ["kdf_parameters"] (PCall "KDFParameters.unpack" [(PAttr (PName "rk") "kdf_parameters")]);
    SAssign ["l2_key"] (PCall "compute_l2_key" [(PAttr (PName "kdf_parameters") "hash_algorithm"); (PName "l1"); (PName "l2"); (PName "rk")]);
    SReturn (PCall "GroupKeyEnvelope/version,flags,l0,l1,l2,root_key_identifier,kdf_algorithm,kdf_parameters,secret_algorithm,secret_parameters,private_key_length,public_key_length,domain_name,forest_name,l1_key,l2_key" [(PAttr (PName "rk") "version"); (PAttr (PName "rk") "flags"); (PName "l0"); (PName "l1"); (PName "l2"); (PName "root_key_identifier"); (PAttr (PName "rk") "kdf_algorithm"); (PAttr (PName "rk") "kdf_parameters"); (PAttr (PName "rk") "secret_algorithm"); (PAttr (PName "rk") "secret_parameters"); (PAttr (PName "rk") "private_key_length"); (PAttr (PName "rk") "public_key_length"); (PAttr (PName "rk") "domain_name"); (PAttr (PName "rk") "forest_name"); (PBytes []); (PName "l2_key")])
  ] |}.
