(* _rpc/_verification.py :: def CommandPContext.pack(self) : whole body *)
Definition k_flow_cmdpcontext_pack : pfun :=
  {| pf_params := ["self"];
     pf_body := [
    SAssign ["value"] (PBin "+" (PMeth "pack" (PAttr (PName "self") "interface_id") []) (PMeth "pack" (PAttr (PName "self") "transfer_syntax") []));
    SReturn (PMeth "pack" (PCall "Command" [(PAttr (PName "self") "command"); (PAttr (PName "self") "flags"); (PName "value")]) [])
  ] |}.
