(* _client.py :: ncrypt_protect_secret :: shape kernel :  _sync_get_key(... auth_protocol: auth_protocol  [= auth_protocol] ...) *)
Definition k_onl_prot_kw_auth_protocol (auth_protocol : list Z) : list Z :=
  auth_protocol.
