(* _asn1.py :: def _unpack_asn1_octet_number(data) : whole body *)
Definition k_flow_unpack_asn1_octet_number : pfun :=
  {| pf_params := ["data"];
     pf_body := [
    SAssign ["i"] (PInt 0);
    SAssign ["idx"] (PInt 0);
    SWhile (PBool true) [
      SIf (PCmp "<" (PCall "len" [(PName "data")]) (PBin "+" (PName "idx") (PInt 1))) [
        SRaise "NotEnougData"
      ] [];
      SAssign ["element"] (PSub (PCall "struct.unpack" [(PStr [66]); (PSlice (PName "data") (PName "idx") (PBin "+" (PName "idx") (PInt 1)))]) (PInt 0));
      SAssign ["idx"] (PBin "+" (PName "idx") (PInt 1));
      SAssign ["i"] (PBin "+" (PBin "<<" (PName "i") (PInt 7)) (PBin "&" (PName "element") (PInt 127)));
      SIf (PNot (PBin "&" (PName "element") (PInt 128))) [
        SBreak
      ] []
    ];
    SReturn (PTuple [(PName "i"); (PName "idx")])
  ] |}.
