(* /verif/vlib/pysem_src.py :: def t_str(s) : whole body *)
Definition k_flow_pysem_t_str : pfun :=
  {| pf_params := ["s"];
     pf_body := [
    SReturn (PTuple [(PMeth "encode" (PName "s") [(PStr [117; 116; 102; 45; 56])]); (PBin "+" (PName "s") (PStr [120])); (PCall "len" [(PName "s")]); (PMeth "encode" (PName "s") [(PStr [117; 116; 102; 45; 49; 54; 45; 108; 101])]); (PCmp "==" (PName "s") (PStr [97; 98; 99])); (PSlice (PName "s") (PInt 1) PNone); (PCmp "<" (PName "s") (PStr [98]))])
  ] |}.
