(* _gkdi.py :: compute_kek :: ('if_mentions', 'field_order - 1', 0) :  not 1 < dh_pub_key.public_key < dh_pub_key.field_order - 1 *)
Definition k_dh_pub_bad (dh_pub_key_public_key : Z) (dh_pub_key_field_order : Z) : bool :=
  (negb ((1 <? dh_pub_key_public_key) && (dh_pub_key_public_key <? (dh_pub_key_field_order - 1)))).
