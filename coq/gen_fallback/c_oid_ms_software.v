(* dpapi_ng._blob :: DPAPINGBlob.MICROSOFT_SOFTWARE_OID *)
Definition c_oid_ms_software : list Z := [49; 46; 51; 46; 54; 46; 49; 46; 52; 46; 49; 46; 51; 49; 49; 46; 55; 52; 46; 49].
