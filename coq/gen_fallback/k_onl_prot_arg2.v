(* _client.py :: ncrypt_protect_secret :: shape kernel :  _sync_get_key(... 2: root_key_identifier  [= root_key_identifier] ...) *)
Definition k_onl_prot_arg2 (root_key_identifier : list Z) : list Z :=
  root_key_identifier.
