(* _asn1.py :: def ASN1Writer.__exit__(self, exc_type, exc_val, exc_tb) : whole body *)
Definition k_flow_writer_exit : pfun :=
  {| pf_params := ["self"; "exc_type"; "exc_val"; "exc_tb"];
     pf_body := [
    SIf (POr (PNot (PAttr (PName "self") "_parent")) (PNot (PAttr (PName "self") "_tag"))) [
      SReturn PNone
    ] [];
    SAssign ["data"] (PCall "_pack_asn1" [(PAttr (PAttr (PName "self") "_tag") "tag_class"); (PAttr (PAttr (PName "self") "_tag") "is_constructed"); (PAttr (PAttr (PName "self") "_tag") "tag_number"); (PAttr (PName "self") "_data")]);
    SExpr (PMeth "extend" (PAttr (PAttr (PName "self") "_parent") "_data") [(PName "data")])
  ] |}.
Definition k_flow_writer_exit_defaults : list (string * pexp) := [("exc_type", PNone); ("exc_val", PNone); ("exc_tb", PNone)].
