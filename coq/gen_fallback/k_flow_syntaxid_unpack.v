(* _rpc/_bind.py :: def SyntaxId.unpack(cls, data) : whole body *)
Definition k_flow_syntaxid_unpack : pfun :=
  {| pf_params := ["cls"; "data"];
     pf_body := [
    SAssign ["view"] (PCall "memoryview" [(PName "data")]);
    SReturn (PCall "()/uuid,version,version_minor" [(PName "cls"); (PCall "uuid.UUID/bytes_le" [(PMeth "tobytes" (PSlice (PName "view") PNone (PInt 16)) [])]); (PCall "int.from_bytes/byteorder" [(PSlice (PName "view") (PInt 16) (PInt 18)); (PStr [108; 105; 116; 116; 108; 101])]); (PCall "int.from_bytes/byteorder" [(PSlice (PName "view") (PInt 18) (PInt 20)); (PStr [108; 105; 116; 116; 108; 101])])])
  ] |}.
