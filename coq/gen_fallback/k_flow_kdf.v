(* _crypto.py :: def kdf(algorithm, secret, label, context, length) : whole body *)
Definition k_flow_kdf : pfun :=
  {| pf_params := ["algorithm"; "secret"; "label"; "context"; "length"];
     pf_body := [
    SAssign ["kdf"] (PCall "KBKDFHMAC/algorithm,mode,length,label,context,rlen,llen,location,fixed" [(PName "algorithm"); (PName "Mode.CounterMode"); (PName "length"); (PName "label"); (PName "context"); (PInt 4); (PInt 4); (PName "CounterLocation.BeforeFixed"); PNone]);
    SReturn (PMeth "derive" (PName "kdf") [(PName "secret")])
  ] |}.
