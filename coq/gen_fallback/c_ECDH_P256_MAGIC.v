(* dpapi_ng._gkdi :: ECDHKey('P256', 0, 0, 0).pack()[:4] *)
Definition c_ECDH_P256_MAGIC : list Z := [69; 67; 75; 49].
