(* dpapi_ng._rpc._pdu :: [int(SecurityProvider.RPC_C_AUTHN_GSS_NEGOTIATE), int(SecurityProvider.RPC_C_AUTHN_WINNT), int(SecurityProvider.RPC_C_AUTHN_GSS_KERBEROS)] *)
Definition c_onl_provider_ids : list Z := [9; 10; 16].
