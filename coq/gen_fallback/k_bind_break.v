(* _rpc/_client.py :: SyncRpcClient.bind :: ('if', 2) :  not sec_trailer.auth_value *)
Definition k_bind_break (sec_trailer_auth_value : list Z) : bool :=
  (negb (negb (Nat.eqb (length sec_trailer_auth_value) 0))).
