(* _asn1.py :: _pack_asn1_integer :: ('assign', 'limit', 1) :  128 *)
Definition k_int_limit_neg  : Z :=
  128.
