(* _client.py :: ncrypt_unprotect_secret :: shape kernel :  _sync_get_key(... password: password  [= password] ...) *)
Definition k_onl_unprot_kw_password (password : list Z) : list Z :=
  password.
