(* _client.py :: ncrypt_unprotect_secret :: ('callarg', '_sync_get_key', 0, 'password') :  password *)
Definition k_onl_unprot_kw_password (password : list Z) : list Z :=
  password.
