(* dpapi_ng._epm :: EPM.version_minor *)
Definition c_EPM_version_minor : Z := 0.
