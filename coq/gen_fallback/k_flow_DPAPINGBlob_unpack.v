(* _blob.py :: def DPAPINGBlob.unpack(cls, data) : whole body *)
Definition k_flow_DPAPINGBlob_unpack : pfun :=
  {| pf_params := ["cls"; "data"];
     pf_body := [
    SAssign ["view"] (PCall "memoryview" [(PName "data")]);
    SAssign ["header"] (PMeth "peek_header" (PCall "ASN1Reader" [(PName "view")]) []);
    SAssign ["content_info"] (PCall "ContentInfo.unpack/header" [(PSlice (PName "view") PNone (PBin "+" (PAttr (PName "header") "tag_length") (PAttr (PName "header") "length"))); (PName "header")]);
    SAssign ["remaining_data"] (PSlice (PName "view") (PBin "+" (PAttr (PName "header") "tag_length") (PAttr (PName "header") "length")) PNone);
    SIf (PCmp "!=" (PAttr (PName "content_info") "content_type") (PName "EnvelopedData.CONTENT_TYPE_ENVELOPED_DATA_OID")) [
      SRaise "ValueError"
    ] [];
    SAssign ["enveloped_data"] (PCall "EnvelopedData.unpack" [(PAttr (PName "content_info") "content")]);
    SIf (POr (PCmp "!=" (PAttr (PName "enveloped_data") "version") (PInt 2)) (POr (PCmp "!=" (PCall "len" [(PAttr (PName "enveloped_data") "recipient_infos")]) (PInt 1)) (POr (PNot (PCall "isinstance" [(PSub (PAttr (PName "enveloped_data") "recipient_infos") (PInt 0)); (PName "KEKRecipientInfo")])) (PCmp "!=" (PAttr (PSub (PAttr (PName "enveloped_data") "recipient_infos") (PInt 0)) "version") (PInt 4))))) [
      SRaise "ValueError"
    ] [];
    SAssign ["kek_info"] (PSub (PAttr (PName "enveloped_data") "recipient_infos") (PInt 0));
    SAssign ["key_identifier"] (PCall "KeyIdentifier.unpack" [(PAttr (PAttr (PName "kek_info") "kekid") "key_identifier")]);
    SIf (POr (PNot (PAttr (PAttr (PName "kek_info") "kekid") "other")) (PCmp "!=" (PAttr (PAttr (PAttr (PName "kek_info") "kekid") "other") "key_attr_id") (PName "DPAPINGBlob.MICROSOFT_SOFTWARE_OID"))) [
      SRaise "ValueError"
    ] [];
    SAssign ["protection_descriptor"] (PCall "ProtectionDescriptor.unpack" [(POr (PAttr (PAttr (PAttr (PName "kek_info") "kekid") "other") "key_attr") (PBytes []))]);
    SAssign ["enc_content"] (POr (PAttr (PAttr (PName "enveloped_data") "encrypted_content_info") "content") (PMeth "tobytes" (PName "remaining_data") []));
    SReturn (PCall "DPAPINGBlob/key_identifier,protection_descriptor,enc_cek,enc_cek_algorithm,enc_cek_parameters,enc_content,enc_content_algorithm,enc_content_parameters" [(PName "key_identifier"); (PName "protection_descriptor"); (PAttr (PName "kek_info") "encrypted_key"); (PAttr (PAttr (PName "kek_info") "key_encryption_algorithm") "algorithm"); (PAttr (PAttr (PName "kek_info") "key_encryption_algorithm") "parameters"); (PName "enc_content"); (PAttr (PAttr (PAttr (PName "enveloped_data") "encrypted_content_info") "algorithm") "algorithm"); (PAttr (PAttr (PAttr (PName "enveloped_data") "encrypted_content_info") "algorithm") "parameters")])
  ] |}.
