(* _rpc/_bind.py :: def BindNak._unpack(cls, data, header, sec_trailer) : whole body *)
Definition k_flow_bindnak_unpack : pfun :=
  {| pf_params := ["cls"; "data"; "header"; "sec_trailer"];
     pf_body := [
    SAssign ["view"] (PCall "memoryview" [(PName "data")]);
    SAssign ["reject_reason"] (PCall "int.from_bytes/byteorder" [(PSlice (PName "view") PNone (PInt 2)); (PStr [108; 105; 116; 116; 108; 101])]);
    SAssign ["versions"] (PList []);
    SAssign ["num_versions"] (PSub (PName "view") (PInt 2));
    SAssign ["view"] (PSlice (PName "view") (PInt 3) PNone);
    SFor ["_"] (PCall "range" [(PName "num_versions")]) [
      SExpr (PMeth "append" (PName "versions") [(PTuple [(PSub (PName "view") (PInt 0)); (PSub (PName "view") (PInt 1))])]);
      SAssign ["view"] (PSlice (PName "view") (PInt 2) PNone)
    ];
    SReturn (PCall "()/header,sec_trailer,reject_reason,versions" [(PName "cls"); (PName "header"); PNone; (PName "reject_reason"); (PName "versions")])
  ] |}.
