(* _rpc/_bind.py :: def BindNak.pack(self) : whole body *)
Definition k_flow_bindnak_pack : pfun :=
  {| pf_params := ["self"];
     pf_body := [
    SAssign ["protocols"] (PComp (PBin "+" (PMeth "to_bytes/byteorder" (PSub (PName "v") (PInt 0)) [(PInt 1); (PStr [108; 105; 116; 116; 108; 101])]) (PMeth "to_bytes/byteorder" (PSub (PName "v") (PInt 1)) [(PInt 1); (PStr [108; 105; 116; 116; 108; 101])])) ["v"] (PAttr (PName "self") "versions") []);
    SAssign ["b_versions"] (PMeth "join" (PBytes []) [(PList [(PMeth "to_bytes/byteorder" (PCall "len" [(PName "protocols")]) [(PInt 1); (PStr [108; 105; 116; 116; 108; 101])]); (PMeth "join" (PBytes []) [(PName "protocols")])])]);
    SAssign ["padding"] (PBin "%" (PNeg (PBin "+" (PInt 2) (PCall "len" [(PName "b_versions")]))) (PInt 4));
    SReturn (PMeth "join" (PBytes []) [(PList [(PMeth "pack" (PAttr (PName "self") "header") []); (PMeth "to_bytes/byteorder" (PAttr (PName "self") "reject_reason") [(PInt 2); (PStr [108; 105; 116; 116; 108; 101])]); (PName "b_versions"); (PBin "*" (PBytes [0]) (PName "padding"))])])
  ] |}.
