(* _rpc/_client.py :: def SyncRpcClient.request(self, context_id, opnum, stub_data, verification_trailer) : whole body *)
Definition k_flow_sync_request : pfun :=
  {| pf_params := ["self"; "context_id"; "opnum"; "stub_data"; "verification_trailer"];
     pf_body := [
    SAssign ["req"; "encrypt_offsets"] (PMeth "_create_request/verification_trailer" (PName "self") [(PName "context_id"); (PName "opnum"); (PName "stub_data"); (PName "verification_trailer")]);
    SReturn (PMeth "_send_pdu/encrypt_offsets" (PName "self") [(PName "req"); (PName "Response"); (PName "encrypt_offsets")])
  ] |}.
Definition k_flow_sync_request_defaults : list (string * pexp) := [("verification_trailer", PNone)].
