(* _client.py :: async_ncrypt_unprotect_secret :: shape kernel :  _async_get_key(... 4: blob.key_identifier.l1  [= DPAPINGBlob.unpack(data).key_identifier.l1] ...) *)
Definition k_onl_aunprot_arg4 (l1 : Z) : Z :=
  l1.
