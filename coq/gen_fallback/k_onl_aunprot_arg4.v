(* _client.py :: async_ncrypt_unprotect_secret :: ('callarg', '_async_get_key', 0, 4) :  blob.key_identifier.l1 *)
Definition k_onl_aunprot_arg4 (blob_key_identifier_l1 : Z) : Z :=
  blob_key_identifier_l1.
