(* /verif/vlib/pysem_src.py :: def o_with_loop(parts) : whole body *)
Definition k_flow_pysem_o_with_loop : pfun :=
  {| pf_params := ["parts"];
     pf_body := [
    SAssign ["w"] (PCall "W" []);
    SFor ["p"] (PName "parts") [
      SWith (PMeth "push" (PName "w") []) (Some "c") [
        SIf (PName "p") [
          SExpr (PMeth "put" (PName "c") [(PName "p")])
        ] []
      ]
    ];
    SReturn (PMeth "get" (PName "w") [])
  ] |}.
