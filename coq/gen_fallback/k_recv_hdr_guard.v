(* _rpc/_client.py :: SyncRpcClient._send_pdu :: ('while', 0) :  len(header) < 16 *)
Definition k_recv_hdr_guard (len_header : Z) : bool :=
  (len_header <? 16).
