(* /verif/vlib/pysem_src.py :: def o_with(a, b) : whole body *)
Definition k_flow_pysem_o_with : pfun :=
  {| pf_params := ["a"; "b"];
     pf_body := [
    SAssign ["w"] (PCall "W" []);
    SExpr (PMeth "put" (PName "w") [(PName "a")]);
    SWith (PMeth "push" (PName "w") []) (Some "c") [
      SExpr (PMeth "put" (PName "c") [(PName "b")]);
      SWith (PMeth "push" (PName "c") []) (Some "d") [
        SExpr (PMeth "put" (PName "d") [(PName "a")]);
        SExpr (PMeth "put" (PName "d") [(PName "a")])
      ];
      SExpr (PMeth "put" (PName "c") [(PBytes [33])])
    ];
    SExpr (PMeth "put" (PName "w") [(PName "b")]);
    SReturn (PMeth "get" (PName "w") [])
  ] |}.
