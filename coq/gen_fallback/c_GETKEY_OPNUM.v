(* dpapi_ng._gkdi :: GetKey(b'').opnum *)
Definition c_GETKEY_OPNUM : Z := 0.
