(* _asn1.py :: _read_asn1_header :: ('augassign', 'length_octets', 0) :  length_octets + (length & 127) *)
Definition k_hdr_len_octets (length_octets : Z) (length : Z) : Z :=
  (length_octets + (Z.land length 127)).
