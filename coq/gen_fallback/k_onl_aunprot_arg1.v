(* _client.py :: async_ncrypt_unprotect_secret :: ('callarg', '_async_get_key', 0, 1) :  target_sd *)
Definition k_onl_aunprot_arg1 (target_sd : list Z) : list Z :=
  target_sd.
