(* _client.py :: async_ncrypt_unprotect_secret :: shape kernel :  _async_get_key(... 1: target_sd  [= DPAPINGBlob.unpack(data).protection_descriptor.get_target_sd()] ...) *)
Definition k_onl_aunprot_arg1 (target_sd : list Z) : list Z :=
  target_sd.
