(* _client.py :: ncrypt_protect_secret :: shape kernel :  _sync_get_key(... 4: l1  [= -1] ...) *)
Definition k_onl_prot_arg4  : Z :=
  (-1).
