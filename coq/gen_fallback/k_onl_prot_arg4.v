(* _client.py :: ncrypt_protect_secret :: ('callarg', '_sync_get_key', 0, 4) :  l1 *)
Definition k_onl_prot_arg4  : Z :=
  (- 1).
