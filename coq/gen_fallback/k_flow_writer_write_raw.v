(* _asn1.py :: def ASN1Writer.write_raw(self, value) : whole body *)
Definition k_flow_writer_write_raw : pfun :=
  {| pf_params := ["self"; "value"];
     pf_body := [
    SExpr (PMeth "extend" (PAttr (PName "self") "_data") [(PName "value")])
  ] |}.
