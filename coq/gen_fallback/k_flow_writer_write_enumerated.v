(* _asn1.py :: def ASN1Writer.write_enumerated(self, value, tag) : whole body *)
Definition k_flow_writer_write_enumerated : pfun :=
  {| pf_params := ["self"; "value"; "tag"];
     pf_body := [
    SExpr (PMeth "extend" (PAttr (PName "self") "_data") [(PCall "_pack_asn1_enumerated/tag" [(PName "value"); (PName "tag")])])
  ] |}.
Definition k_flow_writer_write_enumerated_defaults : list (string * pexp) := [("tag", PNone)].
