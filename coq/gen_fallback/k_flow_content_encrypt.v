(* _crypto.py :: def content_encrypt(algorithm, parameters, cek, value) : whole body *)
Definition k_flow_content_encrypt : pfun :=
  {| pf_params := ["algorithm"; "parameters"; "cek"; "value"];
     pf_body := [
    SIf (PCmp "==" (PName "algorithm") (PName "AlgorithmOID.AES256_GCM")) [
      SIf (PNot (PName "parameters")) [
        SRaise "ValueError"
      ] [];
      SAssign ["reader"] (PMeth "read_sequence" (PCall "ASN1Reader" [(PName "parameters")]) []);
      SAssign ["iv"] (PMeth "read_octet_string" (PName "reader") []);
      SAssign ["cipher"] (PCall "AESGCM" [(PName "cek")]);
      SReturn (PMeth "encrypt" (PName "cipher") [(PName "iv"); (PName "value"); PNone])
    ] [
      SRaise "NotImplementedError"
    ]
  ] |}.
