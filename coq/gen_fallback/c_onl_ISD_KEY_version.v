(* dpapi_ng._gkdi :: ISD_KEY.version *)
Definition c_onl_ISD_KEY_version : Z := 1.
