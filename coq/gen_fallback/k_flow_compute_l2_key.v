(* _gkdi.py :: def compute_l2_key(algorithm, request_l1, request_l2, rk) : whole body *)
Definition k_flow_compute_l2_key : pfun :=
  {| pf_params := ["algorithm"; "request_l1"; "request_l2"; "rk"];
     pf_body := [
    SIf (PNot (PAnd (PAnd (PCmp "<=" (PInt 0) (PName "request_l1")) (PCmp "<=" (PName "request_l1") (PInt 31))) (PAnd (PCmp "<=" (PInt 0) (PName "request_l2")) (PCmp "<=" (PName "request_l2") (PInt 31))))) [
      SRaise "ValueError"
    ] [];
    SIf (POr (PCmp "<" (PAttr (PName "rk") "l1") (PName "request_l1")) (PAnd (PCmp "==" (PAttr (PName "rk") "l1") (PName "request_l1")) (PCmp "<" (PAttr (PName "rk") "l2") (PName "request_l2")))) [
      SRaise "ValueError"
    ] [];
    SAssign ["l1"] (PAttr (PName "rk") "l1");
    SAssign ["l1_key"] (PAttr (PName "rk") "l1_key");
    SAssign ["l2"] (PAttr (PName "rk") "l2");
    SAssign ["l2_key"] (PAttr (PName "rk") "l2_key");
    SAssign ["reseed_l2"] (POr (PCmp "==" (PName "l2") (PInt 31)) (PCmp "!=" (PAttr (PName "rk") "l1") (PName "request_l1")));
    SIf (PAnd (PCmp "!=" (PName "l2") (PInt 31)) (PCmp "!=" (PName "l1") (PName "request_l1"))) [
      SAssign ["l1"] (PBin "-" (PName "l1") (PInt 1))
    ] [];
    SWhile (PCmp "!=" (PName "l1") (PName "request_l1")) [
      SAssign ["reseed_l2"] (PBool true);
      SAssign ["l1"] (PBin "-" (PName "l1") (PInt 1));
      SAssign ["l1_key"] (PCall "kdf" [(PName "algorithm"); (PName "l1_key"); (PName "KDS_SERVICE_LABEL"); (PCall "compute_kdf_context" [(PAttr (PName "rk") "root_key_identifier"); (PAttr (PName "rk") "l0"); (PName "l1"); (PInt (-1))]); (PInt 64)])
    ];
    SIf (PName "reseed_l2") [
      SAssign ["l2"] (PInt 31);
      SAssign ["l2_key"] (PCall "kdf" [(PName "algorithm"); (PName "l1_key"); (PName "KDS_SERVICE_LABEL"); (PCall "compute_kdf_context" [(PAttr (PName "rk") "root_key_identifier"); (PAttr (PName "rk") "l0"); (PName "l1"); (PName "l2")]); (PInt 64)])
    ] [];
    SWhile (PCmp "!=" (PName "l2") (PName "request_l2")) [
      SAssign ["l2"] (PBin "-" (PName "l2") (PInt 1));
      SAssign ["l2_key"] (PCall "kdf" [(PName "algorithm"); (PName "l2_key"); (PName "KDS_SERVICE_LABEL"); (PCall "compute_kdf_context" [(PAttr (PName "rk") "root_key_identifier"); (PAttr (PName "rk") "l0"); (PName "l1"); (PName "l2")]); (PInt 64)])
    ];
    SReturn (PName "l2_key")
  ] |}.
