(* dpapi_ng._client :: [c.context_id for c in _ISD_KEY_CONTEXTS] *)
Definition c_onl_isd_ctx_ids : list Z := [0; 1].
