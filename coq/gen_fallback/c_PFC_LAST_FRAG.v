(* dpapi_ng._rpc._pdu :: int(PacketFlags.PFC_LAST_FRAG) *)
Definition c_PFC_LAST_FRAG : Z := 2.
