(* dpapi_ng._rpc._pdu :: int(PacketFlags.PFC_FIRST_FRAG | PacketFlags.PFC_LAST_FRAG) *)
Definition c_PFC_FIRST_LAST : Z := 3.
