(* dpapi_ng._rpc._pdu :: int(PacketType.FAULT) *)
Definition c_PT_FAULT : Z := 3.
