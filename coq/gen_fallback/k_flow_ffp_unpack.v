(* _gkdi.py :: def FFCDHParameters.unpack(cls, data) : whole body *)
Definition k_flow_ffp_unpack : pfun :=
  {| pf_params := ["cls"; "data"];
     pf_body := [
    SAssign ["view"] (PCall "memoryview" [(PName "data")]);
    SIf (PCmp "!=" (PMeth "tobytes" (PSlice (PName "view") (PInt 4) (PInt 8)) []) (PAttr (PName "cls") "magic")) [
      SRaise "ValueError"
    ] [];
    SAssign ["key_length"] (PCall "int.from_bytes/byteorder" [(PSlice (PName "view") (PInt 8) (PInt 12)); (PStr [108; 105; 116; 116; 108; 101])]);
    SAssign ["field_order"] (PMeth "tobytes" (PSlice (PName "view") (PInt 12) (PBin "+" (PInt 12) (PName "key_length"))) []);
    SAssign ["generator"] (PMeth "tobytes" (PSlice (PName "view") (PBin "+" (PInt 12) (PName "key_length")) (PBin "+" (PBin "+" (PInt 12) (PName "key_length")) (PName "key_length"))) []);
    SReturn (PCall "FFCDHParameters/key_length,field_order,generator" [(PName "key_length"); (PCall "int.from_bytes/byteorder" [(PName "field_order"); (PStr [98; 105; 103])]); (PCall "int.from_bytes/byteorder" [(PName "generator"); (PStr [98; 105; 103])])])
  ] |}.
