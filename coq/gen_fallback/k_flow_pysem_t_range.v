(* /verif/vlib/pysem_src.py :: def t_range(a, b) : whole body *)
Definition k_flow_pysem_t_range : pfun :=
  {| pf_params := ["a"; "b"];
     pf_body := [
    SReturn (PTuple [(PCall "list" [(PCall "range" [(PName "a")])]); (PCall "list" [(PCall "range" [(PName "a"); (PName "b")])]); (PComp (PName "i") ["i"] (PCall "range" [(PName "b")]) [])])
  ] |}.
