(* _rpc/_pdu.py :: def SecTrailer.unpack(cls, data) : whole body *)
Definition k_flow_sectrailer_unpack : pfun :=
  {| pf_params := ["cls"; "data"];
     pf_body := [
    SAssign ["view"] (PCall "memoryview" [(PName "data")]);
    SReturn (PCall "()/type,level,pad_length,context_id,auth_value" [(PName "cls"); (PCall "SecurityProvider" [(PSub (PName "view") (PInt 0))]); (PCall "AuthenticationLevel" [(PSub (PName "view") (PInt 1))]); (PSub (PName "view") (PInt 2)); (PCall "int.from_bytes/byteorder" [(PSlice (PName "view") (PInt 4) (PInt 8)); (PStr [108; 105; 116; 116; 108; 101])]); (PMeth "tobytes" (PSlice (PName "view") (PInt 8) PNone) [])])
  ] |}.
