(* dpapi_ng._rpc._verification :: int(CommandType.SEC_VT_COMMAND_BITMASK_1) *)
Definition c_CMD_BITMASK_1 : Z := 1.
