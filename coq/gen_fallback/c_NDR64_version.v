(* dpapi_ng._rpc._client :: NDR64.version *)
Definition c_NDR64_version : Z := 1.
