(* _client.py :: ncrypt_protect_secret :: ('callarg', '_sync_get_key', 0, 1) :  sd *)
Definition k_onl_prot_arg1 (sd : list Z) : list Z :=
  sd.
