(* _client.py :: ncrypt_protect_secret :: shape kernel :  _sync_get_key(... 1: sd  [= ProtectionDescriptor.parse(protection_descriptor).get_target_sd()] ...) *)
Definition k_onl_prot_arg1 (target_sd : list Z) : list Z :=
  target_sd.
