(* /verif/vlib/pysem_src.py :: def t_comp(xs) : whole body *)
Definition k_flow_pysem_t_comp : pfun :=
  {| pf_params := ["xs"];
     pf_body := [
    SReturn (PTuple [(PComp (PBin "*" (PName "x") (PInt 2)) ["x"] (PName "xs") [(PCmp "==" (PBin "%" (PName "x") (PInt 2)) (PInt 0))]); (PComp (PName "x") ["x"] (PName "xs") [(PCmp ">" (PName "x") (PInt 1)); (PCmp "<" (PName "x") (PInt 9))]); (PMeth "join" (PBytes []) [(PComp (PCall "bytes" [(PList [(PBin "&" (PName "x") (PInt 255))])]) ["x"] (PName "xs") [])])])
  ] |}.
