(* _gkdi.py :: def ECDHKey.pack(self) : whole body *)
Definition k_flow_eck_pack : pfun :=
  {| pf_params := ["self"];
     pf_body := [
    SAssign ["b_x"] (PMeth "to_bytes/byteorder" (PAttr (PName "self") "x") [(PAttr (PName "self") "key_length"); (PStr [98; 105; 103])]);
    SAssign ["b_y"] (PMeth "to_bytes/byteorder" (PAttr (PName "self") "y") [(PAttr (PName "self") "key_length"); (PStr [98; 105; 103])]);
    SAssign ["b_curve"] (PMeth "get" (PCall "dict" [(PTuple [(PStr [80; 50; 53; 54]); (PBytes [69; 67; 75; 49])]); (PTuple [(PStr [80; 51; 56; 52]); (PBytes [69; 67; 75; 51])]); (PTuple [(PStr [80; 53; 50; 49]); (PBytes [69; 67; 75; 53])])]) [(PAttr (PName "self") "curve_name"); PNone]);
    SIf (PNot (PName "b_curve")) [
      SRaise "ValueError"
    ] [];
    SReturn (PMeth "join" (PBytes []) [(PList [(PName "b_curve"); (PMeth "to_bytes/byteorder" (PAttr (PName "self") "key_length") [(PInt 4); (PStr [108; 105; 116; 116; 108; 101])]); (PName "b_x"); (PName "b_y")])])
  ] |}.
