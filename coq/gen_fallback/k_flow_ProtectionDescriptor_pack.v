(* _blob.py :: def ProtectionDescriptor.pack(self) : whole body *)
Definition k_flow_ProtectionDescriptor_pack : pfun :=
  {| pf_params := ["self"];
     pf_body := [
    SAssign ["writer"] (PCall "ASN1Writer" []);
    SWith (PMeth "push_sequence" (PName "writer") []) (Some "w") [
      SExpr (PMeth "write_object_identifier" (PName "w") [(PAttr (PAttr (PName "self") "type") "value")]);
      SWith (PMeth "push_sequence" (PName "w") []) (Some "w1") [
        SWith (PMeth "push_sequence" (PName "w1") []) (Some "w2") [
          SWith (PMeth "push_sequence" (PName "w2") []) (Some "w3") [
            SExpr (PMeth "write_utf8_string" (PName "w3") [(PAttr (PAttr (PName "self") "type") "name")]);
            SExpr (PMeth "write_utf8_string" (PName "w3") [(PAttr (PName "self") "value")])
          ]
        ]
      ]
    ];
    SReturn (PMeth "get_data" (PName "writer") [])
  ] |}.
