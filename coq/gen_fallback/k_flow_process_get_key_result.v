(* _client.py :: def _process_get_key_result(response) : whole body *)
Definition k_flow_process_get_key_result : pfun :=
  {| pf_params := ["response"];
     pf_body := [
    SAssign ["pad_length"] (PCall "len" [(PAttr (PName "response") "stub_data")]);
    SIf (PAnd (PAttr (PName "response") "sec_trailer") (PAttr (PAttr (PName "response") "sec_trailer") "pad_length")) [
      SAssign ["pad_length"] (PBin "-" (PName "pad_length") (PAttr (PAttr (PName "response") "sec_trailer") "pad_length"))
    ] [];
    SAssign ["raw_resp"] (PSlice (PAttr (PName "response") "stub_data") PNone (PName "pad_length"));
    SReturn (PCall "GetKey.unpack_response" [(PName "raw_resp")])
  ] |}.
