(* _asn1.py :: def ASN1Tag.universal_tag(cls, number, is_constructed) : whole body *)
Definition k_flow_universal_tag : pfun :=
  {| pf_params := ["cls"; "number"; "is_constructed"];
     pf_body := [
    SReturn (PCall "ASN1Tag/tag_class,tag_number,is_constructed" [(PName "TagClass.UNIVERSAL"); (PName "number"); (PName "is_constructed")])
  ] |}.
Definition k_flow_universal_tag_defaults : list (string * pexp) := [("is_constructed", (PBool false))].
