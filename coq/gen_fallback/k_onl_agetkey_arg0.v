(* _client.py :: _async_get_key :: shape kernel :  GetKey(... 0: target_sd  [= target_sd] ...) *)
Definition k_onl_agetkey_arg0 (target_sd : list Z) : list Z :=
  target_sd.
