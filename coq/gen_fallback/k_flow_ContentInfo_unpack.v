(* _pkcs7.py :: def ContentInfo.unpack(cls, data, header) : whole body *)
Definition k_flow_ContentInfo_unpack : pfun :=
  {| pf_params := ["cls"; "data"; "header"];
     pf_body := [
    SAssign ["reader"] (PMeth "read_sequence/header" (PCall "ASN1Reader" [(PName "data")]) [(PName "header")]);
    SAssign ["content_type"] (PMeth "read_object_identifier/hint" (PName "reader") [(PStr [67; 111; 110; 116; 101; 110; 116; 73; 110; 102; 111; 46; 99; 111; 110; 116; 101; 110; 116; 84; 121; 112; 101])]);
    SAssign ["content_tag"] (PCall "ASN1Tag/tag_class,tag_number,is_constructed" [(PName "TagClass.CONTEXT_SPECIFIC"); (PInt 0); (PBool true)]);
    SAssign ["content"] (PMeth "read_octet_string/tag,hint" (PName "reader") [(PName "content_tag"); (PStr [67; 111; 110; 116; 101; 110; 116; 73; 110; 102; 111; 46; 99; 111; 110; 116; 101; 110; 116])]);
    SReturn (PCall "ContentInfo" [(PName "content_type"); (PName "content")])
  ] |}.
Definition k_flow_ContentInfo_unpack_defaults : list (string * pexp) := [("header", PNone)].
