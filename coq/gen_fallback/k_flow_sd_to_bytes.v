(* _security_descriptor.py :: def sd_to_bytes(owner, group, sacl, dacl) : whole body *)
Definition k_flow_sd_to_bytes : pfun :=
  {| pf_params := ["owner"; "group"; "sacl"; "dacl"];
     pf_body := [
    SAssign ["control"] (PBin "<<" (PInt 128) (PInt 8));
    SAssign ["dynamic_data"] (PCall "bytearray" []);
    SAssign ["current_offset"] (PInt 20);
    SAssign ["sacl_offset"] (PInt 0);
    SIf (PName "sacl") [
      SAssign ["sacl_bytes"] (PCall "acl_to_bytes" [(PName "sacl")]);
      SAssign ["sacl_offset"] (PName "current_offset");
      SAssign ["current_offset"] (PBin "+" (PName "current_offset") (PCall "len" [(PName "sacl_bytes")]));
      SAssign ["control"] (PBin "|" (PName "control") (PInt 16));
      SAssign ["dynamic_data"] (PBin "+" (PName "dynamic_data") (PName "sacl_bytes"))
    ] [];
    SAssign ["dacl_offset"] (PInt 0);
    SIf (PName "dacl") [
      SAssign ["dacl_bytes"] (PCall "acl_to_bytes" [(PName "dacl")]);
      SAssign ["dacl_offset"] (PName "current_offset");
      SAssign ["current_offset"] (PBin "+" (PName "current_offset") (PCall "len" [(PName "dacl_bytes")]));
      SAssign ["control"] (PBin "|" (PName "control") (PInt 4));
      SAssign ["dynamic_data"] (PBin "+" (PName "dynamic_data") (PName "dacl_bytes"))
    ] [];
    SAssign ["owner_bytes"] (PCall "sid_to_bytes" [(PName "owner")]);
    SAssign ["owner_offset"] (PName "current_offset");
    SAssign ["current_offset"] (PBin "+" (PName "current_offset") (PCall "len" [(PName "owner_bytes")]));
    SAssign ["dynamic_data"] (PBin "+" (PName "dynamic_data") (PName "owner_bytes"));
    SAssign ["group_bytes"] (PCall "sid_to_bytes" [(PName "group")]);
    SAssign ["group_offset"] (PName "current_offset");
    SAssign ["dynamic_data"] (PBin "+" (PName "dynamic_data") (PName "group_bytes"));
    SReturn (PMeth "join" (PBytes []) [(PList [(PBytes [1; 0]); (PMeth "to_bytes/byteorder" (PName "control") [(PInt 2); (PStr [108; 105; 116; 116; 108; 101])]); (PMeth "to_bytes/byteorder" (PName "owner_offset") [(PInt 4); (PStr [108; 105; 116; 116; 108; 101])]); (PMeth "to_bytes/byteorder" (PName "group_offset") [(PInt 4); (PStr [108; 105; 116; 116; 108; 101])]); (PMeth "to_bytes/byteorder" (PName "sacl_offset") [(PInt 4); (PStr [108; 105; 116; 116; 108; 101])]); (PMeth "to_bytes/byteorder" (PName "dacl_offset") [(PInt 4); (PStr [108; 105; 116; 116; 108; 101])]); (PName "dynamic_data")])])
  ] |}.
Definition k_flow_sd_to_bytes_defaults : list (string * pexp) := [("sacl", PNone); ("dacl", PNone)].
