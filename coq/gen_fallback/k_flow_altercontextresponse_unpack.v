(* _rpc/_bind.py :: def AlterContextResponse._unpack(cls, data, header, sec_trailer) : whole body *)
Definition k_flow_altercontextresponse_unpack : pfun :=
  {| pf_params := ["cls"; "data"; "header"; "sec_trailer"];
     pf_body := [
    SReturn (PCall "BindAck._unpack.__func__" [(PName "cls"); (PName "data"); (PName "header"); (PName "sec_trailer")])
  ] |}.
