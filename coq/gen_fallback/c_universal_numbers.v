(* dpapi_ng._asn1 :: bytes(sorted(set(int(x) for x in TypeTagNumber))) *)
Definition c_universal_numbers : list Z := [0; 1; 2; 3; 4; 5; 6; 7; 8; 9; 10; 11; 12; 13; 14; 15; 16; 17; 18; 19; 20; 21; 22; 23; 24; 25; 26; 27; 28; 29; 30; 31; 32; 33; 34; 35; 36].
