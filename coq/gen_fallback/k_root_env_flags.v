(* _client.py :: KeyCache._get_key :: ('callarg', 'GroupKeyEnvelope', 0, 'flags') :  2 *)
Definition k_root_env_flags  : Z :=
  2.
