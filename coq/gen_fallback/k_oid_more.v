(* _asn1.py :: _encode_object_identifier :: ('while', 0) :  cmp_data > 127 *)
Definition k_oid_more (cmp_data : Z) : bool :=
  (cmp_data >? 127).
