(* _client.py :: async def async_ncrypt_protect_secret(data, protection_descriptor, root_key_identifier, server, domain_name, username, password, auth_protocol, cache) : whole body *)
Definition k_flow_async_ncrypt_protect_secret : pfun :=
  {| pf_params := ["data"; "protection_descriptor"; "root_key_identifier"; "server"; "domain_name"; "username"; "password"; "auth_protocol"; "cache"];
     pf_body := [
    SAssign ["l0"] (PInt (-1));
    SAssign ["l1"] (PInt (-1));
    SAssign ["l2"] (PInt (-1));
    SAssign ["descriptor"] (PCall "ProtectionDescriptor.parse" [(PName "protection_descriptor")]);
    SAssign ["sd"] (PMeth "get_target_sd" (PName "descriptor") []);
    SAssign ["cache"] (POr (PName "cache") (PCall "KeyCache" []));
    SAssign ["rk"] (PCall "_get_protection_gke_from_cache" [(PName "root_key_identifier"); (PName "sd"); (PName "cache")]);
    SIf (PNot (PName "rk")) [
      SIf (PNot (PName "server")) [
        SAssign ["srv"] (PCall "async_lookup_dc" [(PName "domain_name")]);
        SAssign ["server"] (PAttr (PName "srv") "target")
      ] [];
      SAssign ["rk"] (PCall "_async_get_key/username,password,auth_protocol" [(PName "server"); (PName "sd"); (PName "root_key_identifier"); (PName "l0"); (PName "l1"); (PName "l2"); (PName "username"); (PName "password"); (PName "auth_protocol")])
    ] [];
    SIf (PNot (PAttr (PName "rk") "is_public_key")) [
      SExpr (PMeth "_store_key" (PName "cache") [(PName "sd"); (PName "rk")])
    ] [];
    SReturn (PCall "_encrypt_blob" [(PName "data"); (PName "rk"); (PName "descriptor")])
  ] |}.
Definition k_flow_async_ncrypt_protect_secret_defaults : list (string * pexp) := [("root_key_identifier", PNone); ("server", PNone); ("domain_name", PNone); ("username", PNone); ("password", PNone); ("auth_protocol", (PStr [110; 101; 103; 111; 116; 105; 97; 116; 101])); ("cache", PNone)].
