(* _rpc/_bind.py :: def ContextElement.pack(self) : whole body *)
Definition k_flow_contextelement_pack : pfun :=
  {| pf_params := ["self"];
     pf_body := [
    SReturn (PMeth "join" (PBytes []) [(PList [(PMeth "to_bytes/byteorder" (PAttr (PName "self") "context_id") [(PInt 2); (PStr [108; 105; 116; 116; 108; 101])]); (PMeth "to_bytes/byteorder" (PCall "len" [(PAttr (PName "self") "transfer_syntaxes")]) [(PInt 2); (PStr [108; 105; 116; 116; 108; 101])]); (PMeth "pack" (PAttr (PName "self") "abstract_syntax") []); (PMeth "join" (PBytes []) [(PComp (PMeth "pack" (PName "t") []) ["t"] (PAttr (PName "self") "transfer_syntaxes") [])])])])
  ] |}.
