(* _rpc/_client.py :: RpcClient._create_bind :: ('callarg', 'Bind', 0, 'max_recv_frag') :  5840 *)
Definition k_onl_bind_max_recv  : Z :=
  5840.
