(* _pkcs7.py :: def RecipientInfo.pack(self, writer) : whole body *)
Definition k_flow_RecipientInfo_pack : pfun :=
  {| pf_params := ["self"; "writer"];
     pf_body := [
    SRaise "NotImplementedError"
  ] |}.
