(* dpapi_ng._epm :: sorted(int(k) for k in _FLOOR_TYPE_REGISTRY) *)
Definition c_FLOOR_registry : list Z := [7; 9; 11; 13].
