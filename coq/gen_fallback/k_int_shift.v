(* _asn1.py :: _pack_asn1_integer :: ('augassign', 'value', 0) :  value >> 8 *)
Definition k_int_shift (value : Z) : Z :=
  (Z.shiftr value 8).
