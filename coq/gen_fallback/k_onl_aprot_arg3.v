(* _client.py :: async_ncrypt_protect_secret :: ('callarg', '_async_get_key', 0, 3) :  l0 *)
Definition k_onl_aprot_arg3  : Z :=
  (- 1).
