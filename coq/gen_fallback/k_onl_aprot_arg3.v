(* _client.py :: async_ncrypt_protect_secret :: shape kernel :  _async_get_key(... 3: l0  [= -1] ...) *)
Definition k_onl_aprot_arg3  : Z :=
  (-1).
