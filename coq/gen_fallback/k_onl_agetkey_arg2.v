(* _client.py :: _async_get_key :: shape kernel :  GetKey(... 2: l0  [= l0] ...) *)
Definition k_onl_agetkey_arg2 (l0 : Z) : Z :=
  l0.
