(* _epm.py :: def IPFloor._unpack(cls, lhs, rhs) : whole body *)
Definition k_flow_ipfloor_unpack : pfun :=
  {| pf_params := ["cls"; "lhs"; "rhs"];
     pf_body := [
    SReturn (PCall "IPFloor" [(PCall "int.from_bytes/byteorder" [(PName "rhs"); (PStr [98; 105; 103])])])
  ] |}.
