(* _asn1.py :: _pack_asn1_octet_number :: ('assign', 'octet_value', 0) :  num & 127 *)
Definition k_b128_low (num : Z) : Z :=
  (Z.land num 127).
