(* _pkcs7.py :: def EnvelopedData.unpack(cls, data) : whole body *)
Definition k_flow_EnvelopedData_unpack : pfun :=
  {| pf_params := ["cls"; "data"];
     pf_body := [
    SAssign ["reader"] (PMeth "read_sequence" (PCall "ASN1Reader" [(PName "data")]) []);
    SAssign ["version"] (PMeth "read_integer/hint" (PName "reader") [(PStr [69; 110; 118; 101; 108; 111; 112; 101; 100; 68; 97; 116; 97; 46; 118; 101; 114; 115; 105; 111; 110])]);
    SIf (PCmp "!=" (PName "version") (PInt 2)) [
      SRaise "NotImplementedError"
    ] [];
    SAssign ["recipient_infos"] (PList []);
    SAssign ["recipient_infos_reader"] (PMeth "read_set_of/hint" (PName "reader") [(PStr [69; 110; 118; 101; 108; 111; 112; 101; 100; 68; 97; 116; 97; 46; 114; 101; 99; 105; 112; 105; 101; 110; 116; 73; 110; 102; 111; 115])]);
    SWhile (PName "recipient_infos_reader") [
      SAssign ["info"] (PCall "RecipientInfo.unpack" [(PName "recipient_infos_reader")]);
      SExpr (PMeth "append" (PName "recipient_infos") [(PName "info")])
    ];
    SAssign ["enc_content"] (PCall "EncryptedContentInfo.unpack" [(PName "reader")]);
    SReturn (PCall "EnvelopedData/version,recipient_infos,encrypted_content_info" [(PName "version"); (PName "recipient_infos"); (PName "enc_content")])
  ] |}.
