(* _client.py :: def _decrypt_blob(blob, key) : whole body *)
Definition k_flow_decrypt_blob : pfun :=
  {| pf_params := ["blob"; "key"];
     pf_body := [
    SAssign ["kek"] (PMeth "get_kek" (PName "key") [(PAttr (PName "blob") "key_identifier")]);
    SAssign ["cek"] (PCall "cek_decrypt" [(PAttr (PName "blob") "enc_cek_algorithm"); (PAttr (PName "blob") "enc_cek_parameters"); (PName "kek"); (PAttr (PName "blob") "enc_cek")]);
    SReturn (PCall "content_decrypt" [(PAttr (PName "blob") "enc_content_algorithm"); (PAttr (PName "blob") "enc_content_parameters"); (PName "cek"); (PAttr (PName "blob") "enc_content")])
  ] |}.
