(* _rpc/_request.py :: def Response._unpack(cls, data, header, sec_trailer) : whole body *)
Definition k_flow_response_unpack : pfun :=
  {| pf_params := ["cls"; "data"; "header"; "sec_trailer"];
     pf_body := [
    SAssign ["view"] (PCall "memoryview" [(PName "data")]);
    SReturn (PCall "()/header,sec_trailer,alloc_hint,context_id,cancel_count,stub_data" [(PName "cls"); (PName "header"); (PName "sec_trailer"); (PCall "int.from_bytes/byteorder" [(PSlice (PName "view") PNone (PInt 4)); (PStr [108; 105; 116; 116; 108; 101])]); (PCall "int.from_bytes/byteorder" [(PSlice (PName "view") (PInt 4) (PInt 6)); (PStr [108; 105; 116; 116; 108; 101])]); (PSub (PName "view") (PInt 6)); (PMeth "tobytes" (PSlice (PName "view") (PInt 8) PNone) [])])
  ] |}.
