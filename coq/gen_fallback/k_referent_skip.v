(* _epm.py :: EptMapResult.unpack :: ('assign', 'tower_data_offset', 0) :  8 * tower_count *)
Definition k_referent_skip (tower_count : Z) : Z :=
  (8 * tower_count).
