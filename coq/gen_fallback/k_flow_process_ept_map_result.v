(* _client.py :: def _process_ept_map_result(response) : whole body *)
Definition k_flow_process_ept_map_result : pfun :=
  {| pf_params := ["response"];
     pf_body := [
    SAssign ["map_response"] (PCall "EptMapResult.unpack" [(PAttr (PName "response") "stub_data")]);
    SIf (PCmp "!=" (PAttr (PName "map_response") "status") (PInt 0)) [
      SRaise "ValueError"
    ] [];
    SFor ["tower"] (PAttr (PName "map_response") "towers") [
      SFor ["floor"] (PName "tower") [
        SIf (PCall "isinstance" [(PName "floor"); (PName "TCPFloor")]) [
          SReturn (PAttr (PName "floor") "port")
        ] []
      ]
    ];
    SRaise "ValueError"
  ] |}.
