(* dpapi_ng._rpc._client :: NDR64.uuid *)
Definition c_NDR64_uuid : list Z := [51; 5; 113; 113; 186; 190; 55; 73; 131; 25; 181; 219; 239; 156; 204; 54].
