(* _client.py :: _async_get_key :: shape kernel :  rpc.request(context_id, ept_map.opnum, ept_map.pack())  (context_id = _EPM_CONTEXTS[0].context_id) *)
Definition k_onl_async_epm_ctx (epm_context_id : Z) : Z :=
  epm_context_id.
