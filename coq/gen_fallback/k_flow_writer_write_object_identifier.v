(* _asn1.py :: def ASN1Writer.write_object_identifier(self, value, tag) : whole body *)
Definition k_flow_writer_write_object_identifier : pfun :=
  {| pf_params := ["self"; "value"; "tag"];
     pf_body := [
    SExpr (PMeth "extend" (PAttr (PName "self") "_data") [(PCall "_pack_asn1_object_identifier/tag" [(PName "value"); (PName "tag")])])
  ] |}.
Definition k_flow_writer_write_object_identifier_defaults : list (string * pexp) := [("tag", PNone)].
