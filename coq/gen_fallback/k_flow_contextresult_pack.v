(* _rpc/_bind.py :: def ContextResult.pack(self) : whole body *)
Definition k_flow_contextresult_pack : pfun :=
  {| pf_params := ["self"];
     pf_body := [
    SReturn (PMeth "join" (PBytes []) [(PList [(PMeth "to_bytes/byteorder" (PAttr (PName "self") "result") [(PInt 2); (PStr [108; 105; 116; 116; 108; 101])]); (PMeth "to_bytes/byteorder" (PAttr (PName "self") "reason") [(PInt 2); (PStr [108; 105; 116; 116; 108; 101])]); (PAttr (PAttr (PName "self") "syntax") "bytes_le"); (PMeth "to_bytes/byteorder" (PAttr (PName "self") "syntax_version") [(PInt 4); (PStr [108; 105; 116; 116; 108; 101])])])])
  ] |}.
