(* _asn1.py :: def _validate_tag(data, expected_tag, type_tag, header, hint) : whole body *)
Definition k_flow_validate_tag : pfun :=
  {| pf_params := ["data"; "expected_tag"; "type_tag"; "header"; "hint"];
     pf_body := [
    SAssign ["view"] (PCall "memoryview" [(PName "data")]);
    SIf (PName "header") [
      SAssign ["actual_tag"; "tag_length"; "data_length"] (PName "header")
    ] [
      SAssign ["actual_tag"; "tag_length"; "data_length"] (PCall "_read_asn1_header" [(PName "view")])
    ];
    SAssign ["hint_str"] (PIfExp (PName "hint") (PCall "f-string" [(PStr [32; 102; 111; 114; 32]); (PName "hint")]) (PStr []));
    SIf (PNot (PName "expected_tag")) [
      SAssign ["expected_tag"] (PIfExp (PName "header") (PAttr (PName "header") "tag") (PName "type_tag"))
    ] [];
    SIf (PCmp "!=" (PName "actual_tag") (PName "expected_tag")) [
      SRaise "ValueError"
    ] [];
    SAssign ["view"] (PSlice (PName "view") (PName "tag_length") PNone);
    SIf (PCmp "<" (PCall "len" [(PName "view")]) (PName "data_length")) [
      SRaise "NotEnougData"
    ] [];
    SReturn (PTuple [(PSlice (PName "view") PNone (PName "data_length")); (PBin "+" (PName "tag_length") (PName "data_length"))])
  ] |}.
Definition k_flow_validate_tag_defaults : list (string * pexp) := [("header", PNone); ("hint", PNone)].
