(* _security_descriptor.py :: sid_to_bytes :: ('callarg', 'sub_auth.to_bytes', 0, 0) :  4 *)
Definition k_sid_sub_width  : Z :=
  4.
