(* _asn1.py :: _pack_asn1_octet_number :: ('augassign', 'num', 0) :  num >> 7 *)
Definition k_b128_shift (num : Z) : Z :=
  (Z.shiftr num 7).
