(* _rpc/_client.py :: RpcClient._create_alter_context :: ('callarg', 'AlterContext', 0, 'assoc_group') :  0 *)
Definition k_onl_alter_assoc  : Z :=
  0.
