(* _client.py :: ncrypt_protect_secret :: shape kernel :  sd = descriptor.get_target_sd() *)
Definition k_onl_prot_sd_src  : bool :=
  true.
