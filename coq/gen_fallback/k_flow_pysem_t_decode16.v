(* /verif/vlib/pysem_src.py :: def t_decode16(b) : whole body *)
Definition k_flow_pysem_t_decode16 : pfun :=
  {| pf_params := ["b"];
     pf_body := [
    SReturn (PMeth "decode" (PName "b") [(PStr [117; 116; 102; 45; 49; 54; 45; 108; 101])])
  ] |}.
