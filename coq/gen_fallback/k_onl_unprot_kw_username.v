(* _client.py :: ncrypt_unprotect_secret :: ('callarg', '_sync_get_key', 0, 'username') :  username *)
Definition k_onl_unprot_kw_username (username : list Z) : list Z :=
  username.
