(* _security_descriptor.py :: sd_to_bytes :: ('augassign', 'current_offset', 2) :  current_offset + len(owner_bytes) *)
Definition k_sd_off_owner (current_offset : Z) (len_owner_bytes : Z) : Z :=
  (current_offset + len_owner_bytes).
