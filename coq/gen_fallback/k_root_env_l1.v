(* _client.py :: KeyCache._get_key :: ('callarg', 'GroupKeyEnvelope', 0, 'l1') :  31 *)
Definition k_root_env_l1  : Z :=
  31.
