(* /verif/vlib/pysem_src.py :: def t_slice(x, i, j) : whole body *)
Definition k_flow_pysem_t_slice : pfun :=
  {| pf_params := ["x"; "i"; "j"];
     pf_body := [
    SReturn (PTuple [(PSlice (PName "x") (PName "i") (PName "j")); (PSlice (PName "x") PNone (PName "i")); (PSlice (PName "x") (PName "j") PNone); (PSlice (PName "x") (PInt (-1)) PNone); (PSlice (PName "x") PNone (PInt (-1))); (PSlice (PName "x") (PName "i") PNone); (PCall "len" [(PName "x")])])
  ] |}.
