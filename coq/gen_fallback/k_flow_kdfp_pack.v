(* _gkdi.py :: def KDFParameters.pack(self) : whole body *)
Definition k_flow_kdfp_pack : pfun :=
  {| pf_params := ["self"];
     pf_body := [
    SAssign ["b_hash_name"] (PMeth "encode" (PBin "+" (PAttr (PName "self") "hash_name") (PStr [0])) [(PStr [117; 116; 102; 45; 49; 54; 45; 108; 101])]);
    SReturn (PMeth "join" (PBytes []) [(PList [(PBytes [0; 0; 0; 0; 1; 0; 0; 0]); (PMeth "to_bytes/byteorder" (PCall "len" [(PName "b_hash_name")]) [(PInt 4); (PStr [108; 105; 116; 116; 108; 101])]); (PBytes [0; 0; 0; 0]); (PName "b_hash_name")])])
  ] |}.
