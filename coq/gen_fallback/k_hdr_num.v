(* _asn1.py :: _read_asn1_header :: ('assign', 'tag_number', 0) :  octet1 & 31 *)
Definition k_hdr_num (octet1 : Z) : Z :=
  (Z.land octet1 31).
