(* _rpc/_bind.py :: def BindAck._unpack(cls, data, header, sec_trailer) : whole body *)
Definition k_flow_bindack_unpack : pfun :=
  {| pf_params := ["cls"; "data"; "header"; "sec_trailer"];
     pf_body := [
    SAssign ["view"] (PCall "memoryview" [(PName "data")]);
    SAssign ["max_xmit_frag"] (PCall "int.from_bytes/byteorder" [(PSlice (PName "view") PNone (PInt 2)); (PStr [108; 105; 116; 116; 108; 101])]);
    SAssign ["max_recv_frag"] (PCall "int.from_bytes/byteorder" [(PSlice (PName "view") (PInt 2) (PInt 4)); (PStr [108; 105; 116; 116; 108; 101])]);
    SAssign ["assoc_group"] (PCall "int.from_bytes/byteorder" [(PSlice (PName "view") (PInt 4) (PInt 8)); (PStr [108; 105; 116; 116; 108; 101])]);
    SAssign ["sec_addr_len"] (PCall "int.from_bytes/byteorder" [(PSlice (PName "view") (PInt 8) (PInt 10)); (PStr [108; 105; 116; 116; 108; 101])]);
    SAssign ["sec_addr"] (PMeth "decode" (PMeth "tobytes" (PSlice (PName "view") (PInt 10) (PBin "-" (PBin "+" (PInt 10) (PName "sec_addr_len")) (PInt 1))) []) [(PStr [117; 116; 102; 45; 56])]);
    SAssign ["padding"] (PBin "%" (PNeg (PBin "+" (PInt 2) (PName "sec_addr_len"))) (PInt 4));
    SAssign ["view"] (PSlice (PName "view") (PBin "+" (PBin "+" (PInt 10) (PName "sec_addr_len")) (PName "padding")) PNone);
    SAssign ["num_result"] (PSub (PName "view") (PInt 0));
    SAssign ["view"] (PSlice (PName "view") (PInt 4) PNone);
    SAssign ["results"] (PList []);
    SFor ["_"] (PCall "range" [(PName "num_result")]) [
      SExpr (PMeth "append" (PName "results") [(PCall "ContextResult.unpack" [(PName "view")])]);
      SAssign ["view"] (PSlice (PName "view") (PInt 24) PNone)
    ];
    SReturn (PCall "()/header,sec_trailer,max_xmit_frag,max_recv_frag,assoc_group,sec_addr,results" [(PName "cls"); (PName "header"); (PName "sec_trailer"); (PName "max_xmit_frag"); (PName "max_recv_frag"); (PName "assoc_group"); (PName "sec_addr"); (PName "results")])
  ] |}.
