(* dpapi_ng._rpc._client :: NDR.uuid *)
Definition c_NDR_uuid : list Z := [4; 93; 136; 138; 235; 28; 201; 17; 159; 232; 8; 0; 43; 16; 72; 96].
