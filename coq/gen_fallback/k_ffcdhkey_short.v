(* _gkdi.py :: FFCDHKey.unpack :: ('if_mentions', 'key_length', 0) :  len(view) < 8 + key_length * 3 *)
Definition k_ffcdhkey_short (len_view : Z) (key_length : Z) : bool :=
  (len_view <? (8 + (key_length * 3))).
