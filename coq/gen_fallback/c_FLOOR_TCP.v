(* dpapi_ng._epm :: int(FloorProtocol.TCP) *)
Definition c_FLOOR_TCP : Z := 7.
