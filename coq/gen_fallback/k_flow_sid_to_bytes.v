(* _security_descriptor.py :: def sid_to_bytes(sid) : whole body *)
Definition k_flow_sid_to_bytes : pfun :=
  {| pf_params := ["sid"];
     pf_body := [
    SAssign ["sid_pattern"] (PCall "re.compile" [(PStr [94; 83; 45; 40; 91; 48; 45; 57; 93; 41; 45; 40; 91; 48; 45; 57; 93; 43; 41; 40; 63; 58; 45; 91; 48; 45; 57; 93; 43; 41; 123; 49; 44; 49; 53; 125; 92; 90])]);
    SAssign ["sid_match"] (PMeth "match" (PName "sid_pattern") [(PName "sid")]);
    SIf (PNot (PName "sid_match")) [
      SRaise "ValueError"
    ] [];
    SAssign ["sid_split"] (PMeth "split" (PName "sid") [(PStr [45])]);
    SAssign ["revision"] (PCall "int" [(PSub (PName "sid_split") (PInt 1))]);
    SAssign ["authority"] (PCall "int" [(PSub (PName "sid_split") (PInt 2))]);
    SIf (PCmp ">=" (PName "authority") (PBin "**" (PInt 2) (PInt 48))) [
      SRaise "ValueError"
    ] [];
    SAssign ["data"] (PCall "bytearray" [(PMeth "to_bytes/byteorder" (PName "authority") [(PInt 8); (PStr [98; 105; 103])])]);
    SAssign ["data"] (PCall "setitem" [(PName "data"); (PInt 0); (PName "revision")]);
    SAssign ["data"] (PCall "setitem" [(PName "data"); (PInt 1); (PBin "-" (PCall "len" [(PName "sid_split")]) (PInt 3))]);
    SFor ["idx"] (PCall "range" [(PInt 3); (PCall "len" [(PName "sid_split")])]) [
      SAssign ["sub_auth"] (PCall "int" [(PSub (PName "sid_split") (PName "idx"))]);
      SIf (PCmp ">=" (PName "sub_auth") (PBin "**" (PInt 2) (PInt 32))) [
        SRaise "ValueError"
      ] [];
      SAssign ["data"] (PBin "+" (PName "data") (PMeth "to_bytes/byteorder" (PName "sub_auth") [(PInt 4); (PStr [108; 105; 116; 116; 108; 101])]))
    ];
    SReturn (PCall "bytes" [(PName "data")])
  ] |}.
