(* _asn1.py :: def ASN1Reader.__bool__(self) : whole body *)
Definition k_flow_reader_bool : pfun :=
  {| pf_params := ["self"];
     pf_body := [
    SReturn (PCall "bool" [(PAttr (PName "self") "_view")])
  ] |}.
