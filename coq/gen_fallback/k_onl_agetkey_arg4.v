(* _client.py :: _async_get_key :: shape kernel :  GetKey(... 4: l2  [= l2] ...) *)
Definition k_onl_agetkey_arg4 (l2 : Z) : Z :=
  l2.
