(* _client.py :: _async_get_key :: ('callarg', 'GetKey', 0, 4) :  l2 *)
Definition k_onl_agetkey_arg4 (l2 : Z) : Z :=
  l2.
