(* dpapi_ng._asn1 :: TagClass.UNIVERSAL *)
Definition c_class_universal : Z := 0.
