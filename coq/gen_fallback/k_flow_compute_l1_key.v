(* _gkdi.py :: def compute_l1_key(target_sd, root_key_id, l0, root_key, algorithm) : whole body *)
Definition k_flow_compute_l1_key : pfun :=
  {| pf_params := ["target_sd"; "root_key_id"; "l0"; "root_key"; "algorithm"];
     pf_body := [
    SAssign ["l0_seed"] (PCall "kdf" [(PName "algorithm"); (PName "root_key"); (PName "KDS_SERVICE_LABEL"); (PCall "compute_kdf_context" [(PName "root_key_id"); (PName "l0"); (PInt (-1)); (PInt (-1))]); (PInt 64)]);
    SReturn (PCall "kdf" [(PName "algorithm"); (PName "l0_seed"); (PName "KDS_SERVICE_LABEL"); (PBin "+" (PCall "compute_kdf_context" [(PName "root_key_id"); (PName "l0"); (PInt 31); (PInt (-1))]) (PName "target_sd")); (PInt 64)])
  ] |}.
