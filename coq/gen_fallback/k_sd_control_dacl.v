(* _security_descriptor.py :: sd_to_bytes :: ('augassign', 'control', 1) :  control | 4 *)
Definition k_sd_control_dacl (control : Z) : Z :=
  (Z.lor control 4).
