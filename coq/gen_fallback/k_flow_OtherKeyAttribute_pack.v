(* _pkcs7.py :: def OtherKeyAttribute.pack(self, writer) : whole body *)
Definition k_flow_OtherKeyAttribute_pack : pfun :=
  {| pf_params := ["self"; "writer"];
     pf_body := [
    SWith (PMeth "push_sequence" (PName "writer") []) (Some "w") [
      SExpr (PMeth "write_object_identifier" (PName "w") [(PAttr (PName "self") "key_attr_id")]);
      SIf (PAttr (PName "self") "key_attr") [
        SExpr (PMeth "write_raw" (PName "w") [(PAttr (PName "self") "key_attr")])
      ] []
    ]
  ] |}.
