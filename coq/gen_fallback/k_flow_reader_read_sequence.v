(* _asn1.py :: def ASN1Reader.read_sequence(self, tag, header, hint) : whole body *)
Definition k_flow_reader_read_sequence : pfun :=
  {| pf_params := ["self"; "tag"; "header"; "hint"];
     pf_body := [
    SAssign ["new_view"; "consumed"] (PCall "_read_asn1_sequence/tag,header,hint" [(PAttr (PName "self") "_view"); (PName "tag"); (PName "header"); (PName "hint")]);
    SSetAttr "self" "_view" (PSlice (PAttr (PName "self") "_view") (PName "consumed") PNone);
    SReturn (PCall "ASN1Reader" [(PName "new_view")])
  ] |}.
Definition k_flow_reader_read_sequence_defaults : list (string * pexp) := [("tag", PNone); ("header", PNone); ("hint", PNone)].
