(* _security_descriptor.py :: ace_to_bytes :: ('callarg', 'access_mask.to_bytes', 0, 'byteorder') :  'little' *)
Definition k_ace_mask_order  : list Z :=
  [108; 105; 116; 116; 108; 101].
