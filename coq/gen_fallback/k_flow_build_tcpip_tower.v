(* _epm.py :: def build_tcpip_tower(service, data_rep, port, addr) : whole body *)
Definition k_flow_build_tcpip_tower : pfun :=
  {| pf_params := ["service"; "data_rep"; "port"; "addr"];
     pf_body := [
    SReturn (PList [(PCall "UUIDFloor" [(PAttr (PName "service") "uuid"); (PAttr (PName "service") "version"); (PAttr (PName "service") "version_minor")]); (PCall "UUIDFloor" [(PAttr (PName "data_rep") "uuid"); (PAttr (PName "data_rep") "version"); (PAttr (PName "data_rep") "version_minor")]); (PCall "RPCConnectionOrientedFloor" [(PInt 0)]); (PCall "TCPFloor" [(PName "port")]); (PCall "IPFloor" [(PName "addr")])])
  ] |}.
