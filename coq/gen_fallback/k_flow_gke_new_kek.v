(* _gkdi.py :: def GroupKeyEnvelope.new_kek(self) : whole body *)
Definition k_flow_gke_new_kek : pfun :=
  {| pf_params := ["self"];
     pf_body := [
    SIf (PCmp "!=" (PAttr (PName "self") "kdf_algorithm") (PStr [83; 80; 56; 48; 48; 95; 49; 48; 56; 95; 67; 84; 82; 95; 72; 77; 65; 67])) [
      SRaise "NotImplementedError"
    ] [];
    SAssign ["kdf_parameters"] (PCall "KDFParameters.unpack" [(PAttr (PName "self") "kdf_parameters")]);
    SAssign ["hash_algo"] (PAttr (PName "kdf_parameters") "hash_algorithm");
    SIf (PAttr (PName "self") "is_public_key") [
      SAssign ["private_key"] (PCall "os.urandom" [(PCall "math.ceil" [(PBin "/" (PAttr (PName "self") "private_key_length") (PInt 8))])]);
      SAssign ["kek"] (PCall "compute_kek/algorithm,secret_algorithm,secret_parameters,private_key,public_key" [(PName "hash_algo"); (PAttr (PName "self") "secret_algorithm"); (PAttr (PName "self") "secret_parameters"); (PName "private_key"); (PAttr (PName "self") "l2_key")]);
      SAssign ["key_info"] (PCall "compute_public_key/secret_algorithm,secret_parameters,private_key,peer_public_key" [(PAttr (PName "self") "secret_algorithm"); (PAttr (PName "self") "secret_parameters"); (PName "private_key"); (PAttr (PName "self") "l2_key")])
    ] [
      SAssign ["key_info"] (PCall "os.urandom" [(PInt 32)]);
      SAssign ["kek"] (PCall "kdf" [(PName "hash_algo"); (POr (PAttr (PName "self") "l2_key") (PCall "compute_l2_key" [(PName "hash_algo"); (PAttr (PName "self") "l1"); (PAttr (PName "self") "l2"); (PName "self")])); (PName "KDS_SERVICE_LABEL"); (PName "key_info"); (PInt 32)])
    ];
    SAssign ["key_identifier"] (PCall "KeyIdentifier/version,flags,l0,l1,l2,root_key_identifier,key_info,domain_name,forest_name" [(PInt 1); (PAttr (PName "self") "flags"); (PAttr (PName "self") "l0"); (PAttr (PName "self") "l1"); (PAttr (PName "self") "l2"); (PAttr (PName "self") "root_key_identifier"); (PName "key_info"); (PAttr (PName "self") "domain_name"); (PAttr (PName "self") "forest_name")]);
    SReturn (PTuple [(PName "kek"); (PName "key_identifier")])
  ] |}.
