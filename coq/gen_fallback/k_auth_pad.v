(* _rpc/_client.py :: RpcClient._create_request :: ('assign', 'pad_length', 0) :  -len(stub_data) % 16 *)
Definition k_auth_pad (len_stub_data : Z) : Z :=
  ((- len_stub_data) mod 16).
