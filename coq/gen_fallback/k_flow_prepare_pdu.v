(* _rpc/_client.py :: def RpcClient._prepare_pdu(self, pdu, encrypt_offsets) : whole body *)
Definition k_flow_prepare_pdu : pfun :=
  {| pf_params := ["self"; "pdu"; "encrypt_offsets"];
     pf_body := [
    SAssign ["b_pdu"] (PCall "bytearray" [(PMeth "pack" (PName "pdu") [])]);
    SAssign ["view"] (PCall "memoryview" [(PName "b_pdu")]);
    SAssign ["view"] (PCall "setslice" [(PName "view"); (PInt 8); (PInt 10); (PMeth "to_bytes/byteorder" (PCall "len" [(PName "b_pdu")]) [(PInt 2); (PStr [108; 105; 116; 116; 108; 101])])]);
    SIf (PAnd (PAttr (PName "self") "_auth") (PName "encrypt_offsets")) [
      SAssign ["view"] (PCall "memoryview" [(PName "b_pdu")]);
      SAssign ["header"] (PMeth "tobytes" (PSlice (PName "view") PNone (PSub (PName "encrypt_offsets") (PInt 0))) []);
      SAssign ["body"] (PMeth "tobytes" (PSlice (PName "view") (PSub (PName "encrypt_offsets") (PInt 0)) (PSub (PName "encrypt_offsets") (PInt 1))) []);
      SAssign ["sec_trailer"] (PMeth "tobytes" (PSlice (PName "view") (PSub (PName "encrypt_offsets") (PInt 1)) (PBin "+" (PSub (PName "encrypt_offsets") (PInt 1)) (PInt 8))) []);
      SAssign ["b_pdu"] (PMeth "wrap" (PAttr (PName "self") "_auth") [(PName "header"); (PName "body"); (PName "sec_trailer"); (PAttr (PName "self") "_sign_header")])
    ] [];
    SReturn (PName "b_pdu")
  ] |}.
