(* dpapi_ng._client :: [c.context_id for c in _EPM_CONTEXTS] *)
Definition c_onl_epm_ctx_ids : list Z := [0].
