(* _rpc/_bind.py :: def ContextResult.unpack(cls, data) : whole body *)
Definition k_flow_contextresult_unpack : pfun :=
  {| pf_params := ["cls"; "data"];
     pf_body := [
    SAssign ["view"] (PCall "memoryview" [(PName "data")]);
    SReturn (PCall "()/result,reason,syntax,syntax_version" [(PName "cls"); (PCall "ContextResultCode" [(PCall "int.from_bytes/byteorder" [(PSlice (PName "view") PNone (PInt 2)); (PStr [108; 105; 116; 116; 108; 101])])]); (PCall "int.from_bytes/byteorder" [(PSlice (PName "view") (PInt 2) (PInt 4)); (PStr [108; 105; 116; 116; 108; 101])]); (PCall "uuid.UUID/bytes_le" [(PMeth "tobytes" (PSlice (PName "view") (PInt 4) (PInt 20)) [])]); (PCall "int.from_bytes/byteorder" [(PSlice (PName "view") (PInt 20) (PInt 24)); (PStr [108; 105; 116; 116; 108; 101])])])
  ] |}.
