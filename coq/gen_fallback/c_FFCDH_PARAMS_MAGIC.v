(* dpapi_ng._gkdi :: FFCDHParameters.magic *)
Definition c_FFCDH_PARAMS_MAGIC : list Z := [68; 72; 80; 77].
