(* _asn1.py :: def _read_asn1_sequence(data, tag, header, hint) : whole body *)
Definition k_flow_read_asn1_sequence : pfun :=
  {| pf_params := ["data"; "tag"; "header"; "hint"];
     pf_body := [
    SReturn (PCall "_validate_tag/header,hint" [(PName "data"); (PName "tag"); (PCall "ASN1Tag.universal_tag" [(PName "TypeTagNumber.SEQUENCE"); (PBool true)]); (PName "header"); (PName "hint")])
  ] |}.
Definition k_flow_read_asn1_sequence_defaults : list (string * pexp) := [("tag", PNone); ("header", PNone); ("hint", PNone)].
