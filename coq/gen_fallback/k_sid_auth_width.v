(* _security_descriptor.py :: sid_to_bytes :: ('callarg', 'authority.to_bytes', 0, 0) :  8 *)
Definition k_sid_auth_width  : Z :=
  8.
