(* _rpc/_auth.py :: AuthenticationProvider.step :: ('callarg', 'SecTrailer', 0, 'context_id') :  0 *)
Definition k_onl_step_ctx  : Z :=
  0.
