(* _rpc/_verification.py :: Command.unpack :: ('callarg', 'CommandType', 0, 0) :  cmd_field & 16383 *)
Definition k_cmd_type_mask (cmd_field : Z) : Z :=
  (Z.land cmd_field 16383).
