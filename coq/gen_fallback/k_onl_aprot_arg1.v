(* _client.py :: async_ncrypt_protect_secret :: shape kernel :  _async_get_key(... 1: sd  [= ProtectionDescriptor.parse(protection_descriptor).get_target_sd()] ...) *)
Definition k_onl_aprot_arg1 (target_sd : list Z) : list Z :=
  target_sd.
