(* _client.py :: async_ncrypt_protect_secret :: ('callarg', '_async_get_key', 0, 1) :  sd *)
Definition k_onl_aprot_arg1 (sd : list Z) : list Z :=
  sd.
