(* dpapi_ng._epm :: int(FloorProtocol.RPC_CONNECTION_ORIENTED) *)
Definition c_FLOOR_RPC_CO : Z := 11.
