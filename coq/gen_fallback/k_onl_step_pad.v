(* _rpc/_auth.py :: AuthenticationProvider.step :: ('callarg', 'SecTrailer', 0, 'pad_length') :  0 *)
Definition k_onl_step_pad  : Z :=
  0.
