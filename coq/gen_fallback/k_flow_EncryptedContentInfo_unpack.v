(* _pkcs7.py :: def EncryptedContentInfo.unpack(cls, reader) : whole body *)
Definition k_flow_EncryptedContentInfo_unpack : pfun :=
  {| pf_params := ["cls"; "reader"];
     pf_body := [
    SAssign ["reader"] (PMeth "read_sequence" (PName "reader") []);
    SAssign ["content_type"] (PMeth "read_object_identifier/hint" (PName "reader") [(PStr [69; 110; 99; 114; 121; 112; 116; 101; 100; 67; 111; 110; 116; 101; 110; 116; 73; 110; 102; 111; 46; 99; 111; 110; 116; 101; 110; 116; 84; 121; 112; 101])]);
    SAssign ["content_encryption_algorithm"] (PCall "AlgorithmIdentifier.unpack" [(PName "reader")]);
    SAssign ["enc_content"] PNone;
    SIf (PName "reader") [
      SAssign ["enc_tag"] (PCall "ASN1Tag/tag_class,tag_number,is_constructed" [(PName "TagClass.CONTEXT_SPECIFIC"); (PInt 0); (PBool false)]);
      SAssign ["enc_content"] (PMeth "read_octet_string/hint" (PName "reader") [(PName "enc_tag"); (PStr [69; 110; 99; 114; 121; 112; 116; 101; 100; 67; 111; 110; 116; 101; 110; 116; 73; 110; 102; 111; 46; 101; 110; 99; 114; 121; 112; 116; 101; 100; 67; 111; 110; 116; 101; 110; 116])])
    ] [];
    SReturn (PCall "EncryptedContentInfo/content_type,algorithm,content" [(PName "content_type"); (PName "content_encryption_algorithm"); (PName "enc_content")])
  ] |}.
