(* _security_descriptor.py :: def acl_to_bytes(aces) : whole body *)
Definition k_flow_acl_to_bytes : pfun :=
  {| pf_params := ["aces"];
     pf_body := [
    SAssign ["ace_data"] (PMeth "join" (PBytes []) [(PName "aces")]);
    SReturn (PMeth "join" (PBytes []) [(PList [(PBytes [2; 0]); (PMeth "to_bytes/byteorder" (PBin "+" (PInt 8) (PCall "len" [(PName "ace_data")])) [(PInt 2); (PStr [108; 105; 116; 116; 108; 101])]); (PMeth "to_bytes/byteorder" (PCall "len" [(PName "aces")]) [(PInt 2); (PStr [108; 105; 116; 116; 108; 101])]); (PBytes [0; 0]); (PName "ace_data")])])
  ] |}.
