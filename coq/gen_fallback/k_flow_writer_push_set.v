(* _asn1.py :: def ASN1Writer.push_set(self, tag) : whole body *)
Definition k_flow_writer_push_set : pfun :=
  {| pf_params := ["self"; "tag"];
     pf_body := [
    SIf (PNot (PName "tag")) [
      SAssign ["tag"] (PCall "ASN1Tag.universal_tag/is_constructed" [(PName "TypeTagNumber.SET"); (PBool true)])
    ] [];
    SReturn (PCall "ASN1Writer/tag,parent" [(PName "tag"); (PName "self")])
  ] |}.
Definition k_flow_writer_push_set_defaults : list (string * pexp) := [("tag", PNone)].
