(* _asn1.py :: def ASN1Writer.write_generalized_time(self, value, tag) : whole body *)
Definition k_flow_writer_write_generalized_time : pfun :=
  {| pf_params := ["self"; "value"; "tag"];
     pf_body := [
    SExpr (PMeth "extend" (PAttr (PName "self") "_data") [(PCall "_pack_asn1_generalized_time/tag" [(PName "value"); (PName "tag")])])
  ] |}.
Definition k_flow_writer_write_generalized_time_defaults : list (string * pexp) := [("tag", PNone)].
