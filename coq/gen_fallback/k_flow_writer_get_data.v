(* _asn1.py :: def ASN1Writer.get_data(self) : whole body *)
Definition k_flow_writer_get_data : pfun :=
  {| pf_params := ["self"];
     pf_body := [
    SIf (POr (PAttr (PName "self") "_parent") (PAttr (PName "self") "_tag")) [
      SRaise "TypeError"
    ] [];
    SReturn (PAttr (PName "self") "_data")
  ] |}.
