(* _asn1.py :: _unpack_asn1_octet_number :: ('assign', 'i', 1) :  (i << 7) + (element & 127) *)
Definition k_b128_acc (i : Z) (element : Z) : Z :=
  ((Z.shiftl i 7) + (Z.land element 127)).
