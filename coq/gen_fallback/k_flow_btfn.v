(* _rpc/_bind.py :: def bind_time_feature_negotiation(flags) : whole body *)
Definition k_flow_btfn : pfun :=
  {| pf_params := ["flags"];
     pf_body := [
    SReturn (PCall "SyntaxId/uuid,version,version_minor" [(PCall "uuid.UUID/fields" [(PTuple [(PInt 1823939628); (PInt 38930); (PInt 17728); (PName "flags"); (PInt 0); (PInt 0)])]); (PInt 1); (PInt 0)])
  ] |}.
Definition k_flow_btfn_defaults : list (string * pexp) := [("flags", (PName "BindTimeFeatureNegotiation.NONE"))].
