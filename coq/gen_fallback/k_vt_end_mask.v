(* _rpc/_verification.py :: VerificationTrailer.unpack :: ('if', 2) :  cmd.flags & CommandFlags.SEC_VT_COMMAND_END *)
Definition k_vt_end_mask (cmd_flags : Z) (CommandFlags_SEC_VT_COMMAND_END : Z) : Z :=
  (Z.land cmd_flags CommandFlags_SEC_VT_COMMAND_END).
