(* _gkdi.py :: def FFCDHKey.unpack(cls, data) : whole body *)
Definition k_flow_ffk_unpack : pfun :=
  {| pf_params := ["cls"; "data"];
     pf_body := [
    SAssign ["view"] (PCall "memoryview" [(PName "data")]);
    SIf (PCmp "!=" (PMeth "tobytes" (PSlice (PName "view") PNone (PInt 4)) []) (PAttr (PName "cls") "magic")) [
      SRaise "ValueError"
    ] [];
    SAssign ["key_length"] (PCall "int.from_bytes/byteorder" [(PSlice (PName "view") (PInt 4) (PInt 8)); (PStr [108; 105; 116; 116; 108; 101])]);
    SIf (PCmp "<" (PCall "len" [(PName "view")]) (PBin "+" (PInt 8) (PBin "*" (PName "key_length") (PInt 3)))) [
      SRaise "ValueError"
    ] [];
    SAssign ["field_order"] (PMeth "tobytes" (PSlice (PName "view") (PInt 8) (PBin "+" (PInt 8) (PName "key_length"))) []);
    SAssign ["view"] (PSlice (PName "view") (PBin "+" (PInt 8) (PName "key_length")) PNone);
    SAssign ["generator"] (PMeth "tobytes" (PSlice (PName "view") PNone (PName "key_length")) []);
    SAssign ["view"] (PSlice (PName "view") (PName "key_length") PNone);
    SAssign ["public_key"] (PMeth "tobytes" (PSlice (PName "view") PNone (PName "key_length")) []);
    SReturn (PCall "FFCDHKey/key_length,field_order,generator,public_key" [(PName "key_length"); (PCall "int.from_bytes/byteorder" [(PName "field_order"); (PStr [98; 105; 103])]); (PCall "int.from_bytes/byteorder" [(PName "generator"); (PStr [98; 105; 103])]); (PCall "int.from_bytes/byteorder" [(PName "public_key"); (PStr [98; 105; 103])])])
  ] |}.
