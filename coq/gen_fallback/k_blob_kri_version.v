(* _blob.py :: DPAPINGBlob.pack :: ('callarg', 'KEKRecipientInfo', 0, 'version') :  4 *)
Definition k_blob_kri_version  : Z :=
  4.
