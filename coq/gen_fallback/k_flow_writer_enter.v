(* _asn1.py :: def ASN1Writer.__enter__(self) : whole body *)
Definition k_flow_writer_enter : pfun :=
  {| pf_params := ["self"];
     pf_body := [
    SReturn (PName "self")
  ] |}.
