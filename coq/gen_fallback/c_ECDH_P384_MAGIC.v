(* dpapi_ng._gkdi :: ECDHKey('P384', 0, 0, 0).pack()[:4] *)
Definition c_ECDH_P384_MAGIC : list Z := [69; 67; 75; 51].
