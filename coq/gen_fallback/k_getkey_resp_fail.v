(* _gkdi.py :: GetKey.unpack_response :: ('if', 0) :  hresult != 0 *)
Definition k_getkey_resp_fail (hresult : Z) : bool :=
  (negb (hresult =? 0)).
