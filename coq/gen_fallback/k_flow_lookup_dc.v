(* _dns.py :: def lookup_dc(domain_name) : whole body *)
Definition k_flow_lookup_dc : pfun :=
  {| pf_params := ["domain_name"];
     pf_body := [
    SIf (PName "domain_name") [
      SAssign ["record"] (PCall "f-string" [(PStr [95; 108; 100; 97; 112; 46; 95; 116; 99; 112; 46; 100; 99; 46; 95; 109; 115; 100; 99; 115; 46]); (PName "domain_name")])
    ] [
      SAssign ["record"] (PCall "f-string" [(PStr [95; 108; 100; 97; 112; 46; 95; 116; 99; 112; 46; 100; 99; 46; 95; 109; 115; 100; 99; 115])])
    ];
    SAssign ["answers"] (PCall "dns.resolver.resolve/search" [(PName "record"); (PStr [83; 82; 86]); (PBool true)]);
    SReturn (PCall "_get_highest_answer" [(PName "answers")])
  ] |}.
Definition k_flow_lookup_dc_defaults : list (string * pexp) := [("domain_name", PNone)].
