(* _rpc/_client.py :: RpcClient._create_request :: ('assign', 'encrypt_offsets', 1) :  (24, 24 + len(stub_data)) *)
Definition k_enc_off (len_stub_data : Z) : (Z * Z) :=
  (24, (24 + len_stub_data)).
