(* _rpc/_bind.py :: def BindAck.pack(self) : whole body *)
Definition k_flow_bindack_pack : pfun :=
  {| pf_params := ["self"];
     pf_body := [
    SAssign ["b_sec_addr"] (PBytes []);
    SIf (PAttr (PName "self") "sec_addr") [
      SAssign ["b_sec_addr"] (PBin "+" (PMeth "encode" (PAttr (PName "self") "sec_addr") [(PStr [117; 116; 102; 45; 56])]) (PBytes [0]))
    ] [];
    SAssign ["sec_addr_len"] (PCall "len" [(PName "b_sec_addr")]);
    SAssign ["padding"] (PBin "%" (PNeg (PBin "+" (PInt 2) (PName "sec_addr_len"))) (PInt 4));
    SAssign ["b_result"] (PMeth "join" (PBytes []) [(PComp (PMeth "pack" (PName "r") []) ["r"] (PAttr (PName "self") "results") [])]);
    SReturn (PMeth "join" (PBytes []) [(PList [(PMeth "pack" (PAttr (PName "self") "header") []); (PMeth "to_bytes/byteorder" (PAttr (PName "self") "max_xmit_frag") [(PInt 2); (PStr [108; 105; 116; 116; 108; 101])]); (PMeth "to_bytes/byteorder" (PAttr (PName "self") "max_recv_frag") [(PInt 2); (PStr [108; 105; 116; 116; 108; 101])]); (PMeth "to_bytes/byteorder" (PAttr (PName "self") "assoc_group") [(PInt 4); (PStr [108; 105; 116; 116; 108; 101])]); (PMeth "to_bytes/byteorder" (PName "sec_addr_len") [(PInt 2); (PStr [108; 105; 116; 116; 108; 101])]); (PName "b_sec_addr"); (PBin "*" (PBytes [0]) (PName "padding")); (PMeth "to_bytes/byteorder" (PCall "len" [(PAttr (PName "self") "results")]) [(PInt 4); (PStr [108; 105; 116; 116; 108; 101])]); (PName "b_result"); (PIfExp (PAttr (PName "self") "sec_trailer") (PMeth "pack" (PAttr (PName "self") "sec_trailer") []) (PBytes []))])])
  ] |}.
