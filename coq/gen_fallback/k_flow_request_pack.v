(* _rpc/_request.py :: def Request.pack(self) : whole body *)
Definition k_flow_request_pack : pfun :=
  {| pf_params := ["self"];
     pf_body := [
    SReturn (PMeth "join" (PBytes []) [(PList [(PMeth "pack" (PAttr (PName "self") "header") []); (PMeth "to_bytes/byteorder" (PAttr (PName "self") "alloc_hint") [(PInt 4); (PStr [108; 105; 116; 116; 108; 101])]); (PMeth "to_bytes/byteorder" (PAttr (PName "self") "context_id") [(PInt 2); (PStr [108; 105; 116; 116; 108; 101])]); (PMeth "to_bytes/byteorder" (PAttr (PName "self") "opnum") [(PInt 2); (PStr [108; 105; 116; 116; 108; 101])]); (PIfExp (PAttr (PName "self") "obj") (PAttr (PAttr (PName "self") "obj") "bytes_le") (PBytes [])); (PAttr (PName "self") "stub_data"); (PIfExp (PAttr (PName "self") "sec_trailer") (PMeth "pack" (PAttr (PName "self") "sec_trailer") []) (PBytes []))])])
  ] |}.
