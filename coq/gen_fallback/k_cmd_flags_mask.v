(* _rpc/_verification.py :: Command.unpack :: ('callarg', 'CommandFlags', 0, 0) :  cmd_field & 49152 *)
Definition k_cmd_flags_mask (cmd_field : Z) : Z :=
  (Z.land cmd_field 49152).
