(* _client.py :: async_ncrypt_unprotect_secret :: shape kernel :  _async_get_key(... 3: blob.key_identifier.l0  [= DPAPINGBlob.unpack(data).key_identifier.l0] ...) *)
Definition k_onl_aunprot_arg3 (l0 : Z) : Z :=
  l0.
