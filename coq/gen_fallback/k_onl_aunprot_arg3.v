(* _client.py :: async_ncrypt_unprotect_secret :: ('callarg', '_async_get_key', 0, 3) :  blob.key_identifier.l0 *)
Definition k_onl_aunprot_arg3 (blob_key_identifier_l0 : Z) : Z :=
  blob_key_identifier_l0.
