(* _rpc/_pdu.py :: DataRep.pack :: ('assign', 'first_octet', 0) :  self.byte_order << 4 | self.character *)
Definition k_datarep_first_octet (self_byte_order : Z) (self_character : Z) : Z :=
  (Z.lor (Z.shiftl self_byte_order 4) self_character).
