(* _asn1.py :: def _read_asn1_utf8_string(data, tag, header, hint) : whole body *)
Definition k_flow_read_asn1_utf8_string : pfun :=
  {| pf_params := ["data"; "tag"; "header"; "hint"];
     pf_body := [
    SAssign ["raw_str"; "consumed"] (PCall "_validate_tag/header,hint" [(PName "data"); (PName "tag"); (PCall "ASN1Tag.universal_tag" [(PName "TypeTagNumber.UTF8_STRING"); (PBool false)]); (PName "header"); (PName "hint")]);
    SReturn (PTuple [(PMeth "decode" (PMeth "tobytes" (PName "raw_str") []) [(PStr [117; 116; 102; 45; 56])]); (PName "consumed")])
  ] |}.
Definition k_flow_read_asn1_utf8_string_defaults : list (string * pexp) := [("tag", PNone); ("header", PNone); ("hint", PNone)].
