(* _asn1.py :: _pack_asn1 :: ('assign', 'identifier_octets', 0) :  tag_class << 6 *)
Definition k_der_ident_class (tag_class : Z) : Z :=
  (Z.shiftl tag_class 6).
