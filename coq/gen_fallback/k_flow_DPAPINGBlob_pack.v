(* _blob.py :: def DPAPINGBlob.pack(self, blob_in_envelope) : whole body *)
Definition k_flow_DPAPINGBlob_pack : pfun :=
  {| pf_params := ["self"; "blob_in_envelope"];
     pf_body := [
    SAssign ["writer"] (PCall "ASN1Writer" []);
    SAssign ["recipient_info"] (PCall "KEKRecipientInfo/version,kekid,key_encryption_algorithm,encrypted_key" [(PInt 4); (PCall "KEKIdentifier/key_identifier,other" [(PMeth "pack" (PAttr (PName "self") "key_identifier") []); (PCall "OtherKeyAttribute/key_attr_id,key_attr" [(PName "DPAPINGBlob.MICROSOFT_SOFTWARE_OID"); (PMeth "pack" (PAttr (PName "self") "protection_descriptor") [])])]); (PCall "AlgorithmIdentifier" [(PAttr (PName "self") "enc_cek_algorithm"); (PAttr (PName "self") "enc_cek_parameters")]); (PAttr (PName "self") "enc_cek")]);
    SAssign ["enveloped_data"] (PCall "EnvelopedData/version,recipient_infos,encrypted_content_info" [(PInt 2); (PList [(PName "recipient_info")]); (PCall "EncryptedContentInfo/content_type,algorithm,content" [(PName "EnvelopedData.CONTENT_TYPE_DATA_OID"); (PCall "AlgorithmIdentifier/algorithm,parameters" [(PAttr (PName "self") "enc_content_algorithm"); (PAttr (PName "self") "enc_content_parameters")]); (PIfExp (PName "blob_in_envelope") (PAttr (PName "self") "enc_content") (PBytes []))])]);
    SAssign ["writer"] (PCall "ASN1Writer" []);
    SExpr (PMeth "pack" (PName "enveloped_data") [(PName "writer")]);
    SAssign ["content_info"] (PCall "ContentInfo/content_type,content" [(PName "EnvelopedData.CONTENT_TYPE_ENVELOPED_DATA_OID"); (PMeth "get_data" (PName "writer") [])]);
    SAssign ["writer"] (PCall "ASN1Writer" []);
    SExpr (PMeth "pack" (PName "content_info") [(PName "writer")]);
    SReturn (PMeth "join" (PBytes []) [(PList [(PMeth "get_data" (PName "writer") []); (PIfExp (PName "blob_in_envelope") (PBytes []) (PAttr (PName "self") "enc_content"))])])
  ] |}.
Definition k_flow_DPAPINGBlob_pack_defaults : list (string * pexp) := [("blob_in_envelope", (PBool true))].
