(* _pkcs7.py :: def ContentInfo.pack(self, writer) : whole body *)
Definition k_flow_ContentInfo_pack : pfun :=
  {| pf_params := ["self"; "writer"];
     pf_body := [
    SWith (PMeth "push_sequence" (PName "writer") []) (Some "ci_sequence") [
      SExpr (PMeth "write_object_identifier" (PName "ci_sequence") [(PAttr (PName "self") "content_type")]);
      SExpr (PMeth "write_octet_string" (PName "ci_sequence") [(PAttr (PName "self") "content"); (PCall "ASN1Tag/tag_class,tag_number,is_constructed" [(PName "TagClass.CONTEXT_SPECIFIC"); (PInt 0); (PBool true)])])
    ]
  ] |}.
