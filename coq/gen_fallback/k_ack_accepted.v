(* _rpc/_client.py :: RpcClient._process_bind_ack :: ('if', 0) :  context_res.result == ContextResultCode.ACCEPTANCE *)
Definition k_ack_accepted (context_res_result : Z) (ContextResultCode_ACCEPTANCE : Z) : bool :=
  (context_res_result =? ContextResultCode_ACCEPTANCE).
