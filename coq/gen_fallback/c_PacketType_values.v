(* dpapi_ng._rpc._pdu :: sorted(int(x) for x in PacketType) *)
Definition c_PacketType_values : list Z := [0; 1; 2; 3; 4; 5; 6; 7; 8; 9; 10; 11; 12; 13; 14; 15; 17; 18; 19].
