(* dpapi_ng._asn1 :: TypeTagNumber.INTEGER *)
Definition c_tag_integer : Z := 2.
