(* _pkcs7.py :: def KEKRecipientInfo.pack(self, writer) : whole body *)
Definition k_flow_KEKRecipientInfo_pack : pfun :=
  {| pf_params := ["self"; "writer"];
     pf_body := [
    SWith (PMeth "push_sequence/tag" (PName "writer") [(PCall "ASN1Tag/tag_class,tag_number,is_constructed" [(PName "TagClass.CONTEXT_SPECIFIC"); (PAttr (PName "self") "choice"); (PBool true)])]) (Some "w") [
      SExpr (PMeth "write_integer" (PName "w") [(PAttr (PName "self") "version")]);
      SExpr (PMeth "pack" (PAttr (PName "self") "kekid") [(PName "w")]);
      SExpr (PMeth "pack" (PAttr (PName "self") "key_encryption_algorithm") [(PName "w")]);
      SExpr (PMeth "write_octet_string" (PName "w") [(PAttr (PName "self") "encrypted_key")])
    ]
  ] |}.
