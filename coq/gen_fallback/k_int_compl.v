(* _asn1.py :: _pack_asn1_integer :: ('assign', 'val', 1) :  255 - val *)
Definition k_int_compl (val : Z) : Z :=
  (255 - val).
