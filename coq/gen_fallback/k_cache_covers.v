(* _client.py :: KeyCache._get_key :: ('if_mentions', 'seed_key', 0) :  seed_key and (seed_key.l1 > l1 or (seed_key.l1 == l1 and seed_key.l2 >= l2)) *)
Definition k_cache_covers (seed_key : bool) (seed_key_l1 : Z) (l1 : Z) (seed_key_l2 : Z) (l2 : Z) : bool :=
  (seed_key && ((seed_key_l1 >? l1) || ((seed_key_l1 =? l1) && (seed_key_l2 >=? l2)))).
