(* dpapi_ng._rpc._pdu :: int(PacketFlags.PFC_SUPPORT_HEADER_SIGN) *)
Definition c_PFC_SUPPORT_HEADER_SIGN : Z := 4.
