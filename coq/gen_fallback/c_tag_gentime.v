(* dpapi_ng._asn1 :: TypeTagNumber.GENERALIZED_TIME *)
Definition c_tag_gentime : Z := 24.
