(* _rpc/_auth.py :: def AuthenticationProvider.step(self, in_token) : whole body *)
Definition k_flow_auth_step : pfun :=
  {| pf_params := ["self"; "in_token"];
     pf_body := [
    SAssign ["out_token"] (POr (PMeth "step" (PAttr (PName "self") "ctx") [(PName "in_token")]) (PBytes []));
    SReturn (PCall "SecTrailer/type,level,pad_length,context_id,auth_value" [(PAttr (PName "self") "provider"); (PName "AuthenticationLevel.RPC_C_AUTHN_LEVEL_PKT_PRIVACY"); (PInt 0); (PInt 0); (PName "out_token")])
  ] |}.
Definition k_flow_auth_step_defaults : list (string * pexp) := [("in_token", PNone)].
