(* _asn1.py :: def _read_asn1_boolean(data, tag, header, hint) : whole body *)
Definition k_flow_read_asn1_boolean : pfun :=
  {| pf_params := ["data"; "tag"; "header"; "hint"];
     pf_body := [
    SAssign ["raw_bool"; "consumed"] (PCall "_validate_tag/header,hint" [(PName "data"); (PName "tag"); (PCall "ASN1Tag.universal_tag" [(PName "TypeTagNumber.BOOLEAN"); (PBool false)]); (PName "header"); (PName "hint")]);
    SReturn (PTuple [(PCmp "!=" (PMeth "replace" (PMeth "tobytes" (PName "raw_bool") []) [(PBytes [0]); (PBytes [])]) (PBytes [])); (PName "consumed")])
  ] |}.
Definition k_flow_read_asn1_boolean_defaults : list (string * pexp) := [("tag", PNone); ("header", PNone); ("hint", PNone)].
