(* dpapi_ng._epm :: EptMap(None, [], None, 0).opnum *)
Definition c_EptMap_opnum : Z := 3.
