(* _rpc/_client.py :: AsyncRpcClient._send_pdu :: shape kernel :  statement skeleton of AsyncRpcClient._send_pdu (write, drain, readexactly(16), buffer, readexactly(rest), _process_response) *)
Definition k_recv_async_shape  : bool :=
  true.
