(* _asn1.py :: def ASN1Writer.write_boolean(self, value, tag) : whole body *)
Definition k_flow_writer_write_boolean : pfun :=
  {| pf_params := ["self"; "value"; "tag"];
     pf_body := [
    SExpr (PMeth "extend" (PAttr (PName "self") "_data") [(PCall "_pack_asn1_boolean/tag" [(PName "value"); (PName "tag")])])
  ] |}.
Definition k_flow_writer_write_boolean_defaults : list (string * pexp) := [("tag", PNone)].
