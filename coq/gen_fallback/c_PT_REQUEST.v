(* dpapi_ng._rpc._pdu :: int(PacketType.REQUEST) *)
Definition c_PT_REQUEST : Z := 0.
