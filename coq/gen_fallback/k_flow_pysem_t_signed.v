(* /verif/vlib/pysem_src.py :: def t_signed(n, w) : whole body *)
Definition k_flow_pysem_t_signed : pfun :=
  {| pf_params := ["n"; "w"];
     pf_body := [
    SAssign ["b"] (PMeth "to_bytes/byteorder,signed" (PName "n") [(PName "w"); (PStr [108; 105; 116; 116; 108; 101]); (PBool true)]);
    SReturn (PTuple [(PName "b"); (PCall "int.from_bytes/byteorder,signed" [(PName "b"); (PStr [108; 105; 116; 116; 108; 101]); (PBool true)]); (PCall "int.from_bytes" [(PName "b"); (PStr [98; 105; 103])])])
  ] |}.
