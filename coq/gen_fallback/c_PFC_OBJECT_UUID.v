(* dpapi_ng._rpc._pdu :: int(PacketFlags.PFC_OBJECT_UUID) *)
Definition c_PFC_OBJECT_UUID : Z := 128.
