(* _rpc/_client.py :: RpcClient._prepare_pdu :: shape kernel :  view[8:10] = len(b_pdu).to_bytes(2, byteorder='little') *)
Definition k_fraglen_patch  : (Z * Z * Z) :=
  (8, 10, 2).
