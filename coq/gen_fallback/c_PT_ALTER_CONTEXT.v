(* dpapi_ng._rpc._pdu :: int(PacketType.ALTER_CONTEXT) *)
Definition c_PT_ALTER_CONTEXT : Z := 14.
