(* _rpc/_client.py :: RpcClient._process_response :: ('if', 0) :  self._auth and encrypt_offsets and pdu_header.auth_len *)
Definition k_unwrap_guard (self__auth : bool) (encrypt_offsets : bool) (pdu_header_auth_len : Z) : bool :=
  (self__auth && encrypt_offsets && (negb (pdu_header_auth_len =? 0))).
