(* _client.py :: ncrypt_unprotect_secret :: shape kernel :  target_sd = blob.protection_descriptor.get_target_sd() *)
Definition k_onl_unprot_sd_src  : bool :=
  true.
