(* _security_descriptor.py :: sid_to_bytes :: ('if', 2) :  sub_auth >= 2 ** 32 *)
Definition k_sid_sub_bad (sub_auth : Z) : bool :=
  (sub_auth >=? (2 ^ 32)).
