(* _rpc/_pdu.py :: def PDUHeader.pack(self) : whole body *)
Definition k_flow_pduheader_pack : pfun :=
  {| pf_params := ["self"];
     pf_body := [
    SReturn (PMeth "join" (PBytes []) [(PList [(PMeth "to_bytes/byteorder" (PAttr (PName "self") "version") [(PInt 1); (PStr [108; 105; 116; 116; 108; 101])]); (PMeth "to_bytes/byteorder" (PAttr (PName "self") "version_minor") [(PInt 1); (PStr [108; 105; 116; 116; 108; 101])]); (PMeth "to_bytes/byteorder" (PAttr (PName "self") "packet_type") [(PInt 1); (PStr [108; 105; 116; 116; 108; 101])]); (PMeth "to_bytes/byteorder" (PAttr (PName "self") "packet_flags") [(PInt 1); (PStr [108; 105; 116; 116; 108; 101])]); (PMeth "pack" (PAttr (PName "self") "data_rep") []); (PMeth "to_bytes/byteorder" (PAttr (PName "self") "frag_len") [(PInt 2); (PStr [108; 105; 116; 116; 108; 101])]); (PMeth "to_bytes/byteorder" (PAttr (PName "self") "auth_len") [(PInt 2); (PStr [108; 105; 116; 116; 108; 101])]); (PMeth "to_bytes/byteorder" (PAttr (PName "self") "call_id") [(PInt 4); (PStr [108; 105; 116; 116; 108; 101])])])])
  ] |}.
