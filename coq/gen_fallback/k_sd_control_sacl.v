(* _security_descriptor.py :: sd_to_bytes :: ('augassign', 'control', 0) :  control | 16 *)
Definition k_sd_control_sacl (control : Z) : Z :=
  (Z.lor control 16).
