(* _rpc/_client.py :: RpcClient._create_bind :: ('callarg', 'Bind', 0, 'assoc_group') :  0 *)
Definition k_onl_bind_assoc  : Z :=
  0.
