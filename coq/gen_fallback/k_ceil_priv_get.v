(* _gkdi.py :: GroupKeyEnvelope.get_kek :: ('callarg', 'compute_kek_from_public_key', 0, 'private_key_length') :  math.ceil(self.private_key_length / 8) *)
Definition k_ceil_priv_get (self_private_key_length : Z) : Z :=
  (py_truediv_ceil self_private_key_length 8).
