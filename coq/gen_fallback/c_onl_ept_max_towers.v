(* dpapi_ng._client :: _EPT_MAP_ISD_KEY.max_towers *)
Definition c_onl_ept_max_towers : Z := 4.
