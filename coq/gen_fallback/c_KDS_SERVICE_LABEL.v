(* dpapi_ng._gkdi :: KDS_SERVICE_LABEL *)
Definition c_KDS_SERVICE_LABEL : list Z := [75; 0; 68; 0; 83; 0; 32; 0; 115; 0; 101; 0; 114; 0; 118; 0; 105; 0; 99; 0; 101; 0; 0; 0].
