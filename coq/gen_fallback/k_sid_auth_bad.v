(* _security_descriptor.py :: sid_to_bytes :: ('if', 1) :  authority >= 2 ** 48 *)
Definition k_sid_auth_bad (authority : Z) : bool :=
  (authority >=? (2 ^ 48)).
