(* _blob.py :: def SIDDescriptor.get_target_sd(self) : whole body *)
Definition k_flow_SIDDescriptor_get_target_sd : pfun :=
  {| pf_params := ["self"];
     pf_body := [
    SReturn (PCall "sd_to_bytes/owner,group,dacl" [(PStr [83; 45; 49; 45; 53; 45; 49; 56]); (PStr [83; 45; 49; 45; 53; 45; 49; 56]); (PList [(PCall "ace_to_bytes" [(PAttr (PName "self") "value"); (PInt 3)]); (PCall "ace_to_bytes" [(PStr [83; 45; 49; 45; 49; 45; 48]); (PInt 2)])])])
  ] |}.
