(* _rpc/_verification.py :: def VerificationTrailer.unpack(cls, data) : whole body *)
Definition k_flow_vt_unpack : pfun :=
  {| pf_params := ["cls"; "data"];
     pf_body := [
    SAssign ["view"] (PCall "memoryview" [(PName "data")]);
    SIf (PCmp "!=" (PMeth "tobytes" (PSlice (PName "view") PNone (PInt 8)) []) (PAttr (PName "cls") "signature")) [
      SRaise "ValueError"
    ] [];
    SAssign ["view"] (PSlice (PName "view") (PInt 8) PNone);
    SAssign ["commands"] (PList []);
    SWhile (PBool true) [
      SIf (PCmp "<" (PCall "len" [(PName "view")]) (PInt 4)) [
        SRaise "ValueError"
      ] [];
      SAssign ["cmd"] (PCall "Command.unpack" [(PName "view")]);
      SExpr (PMeth "append" (PName "commands") [(PName "cmd")]);
      SAssign ["view"] (PSlice (PName "view") (PBin "+" (PInt 4) (PCall "len" [(PAttr (PName "cmd") "value")])) PNone);
      SIf (PBin "&" (PAttr (PName "cmd") "flags") (PName "CommandFlags.SEC_VT_COMMAND_END")) [
        SBreak
      ] []
    ];
    SReturn (PCall "()/commands" [(PName "cls"); (PName "commands")])
  ] |}.
