(* _rpc/_client.py :: RpcClient._create_alter_context :: ('callarg', 'self._create_pdu_header', 0, 2) :  1 *)
Definition k_onl_alter_call_id  : Z :=
  1.
