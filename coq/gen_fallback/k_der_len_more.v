(* _asn1.py :: _pack_asn1 :: ('while', 0) :  length *)
Definition k_der_len_more (length : Z) : bool :=
  (negb (length =? 0)).
