(* _rpc/_auth.py :: def AuthenticationProvider.unwrap(self, header, body, trailer, signature, sign_header) : whole body *)
Definition k_flow_auth_unwrap : pfun :=
  {| pf_params := ["self"; "header"; "body"; "trailer"; "signature"; "sign_header"];
     pf_body := [
    SAssign ["sign_buffer_type"] (PIfExp (PName "sign_header") (PName "spnego.iov.BufferType.sign_only") (PName "spnego.iov.BufferType.data_readonly"));
    SAssign ["res"] (PMeth "unwrap_iov" (PAttr (PName "self") "ctx") [(PList [(PTuple [(PName "sign_buffer_type"); (PName "header")]); (PName "body"); (PTuple [(PName "sign_buffer_type"); (PName "trailer")]); (PTuple [(PName "spnego.iov.BufferType.header"); (PName "signature")])])]);
    SReturn (POr (PAttr (PSub (PAttr (PName "res") "buffers") (PInt 1)) "data") (PBytes []))
  ] |}.
