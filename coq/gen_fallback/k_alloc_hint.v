(* _rpc/_client.py :: RpcClient._create_request :: ('callarg', 'Request', 0, 'alloc_hint') :  len(stub_data) *)
Definition k_alloc_hint (len_stub_data : Z) : Z :=
  len_stub_data.
