(* _epm.py :: Floor.unpack :: ('assign', 'offset', 0) :  lhs_len + 2 *)
Definition k_floor_offset (lhs_len : Z) : Z :=
  (lhs_len + 2).
