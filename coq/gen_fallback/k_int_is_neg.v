(* _asn1.py :: _pack_asn1_integer :: ('if', 1) :  value < 0 *)
Definition k_int_is_neg (value : Z) : bool :=
  (value <? 0).
