(* _client.py :: _encrypt_blob :: shape kernel :  cek -> content_encrypt, cek_encrypt; cek_iv -> GCM parameters; (kek, key_identifier) = key.new_kek() *)
Definition k_encrypt_blob_flow  : bool :=
  true.
