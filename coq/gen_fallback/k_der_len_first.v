(* _asn1.py :: _pack_asn1 :: ('callarg', 'b_asn1_data.append', 5, 0) :  len(length_octets) | 128 *)
Definition k_der_len_first (len_length_octets : Z) : Z :=
  (Z.lor len_length_octets 128).
