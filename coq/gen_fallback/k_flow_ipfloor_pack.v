(* _epm.py :: def IPFloor.pack(self) : whole body *)
Definition k_flow_ipfloor_pack : pfun :=
  {| pf_params := ["self"];
     pf_body := [
    SReturn (PMeth "pack" (PCall "Floor" [(PAttr (PName "self") "protocol"); (PBytes []); (PMeth "to_bytes/byteorder" (PAttr (PName "self") "addr") [(PInt 4); (PStr [98; 105; 103])])]) [])
  ] |}.
