(* _blob.py :: def ProtectionDescriptor.unpack(cls, data) : whole body *)
Definition k_flow_ProtectionDescriptor_unpack : pfun :=
  {| pf_params := ["cls"; "data"];
     pf_body := [
    SAssign ["reader"] (PMeth "read_sequence" (PCall "ASN1Reader" [(PName "data")]) []);
    SAssign ["content_type"] (PMeth "read_object_identifier" (PName "reader") []);
    SAssign ["reader"] (PMeth "read_sequence" (PMeth "read_sequence" (PMeth "read_sequence" (PName "reader") []) []) []);
    SAssign ["value_type"] (PMeth "read_utf8_string" (PName "reader") []);
    SAssign ["value"] (PMeth "read_utf8_string" (PName "reader") []);
    SIf (PAnd (PCmp "==" (PName "content_type") (PName "ProtectionDescriptorType.SID.value")) (PCmp "==" (PName "value_type") (PStr [83; 73; 68]))) [
      SReturn (PCall "SIDDescriptor" [(PName "value")])
    ] [
      SRaise "ValueError"
    ]
  ] |}.
