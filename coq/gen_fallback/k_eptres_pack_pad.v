(* _epm.py :: EptMapResult.pack :: ('assign', 'padding', 0) :  -len(b_t) % 4 *)
Definition k_eptres_pack_pad (len_b_t : Z) (idx : Z) (len_self_towers : Z) : Z :=
  ((- len_b_t) mod 4).
