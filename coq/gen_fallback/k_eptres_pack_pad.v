(* _epm.py :: EptMapResult.pack :: ('assign', 'padding', 0) :  -(len(b_t) + 4) % 8 if idx + 1 < len(self.towers) else -len(b_t) % 4 *)
Definition k_eptres_pack_pad (len_b_t : Z) (idx : Z) (len_self_towers : Z) : Z :=
  (if ((idx + 1) <? len_self_towers) then ((- (len_b_t + 4)) mod 8) else ((- len_b_t) mod 4)).
