(* _asn1.py :: _pack_asn1 :: ('if', 0) :  tag_class < 0 or tag_class > 3 *)
Definition k_der_class_bad (tag_class : Z) : bool :=
  ((tag_class <? 0) || (tag_class >? 3)).
