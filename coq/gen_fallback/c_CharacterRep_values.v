(* dpapi_ng._rpc._pdu :: sorted(int(x) for x in CharacterRep) *)
Definition c_CharacterRep_values : list Z := [0; 1].
