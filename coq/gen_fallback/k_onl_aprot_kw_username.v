(* _client.py :: async_ncrypt_protect_secret :: shape kernel :  _async_get_key(... username: username  [= username] ...) *)
Definition k_onl_aprot_kw_username (username : list Z) : list Z :=
  username.
