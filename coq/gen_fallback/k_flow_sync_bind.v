(* _rpc/_client.py :: def SyncRpcClient.bind(self, contexts) : whole body *)
Definition k_flow_sync_bind : pfun :=
  {| pf_params := ["self"; "contexts"];
     pf_body := [
    SAssign ["sec_trailer"] PNone;
    SIf (PAttr (PName "self") "_auth") [
      SAssign ["sec_trailer"] (PMeth "step" (PAttr (PName "self") "_auth") [])
    ] [];
    SAssign ["bind"] (PMeth "_create_bind" (PName "self") [(PName "contexts"); (PName "sec_trailer")]);
    SAssign ["bind_ack"] (PMeth "_send_pdu" (PName "self") [(PName "bind"); (PName "BindAck")]);
    SIf (PNot (PAttr (PName "self") "_auth")) [
      SReturn (PName "bind_ack")
    ] [];
    SAssign ["final_contexts"; "in_token"] (PMeth "_process_bind_ack" (PName "self") [(PName "bind_ack"); (PName "contexts")]);
    SWhile (PNot (PAttr (PAttr (PName "self") "_auth") "complete")) [
      SAssign ["sec_trailer"] (PMeth "step" (PAttr (PName "self") "_auth") [(POr (PName "in_token") (PBytes []))]);
      SIf (PNot (PAttr (PName "sec_trailer") "auth_value")) [
        SBreak
      ] [];
      SAssign ["alter_context"] (PMeth "_create_alter_context" (PName "self") [(PName "final_contexts"); (PName "sec_trailer")]);
      SAssign ["alter_resp"] (PMeth "_send_pdu" (PName "self") [(PName "alter_context"); (PName "AlterContextResponse")]);
      SAssign ["_"; "in_token"] (PMeth "_process_bind_ack" (PName "self") [(PName "alter_resp"); (PName "final_contexts")])
    ];
    SReturn (PName "bind_ack")
  ] |}.
