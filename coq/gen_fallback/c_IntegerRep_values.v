(* dpapi_ng._rpc._pdu :: sorted(int(x) for x in IntegerRep) *)
Definition c_IntegerRep_values : list Z := [0; 1].
