(* _rpc/_verification.py :: def Command.unpack(cls, data) : whole body *)
Definition k_flow_command_unpack : pfun :=
  {| pf_params := ["cls"; "data"];
     pf_body := [
    SAssign ["view"] (PCall "memoryview" [(PName "data")]);
    SAssign ["cmd_field"] (PCall "int.from_bytes/byteorder" [(PSlice (PName "view") PNone (PInt 2)); (PStr [108; 105; 116; 116; 108; 101])]);
    SAssign ["command_type"] (PCall "CommandType" [(PBin "&" (PName "cmd_field") (PInt 16383))]);
    SAssign ["command_flags"] (PCall "CommandFlags" [(PBin "&" (PName "cmd_field") (PInt 49152))]);
    SAssign ["command_length"] (PCall "int.from_bytes/byteorder" [(PSlice (PName "view") (PInt 2) (PInt 4)); (PStr [108; 105; 116; 116; 108; 101])]);
    SAssign ["value"] (PMeth "tobytes" (PSlice (PName "view") (PInt 4) (PBin "+" (PInt 4) (PName "command_length"))) []);
    SAssign ["unpack_func"] (PCall "_COMMAND_TYPE_REGISTRY.get" [(PName "command_type"); PNone]);
    SIf (PName "unpack_func") [
      SAssign ["cmd"] (PCall "()" [(PName "unpack_func"); (PName "command_flags"); (PName "value")]);
      SSetAttr "cmd" "value" (PName "value");
      SReturn (PName "cmd")
    ] [
      SReturn (PCall "()" [(PName "cls"); (PName "command_type"); (PName "command_flags"); (PName "value")])
    ]
  ] |}.
