(* _rpc/_bind.py :: def Bind._unpack(cls, data, header, sec_trailer) : whole body *)
Definition k_flow_bind_unpack : pfun :=
  {| pf_params := ["cls"; "data"; "header"; "sec_trailer"];
     pf_body := [
    SAssign ["view"] (PCall "memoryview" [(PName "data")]);
    SAssign ["max_xmit_frag"] (PCall "int.from_bytes/byteorder" [(PSlice (PName "view") PNone (PInt 2)); (PStr [108; 105; 116; 116; 108; 101])]);
    SAssign ["max_recv_frag"] (PCall "int.from_bytes/byteorder" [(PSlice (PName "view") (PInt 2) (PInt 4)); (PStr [108; 105; 116; 116; 108; 101])]);
    SAssign ["assoc_group"] (PCall "int.from_bytes/byteorder" [(PSlice (PName "view") (PInt 4) (PInt 8)); (PStr [108; 105; 116; 116; 108; 101])]);
    SAssign ["num_contexts"] (PSub (PName "view") (PInt 8));
    SAssign ["view"] (PSlice (PName "view") (PInt 12) PNone);
    SAssign ["contexts"] (PList []);
    SFor ["_"] (PCall "range" [(PName "num_contexts")]) [
      SAssign ["c"] (PCall "ContextElement.unpack" [(PName "view")]);
      SExpr (PMeth "append" (PName "contexts") [(PName "c")]);
      SAssign ["view"] (PSlice (PName "view") (PBin "+" (PInt 24) (PBin "*" (PCall "len" [(PAttr (PName "c") "transfer_syntaxes")]) (PInt 20))) PNone)
    ];
    SReturn (PCall "()/header,sec_trailer,max_xmit_frag,max_recv_frag,assoc_group,contexts" [(PName "cls"); (PName "header"); (PName "sec_trailer"); (PName "max_xmit_frag"); (PName "max_recv_frag"); (PName "assoc_group"); (PName "contexts")])
  ] |}.
