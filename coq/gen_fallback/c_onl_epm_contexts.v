(* dpapi_ng._client :: b''.join(c.pack() for c in _EPM_CONTEXTS) *)
Definition c_onl_epm_contexts : list Z := [0; 0; 1; 0; 8; 131; 175; 225; 31; 93; 201; 17; 145; 164; 8; 0; 43; 20; 160; 250; 3; 0; 0; 0; 51; 5; 113; 113; 186; 190; 55; 73; 131; 25; 181; 219; 239; 156; 204; 54; 1; 0; 0; 0].
