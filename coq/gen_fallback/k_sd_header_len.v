(* _security_descriptor.py :: sd_to_bytes :: ('assign', 'current_offset', 0) :  20 *)
Definition k_sd_header_len  : Z :=
  20.
