(* dpapi_ng._rpc._pdu :: sorted(int(x) for x in AuthenticationLevel) *)
Definition c_AuthenticationLevel_values : list Z := [0; 1; 2; 3; 4; 5; 6].
