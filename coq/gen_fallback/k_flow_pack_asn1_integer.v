(* _asn1.py :: def _pack_asn1_integer(value, tag) : whole body *)
Definition k_flow_pack_asn1_integer : pfun :=
  {| pf_params := ["value"; "tag"];
     pf_body := [
    SIf (PNot (PName "tag")) [
      SAssign ["tag"] (PCall "ASN1Tag.universal_tag" [(PName "TypeTagNumber.INTEGER")])
    ] [];
    SAssign ["is_negative"] (PBool false);
    SAssign ["limit"] (PInt 127);
    SIf (PCmp "<" (PName "value") (PInt 0)) [
      SAssign ["value"] (PNeg (PName "value"));
      SAssign ["is_negative"] (PBool true);
      SAssign ["limit"] (PInt 128)
    ] [];
    SAssign ["b_int"] (PCall "bytearray" []);
    SWhile (PCmp ">" (PName "value") (PName "limit")) [
      SAssign ["val"] (PBin "&" (PName "value") (PInt 255));
      SIf (PName "is_negative") [
        SAssign ["val"] (PBin "-" (PInt 255) (PName "val"))
      ] [];
      SExpr (PMeth "append" (PName "b_int") [(PName "val")]);
      SAssign ["value"] (PBin ">>" (PName "value") (PInt 8))
    ];
    SExpr (PMeth "append" (PName "b_int") [(PBin "&" (PIfExp (PName "is_negative") (PBin "-" (PInt 255) (PName "value")) (PName "value")) (PInt 255))]);
    SIf (PName "is_negative") [
      SFor ["idx"; "val"] (PCall "enumerate" [(PName "b_int")]) [
        SIf (PCmp "<" (PName "val") (PInt 255)) [
          SAssign ["b_int"] (PCall "setitem" [(PName "b_int"); (PName "idx"); (PBin "+" (PSub (PName "b_int") (PName "idx")) (PInt 1))]);
          SBreak
        ] [];
        SAssign ["b_int"] (PCall "setitem" [(PName "b_int"); (PName "idx"); (PInt 0)])
      ]
    ] [];
    SIf (PAnd (PName "is_negative") (PCmp "==" (PSub (PName "b_int") (PInt (-1))) (PInt 127))) [
      SExpr (PMeth "append" (PName "b_int") [(PInt 255)])
    ] [];
    SExpr (PMeth "reverse" (PName "b_int") []);
    SReturn (PCall "_pack_asn1" [(PAttr (PName "tag") "tag_class"); (PAttr (PName "tag") "is_constructed"); (PAttr (PName "tag") "tag_number"); (PName "b_int")])
  ] |}.
Definition k_flow_pack_asn1_integer_defaults : list (string * pexp) := [("tag", PNone)].
