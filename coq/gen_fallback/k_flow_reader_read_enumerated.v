(* _asn1.py :: def ASN1Reader.read_enumerated(self, enum_type, tag, header, hint) : whole body *)
Definition k_flow_reader_read_enumerated : pfun :=
  {| pf_params := ["self"; "enum_type"; "tag"; "header"; "hint"];
     pf_body := [
    SAssign ["val"; "consumed"] (PCall "_read_asn1_enumerated/tag,header,hint" [(PAttr (PName "self") "_view"); (PName "tag"); (PName "header"); (PName "hint")]);
    SSetAttr "self" "_view" (PSlice (PAttr (PName "self") "_view") (PName "consumed") PNone);
    SReturn (PCall "()" [(PName "enum_type"); (PName "val")])
  ] |}.
Definition k_flow_reader_read_enumerated_defaults : list (string * pexp) := [("tag", PNone); ("header", PNone); ("hint", PNone)].
