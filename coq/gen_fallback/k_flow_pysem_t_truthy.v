(* /verif/vlib/pysem_src.py :: def t_truthy(v) : whole body *)
Definition k_flow_pysem_t_truthy : pfun :=
  {| pf_params := ["v"];
     pf_body := [
    SIf (PName "v") [
      SReturn (PInt 1)
    ] [];
    SReturn (PInt 0)
  ] |}.
