(* _security_descriptor.py :: sd_to_bytes :: ('assign', 'dacl_offset', 0) :  0 *)
Definition k_sd_dacl_off0  : Z :=
  0.
