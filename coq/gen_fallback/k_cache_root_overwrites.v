(* _client.py :: KeyCache._get_key :: shape kernel :  self._seed_keys.setdefault(root_key_id, {}).setdefault(target_sd, {})[l0] = gke ; return gke *)
Definition k_cache_root_overwrites  : bool :=
  true.
