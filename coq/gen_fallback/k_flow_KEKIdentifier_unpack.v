(* _pkcs7.py :: def KEKIdentifier.unpack(cls, reader) : whole body *)
Definition k_flow_KEKIdentifier_unpack : pfun :=
  {| pf_params := ["cls"; "reader"];
     pf_body := [
    SAssign ["reader"] (PMeth "read_sequence" (PName "reader") []);
    SAssign ["key_identifier"] (PMeth "read_octet_string/hint" (PName "reader") [(PStr [75; 69; 75; 73; 100; 101; 110; 116; 105; 102; 105; 101; 114; 46; 107; 101; 121; 73; 100; 101; 110; 116; 105; 102; 105; 101; 114])]);
    SAssign ["header"] (PMeth "peek_header" (PName "reader") []);
    SAssign ["date"] PNone;
    SIf (PAnd (PCmp "==" (PAttr (PAttr (PName "header") "tag") "tag_class") (PName "TagClass.UNIVERSAL")) (PCmp "==" (PAttr (PAttr (PName "header") "tag") "tag_number") (PName "TypeTagNumber.GENERALIZED_TIME"))) [
      SAssign ["date"] (PMeth "read_generalized_time/header,hint" (PName "reader") [(PName "header"); (PStr [75; 69; 75; 73; 100; 101; 110; 116; 105; 102; 105; 101; 114; 46; 100; 97; 116; 101])]);
      SAssign ["header"] (PMeth "peek_header" (PName "reader") [])
    ] [];
    SAssign ["other"] PNone;
    SIf (PAnd (PCmp "==" (PAttr (PAttr (PName "header") "tag") "tag_class") (PName "TagClass.UNIVERSAL")) (PCmp "==" (PAttr (PAttr (PName "header") "tag") "tag_number") (PName "TypeTagNumber.SEQUENCE"))) [
      SAssign ["other"] (PCall "OtherKeyAttribute.unpack/header" [(PName "reader"); (PName "header")])
    ] [];
    SReturn (PCall "KEKIdentifier/key_identifier,date,other" [(PName "key_identifier"); (PName "date"); (PName "other")])
  ] |}.
