(* dpapi_ng._asn1 :: TypeTagNumber.OCTET_STRING *)
Definition c_tag_octet_string : Z := 4.
