(* _asn1.py :: _encode_object_identifier :: ('callarg', 'result.append', 0, 0) :  cmp_data & 127 *)
Definition k_oid_low (cmp_data : Z) : Z :=
  (Z.land cmp_data 127).
