(* _client.py :: def _encrypt_blob(blob, key, protection_descriptor) : whole body *)
Definition k_flow_encrypt_blob : pfun :=
  {| pf_params := ["blob"; "key"; "protection_descriptor"];
     pf_body := [
    SAssign ["enc_cek_algorithm"] (PName "AlgorithmOID.AES256_WRAP");
    SAssign ["cek"; "cek_iv"] (PCall "cek_generate" [(PName "enc_cek_algorithm")]);
    SAssign ["parameters_writer"] (PCall "ASN1Writer" []);
    SWith (PMeth "push_sequence" (PName "parameters_writer") []) (Some "parameters") [
      SExpr (PMeth "write_octet_string" (PName "parameters") [(PName "cek_iv")]);
      SExpr (PMeth "write_integer" (PName "parameters") [(PInt 16)])
    ];
    SAssign ["enc_content_algorithm"] (PName "AlgorithmOID.AES256_GCM");
    SAssign ["enc_content_parameters"] (PMeth "get_data" (PName "parameters_writer") []);
    SAssign ["enc_content"] (PCall "content_encrypt" [(PName "enc_content_algorithm"); (PName "enc_content_parameters"); (PName "cek"); (PName "blob")]);
    SAssign ["kek"; "key_identifier"] (PMeth "new_kek" (PName "key") []);
    SAssign ["enc_cek_parameters"] PNone;
    SAssign ["enc_cek"] (PCall "cek_encrypt" [(PName "enc_cek_algorithm"); (PName "enc_cek_parameters"); (PName "kek"); (PName "cek")]);
    SReturn (PMeth "pack" (PCall "DPAPINGBlob/key_identifier,protection_descriptor,enc_cek,enc_cek_algorithm,enc_cek_parameters,enc_content,enc_content_algorithm,enc_content_parameters" [(PName "key_identifier"); (PName "protection_descriptor"); (PName "enc_cek"); (PName "enc_cek_algorithm"); (PName "enc_cek_parameters"); (PName "enc_content"); (PName "enc_content_algorithm"); (PName "enc_content_parameters")]) [])
  ] |}.
