(* _client.py :: _sync_get_key :: shape kernel :  GetKey(... 2: l0  [= l0] ...) *)
Definition k_onl_getkey_arg2 (l0 : Z) : Z :=
  l0.
