(* _client.py :: _async_get_key :: shape kernel :  GetKey(... 3: l1  [= l1] ...) *)
Definition k_onl_agetkey_arg3 (l1 : Z) : Z :=
  l1.
