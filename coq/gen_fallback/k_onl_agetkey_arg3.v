(* _client.py :: _async_get_key :: ('callarg', 'GetKey', 0, 3) :  l1 *)
Definition k_onl_agetkey_arg3 (l1 : Z) : Z :=
  l1.
