(* _blob.py :: SIDDescriptor.get_target_sd :: ('callarg', 'ace_to_bytes', 0, 1) :  3 *)
Definition k_tsd_mask_target  : Z :=
  3.
