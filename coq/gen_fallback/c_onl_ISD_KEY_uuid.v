(* dpapi_ng._gkdi :: ISD_KEY.uuid *)
Definition c_onl_ISD_KEY_uuid : list Z := [96; 89; 120; 185; 79; 82; 223; 17; 139; 109; 131; 220; 222; 215; 32; 133].
