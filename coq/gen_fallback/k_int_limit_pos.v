(* _asn1.py :: _pack_asn1_integer :: ('assign', 'limit', 0) :  127 *)
Definition k_int_limit_pos  : Z :=
  127.
