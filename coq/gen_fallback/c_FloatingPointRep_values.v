(* dpapi_ng._rpc._pdu :: sorted(int(x) for x in FloatingPointRep) *)
Definition c_FloatingPointRep_values : list Z := [0; 1; 2; 3].
