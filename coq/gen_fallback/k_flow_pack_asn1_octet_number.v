(* _asn1.py :: def _pack_asn1_octet_number(num) : whole body *)
Definition k_flow_pack_asn1_octet_number : pfun :=
  {| pf_params := ["num"];
     pf_body := [
    SAssign ["num_octets"] (PCall "bytearray" []);
    SWhile (PName "num") [
      SAssign ["octet_value"] (PBin "&" (PName "num") (PInt 127));
      SIf (PCall "len" [(PName "num_octets")]) [
        SAssign ["octet_value"] (PBin "|" (PName "octet_value") (PInt 128))
      ] [];
      SExpr (PMeth "append" (PName "num_octets") [(PName "octet_value")]);
      SAssign ["num"] (PBin ">>" (PName "num") (PInt 7))
    ];
    SExpr (PMeth "reverse" (PName "num_octets") []);
    SReturn (PName "num_octets")
  ] |}.
