(* _asn1.py :: def _read_asn1_enumerated(data, tag, header, hint) : whole body *)
Definition k_flow_read_asn1_enumerated : pfun :=
  {| pf_params := ["data"; "tag"; "header"; "hint"];
     pf_body := [
    SIf (PNot (PName "tag")) [
      SAssign ["tag"] (PIfExp (PName "header") (PAttr (PName "header") "tag") (PCall "ASN1Tag.universal_tag" [(PName "TypeTagNumber.ENUMERATED"); (PBool false)]))
    ] [];
    SReturn (PCall "_read_asn1_integer/header,hint" [(PName "data"); (PName "tag"); (PName "header"); (PName "hint")])
  ] |}.
Definition k_flow_read_asn1_enumerated_defaults : list (string * pexp) := [("tag", PNone); ("header", PNone); ("hint", PNone)].
