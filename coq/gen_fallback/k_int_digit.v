(* _asn1.py :: _pack_asn1_integer :: ('assign', 'val', 0) :  value & 255 *)
Definition k_int_digit (value : Z) : Z :=
  (Z.land value 255).
