(* _asn1.py :: _read_asn1_header :: ('callarg', 'bool', 0, 0) :  octet1 & 32 *)
Definition k_hdr_cons (octet1 : Z) : Z :=
  (Z.land octet1 32).
