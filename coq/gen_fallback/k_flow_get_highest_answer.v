(* _dns.py :: def _get_highest_answer(answer) : whole body *)
Definition k_flow_get_highest_answer : pfun :=
  {| pf_params := ["answer"];
     pf_body := [
    SAssign ["answers"] (PList []);
    SFor ["a"] (PName "answer") [
      SExpr (PMeth "append" (PName "answers") [(PCall "SrvRecord/target,port,weight,priority" [(PMeth "rstrip" (PCall "str" [(PAttr (PName "a") "target")]) [(PStr [46])]); (PAttr (PName "a") "port"); (PAttr (PName "a") "weight"); (PAttr (PName "a") "priority")])])
    ];
    SReturn (PSub (PCall "sorted/key" [(PName "answers"); (PComp (PTuple [(PAttr (PName "a") "priority"); (PNeg (PAttr (PName "a") "weight"))]) ["a"] (PName "answers") [])]) (PInt 0))
  ] |}.
