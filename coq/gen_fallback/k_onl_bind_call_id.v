(* _rpc/_client.py :: RpcClient._create_bind :: ('callarg', 'self._create_pdu_header', 0, 2) :  1 *)
Definition k_onl_bind_call_id  : Z :=
  1.
