(* /verif/vlib/pysem_src.py :: def t_fallthrough(a) : whole body *)
Definition k_flow_pysem_t_fallthrough : pfun :=
  {| pf_params := ["a"];
     pf_body := [
    SIf (PName "a") [
      SReturn (PInt 1)
    ] []
  ] |}.
