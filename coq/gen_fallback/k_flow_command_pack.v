(* _rpc/_verification.py :: def Command.pack(self) : whole body *)
Definition k_flow_command_pack : pfun :=
  {| pf_params := ["self"];
     pf_body := [
    SReturn (PMeth "join" (PBytes []) [(PList [(PMeth "to_bytes/byteorder" (PBin "|" (PAttr (PAttr (PName "self") "command") "value") (PAttr (PAttr (PName "self") "flags") "value")) [(PInt 2); (PStr [108; 105; 116; 116; 108; 101])]); (PMeth "to_bytes/byteorder" (PCall "len" [(PAttr (PName "self") "value")]) [(PInt 2); (PStr [108; 105; 116; 116; 108; 101])]); (PAttr (PName "self") "value")])])
  ] |}.
