(* dpapi_ng._gkdi :: KDFParameters('').pack()[12:16] *)
Definition c_KDF_PARAMS_MAGIC1 : list Z := [0; 0; 0; 0].
