(* _asn1.py :: _encode_object_identifier :: ('callarg', 'result.append', 1, 0) :  128 | cmp_data & 127 *)
Definition k_oid_cont (cmp_data : Z) : Z :=
  (Z.lor 128 (Z.land cmp_data 127)).
