(* dpapi_ng._rpc._verification :: sorted(int(k) for k in _COMMAND_TYPE_REGISTRY) *)
Definition c_CMD_registry : list Z := [1; 2; 3].
