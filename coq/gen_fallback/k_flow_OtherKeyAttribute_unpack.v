(* _pkcs7.py :: def OtherKeyAttribute.unpack(cls, reader, header) : whole body *)
Definition k_flow_OtherKeyAttribute_unpack : pfun :=
  {| pf_params := ["cls"; "reader"; "header"];
     pf_body := [
    SAssign ["reader"] (PMeth "read_sequence/header" (PName "reader") [(PName "header")]);
    SAssign ["key_attr_id"] (PMeth "read_object_identifier/hint" (PName "reader") [(PStr [79; 116; 104; 101; 114; 75; 101; 121; 65; 116; 116; 114; 105; 98; 117; 116; 101; 46; 107; 101; 121; 65; 116; 116; 114; 73; 100])]);
    SAssign ["key_attr"] PNone;
    SIf (PName "reader") [
      SAssign ["key_attr"] (PMeth "get_remaining_data" (PName "reader") [])
    ] [];
    SReturn (PCall "OtherKeyAttribute/key_attr_id,key_attr" [(PName "key_attr_id"); (PName "key_attr")])
  ] |}.
Definition k_flow_OtherKeyAttribute_unpack_defaults : list (string * pexp) := [("header", PNone)].
