(* _client.py :: KeyCache._store_key :: ('if_mentions', 'existing', 0) :  not existing or key.l1 > existing.l1 or (key.l1 == existing.l1 and key.l2 > existing.l2) *)
Definition k_cache_store (existing : bool) (key_l1 : Z) (existing_l1 : Z) (key_l2 : Z) (existing_l2 : Z) : bool :=
  ((negb existing) || (key_l1 >? existing_l1) || ((key_l1 =? existing_l1) && (key_l2 >? existing_l2))).
