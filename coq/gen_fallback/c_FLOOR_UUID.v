(* dpapi_ng._epm :: int(FloorProtocol.UUID_ID) *)
Definition c_FLOOR_UUID : Z := 13.
