(* _client.py :: async_ncrypt_unprotect_secret :: shape kernel :  _async_get_key(... auth_protocol: auth_protocol  [= auth_protocol] ...) *)
Definition k_onl_aunprot_kw_auth_protocol (auth_protocol : list Z) : list Z :=
  auth_protocol.
