(* _client.py :: async_ncrypt_protect_secret :: ('callarg', '_async_get_key', 0, 4) :  l1 *)
Definition k_onl_aprot_arg4  : Z :=
  (- 1).
