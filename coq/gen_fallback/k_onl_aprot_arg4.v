(* _client.py :: async_ncrypt_protect_secret :: shape kernel :  _async_get_key(... 4: l1  [= -1] ...) *)
Definition k_onl_aprot_arg4  : Z :=
  (-1).
