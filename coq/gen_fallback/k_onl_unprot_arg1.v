(* _client.py :: ncrypt_unprotect_secret :: shape kernel :  _sync_get_key(... 1: target_sd  [= DPAPINGBlob.unpack(data).protection_descriptor.get_target_sd()] ...) *)
Definition k_onl_unprot_arg1 (target_sd : list Z) : list Z :=
  target_sd.
