(* _client.py :: ncrypt_unprotect_secret :: ('callarg', '_sync_get_key', 0, 1) :  target_sd *)
Definition k_onl_unprot_arg1 (target_sd : list Z) : list Z :=
  target_sd.
