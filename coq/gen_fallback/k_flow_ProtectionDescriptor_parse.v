(* _blob.py :: def ProtectionDescriptor.parse(cls, value) : whole body *)
Definition k_flow_ProtectionDescriptor_parse : pfun :=
  {| pf_params := ["cls"; "value"];
     pf_body := [
    SReturn (PCall "SIDDescriptor" [(PName "value")])
  ] |}.
