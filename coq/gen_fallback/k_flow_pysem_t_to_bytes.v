(* /verif/vlib/pysem_src.py :: def t_to_bytes(n, w) : whole body *)
Definition k_flow_pysem_t_to_bytes : pfun :=
  {| pf_params := ["n"; "w"];
     pf_body := [
    SReturn (PTuple [(PMeth "to_bytes" (PName "n") [(PName "w"); (PStr [108; 105; 116; 116; 108; 101])]); (PMeth "to_bytes/byteorder" (PName "n") [(PName "w"); (PStr [98; 105; 103])])])
  ] |}.
