(* _pkcs7.py :: def EnvelopedData.pack(self, writer) : whole body *)
Definition k_flow_EnvelopedData_pack : pfun :=
  {| pf_params := ["self"; "writer"];
     pf_body := [
    SWith (PMeth "push_sequence" (PName "writer") []) (Some "w") [
      SExpr (PMeth "write_integer" (PName "w") [(PAttr (PName "self") "version")]);
      SWith (PMeth "push_set_of" (PName "w") []) (Some "recipient_writer") [
        SFor ["ri"] (PAttr (PName "self") "recipient_infos") [
          SExpr (PMeth "pack" (PName "ri") [(PName "recipient_writer")])
        ]
      ];
      SExpr (PMeth "pack" (PAttr (PName "self") "encrypted_content_info") [(PName "w")])
    ]
  ] |}.
