(* _rpc/_auth.py :: AuthenticationProvider.step :: ('callarg', 'SecTrailer', 0, 'level') :  AuthenticationLevel.RPC_C_AUTHN_LEVEL_PKT_PRIVACY *)
Definition k_onl_step_level (AuthenticationLevel_RPC_C_AUTHN_LEVEL_PKT_PRIVACY : Z) : Z :=
  AuthenticationLevel_RPC_C_AUTHN_LEVEL_PKT_PRIVACY.
