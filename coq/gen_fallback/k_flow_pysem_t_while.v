(* /verif/vlib/pysem_src.py :: def t_while(n) : whole body *)
Definition k_flow_pysem_t_while : pfun :=
  {| pf_params := ["n"];
     pf_body := [
    SAssign ["s"] (PInt 0);
    SAssign ["i"] (PInt 0);
    SWhile (PCmp "<" (PName "i") (PName "n")) [
      SAssign ["i"] (PBin "+" (PName "i") (PInt 1));
      SIf (PCmp "==" (PBin "%" (PName "i") (PInt 3)) (PInt 0)) [
        SContinue
      ] [];
      SIf (PCmp ">" (PName "i") (PInt 50)) [
        SBreak
      ] [];
      SAssign ["s"] (PBin "+" (PName "s") (PName "i"))
    ];
    SReturn (PTuple [(PName "s"); (PName "i")])
  ] |}.
