(* _client.py :: async_ncrypt_unprotect_secret :: ('callarg', '_async_get_key', 0, 'username') :  username *)
Definition k_onl_aunprot_kw_username (username : list Z) : list Z :=
  username.
