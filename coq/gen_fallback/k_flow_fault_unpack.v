(* _rpc/_pdu.py :: def Fault._unpack(cls, data, header, sec_trailer) : whole body *)
Definition k_flow_fault_unpack : pfun :=
  {| pf_params := ["cls"; "data"; "header"; "sec_trailer"];
     pf_body := [
    SAssign ["view"] (PCall "memoryview" [(PName "data")]);
    SReturn (PCall "()/header,sec_trailer,alloc_hint,context_id,cancel_count,flags,status,stub_data" [(PName "cls"); (PName "header"); (PName "sec_trailer"); (PCall "int.from_bytes/byteorder" [(PSlice (PName "view") PNone (PInt 4)); (PStr [108; 105; 116; 116; 108; 101])]); (PCall "int.from_bytes/byteorder" [(PSlice (PName "view") (PInt 4) (PInt 6)); (PStr [108; 105; 116; 116; 108; 101])]); (PSub (PName "view") (PInt 6)); (PCall "FaultFlags" [(PSub (PName "view") (PInt 7))]); (PCall "int.from_bytes/byteorder" [(PSlice (PName "view") (PInt 8) (PInt 12)); (PStr [108; 105; 116; 116; 108; 101])]); (PMeth "tobytes" (PSlice (PName "view") (PInt 16) PNone) [])])
  ] |}.
