(* dpapi_ng._client :: [f.port for f in _EPT_MAP_ISD_KEY.tower if isinstance(f, TCPFloor)][0] *)
Definition c_onl_ept_tower_port : Z := 135.
