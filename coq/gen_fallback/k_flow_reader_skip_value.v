(* _asn1.py :: def ASN1Reader.skip_value(self, header) : whole body *)
Definition k_flow_reader_skip_value : pfun :=
  {| pf_params := ["self"; "header"];
     pf_body := [
    SSetAttr "self" "_view" (PSlice (PAttr (PName "self") "_view") (PBin "+" (PAttr (PName "header") "tag_length") (PAttr (PName "header") "length")) PNone)
  ] |}.
