(* Tie theorems (C11): GroupKeyEnvelope.pack / unpack of _gkdi.py = GroupKeyEnvelope_pack / _unpack of Model/Gkdi.v, for
   all envelopes / all input bytes.  unpack is run statement by statement (37 statements). *)
From V Require Import Prelude.Base Prelude.PyInt Prelude.PySlice Prelude.PyStr Prelude.PyAst Prelude.PyWorld gen.C_gkdi gen.K_gkdi gen.F_gkdi.
From V Require Import Model.Types Model.Crypto Model.KeyId Model.Gkdi Flow.World_gkdi_codecs Proofs.Flow_gkdi_codecs_lib.
Local Open Scope string_scope.
Local Open Scope list_scope.
Local Open Scope Z_scope.

Lemma flow_gke_pack fuel e :
  run W fuel k_flow_gke_pack [VO (OEnv e)] = lift_b (GroupKeyEnvelope_pack e).
Proof.
  unfold GroupKeyEnvelope_pack, GroupKeyEnvelope_fields, encode_utf16z, lift_b. go.
  dres_all. rewrite app_nil_r. reflexivity.
Qed.

Lemma flow_gke_unpack fuel data :
  run W fuel k_flow_gke_unpack [VO (OCls CGke); VB data] = (let* e := GroupKeyEnvelope_unpack data in Ok (VO (OEnv e))).
Proof.
  unfold GroupKeyEnvelope_unpack. cbv zeta. change beqb with zs_eqb.
  rewrite run_unfold. cbn [pf_params pf_body k_flow_gke_unpack bind_params].
  step. step. step. sdeq; [|reflexivity].
  steps. reflexivity.
Qed.
