(* Tie theorems (C11): GetKey.pack / unpack / unpack_response of _gkdi.py = Model/Gkdi.v, for all requests / all input
   bytes.  GetKey.unpack does not use cls; unpack_response calls GroupKeyEnvelope.unpack := GroupKeyEnvelope_unpack
   (tied to its own body in Flow_gkdi_codecs_envelope.v). *)
From V Require Import Prelude.Base Prelude.PyInt Prelude.PySlice Prelude.PyStr Prelude.PyAst Prelude.PyWorld gen.C_gkdi gen.K_gkdi gen.F_gkdi.
From V Require Import Model.Types Model.Crypto Model.KeyId Model.Gkdi Flow.World_gkdi_codecs Proofs.Flow_gkdi_codecs_lib.
Local Open Scope string_scope.
Local Open Scope list_scope.
Local Open Scope Z_scope.

Lemma flow_getkey_pack fuel g :
  run W fuel k_flow_getkey_pack [VO (OGetKey g)] = lift_b (GetKey_pack g).
Proof.
  unfold GetKey_pack, GetKey_fields, lift_b, zeros. destruct g as [sd rk l0 l1 l2]. go.
  dres. destruct rk as [rk|]; go.
  - dres_all. rewrite repeat_list_zero, app_nil_r. reflexivity.
  - cbn. dres_all. rewrite repeat_list_zero, app_nil_r. reflexivity.
Qed.

Lemma flow_getkey_unpack fuel c data :
  run W fuel k_flow_getkey_unpack [c; VB data] = (let* g := GetKey_unpack data in Ok (VO (OGetKey g))).
Proof.
  unfold GetKey_unpack, k_getkey_unpack_pad, le_val_signed, c_GETKEY_NULLPTR. cbv zeta. change beqb with zs_eqb.
  rewrite run_unfold. cbn [pf_params pf_body k_flow_getkey_unpack bind_params].
  do 7 step. sdeq.
  - steps. reflexivity.
  - sdres. steps. reflexivity.
Qed.

Lemma flow_getkey_unpack_response fuel c data :
  run W fuel k_flow_getkey_unpack_response [c; VB data] = (let* e := GetKey_unpack_response data in Ok (VO (OEnv e))).
Proof.
  unfold GetKey_unpack_response, k_getkey_resp_fail. cbv zeta. go.
  destruct (le_val (slice (Some (-4)) None data) =? 0); go; [|reflexivity]. dres. reflexivity.
Qed.
