(* Round trips of DataRep, PDUHeader, SecTrailer, the PDU.unpack prefix, Fault, Request, Response. *)
From V Require Import Prelude.Base Prelude.PyInt Prelude.PySlice Model.Pdu Model.Request Model.RpcLoop Proofs.RpcLib Proofs.RpcKernels.

Lemma mem_cases x l : mem x l = true -> In x l.
Proof. unfold mem. rewrite existsb_exists. intros (y & Hy & E). apply Z.eqb_eq in E. now subst. Qed.

Lemma data_rep_rt d : wf_data_rep d = true -> data_rep_unpack (data_rep_pack d ++ []) = Ok d /\ len (data_rep_pack d) = 4
  /\ wfb (data_rep_pack d) = true.
Proof.
  destruct d as [bo ch fp]. unfold wf_data_rep. cbn [dr_byte_order dr_character dr_floating_point]. intros H. wf_split.
  apply mem_cases in H, H1, H0. cbn in H, H1, H0.
  destruct H as [<-|[<-|[]]]; destruct H1 as [<-|[<-|[]]]; destruct H0 as [<-|[<-|[<-|[<-|[]]]]]; vm_compute; auto.
Qed.
Lemma data_rep_unpack_pack d : wf_data_rep d = true -> data_rep_unpack (data_rep_pack d) = Ok d.
Proof. intros H. destruct (data_rep_rt d H) as [H1 _]. now rewrite app_nil_r in H1. Qed.
Lemma len_data_rep_pack d : len (data_rep_pack d) = 4.
Proof. unfold data_rep_pack. cbn [concat]. lens. reflexivity. Qed.

Lemma len_pdu_header_pack h : len (pdu_header_pack h) = 16.
Proof. unfold pdu_header_pack. cbn [concat]. lens. rewrite len_data_rep_pack. reflexivity. Qed.

Lemma pdu_header_unpack_pack h rest : wf_pdu_header h = true -> pdu_header_unpack (pdu_header_pack h ++ rest) = Ok h.
Proof.
  unfold wf_pdu_header. intros H. wf_split.
  apply in_range_spec in H, H6, H4, H2, H1, H0. rewrite ?P_1, ?P_2, ?P_4 in *.
  assert (Hpt : 0 <= h_packet_type h < 256).
  { apply mem_cases in H5. cbn in H5. lia. }
  unfold pdu_header_pack. rewrite len_concat_app. cbn [app].
  unfold pdu_header_unpack.
  rewrite !le1 by lia.
  pose proof (len_data_rep_pack (h_data_rep h)) as Hd.
  repeat index1. rewrite (enum_lookup_mem _ _ H5). cbn [bind].
  fields. rewrite (data_rep_unpack_pack _ H3). cbn [bind].
  rewrite !le_val_le by (rewrite ?P_2, ?P_4; lia). destruct h; reflexivity.
Qed.

Lemma len_sec_trailer_pack s : len (sec_trailer_pack s) = 8 + len (st_auth_value s).
Proof. unfold sec_trailer_pack. cbn [concat]. lens. lia. Qed.

Lemma sec_trailer_unpack_pack s : wf_sec_trailer s = true -> sec_trailer_unpack (sec_trailer_pack s) = Ok s.
Proof.
  unfold wf_sec_trailer. intros H. wf_split. apply in_range_spec in H2, H1. rewrite ?P_1, ?P_4 in *.
  assert (0 <= st_type s < 256) by (apply mem_cases in H; cbn in H; lia).
  assert (0 <= st_level s < 256) by (apply mem_cases in H3; cbn in H3; lia).
  unfold sec_trailer_pack, sec_trailer_unpack. rewrite !le1 by lia.
  repeat index1. rewrite (enum_lookup_mem _ _ H). cbn [bind].
  repeat index1. rewrite (enum_lookup_mem _ _ H3). cbn [bind].
  repeat index1. fields. cbn [concat]. rewrite app_nil_r.
  rewrite le_val_le by (rewrite P_4; lia). destruct s; reflexivity.
Qed.

(* PDU.unpack up to the dispatch returns the body, the header and the trailer that were packed *)
Lemma pdu_split_pack h body st :
  wf_pdu_header h = true -> wf_lengths h (len (pdu_header_pack h ++ body ++ opt_sec_trailer_pack st)) st = true ->
  pdu_split (pdu_header_pack h ++ body ++ opt_sec_trailer_pack st) = Ok (body, h, st).
Proof.
  intros Hh Hl. unfold pdu_split. rewrite (pdu_header_unpack_pack _ _ Hh). cbn [bind].
  unfold wf_lengths in Hl. apply andb_true_iff in Hl. destruct Hl as [Hf Hl].
  pose proof (len_pdu_header_pack h) as H16.
  assert (Hv : slice (Some 16) (Some (h_frag_len h)) (pdu_header_pack h ++ body ++ opt_sec_trailer_pack st) = body ++ opt_sec_trailer_pack st).
  { rewrite slice_skip by (rewrite ?len_app in *; pose proof (len_nonneg body); pose proof (len_nonneg (opt_sec_trailer_pack st)); lia).
    apply slice_full. rewrite !len_app in *. lia. }
  rewrite Hv. rewrite pdu_has_trailer_spec.
  destruct st as [t|]; cbn [opt_sec_trailer_pack] in *.
  - wf_split. assert (E : (h_auth_len h =? 0) = false) by lia. rewrite E. cbn [negb].
    pose proof (len_sec_trailer_pack t).
    rewrite slice_neg_tail by lia. rewrite (sec_trailer_unpack_pack _ Hl0). cbn [bind].
    rewrite slice_neg_init by lia. reflexivity.
  - assert (E : (h_auth_len h =? 0) = true) by lia. rewrite E. cbn [negb]. now rewrite app_nil_r.
Qed.

(* ---- Fault / Response / Request bodies ---- *)
Lemma fault_body_rt m :
  in_range 4 (f_alloc_hint m) = true -> in_range 2 (f_context_id m) = true -> in_range 1 (f_cancel_count m) = true ->
  in_range 4 (f_status m) = true -> in_range 1 (f_flags m) = true ->
  fault_unpack (fault_body m) (f_header m) (f_sec_trailer m) = Ok m.
Proof.
  intros H1 H2 H3 H4 H5. apply in_range_spec in H3, H5. rewrite P_1 in *.
  unfold fault_unpack, fault_body. rewrite !le1 by lia.
  fields. repeat index1. cbn [concat]. rewrite app_nil_r.
  rewrite ?le_val_le' by assumption. destruct m; reflexivity.
Qed.

Lemma response_body_rt m :
  in_range 4 (rs_alloc_hint m) = true -> in_range 2 (rs_context_id m) = true -> in_range 1 (rs_cancel_count m) = true ->
  response_unpack (response_body m) (rs_header m) (rs_sec_trailer m) = Ok m.
Proof.
  intros H1 H2 H3. apply in_range_spec in H3. rewrite P_1 in *.
  unfold response_unpack, response_body. rewrite !le1 by lia.
  fields. repeat index1. cbn [concat]. rewrite app_nil_r.
  rewrite ?le_val_le' by assumption. destruct m; reflexivity.
Qed.

Lemma request_body_rt m :
  in_range 4 (rq_alloc_hint m) = true -> in_range 2 (rq_context_id m) = true -> in_range 2 (rq_opnum m) = true ->
  match rq_obj m with
  | Some u => wf_uuid u && negb (Z.land (h_packet_flags (rq_header m)) c_PFC_OBJECT_UUID =? 0)
  | None => Z.land (h_packet_flags (rq_header m)) c_PFC_OBJECT_UUID =? 0
  end = true ->
  request_unpack (request_body m) (rq_header m) (rq_sec_trailer m) = Ok m.
Proof.
  intros H1 H2 H3 Ho.
  unfold request_unpack, request_body. fields. cbn [concat]. rewrite app_nil_r.
  rewrite ?le_val_le' by assumption. unfold k_req_obj_mask.
  destruct (rq_obj m) as [u|] eqn:Eo.
  - apply andb_true_iff in Ho. destruct Ho as [Hu Hf]. rewrite Hf.
    unfold wf_uuid in Hu. apply andb_true_iff in Hu. destruct Hu as [Hu _].
    rewrite slice_app_l' by lia. unfold uuid_of_bytes_le. rewrite Hu. cbn [bind].
    replace 16 with (len u) by lia. rewrite slice_app_r. destruct m; cbn in *; subst; reflexivity.
  - rewrite Ho. cbn [negb bind]. destruct m; cbn in *; subst; reflexivity.
Qed.
