(* C01 / C19 / C04: lemmas about the pieces composed by Model/Client.v.
   - the GCM parameters written by _encrypt_blob are read back as the same nonce (on top of C07/C06 lemmas)
   - the MS-GKDI chain over K := res bytes yields proper keys for in-range indices
   - the concrete cache of Model/Client.v: a cache in which the root key is loaded and whose entry for the
     triple (if any) conforms to the chain of that root key answers _get_key with a conforming covering envelope
   - a guarded variant `symg` of the symbolic crypto instance which satisfies CryptoLaws and IdealLaws in full
     (the unguarded `sym` does not: see the remarks at `symg`). *)
From Coq Require Import String.
From V Require Import Prelude.Base Prelude.PyInt Prelude.PySlice Prelude.PyStr.
From V Require Import gen.Kernels gen.K_cache gen.K_gkdi gen.K_asn1 gen.C_asn1 gen.C_gkdi gen.Consts.
From V Require Import Model.Types Model.Crypto Model.Sym Model.Chain Model.KeyId Model.Gkdi Model.Kek Model.SecDesc.
From V Require Import Model.Asn1 Model.Pkcs7 Model.Blob Model.CryptoWrap Model.Interval Model.Client.
From V Require Import Spec.GkdiSpec Spec.KekSpec Spec.DerSpec.
From V Require Import Proofs.Asn1Lib Proofs.Asn1Hdr Proofs.Asn1Tlv Proofs.Asn1Int Proofs.Asn1Oid Proofs.Asn1Str Proofs.Asn1Tree Proofs.C07.
From V Require Import Proofs.BlobLib Proofs.BlobPkcs7 Proofs.GkdiLib Proofs.GkdiKeyId Proofs.BlobMain.
From V Require Import Proofs.C02 Proofs.C09 Proofs.C10 Proofs.KekLib Proofs.Kek Proofs.KekExamples.
From V Require Proofs.SecDescStr.

(* ---- GCM parameters: SEQUENCE { OCTET STRING nonce, INTEGER 16 } written, nonce read back ---- *)
Lemma gcm_params_roundtrip iv : len iv < 65536 ->
  exists p, gcm_parameters iv = Ok p /\ p <> [] /\ len p <= len iv + 512 /\ gcm_iv_of_parameters (Some p) = Ok iv.
Proof.
  intros Hl. pose proof (len_nonneg iv) as Hn.
  assert (H16 : a_int k_gcm_icv_len None = Ok (Prim int_tag [16])) by (vm_compute; reflexivity).
  destruct (oct_node iv None low_oct ltac:(unfold BIG; lia)) as (eo & Eeo & To & Ro). pose proof (tlv_len _ _ _ To) as Hlo.
  destruct (int_node 16 ltac:(lia)) as (ei & _ & Eei & Ti & _). pose proof (tlv_len _ _ _ Ti) as Hli. change (len [16]) with 1 in Hli.
  assert (Eb : encode_list [a_octets iv None; Prim int_tag [16]] = Ok (eo ++ ei ++ []))
    by (repeat (apply encode_list_cons; [assumption|]); reflexivity).
  destruct (node_ok seq_tag (eo ++ ei ++ []) low_seq) as (p & Ep & Tp); [rewrite !len_app, len_nil; unfold BIG; lia|].
  pose proof (tlv_len _ _ _ Tp) as Hlp. rewrite !len_app, len_nil in Hlp.
  exists p. split; [|split; [|split]].
  - unfold gcm_parameters. rewrite H16. cbn [bind]. rewrite (encode_seq _ _ Eb). exact Ep.
  - intros ->. cbn in Hlp. lia.
  - lia.
  - unfold gcm_iv_of_parameters.
    assert (Et : truthy (Some p) = Some p) by (destruct p; [cbn in Hlp; lia|reflexivity]). rewrite Et.
    rewrite <- (app_nil_r p). rewrite read_sequence_eq.
    rewrite (tlv_read_raw seq_tag (eo ++ ei ++ []) p [] None seq_tag None Tp I eq_refl). cbn [bind].
    change (opt_tag None oct_tag) with oct_tag in Ro. rewrite Ro. cbn [bind]. reflexivity.
Qed.

(* ---- the key chain over K := res bytes ---- *)
Definition i32 (z : Z) : Prop := -2147483648 <= z < 2147483648.

Lemma kdf_context_ok rkid l0 a b : i32 l0 -> i32 a -> i32 b ->
  exists ctx, compute_kdf_context rkid l0 a b = Ok ctx.
Proof.
  unfold i32. intros H0 Ha Hb. unfold compute_kdf_context.
  rewrite !to_bytes_le_signed_ok by (rewrite P_4; lia). cbn [bind]. eexists. reflexivity.
Qed.

Section Chain.
Context (c : Crypto) (h : hash) (rkid : bytes) (l0 : Z) (H0 : i32 l0).
Notation KDF := (kdfK c h rkid l0).

Lemma kdfK_ok key a b : i32 a -> i32 b -> exists ctx, KDF (Ok key) a b = Ok (kdf c h key c_KDS_SERVICE_LABEL ctx 64).
Proof.
  intros Ha Hb. destruct (kdf_context_ok rkid l0 a b H0 Ha Hb) as (ctx & E).
  exists ctx. unfold kdfK. cbn [bind]. rewrite E. reflexivity.
Qed.

Lemma K1n_ok top d : (d <= 31)%nat -> exists k, K1n KDF (Ok top) d = Ok k.
Proof.
  induction d as [|d IH]; intros Hd; [exists top; reflexivity|].
  destruct (IH ltac:(lia)) as (k & Ek). cbn [K1n]. rewrite Ek.
  destruct (kdfK_ok k (31 - Z.of_nat (S d)) (-1)) as (ctx & E); [unfold i32; lia|unfold i32; lia|].
  rewrite E. eexists. reflexivity.
Qed.

Lemma K2_ok top l1 l2 : 0 <= l1 <= 31 -> 0 <= l2 <= 31 ->
  exists key ctx, K2 KDF (Ok top) l1 l2 = Ok (kdf c h key c_KDS_SERVICE_LABEL ctx 64).
Proof.
  intros H1 H2. unfold K2.
  assert (Hg : forall d, (d <= 31)%nat -> exists key ctx, K2n KDF (Ok top) l1 d = Ok (kdf c h key c_KDS_SERVICE_LABEL ctx 64)).
  { induction d as [|d IH]; intros Hd.
    - cbn [K2n]. unfold K1. destruct (K1n_ok top (Z.to_nat (31 - l1)) ltac:(lia)) as (k & Ek). rewrite Ek.
      destruct (kdfK_ok k l1 31) as (ctx & E); [unfold i32; lia|unfold i32; lia|]. rewrite E. eauto.
    - destruct (IH ltac:(lia)) as (key & ctx & E). cbn [K2n]. rewrite E.
      destruct (kdfK_ok (kdf c h key c_KDS_SERVICE_LABEL ctx 64) l1 (31 - Z.of_nat (S d))) as (ctx' & E'); [unfold i32; lia|unfold i32; lia|].
      rewrite E'. eauto. }
  apply Hg. lia.
Qed.

Lemma compute_l1_key_ok sd key : exists top, compute_l1_key c h sd rkid l0 key = Ok top.
Proof.
  unfold compute_l1_key.
  destruct (kdf_context_ok rkid l0 (-1) (-1) H0) as (c0 & E0); [unfold i32; lia|unfold i32; lia|].
  destruct (kdf_context_ok rkid l0 31 (-1) H0) as (c1 & E1); [unfold i32; lia|unfold i32; lia|].
  rewrite E0. cbn [bind]. rewrite E1. cbn [bind]. eexists. reflexivity.
Qed.
End Chain.

(* ---- the clock: indices are in range ---- *)
Lemma interval_ranges ns l0 l1 l2 : 0 <= ns -> interval_of_time_ns ns = (l0, l1, l2) ->
  0 <= l0 /\ 0 <= l1 <= 31 /\ 0 <= l2 <= 31.
Proof.
  intros Hns E. unfold interval_of_time_ns in E. destruct (now_filetime ns Hns) as [_ Hp].
  pose proof (interval_contains (k_now ns) Hp) as Hc. cbv zeta in Hc.
  assert (l0 = k_l0 (k_now ns) /\ l1 = k_l1 (k_now ns) /\ l2 = k_l2 (k_now ns)) as (-> & -> & ->) by (repeat split; congruence).
  lia.
Qed.
Lemma interval_l0_bound ns l0 l1 l2 : 0 <= ns -> ns < 79164825555398400000000000 -> interval_of_time_ns ns = (l0, l1, l2) ->
  l0 <= 2147483647.
Proof.
  intros Hns Hb E. unfold interval_of_time_ns in E. assert (l0 = k_l0 (k_now ns)) as -> by congruence.
  unfold k_l0, k_now. lia.
Qed.

(* ---- the key identifier new_kek emits: everything but key_info is copied from the envelope ---- *)
Lemma new_kek_kid c rnd e kek kid : new_kek c rnd e = Ok (kek, kid) ->
  kid = {| kid_version := 1; kid_flags := gke_flags e; kid_l0 := gke_l0 e; kid_l1 := gke_l1 e; kid_l2 := gke_l2 e;
           kid_rkid := gke_rkid e; kid_key_info := kid_key_info kid; kid_domain := gke_domain e; kid_forest := gke_forest e |}.
Proof.
  unfold new_kek. destruct (envelope_hash e) as [h|]; [|discriminate]. cbn [bind].
  match goal with |- bind ?m _ = _ -> _ => destruct m as [[k ki]|]; [|discriminate] end. cbn [bind].
  intros H. apply Ok_inj in H. apply (f_equal snd) in H. cbn [snd] in H. subst kid. reflexivity.
Qed.

(* ---- the concrete cache of Model/Client.v ---- *)
Lemma ckey_eqb_refl t : ckey_eqb t t = true.
Proof. destruct t as [[a b] z]. unfold ckey_eqb. rewrite !beqb_refl, Z.eqb_refl. reflexivity. Qed.

Definition rk_hash (rk : root_key) : res hash :=
  let* hn := KDFParameters_unpack (rk_kdf_params rk) in hash_algorithm hn.
Definition names_ok (flags : Z) (d f : pystr) : bool :=
  u32b flags && wfstr d && wfstr f && u32b (utf16_len d + 2) && u32b (utf16_len f + 2).

(* the secret agreement parameters an envelope derived from a root key carries (_client.py: rk.secret_parameters or b"") *)
Definition rk_sparams (r : root_key) : bytes := match rk_secret_params r with Some (x :: r') => x :: r' | _ => [] end.

Section Cache.
Context (c : Crypto) (h : hash) (rk : root_key) (rkid sd : bytes) (l0 : Z).

(* Key(SD, RK, L0, 31, -1): the top of the MS-GKDI chain of this root key, descriptor and L0 *)
Definition root_top : res bytes := compute_l1_key c h sd rkid l0 (rk_key rk).

(* a nonce-mode envelope of this root key / descriptor / L0 that conforms to MS-GKDI 2.2.4 *)
Record env_ok (e : envelope) : Prop := {
  eo_nonce : gke_is_public_key e = false;
  eo_l0 : gke_l0 e = l0;
  eo_rkid : gke_rkid e = rkid;
  eo_alg : gke_kdf_alg e = STR_KDF_ALG;
  eo_params : gke_kdf_params e = rk_kdf_params rk;
  eo_conf : conforming (kdfK c h rkid l0) root_top (env_of e);
  eo_names : names_ok (gke_flags e) (gke_domain e) (gke_forest e) = true;
  eo_salg : gke_secret_alg e = rk_secret_alg rk;
  eo_priv : gke_priv_len e = rk_priv_len rk;
  (* the secret agreement parameters are the root key's (since the repair of D16 compute_kek checks a DH peer key
     against them: a cached envelope with other parameters would make every public-key blob undecryptable) *)
  eo_sparams : gke_secret_params e = rk_sparams rk }.

(* the root key is loaded, and the entry of the triple (if any) is such an envelope *)
Definition cache_ok (cache : ccache) : Prop :=
  cc_find_root (cc_roots cache) rkid = Some rk /\
  forall e, cc_find_seed (cc_seeds cache) (rkid, sd, l0) = Some e -> env_ok e.

Hypothesis Hhash : rk_hash rk = Ok h.
Hypothesis Halg : rk_kdf_alg rk = STR_KDF_ALG.
Hypothesis Hl0 : 0 <= l0 <= 2147483647.

Lemma env_ok_hash e : env_ok e -> envelope_hash e = Ok h.
Proof.
  intros [_ _ _ Ea Ep _ _ _ _]. unfold envelope_hash. rewrite Ea, Ep. unfold Model.Gkdi.str_eqb. rewrite beqb_refl. cbn [negb]. exact Hhash.
Qed.

Lemma get_key_ok cache l1 l2 : cache_ok cache -> 0 <= l1 <= 31 -> 0 <= l2 <= 31 ->
  exists e0 cache', cc_get_key c cache sd rkid l0 l1 l2 = Ok (Some e0, cache') /\ env_ok e0 /\ covers (env_of e0) l1 l2 /\
    cc_find_seed (cc_seeds cache') (rkid, sd, l0) = Some e0 /\ cache_ok cache'.
Proof.
  intros [Hroot Hseed] H1 H2. destruct kernels_meaning as (Hc & _ & _).
  unfold cc_get_key. unfold k_cache_l0_guard. destruct (negb ((0 <=? l0) && (l0 <=? 2147483647))) eqn:G; [lia|].
  cbv zeta.
  assert (Hmiss : exists e0 cache', 
    match cc_find_root (cc_roots cache) rkid with
    | Some rk0 =>
      let* hash_name := KDFParameters_unpack (rk_kdf_params rk0) in
      let* h0 := hash_algorithm hash_name in
      let* l1_seed := compute_l1_key c h0 sd rkid l0 (rk_key rk0) in
      let gke := {| gke_version := rk_version rk0; gke_flags := k_root_env_flags; gke_l0 := l0;
                    gke_l1 := k_root_env_l1; gke_l2 := k_root_env_l2; gke_rkid := rkid;
                    gke_kdf_alg := rk_kdf_alg rk0; gke_kdf_params := rk_kdf_params rk0;
                    gke_secret_alg := rk_secret_alg rk0;
                    gke_secret_params := match rk_secret_params rk0 with Some (x :: r) => x :: r | _ => [] end;
                    gke_priv_len := rk_priv_len rk0; gke_pub_len := rk_pub_len rk0;
                    gke_domain := []; gke_forest := []; gke_l1_key := l1_seed; gke_l2_key := [] |} in
      if k_cache_root_overwrites then Ok (Some gke, cc_set_seed cache (rkid, sd, l0) gke)
      else match cc_find_seed (cc_seeds cache) (rkid, sd, l0) with
           | Some e => Ok (Some e, cache)
           | None => Ok (Some gke, cc_set_seed cache (rkid, sd, l0) gke)
           end
    | None => Ok (None, cache)
    end = Ok (Some e0, cache') /\ env_ok e0 /\ covers (env_of e0) l1 l2 /\
    cc_find_seed (cc_seeds cache') (rkid, sd, l0) = Some e0 /\ cache_ok cache').
  { rewrite Hroot. unfold rk_hash in Hhash.
    destruct (KDFParameters_unpack (rk_kdf_params rk)) as [hn|]; [|discriminate]. cbn [bind] in *. rewrite Hhash. cbn [bind].
    destruct (compute_l1_key_ok c h rkid l0 ltac:(unfold i32; lia) sd (rk_key rk)) as (top & Et). rewrite Et. cbn [bind].
    rewrite root_overwrites. cbv zeta. do 2 eexists. split; [reflexivity|].
    assert (Hok : env_ok {| gke_version := rk_version rk; gke_flags := k_root_env_flags; gke_l0 := l0;
                    gke_l1 := k_root_env_l1; gke_l2 := k_root_env_l2; gke_rkid := rkid;
                    gke_kdf_alg := rk_kdf_alg rk; gke_kdf_params := rk_kdf_params rk;
                    gke_secret_alg := rk_secret_alg rk;
                    gke_secret_params := match rk_secret_params rk with Some (x :: r) => x :: r | _ => [] end;
                    gke_priv_len := rk_priv_len rk; gke_pub_len := rk_pub_len rk;
                    gke_domain := []; gke_forest := []; gke_l1_key := top; gke_l2_key := [] |}).
    { constructor; cbn [gke_l0 gke_rkid gke_kdf_alg gke_kdf_params gke_flags gke_domain gke_forest gke_secret_alg gke_priv_len]; try reflexivity; try assumption.
      unfold root_top. rewrite Et. apply (root_env_conforming (kdfK c h rkid l0) (Ok top) (Ok [])). }
    split; [exact Hok|]. split; [unfold covers; cbn [env_of e_l1 e_l2 gke_l1 gke_l2]; unfold k_root_env_l1, k_root_env_l2; lia|].
    unfold cc_set_seed. cbn [cc_seeds cc_roots cc_find_seed]. rewrite ckey_eqb_refl. split; [reflexivity|].
    split; [exact Hroot|]. cbn [cc_seeds cc_find_seed]. rewrite ckey_eqb_refl. intros e He. injection He as <-. exact Hok. }
  destruct (cc_find_seed (cc_seeds cache) (rkid, sd, l0)) as [e|] eqn:Es.
  - destruct (k_cache_covers true (gke_l1 e) l1 (gke_l2 e) l2) eqn:Ecov; [|exact Hmiss].
    exists e, cache. split; [reflexivity|]. split; [apply Hseed; reflexivity|].
    split; [apply Hc in Ecov; unfold covers; cbn [env_of e_l1 e_l2]; tauto|]. split; [exact Es|]. unfold cache_ok. rewrite Es. split; assumption.
  - destruct (k_cache_covers false 0 l1 0 l2) eqn:Ecov; [apply Hc in Ecov; destruct Ecov; discriminate|exact Hmiss].
Qed.

(* _store_key of an envelope at a position the entry already covers leaves the cache as it is *)
Lemma store_key_noop cache e e0 : gke_rkid e = rkid -> gke_l0 e = l0 ->
  cc_find_seed (cc_seeds cache) (rkid, sd, l0) = Some e0 -> covers (env_of e0) (gke_l1 e) (gke_l2 e) ->
  cc_store_key cache sd e = cache.
Proof.
  intros Er E0 Es Hcov. destruct kernels_meaning as (_ & Hs & _).
  unfold cc_store_key. cbv zeta. rewrite Er, E0, Es.
  destruct (k_cache_store true (gke_l1 e) (gke_l1 e0) (gke_l2 e) (gke_l2 e0)) eqn:E; [|reflexivity].
  apply Hs in E. unfold covers in Hcov. cbn [env_of e_l1 e_l2] in Hcov. destruct E as [E|E]; [discriminate|lia].
Qed.
End Cache.

(* ---- the symbolic instance ----
   `sym` (Model/Sym.v) serialises the inputs of a primitive with 4-byte big-endian length prefixes.  It therefore
   satisfies the round-trip laws only for inputs shorter than 2^32 octets (be 4 (len f) wraps beyond), and the
   converse (ideal) laws only for images that are byte strings (wfb): for w := 165 :: 3 :: [0;0;0;256] ++ k ++ [0;0;0;0]
   with 256 octets k, sym_kw_unwrap k w = Ok [] although sym_kw_wrap k [] <> Ok w (see sym_not_ideal below).  Both
   restrictions are vacuous for every value the harness can produce; to have an instance satisfying CryptoLaws
   and IdealLaws as stated, `symg` guards the primitives by these side conditions (ValueError otherwise) and is
   `sym` wherever the guards hold. *)
Definition okb (b : bytes) : bool := wfb b && (len b <? 4294967296).

Lemma four_split {A} (l : list A) : (4 <= length l)%nat -> exists a b c d r, l = a :: b :: c :: d :: r.
Proof. destruct l as [|a [|b [|c [|d r]]]]; cbn [length]; try lia. eauto 6. Qed.

Lemma sym_fields_enc fs : forall fuel, Forall (fun f => len f < 4294967296) fs -> (length fs <= fuel)%nat ->
  sym_fields fuel (concat (map symfield fs)) = Some fs.
Proof.
  induction fs as [|f fs IH]; intros fuel Hs Hf; [destruct fuel; reflexivity|].
  inversion Hs as [|? ? Hsf Hsr]; subst. cbn [map concat]. unfold symfield at 1. rewrite <- app_assoc.
  destruct fuel as [|fuel]; [cbn [length] in Hf; lia|].
  destruct (four_split (be 4 (len f))) as (a & b & c0 & d & r & E4); [rewrite be_length; lia|].
  assert (r = []) by (apply (f_equal (@length Z)) in E4; rewrite be_length in E4; cbn [length] in E4; destruct r; [reflexivity|cbn [length] in E4; lia]).
  subst r. rewrite E4. cbn [app sym_fields]. 
  set (rest := f ++ concat (map symfield fs)).
  assert (Hlen : (len (a :: b :: c0 :: d :: rest) <? 4) = false) by (rewrite !len_cons; pose proof (len_nonneg rest); lia).
  rewrite Hlen. cbn [firstn skipn]. rewrite <- E4. rewrite be_val_be by (rewrite P_4; pose proof (len_nonneg f); lia).
  unfold rest. rewrite len_app. pose proof (len_nonneg (concat (map symfield fs))).
  destruct (len f + len (concat (map symfield fs)) <? len f) eqn:E; [lia|].
  unfold len at 1 2. rewrite Nat2Z.id. rewrite skipn_app, skipn_all, Nat.sub_diag. cbn [skipn app].
  rewrite firstn_app, firstn_all, Nat.sub_diag. cbn [firstn]. rewrite app_nil_r.
  rewrite IH; [reflexivity|assumption|cbn [length] in Hf; lia].
Qed.

Lemma sym_parse_enc tag fs : Forall (fun f => len f < 4294967296) fs -> sym_parse tag (symterm tag fs) = Some fs.
Proof.
  intros Hs. unfold sym_parse, symterm. rewrite Z.eqb_refl. apply sym_fields_enc; [exact Hs|].
  clear Hs. induction fs as [|f fs IH]; cbn [map concat length]; [lia|]. unfold symfield at 1. rewrite !app_length, be_length. lia.
Qed.

Lemma sym_fields_inv : forall fuel bs fs, wfb bs = true -> sym_fields fuel bs = Some fs ->
  bs = concat (map symfield fs) /\ Forall (fun f => okb f = true) fs.
Proof.
  induction fuel as [|fuel IH]; intros bs fs Hw H.
  - destruct bs; [|discriminate]. cbn in H. injection H as <-. split; [reflexivity|constructor].
  - destruct bs as [|x0 bs0]; [cbn in H; injection H as <-; split; [reflexivity|constructor]|].
    set (bs := x0 :: bs0) in *. cbn [sym_fields] in H. fold bs in H.
    destruct (len bs <? 4) eqn:E4; [discriminate|].
    set (n := be_val (firstn 4 bs)) in *. set (r := skipn 4 bs) in *.
    destruct (len r <? n) eqn:En; [discriminate|].
    destruct (sym_fields fuel (skipn (Z.to_nat n) r)) as [l|] eqn:El; [|discriminate]. injection H as <-.
    assert (Hwr : wfb r = true) by (apply wfb_skipn, Hw).
    destruct (IH _ _ (wfb_skipn (Z.to_nat n) r Hwr) El) as [Er Hl].
    assert (Hl4 : length (firstn 4 bs) = 4%nat) by (rewrite firstn_length; unfold len in E4; lia).
    assert (Hw4 : wfb (firstn 4 bs) = true) by (apply wfb_firstn, Hw).
    pose proof (be_val_range _ Hw4) as Hn. rewrite Hl4, P_4 in Hn. fold n in Hn.
    assert (Hlf : length (firstn (Z.to_nat n) r) = Z.to_nat n) by (rewrite firstn_length; unfold len in En; lia).
    split.
    + cbn [map concat]. unfold symfield at 1. rewrite <- Er.
      assert (E1 : be 4 (len (firstn (Z.to_nat n) r)) = firstn 4 bs).
      { unfold len. rewrite Hlf, Z2Nat.id by lia. unfold n. rewrite <- Hl4 at 1. apply be_be_val, Hw4. }
      rewrite E1, <- app_assoc, (firstn_skipn (Z.to_nat n) r). unfold r. now rewrite firstn_skipn.
    + constructor; [|exact Hl]. unfold okb. rewrite (wfb_firstn _ _ Hwr). unfold len. rewrite Hlf. lia.
Qed.

Lemma sym_parse_eq tag bs : sym_parse tag bs =
  match bs with a :: t :: r => if (a =? 165) && (t =? tag) then sym_fields (length r) r else None | _ => None end.
Proof.
  destruct bs as [|a [|t r]]; [reflexivity| |];
    (destruct a as [|p|p]; [reflexivity| |reflexivity]; do 8 (destruct p as [p|p|]; try reflexivity)).
Qed.
Lemma sym_parse_inv tag bs fs : wfb bs = true -> sym_parse tag bs = Some fs ->
  bs = symterm tag fs /\ Forall (fun f => okb f = true) fs.
Proof.
  intros Hw H. rewrite sym_parse_eq in H. destruct bs as [|a [|t r]]; try discriminate.
  destruct (a =? 165) eqn:Ea; [|discriminate]. destruct (t =? tag) eqn:Et; [|discriminate]. cbn [andb] in H.
  assert (a = 165) by lia. subst a. assert (t = tag) by lia. subst t.
  apply wfb_cons in Hw as [_ Hw]. apply wfb_cons in Hw as [_ Hw].
  destruct (sym_fields_inv _ _ _ Hw H) as [-> Hf]. split; [reflexivity|exact Hf].
Qed.

Lemma wfb_symterm tag fs : 0 <= tag < 256 -> Forall (fun f => wfb f = true) fs -> wfb (symterm tag fs) = true.
Proof.
  intros Ht Hf. unfold symterm. apply wfb_cons. split; [lia|]. apply wfb_cons. split; [lia|].
  induction Hf as [|f fs Hw _ IH]; [reflexivity|]. cbn [map concat]. unfold symfield at 1. rewrite !wfb_app, wfb_be, Hw, IH. reflexivity.
Qed.

Definition symg_kw_wrap (k x : bytes) : res bytes := if okb k && okb x then sym_kw_wrap k x else Raise ValueError.
Definition symg_kw_unwrap (k w : bytes) : res bytes := if okb k && wfb w then sym_kw_unwrap k w else Raise ValueError.
Definition symg_gcm_enc (k n p : bytes) : res bytes := if okb k && okb n && okb p then sym_gcm_enc k n p else Raise ValueError.
Definition symg_gcm_dec (k n ct : bytes) : res bytes := if okb k && okb n && wfb ct then sym_gcm_dec k n ct else Raise ValueError.
Definition symg : Crypto := {|
  kdf := sym_kdf; concat_kdf := sym_concat_kdf;
  kw_wrap := symg_kw_wrap; kw_unwrap := symg_kw_unwrap;
  gcm_enc := symg_gcm_enc; gcm_dec := symg_gcm_dec;
  ec_pub := sym_ec_pub; ec_dh := sym_ec_dh |}.

Lemma okb_spec b : okb b = true -> wfb b = true /\ len b < 4294967296.
Proof. unfold okb. rewrite andb_true_iff. intros [H1 H2]. split; [exact H1|lia]. Qed.
Lemma bytes_eqb_refl a : bytes_eqb a a = true. Proof. now apply bytes_eqb_eq. Qed.

Lemma symg_kw_wrap_inv k x w : symg_kw_wrap k x = Ok w -> okb k = true /\ okb x = true /\ w = symterm 3 [k; x].
Proof.
  unfold symg_kw_wrap. destruct (okb k) eqn:Ek; [|discriminate]. destruct (okb x) eqn:Ex; [|discriminate]. cbn [andb].
  unfold sym_kw_wrap. intros H. apply Ok_inj in H. auto.
Qed.
Lemma symg_gcm_enc_inv k n p ct : symg_gcm_enc k n p = Ok ct -> okb k = true /\ okb n = true /\ okb p = true /\ ct = symterm 4 [k; n; p].
Proof.
  unfold symg_gcm_enc. destruct (okb k) eqn:Ek; [|discriminate]. destruct (okb n) eqn:En; [|discriminate].
  destruct (okb p) eqn:Ep; [|discriminate]. cbn [andb]. unfold sym_gcm_enc. intros H. apply Ok_inj in H. auto.
Qed.

Lemma symg_laws : CryptoLaws symg.
Proof.
  constructor; cbn [kw_wrap kw_unwrap gcm_enc gcm_dec ec_pub ec_dh symg].
  - intros k x w H. apply symg_kw_wrap_inv in H as (Hk & Hx & ->).
    destruct (okb_spec _ Hk) as [Wk Lk]. destruct (okb_spec _ Hx) as [Wx Lx].
    unfold symg_kw_unwrap. rewrite Hk, wfb_symterm by (try lia; repeat constructor; assumption). cbn [andb].
    unfold sym_kw_unwrap. rewrite sym_parse_enc by (repeat constructor; assumption). now rewrite bytes_eqb_refl.
  - intros k n p ct H. apply symg_gcm_enc_inv in H as (Hk & Hn & Hp & ->).
    destruct (okb_spec _ Hk) as [Wk Lk]. destruct (okb_spec _ Hn) as [Wn Ln]. destruct (okb_spec _ Hp) as [Wp Lp].
    unfold symg_gcm_dec. rewrite Hk, Hn, wfb_symterm by (try lia; repeat constructor; assumption). cbn [andb].
    unfold sym_gcm_dec. rewrite sym_parse_enc by (repeat constructor; assumption). now rewrite !bytes_eqb_refl.
  - exact sym_ec_commutes.
  - intros k w e. unfold symg_kw_unwrap, sym_kw_unwrap. destruct (okb k && wfb w); [|intros [= <-]; auto].
    destruct (sym_parse 3 w) as [[|k' [|x [|? ?]]]|]; try (intros [= <-]; auto). destruct (bytes_eqb k k'); [discriminate|intros [= <-]; auto].
  - intros k n ct e. unfold symg_gcm_dec, sym_gcm_dec. destruct (okb k && okb n && wfb ct); [|intros [= <-]; auto].
    destruct (sym_parse 4 ct) as [[|k' [|n' [|p [|? ?]]]]|]; try (intros [= <-]; auto).
    destruct (bytes_eqb k k' && bytes_eqb n n'); [discriminate|intros [= <-]; auto].
  - intros k x e. unfold symg_kw_wrap, sym_kw_wrap. destruct (okb k && okb x); [discriminate|intros [= <-]; auto].
  - intros k n p e. unfold symg_gcm_enc, sym_gcm_enc. destruct (okb k && okb n && okb p); [discriminate|intros [= <-]; auto].
  - intros cv d e. unfold sym_ec_pub. destruct (d <=? 0); [intros [= <-]; auto|discriminate].
  - intros cv d Q e. unfold sym_ec_dh. destruct (d <=? 0); [intros [= <-]; auto|]. destruct (negb (sym_point_ok cv Q)); [intros [= <-]; auto|discriminate].
Qed.

Lemma symg_kw_unwrap_inv k w x : symg_kw_unwrap k w = Ok x -> okb k = true /\ okb x = true /\ w = symterm 3 [k; x].
Proof.
  unfold symg_kw_unwrap. destruct (okb k) eqn:Ek; [|discriminate]. destruct (wfb w) eqn:Ew; [|discriminate]. cbn [andb].
  unfold sym_kw_unwrap. destruct (sym_parse 3 w) as [[|k' [|x' [|? ?]]]|] eqn:Ep; try discriminate.
  destruct (bytes_eqb k k') eqn:Eb; [|discriminate]. apply bytes_eqb_eq in Eb. subst k'. intros H. apply Ok_inj in H. subst x'.
  destruct (sym_parse_inv _ _ _ Ew Ep) as [-> Hf]. inversion Hf as [|? ? _ Hf']; subst. inversion Hf' as [|? ? Hx _]; subst. auto.
Qed.
Lemma symg_gcm_dec_inv k n ct p : symg_gcm_dec k n ct = Ok p -> okb k = true /\ okb n = true /\ okb p = true /\ ct = symterm 4 [k; n; p].
Proof.
  unfold symg_gcm_dec. destruct (okb k) eqn:Ek; [|discriminate]. destruct (okb n) eqn:En; [|discriminate].
  destruct (wfb ct) eqn:Ew; [|discriminate]. cbn [andb].
  unfold sym_gcm_dec. destruct (sym_parse 4 ct) as [[|k' [|n' [|p' [|? ?]]]]|] eqn:Ep; try discriminate.
  destruct (bytes_eqb k k') eqn:Eb; [|discriminate]. destruct (bytes_eqb n n') eqn:Eb2; [|discriminate]. cbn [andb].
  apply bytes_eqb_eq in Eb. apply bytes_eqb_eq in Eb2. subst k' n'. intros H. apply Ok_inj in H. subst p'.
  destruct (sym_parse_inv _ _ _ Ew Ep) as [-> Hf]. inversion Hf as [|? ? _ Hf']; subst. inversion Hf' as [|? ? _ Hf'']; subst.
  inversion Hf'' as [|? ? Hp _]; subst. auto.
Qed.
Lemma symterm_inj tag fs fs' : Forall (fun f => okb f = true) fs -> Forall (fun f => okb f = true) fs' ->
  symterm tag fs = symterm tag fs' -> fs = fs'.
Proof.
  intros H1 H2 E.
  assert (S1 : Forall (fun f => len f < 4294967296) fs) by (eapply Forall_impl; [|exact H1]; intros f Hf; apply okb_spec in Hf; tauto).
  assert (S2 : Forall (fun f => len f < 4294967296) fs') by (eapply Forall_impl; [|exact H2]; intros f Hf; apply okb_spec in Hf; tauto).
  pose proof (sym_parse_enc tag fs S1) as P1. rewrite E, (sym_parse_enc tag fs' S2) in P1. congruence.
Qed.

Lemma symg_ideal : IdealLaws symg.
Proof.
  constructor; cbn [kw_wrap kw_unwrap gcm_enc gcm_dec symg].
  - intros k w x H. apply symg_kw_unwrap_inv in H as (Hk & Hx & ->). unfold symg_kw_wrap. rewrite Hk, Hx. reflexivity.
  - intros k n ct p H. apply symg_gcm_dec_inv in H as (Hk & Hn & Hp & ->). unfold symg_gcm_enc. rewrite Hk, Hn, Hp. reflexivity.
  - intros k k' x x' w H1 H2. apply symg_kw_wrap_inv in H1 as (Hk & Hx & ->). apply symg_kw_wrap_inv in H2 as (Hk' & Hx' & E).
    apply symterm_inj in E; [|repeat constructor; assumption|repeat constructor; assumption]. split; congruence.
  - intros k k' n n' p p' ct H1 H2. apply symg_gcm_enc_inv in H1 as (Hk & Hn & Hp & ->). apply symg_gcm_enc_inv in H2 as (Hk' & Hn' & Hp' & E).
    apply symterm_inj in E; [|repeat constructor; assumption|repeat constructor; assumption]. repeat split; congruence.
Qed.

Lemma symg_gcm_enc_ok k n p : okb k = true -> okb n = true -> okb p = true -> gcm_enc symg k n p = Ok (symterm 4 [k; n; p]).
Proof. intros Hk Hn Hp. cbn [gcm_enc symg]. unfold symg_gcm_enc. rewrite Hk, Hn, Hp. reflexivity. Qed.
Lemma symg_kw_wrap_ok k x : okb k = true -> okb x = true -> kw_wrap symg k x = Ok (symterm 3 [k; x]).
Proof. intros Hk Hx. cbn [kw_wrap symg]. unfold symg_kw_wrap. rewrite Hk, Hx. reflexivity. Qed.
Lemma len_symterm tag fs : len (symterm tag fs) = 2 + fold_right (fun f acc => 4 + len f + acc) 0 fs.
Proof.
  unfold symterm. rewrite !len_cons. induction fs as [|f fs IH]; cbn [map concat fold_right]; [rewrite len_nil; lia|].
  unfold symfield at 1. rewrite !len_app, len_be. lia.
Qed.

(* symg is sym wherever the guards hold *)
Lemma symg_is_sym k n x : okb k = true -> okb n = true -> okb x = true ->
  kw_wrap symg k x = kw_wrap sym k x /\ gcm_enc symg k n x = gcm_enc sym k n x /\
  (wfb x = true -> kw_unwrap symg k x = kw_unwrap sym k x /\ gcm_dec symg k n x = gcm_dec sym k n x).
Proof.
  intros Hk Hn Hx. cbn [kw_wrap gcm_enc kw_unwrap gcm_dec symg sym].
  unfold symg_kw_wrap, symg_gcm_enc, symg_kw_unwrap, symg_gcm_dec. rewrite Hk, Hn, Hx. cbn [andb].
  split; [reflexivity|]. split; [reflexivity|]. intros ->. split; reflexivity.
Qed.

(* the unguarded instance is not ideal on lists that are not byte strings *)
Lemma sym_not_ideal : ~ IdealLaws sym.
Proof.
  intros [Hi _ _ _].
  specialize (Hi (repeat 1 256) (165 :: 3 :: [0; 0; 0; 256] ++ repeat 1 256 ++ [0; 0; 0; 0]) []).
  cbn [kw_unwrap kw_wrap sym] in Hi. specialize (Hi ltac:(vm_compute; reflexivity)). vm_compute in Hi. discriminate Hi.
Qed.

(* ---- a cache invariant kept by every protect / unprotect call (histories, C19) ---- *)
Lemma ckey_eqb_eq a b : ckey_eqb a b = true <-> a = b.
Proof.
  destruct a as [[a1 a2] a3], b as [[b1 b2] b3]. unfold ckey_eqb. rewrite !andb_true_iff, !beqb_eq, Z.eqb_eq.
  split; [intros [[-> ->] ->]; reflexivity|intros H; injection H as -> -> ->; auto].
Qed.
Lemma interval_l12_range ns l0 l1 l2 : interval_of_time_ns ns = (l0, l1, l2) -> 0 <= l1 <= 31 /\ 0 <= l2 <= 31.
Proof.
  unfold interval_of_time_ns. intros E. assert (l1 = k_l1 (k_now ns) /\ l2 = k_l2 (k_now ns)) as [-> ->] by (split; congruence).
  unfold k_l1, k_l2. lia.
Qed.
Lemma store_key_same cache sd e x : cc_find_seed (cc_seeds cache) (gke_rkid e, sd, gke_l0 e) = Some x ->
  ~ (gke_l1 e > gke_l1 x \/ (gke_l1 e = gke_l1 x /\ gke_l2 e > gke_l2 x)) -> forall c : Crypto, cc_store_key cache sd e = cache.
Proof.
  intros Ef Hn _. destruct kernels_meaning as (_ & Hs & _). unfold cc_store_key. cbv zeta. rewrite Ef.
  destruct (k_cache_store true (gke_l1 e) (gke_l1 x) (gke_l2 e) (gke_l2 x)) eqn:E; [|reflexivity].
  apply Hs in E. destruct E as [E|E]; [discriminate|contradiction].
Qed.

Section Inv.
Context (c : Crypto) (h : hash) (rk : root_key) (rkid : bytes).
Hypothesis Hhash : rk_hash rk = Ok h.
Hypothesis Halg : rk_kdf_alg rk = STR_KDF_ALG.

(* the root key is loaded; every entry sits under the key its envelope names; every entry of this root key conforms *)
Definition cache_inv (cache : ccache) : Prop :=
  cc_find_root (cc_roots cache) rkid = Some rk /\
  (forall k sd l0 e, cc_find_seed (cc_seeds cache) (k, sd, l0) = Some e -> gke_rkid e = k /\ gke_l0 e = l0) /\
  (forall sd l0 e, cc_find_seed (cc_seeds cache) (rkid, sd, l0) = Some e -> env_ok c h rk rkid sd l0 e).

Lemma cache_inv_ok cache sd l0 : cache_inv cache -> cache_ok c h rk rkid sd l0 cache.
Proof. intros (Hr & _ & He). split; [exact Hr|apply He]. Qed.

Lemma set_seed_inv cache k sd l0 e : cache_inv cache -> gke_rkid e = k -> gke_l0 e = l0 ->
  (k = rkid -> env_ok c h rk rkid sd l0 e) -> cache_inv (cc_set_seed cache (k, sd, l0) e).
Proof.
  intros (Hr & Hk & He) Ek El Hok. unfold cache_inv, cc_set_seed. cbn [cc_roots cc_seeds cc_find_seed].
  split; [exact Hr|]. split.
  - intros k' sd' l0' e'. destruct (ckey_eqb (k, sd, l0) (k', sd', l0')) eqn:E.
    + apply ckey_eqb_eq in E. injection E as <- <- <-. intros H. injection H as <-. auto.
    + apply Hk.
  - intros sd' l0' e'. destruct (ckey_eqb (k, sd, l0) (rkid, sd', l0')) eqn:E.
    + apply ckey_eqb_eq in E. injection E as -> <- <-. intros H. injection H as <-. auto.
    + apply He.
Qed.

Lemma get_key_inv cache sd k l0 l1 l2 r cache' : cache_inv cache -> cc_get_key c cache sd k l0 l1 l2 = Ok (r, cache') ->
  cache_inv cache' /\
  forall e, r = Some e -> cc_find_seed (cc_seeds cache') (k, sd, l0) = Some e /\ gke_rkid e = k /\ gke_l0 e = l0 /\
    (l1 <= 31 -> l2 <= 31 -> covers (env_of e) l1 l2).
Proof.
  intros Hinv. pose proof Hinv as (Hr & Hk & He). destruct kernels_meaning as (Hc & _ & _).
  unfold cc_get_key. destruct (k_cache_l0_guard l0) eqn:G; [discriminate|]. cbv zeta.
  change k_cache_root_overwrites with true. cbv iota.
  assert (Hmiss :
    match cc_find_root (cc_roots cache) k with
    | Some rk0 =>
      let* hash_name := KDFParameters_unpack (rk_kdf_params rk0) in
      let* h0 := hash_algorithm hash_name in
      let* l1_seed := compute_l1_key c h0 sd k l0 (rk_key rk0) in
      Ok (Some {| gke_version := rk_version rk0; gke_flags := k_root_env_flags; gke_l0 := l0;
                  gke_l1 := k_root_env_l1; gke_l2 := k_root_env_l2; gke_rkid := k;
                  gke_kdf_alg := rk_kdf_alg rk0; gke_kdf_params := rk_kdf_params rk0;
                  gke_secret_alg := rk_secret_alg rk0;
                  gke_secret_params := match rk_secret_params rk0 with Some (x :: r) => x :: r | _ => [] end;
                  gke_priv_len := rk_priv_len rk0; gke_pub_len := rk_pub_len rk0;
                  gke_domain := []; gke_forest := []; gke_l1_key := l1_seed; gke_l2_key := [] |},
          cc_set_seed cache (k, sd, l0)
               {| gke_version := rk_version rk0; gke_flags := k_root_env_flags; gke_l0 := l0;
                  gke_l1 := k_root_env_l1; gke_l2 := k_root_env_l2; gke_rkid := k;
                  gke_kdf_alg := rk_kdf_alg rk0; gke_kdf_params := rk_kdf_params rk0;
                  gke_secret_alg := rk_secret_alg rk0;
                  gke_secret_params := match rk_secret_params rk0 with Some (x :: r) => x :: r | _ => [] end;
                  gke_priv_len := rk_priv_len rk0; gke_pub_len := rk_pub_len rk0;
                  gke_domain := []; gke_forest := []; gke_l1_key := l1_seed; gke_l2_key := [] |})
    | None => Ok (None, cache)
    end = Ok (r, cache') ->
    cache_inv cache' /\
    forall e, r = Some e -> cc_find_seed (cc_seeds cache') (k, sd, l0) = Some e /\ gke_rkid e = k /\ gke_l0 e = l0 /\
      (l1 <= 31 -> l2 <= 31 -> covers (env_of e) l1 l2)).
  { destruct (cc_find_root (cc_roots cache) k) as [rk0|] eqn:Er0.
    2: { intros H. apply Ok_inj in H. injection H as <- <-. split; [exact Hinv|discriminate]. }
    destruct (KDFParameters_unpack (rk_kdf_params rk0)) as [hn|] eqn:Eh; [|discriminate]. cbn [bind].
    destruct (hash_algorithm hn) as [h0|] eqn:Eh0; [|discriminate]. cbn [bind].
    destruct (compute_l1_key c h0 sd k l0 (rk_key rk0)) as [top|] eqn:Et; [|discriminate]. cbn [bind].
    intros H. apply Ok_inj in H. injection H as <- <-. split.
    - apply set_seed_inv; [exact Hinv|reflexivity|reflexivity|]. intros ->. rewrite Hr in Er0. injection Er0 as <-.
      assert (h0 = h) by (unfold rk_hash in Hhash; rewrite Eh in Hhash; cbn [bind] in Hhash; congruence). subst h0.
      constructor; cbn [gke_l0 gke_rkid gke_kdf_alg gke_kdf_params gke_flags gke_domain gke_forest gke_secret_alg gke_priv_len]; try reflexivity; try assumption.
      unfold root_top. rewrite Et. apply (root_env_conforming (kdfK c h rkid l0) (Ok top) (Ok [])).
    - intros e E. injection E as <-. unfold cc_set_seed. cbn [cc_seeds cc_find_seed gke_rkid gke_l0]. rewrite ckey_eqb_refl.
      split; [reflexivity|]. split; [reflexivity|]. split; [reflexivity|].
      intros H1 H2. unfold covers. cbn [env_of e_l1 e_l2 gke_l1 gke_l2]. unfold k_root_env_l1, k_root_env_l2. lia. }
  destruct (cc_find_seed (cc_seeds cache) (k, sd, l0)) as [e0|] eqn:Es.
  - destruct (k_cache_covers true (gke_l1 e0) l1 (gke_l2 e0) l2) eqn:Ecov; [|exact Hmiss].
    intros H. apply Ok_inj in H. injection H as <- <-. split; [exact Hinv|]. intros e E. injection E as <-.
    destruct (Hk _ _ _ _ Es) as [E1 E2]. split; [exact Es|]. split; [exact E1|]. split; [exact E2|].
    intros _ _. apply Hc in Ecov. unfold covers. cbn [env_of e_l1 e_l2]. tauto.
  - destruct (k_cache_covers false 0 l1 0 l2) eqn:Ecov; [apply Hc in Ecov; destruct Ecov; discriminate|exact Hmiss].
Qed.

(* ncrypt_unprotect_secret (offline) keeps the invariant, whatever the bytes *)
Lemma unprotect_keeps_inv cache bs : cache_inv cache -> cache_inv (snd (unprotect_offline c cache bs)).
Proof.
  intros Hinv. unfold unprotect_offline. destruct (blob_unpack bs) as [b|]; [|exact Hinv].
  destruct (get_target_sd (b_sid b)) as [sd|]; [|exact Hinv].
  destruct (cc_get_key c cache sd _ _ _ _) as [[[e|] c1]|] eqn:Eg; [| |exact Hinv]; destruct (get_key_inv _ _ _ _ _ _ _ _ Hinv Eg) as [Hc1 Hf]; cbn [snd]; [|exact Hc1].
  destruct (Hf e eq_refl) as (Ef & Ek & El & _). destruct (gke_is_public_key e); [exact Hc1|].
  rewrite (store_key_same c1 sd e e); [exact Hc1| |lia|exact c]. rewrite Ek, El. exact Ef.
Qed.

(* ncrypt_protect_secret (offline) keeps the invariant, whatever the arguments *)
Lemma protect_keeps_inv cache r1 r2 r3 data sid rid time_ns : cache_inv cache ->
  cache_inv (snd (protect_offline c cache r1 r2 r3 data sid rid time_ns)).
Proof.
  intros Hinv. unfold protect_offline. destruct (get_target_sd sid) as [sd|]; [|exact Hinv].
  unfold protection_gke_from_cache. destruct rid as [rid|]; [|exact Hinv].
  destruct (interval_of_time_ns time_ns) as [[l0 l1] l2] eqn:Ei. destruct (interval_l12_range _ _ _ _ Ei) as [H1 H2].
  destruct (cc_get_key c cache sd rid l0 l1 l2) as [[[e|] c1]|] eqn:Eg; cbn [bind];
    [| |cbn [snd]; unfold protection_lookup_cache; rewrite Ei, Eg; exact Hinv];
    destruct (get_key_inv _ _ _ _ _ _ _ _ Hinv Eg) as [Hc1 Hf]; [|exact Hc1].
  destruct (Hf e eq_refl) as (Ef & Ek & El & Hcov). specialize (Hcov ltac:(lia) ltac:(lia)).
  assert (Elk : protection_lookup_cache c cache (Some rid) sd time_ns = c1)
    by (unfold protection_lookup_cache; rewrite Ei, Eg; reflexivity).
  destruct (KDFParameters_unpack (gke_kdf_params e)) as [hn|]; [|cbn [bind snd]; rewrite Elk; exact Hc1]. cbn [bind].
  destruct (hash_algorithm hn) as [h0|]; [|cbn [bind snd]; rewrite Elk; exact Hc1]. cbn [bind].
  destruct (compute_l2_key c h0 l1 l2 e) as [l2k|]; [|cbn [bind snd]; rewrite Elk; exact Hc1]. cbn [bind snd].
  match goal with |- cache_inv (if ?b then _ else _) => destruct b end; [exact Hc1|].
  rewrite (store_key_same c1 sd _ e); [exact Hc1|cbn [gke_rkid gke_l0]; exact Ef| |exact c].
  cbn [gke_l1 gke_l2]. unfold covers in Hcov. cbn [env_of e_l1 e_l2] in Hcov. lia.
Qed.
End Inv.

(* ---- an accepted SID string is ASCII, so its UTF-8 form is itself: sid_okb amounts to "shorter than 2^32" ---- *)
Definition asciib (c : Z) : bool := (0 <=? c) && (c <? 128).
Lemma utf8_encode_ascii s : forallb asciib s = true -> utf8_encode s = Ok s.
Proof.
  induction s as [|x s IH]; [reflexivity|]. cbn [forallb]. rewrite andb_true_iff. intros [Hx Hs]. unfold asciib in Hx.
  cbn [utf8_encode]. unfold utf8_cp. assert (E : negb (scalar x) = false) by (unfold scalar, is_surrogate; lia). rewrite E.
  destruct (x <? 128) eqn:E2; [|lia]. cbn [bind]. rewrite (IH Hs). reflexivity.
Qed.
Lemma forallb_app' {A} (f : A -> bool) a b : forallb f (a ++ b) = forallb f a && forallb f b.
Proof. induction a as [|x a IH]; cbn [app forallb]; [reflexivity|]. rewrite IH. now rewrite andb_assoc. Qed.
Lemma digits_ascii a : forallb is_digit a = true -> forallb asciib a = true.
Proof.
  induction a as [|x a IH]; [reflexivity|]. cbn [forallb]. rewrite !andb_true_iff. intros [Hx Ha]. split; [unfold is_digit in Hx; unfold asciib; lia|auto].
Qed.
Lemma digit_str_ascii a : digit_str a = true -> forallb asciib a = true.
Proof. destruct a as [|x a]; [discriminate|]. unfold digit_str. apply digits_ascii. Qed.
Lemma sid_parse_okb str s : sid_parse str = Ok s -> len str < 4294967296 -> sid_okb str = true.
Proof.
  intros Hp Hl. destruct (Proofs.SecDescStr.sid_parse_accepts str s Hp) as (r & a & subs & E & Hr & Ha & _ & Hsubs & _).
  assert (Hascii : forallb asciib str = true).
  { subst str. change ([83; 45; r; 45] ++ a ++ concat (map (cons 45) subs)) with (83 :: 45 :: r :: 45 :: (a ++ concat (map (cons 45) subs))).
    cbn [forallb]. rewrite forallb_app', (digit_str_ascii a Ha).
    assert (Hr' : asciib r = true) by (unfold is_digit in Hr; unfold asciib; lia). rewrite Hr'.
    change (asciib 83) with true. change (asciib 45) with true. cbn [andb].
    clear -Hsubs. induction subs as [|p subs IH]; [reflexivity|]. cbn [forallb] in Hsubs. rewrite andb_true_iff in Hsubs. destruct Hsubs as [Hp Hs].
    cbn [map concat]. change ((45 :: p) ++ concat (map (cons 45) subs)) with (45 :: (p ++ concat (map (cons 45) subs))).
    cbn [forallb]. change (asciib 45) with true. rewrite forallb_app', (digit_str_ascii p Hp), (IH Hs). reflexivity. }
  unfold sid_okb. rewrite (utf8_encode_ascii str Hascii). unfold U32. lia.
Qed.
