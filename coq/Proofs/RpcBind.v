(* Round trips of the _bind.py structures: counted loops by induction over the encoded list. *)
From V Require Import Prelude.Base Prelude.PyInt Prelude.PySlice Prelude.PyStr Model.Pdu Model.Request Model.RpcLoop Model.Bind.
From V Require Import Proofs.RpcLib Proofs.RpcKernels Proofs.RpcPdu.

(* for _ in range(len items): a = unpack1(view); view = view[adv a:]; acc.append(a)   over   pack1 a1 ++ pack1 a2 ++ .. ++ rest *)
Lemma for_range_items_gen {A B} (unpack1 : bytes -> res A) (pack1 : B -> bytes) (dec : B -> A) (adv : A -> Z) (ok : B -> bool) :
  (forall a rest, ok a = true -> unpack1 (pack1 a ++ rest) = Ok (dec a)) ->
  (forall a rest, ok a = true -> slice (Some (adv (dec a))) None (pack1 a ++ rest) = rest) ->
  forall items fuel rest acc t, (length items <= fuel)%nat -> forallb ok items = true ->
  for_range fuel (len items)
    (fun '(view, acc) => let* a := unpack1 view in Ok ((slice (Some (adv a)) None view, acc ++ [a]), 0))
    (concat (map pack1 items) ++ rest, acc) t
  = Ok ((rest, acc ++ map dec items), t + len items).
Proof.
  intros Hu Ha. induction items as [|a items IH]; intros fuel rest acc t Hf Hok.
  - destruct fuel; cbn; rewrite app_nil_r, Z.add_0_r; reflexivity.
  - cbn [forallb] in Hok. apply andb_true_iff in Hok. destruct Hok as [Hoa Hok].
    destruct fuel as [|fuel]; [cbn in Hf; lia|]. cbn [for_range].
    rewrite len_cons. pose proof (len_nonneg items). destruct (1 + len items <=? 0) eqn:E; [exfalso; apply Z.leb_le in E; clear - H E; lia|].
    cbn [map concat]. rewrite <- app_assoc. rewrite (Hu a _ Hoa). cbn [bind]. rewrite (Ha a _ Hoa).
    replace (1 + len items - 1) with (len items) by lia.
    rewrite IH by (cbn in Hf; auto; lia). rewrite <- app_assoc. cbn [app map].
    replace (t + 1 + 0 + len items) with (t + (1 + len items)) by lia. reflexivity.
Qed.
Definition for_range_items {A} (unpack1 : bytes -> res A) (pack1 : A -> bytes) (nrm : A -> A) := for_range_items_gen unpack1 pack1 nrm.

(* ---- SyntaxId ---- *)
Lemma len_syntax_id_pack s : wf_syntax_id s = true -> len (syntax_id_pack s) = 20.
Proof. unfold wf_syntax_id, wf_uuid. intros H. wf_split. unfold syntax_id_pack. cbn [concat]. lens. lia. Qed.
Lemma syntax_id_rt s rest : wf_syntax_id s = true -> syntax_id_unpack (syntax_id_pack s ++ rest) = Ok s.
Proof.
  unfold wf_syntax_id, wf_uuid. intros H. wf_split.
  unfold syntax_id_pack, syntax_id_unpack. rewrite len_concat_app. cbn [app].
  assert (len (sy_uuid s) = 16) by lia.
  fields. unfold uuid_of_bytes_le. rewrite H. cbn [bind].
  fields. rewrite ?le_val_le' by assumption. destruct s; reflexivity.
Qed.
Lemma syntax_id_adv s rest : wf_syntax_id s = true -> slice (Some 20) None (syntax_id_pack s ++ rest) = rest.
Proof. intros H. rewrite <- (len_syntax_id_pack s H). apply slice_app_r. Qed.

(* ---- ContextResult ---- *)
Lemma len_context_result_pack r : wf_context_result r = true -> len (context_result_pack r) = 24.
Proof. unfold wf_context_result, wf_uuid. intros H. wf_split. unfold context_result_pack. cbn [concat]. lens. lia. Qed.
Lemma context_result_rt r rest : wf_context_result r = true -> context_result_unpack (context_result_pack r ++ rest) = Ok r.
Proof.
  unfold wf_context_result, wf_uuid. intros H. wf_split.
  assert (Hr : in_range 2 (cr_result r) = true).
  { apply mem_cases in H. cbn in H. apply in_range_spec. rewrite P_2. lia. }
  unfold context_result_pack, context_result_unpack. rewrite len_concat_app. cbn [app].
  assert (len (cr_syntax r) = 16) by lia.
  fields. rewrite ?le_val_le' by assumption. rewrite (enum_lookup_mem _ _ H). cbn [bind].
  unfold uuid_of_bytes_le. assert (E16 : (len (cr_syntax r) =? 16) = true) by lia. rewrite E16. cbn [bind].
  fields. rewrite ?le_val_le' by assumption. destruct r; reflexivity.
Qed.
Lemma context_result_adv r rest : wf_context_result r = true -> slice (Some 24) None (context_result_pack r ++ rest) = rest.
Proof. intros H. rewrite <- (len_context_result_pack r H). apply slice_app_r. Qed.

Lemma map_id' {A} (l : list A) : map (fun x => x) l = l.
Proof. apply map_id. Qed.

(* ---- BindAck / AlterContextResponse body ---- *)
Lemma slice_empty_range {A} (l : list A) a b : 0 <= a -> 0 <= b -> b <= a -> slice (Some a) (Some b) l = [].
Proof.
  intros Ha Hb Hab. unfold slice, norm. destruct (a <? 0) eqn:?; try lia. destruct (b <? 0) eqn:?; try lia.
  replace (Z.to_nat (Z.min b (len l) - Z.min a (len l))) with 0%nat by lia. reflexivity.
Qed.

Lemma bind_ack_body_rt m bsa fuel :
  sec_addr_bytes (ba_sec_addr m) = Ok bsa -> in_range 2 (len bsa) = true ->
  in_range 2 (ba_max_xmit_frag m) = true -> in_range 2 (ba_max_recv_frag m) = true -> in_range 4 (ba_assoc_group m) = true ->
  forallb wf_context_result (ba_results m) = true -> in_range 1 (len (ba_results m)) = true ->
  (length (ba_results m) <= fuel)%nat ->
  bind_ack_unpack fuel (bind_ack_body_of m bsa) (ba_header m) (ba_sec_trailer m) = Ok (m, len (ba_results m)).
Proof.
  intros Hsa Hl H1 H2 H3 Hrs Hn Hfuel.
  (* b_sec_addr = e ++ z with e the utf-8 bytes and z the NUL (or both empty) *)
  assert (exists e z, bsa = e ++ z /\ utf8_decode e = Ok (ba_sec_addr m) /\ len e = len bsa - 1 + (if len bsa =? 0 then 1 else 0)) as (e & z & Hb & Hdec & Hle).
  { unfold sec_addr_bytes in Hsa. destruct (ba_sec_addr m) as [|c s] eqn:Es.
    - apply Ok_inj in Hsa. subst bsa. exists [], []. repeat split; reflexivity.
    - destruct (utf8_encode (c :: s)) as [enc|] eqn:Ee; [|discriminate]. cbn [bind] in Hsa. apply Ok_inj in Hsa. subst bsa.
      exists enc, [0]. split; [reflexivity|]. split; [now apply utf8_decode_encode|].
      rewrite len_app, len_cons, len_nil. pose proof (len_nonneg enc). destruct (len enc + (1 + 0) =? 0) eqn:?; lia. }
  pose proof (bindack_pad_range (len bsa)) as [Hp0 _]. pose proof (bindack_pad_agree (len bsa)) as Hpa.
  apply in_range_spec in Hn. rewrite P_1 in Hn.
  unfold bind_ack_unpack, bind_ack_body_of.
  set (pad := repeat 0 (Z.to_nat (k_bindack_pack_pad (len bsa)))).
  set (res := concat (map context_result_pack (ba_results m))).
  assert (Hcc : concat [le 2 (ba_max_xmit_frag m); le 2 (ba_max_recv_frag m); le 4 (ba_assoc_group m); le 2 (len bsa); bsa; pad;
                        le 4 (len (ba_results m)); res]
              = concat [le 2 (ba_max_xmit_frag m); le 2 (ba_max_recv_frag m); le 4 (ba_assoc_group m); le 2 (len bsa); e; z; pad;
                        le 4 (len (ba_results m)); res]).
  { subst bsa. cbn [concat]. now rewrite <- !app_assoc. }
  rewrite Hcc. clear Hcc.
  assert (Hlz : len bsa = len e + len z) by (subst bsa; apply len_app).
  assert (Hpad : len pad = k_bindack_pack_pad (len bsa)) by (unfold pad; rewrite len_repeat; lia).
  rewrite !slice_None_lo.
  do 4 field1. rewrite ?le_val_le' by assumption.
  (* the secondary address without its terminator *)
  assert (Hs : slice (Some 10) (Some (10 + len bsa - 1))
                 (concat [le 2 (ba_max_xmit_frag m); le 2 (ba_max_recv_frag m); le 4 (ba_assoc_group m); le 2 (len bsa); e; z; pad;
                          le 4 (len (ba_results m)); res]) = e).
  { destruct (len bsa =? 0) eqn:E0.
    - assert (len e = 0) by (pose proof (len_nonneg e); pose proof (len_nonneg z); lia).
      destruct e; [|rewrite len_cons in *; pose proof (len_nonneg e); lia].
      apply slice_empty_range; lia.
    - field_try 4%nat. reflexivity. }
  rewrite Hs, Hdec. cbn [bind]. rewrite <- Hpa.
  tail_try 7%nat. 
  erewrite (index_field _ 0%nat 0) by (first [off_solve | cbn [nth le]; reflexivity]). cbn [bind].
  replace (len (ba_results m) mod 256) with (len (ba_results m)) by lia.
  tail_try 1%nat. cbn [concat]. rewrite app_nil_r.
  pose proof (for_range_items context_result_unpack context_result_pack (fun r => r) (fun _ => 24) wf_context_result
                context_result_rt context_result_adv (ba_results m) fuel [] [] 0 Hfuel Hrs) as Hloop.
  unfold res. rewrite <- (app_nil_r (concat _)). rewrite Hloop. cbn [bind snd app]. rewrite map_id'.
  destruct m; cbn in *. repeat f_equal.
Qed.

(* ---- BindNak body ---- *)
Definition ok_version (v : Z * Z) : bool := in_range 1 (fst v) && in_range 1 (snd v).
Lemma versions_loop vs : forall fuel rest acc t, (length vs <= fuel)%nat -> forallb ok_version vs = true ->
  for_range fuel (len vs)
    (fun '(view, acc) => let* a := index view 0 in let* b := index view 1 in Ok ((slice (Some 2) None view, acc ++ [(a, b)]), 0))
    (concat (map (fun v => le 1 (fst v) ++ le 1 (snd v)) vs) ++ rest, acc) t = Ok ((rest, acc ++ vs), t + len vs).
Proof.
  induction vs as [|[a b] vs IH]; intros fuel rest acc t Hf Hok.
  - destruct fuel; cbn; rewrite app_nil_r, Z.add_0_r; reflexivity.
  - cbn [forallb] in Hok. apply andb_true_iff in Hok. destruct Hok as [Hoa Hok].
    unfold ok_version in Hoa. cbn [fst snd] in Hoa. apply andb_true_iff in Hoa. destruct Hoa as [Ha Hb].
    apply in_range_spec in Ha, Hb. rewrite P_1 in *.
    destruct fuel as [|fuel]; [cbn in Hf; lia|]. cbn [for_range].
    rewrite len_cons. pose proof (len_nonneg vs) as Hn. destruct (1 + len vs <=? 0) eqn:E; [exfalso; apply Z.leb_le in E; clear - Hn E; lia|].
    cbn [map concat fst snd]. rewrite !le1 by lia. cbn [app].
    rewrite index_0. cbn [bind].
    change (a :: b :: concat (map (fun v : Z * Z => le 1 (fst v) ++ le 1 (snd v)) vs) ++ rest)
      with ([a] ++ b :: (concat (map (fun v : Z * Z => le 1 (fst v) ++ le 1 (snd v)) vs) ++ rest)).
    rewrite (index_app_r [a] b). cbn [bind].
    change ([a] ++ b :: (concat (map (fun v : Z * Z => le 1 (fst v) ++ le 1 (snd v)) vs) ++ rest))
      with ([a; b] ++ (concat (map (fun v : Z * Z => le 1 (fst v) ++ le 1 (snd v)) vs) ++ rest)).
    rewrite (slice_app_r [a; b]).
    replace (1 + len vs - 1) with (len vs) by lia.
    rewrite IH by (cbn in Hf; auto; lia). rewrite <- app_assoc. cbn [app].
    replace (t + 1 + 0 + len vs) with (t + (1 + len vs)) by lia. reflexivity.
Qed.

Lemma bind_nak_body_rt m fuel :
  in_range 2 (bn_reject_reason m) = true -> forallb ok_version (bn_versions m) = true -> in_range 1 (len (bn_versions m)) = true ->
  (length (bn_versions m) <= fuel)%nat -> bn_sec_trailer m = None ->
  forall st, bind_nak_unpack fuel (bind_nak_body m) (bn_header m) st = Ok (m, len (bn_versions m)).
Proof.
  intros H1 Hv Hn Hfuel Hst st. apply in_range_spec in Hn. rewrite P_1 in Hn.
  unfold bind_nak_unpack, bind_nak_body. cbv zeta.
  set (protos := concat (map (fun v : Z * Z => le 1 (fst v) ++ le 1 (snd v)) (bn_versions m))).
  set (pad := repeat 0 _).
  assert (Hcc : concat [le 2 (bn_reject_reason m);
                        concat [le 1 (len (map (fun v : Z * Z => le 1 (fst v) ++ le 1 (snd v)) (bn_versions m))); protos]; pad]
              = concat [le 2 (bn_reject_reason m); le 1 (len (bn_versions m)); protos ++ pad]).
  { cbn [concat]. rewrite len_map, !app_nil_r, <- !app_assoc. reflexivity. }
  rewrite Hcc. clear Hcc. rewrite le1 by lia.
  fields. rewrite ?le_val_le' by assumption. index1. try tail_try 2%nat. cbn [concat]. rewrite app_nil_r.
  unfold protos. rewrite (versions_loop _ fuel pad [] 0 Hfuel Hv). cbn [bind snd app].
  destruct m; cbn in *. subst. reflexivity.
Qed.

(* ---- ContextElement ---- *)
Lemma context_element_rt c fuel rest : wf_context_element c = true -> (length (ce_transfer_syntaxes c) <= fuel)%nat ->
  context_element_unpack fuel (context_element_pack c ++ rest) = Ok (c, len (ce_transfer_syntaxes c)).
Proof.
  unfold wf_context_element. intros H Hf. wf_split.
  pose proof (len_syntax_id_pack _ H2) as Hs.
  unfold context_element_pack, context_element_unpack. rewrite len_concat_app. cbn [app].
  fields. rewrite ?le_val_le' by assumption.
  try tail_try 2%nat. cbn [concat]. rewrite (syntax_id_rt _ _ H2). cbn [bind].
  try tail_try 3%nat. cbn [concat]. rewrite app_nil_r.
  pose proof (for_range_items syntax_id_unpack syntax_id_pack (fun r => r) (fun _ => 20) wf_syntax_id
                syntax_id_rt syntax_id_adv (ce_transfer_syntaxes c) fuel rest [] 0 Hf H1) as Hloop.
  rewrite Hloop. cbn [bind snd app]. rewrite map_id'. destruct c; reflexivity.
Qed.
Lemma len_transfer_syntaxes ts : forallb wf_syntax_id ts = true -> len (concat (map syntax_id_pack ts)) = 20 * len ts.
Proof. induction ts as [|s ts IH]; intros H; [reflexivity|]. cbn [forallb] in H. apply andb_true_iff in H. destruct H as [H1 H2].
  cbn [map concat]. rewrite len_app, len_cons, (len_syntax_id_pack _ H1), (IH H2). lia. Qed.
Lemma len_context_element_pack c : wf_context_element c = true -> len (context_element_pack c) = 24 + len (ce_transfer_syntaxes c) * 20.
Proof. unfold wf_context_element. intros H. wf_split. unfold context_element_pack. cbn [concat]. lens.
  rewrite (len_syntax_id_pack _ H2), (len_transfer_syntaxes _ H1). lia. Qed.

Fixpoint ce_ticks (cs : list context_element) : Z :=
  match cs with [] => 0 | c :: r => 1 + len (ce_transfer_syntaxes c) + ce_ticks r end.

Lemma contexts_loop fuel0 cs : forall fuel rest acc t, (length cs <= fuel)%nat -> forallb wf_context_element cs = true ->
  (forall c, In c cs -> (length (ce_transfer_syntaxes c) <= fuel0)%nat) ->
  for_range fuel (len cs)
    (fun '(view, acc) =>
       let* (c, t) := context_element_unpack fuel0 view in
       Ok ((slice (Some (24 + len (ce_transfer_syntaxes c) * 20)) None view, acc ++ [c]), t))
    (concat (map context_element_pack cs) ++ rest, acc) t = Ok ((rest, acc ++ cs), t + ce_ticks cs).
Proof.
  induction cs as [|c cs IH]; intros fuel rest acc t Hf Hok Hin.
  - destruct fuel; cbn; rewrite app_nil_r, Z.add_0_r; reflexivity.
  - cbn [forallb] in Hok. apply andb_true_iff in Hok. destruct Hok as [Hoc Hok].
    destruct fuel as [|fuel]; [cbn in Hf; lia|]. cbn [for_range].
    rewrite len_cons. pose proof (len_nonneg cs) as Hn. destruct (1 + len cs <=? 0) eqn:E; [exfalso; apply Z.leb_le in E; clear - Hn E; lia|].
    cbn [map concat]. rewrite <- app_assoc. rewrite (context_element_rt c fuel0 _ Hoc) by (apply Hin; now left). cbn [bind].
    rewrite <- (len_context_element_pack c Hoc). rewrite slice_app_r.
    replace (1 + len cs - 1) with (len cs) by lia.
    rewrite IH by (cbn in Hf; auto; try lia; intros; apply Hin; now right). rewrite <- app_assoc. cbn [app ce_ticks].
    replace (t + 1 + len (ce_transfer_syntaxes c) + ce_ticks cs) with (t + (1 + len (ce_transfer_syntaxes c) + ce_ticks cs)) by lia. reflexivity.
Qed.

Lemma bind_body_rt m fuel :
  in_range 2 (b_max_xmit_frag m) = true -> in_range 2 (b_max_recv_frag m) = true -> in_range 4 (b_assoc_group m) = true ->
  forallb wf_context_element (b_contexts m) = true -> in_range 1 (len (b_contexts m)) = true ->
  (length (b_contexts m) <= fuel)%nat -> (forall c, In c (b_contexts m) -> (length (ce_transfer_syntaxes c) <= fuel)%nat) ->
  bind_unpack fuel (bind_body m) (b_header m) (b_sec_trailer m) = Ok (m, ce_ticks (b_contexts m)).
Proof.
  intros H1 H2 H3 Hcs Hn Hf Hin. apply in_range_spec in Hn. rewrite P_1 in Hn.
  unfold bind_unpack, bind_body.
  fields. rewrite ?le_val_le' by assumption.
  erewrite (index_field _ 3%nat 8) by (first [off_solve | cbn [nth le]; reflexivity]). cbn [bind].
  replace (len (b_contexts m) mod 256) with (len (b_contexts m)) by lia.
  try tail_try 4%nat. cbn [concat]. rewrite app_nil_r.
  rewrite <- (app_nil_r (concat _)).
  rewrite (contexts_loop fuel (b_contexts m) fuel [] [] 0 Hf Hcs Hin). cbn [bind snd app].
  destruct m; reflexivity.
Qed.
