(* C05 side of the EnvelopedData.unpack tie: on Python bytes (wfb) the model never exhausts its own fuel
   (Proofs/C05Asn1.EnvelopedData_unpack_safe), so the fuel-exhaustion hypothesis of Flow_cms_unpack.flow_EnvelopedData_unpack
   is discharged: for every bytes object and every interpreter fuel above its length the regenerated function returns what
   the model returns. *)
From V Require Import Prelude.PyAst.
From V Require Import Prelude.Base Prelude.PyWorld Prelude.PyAstMut gen.F_asn1.
From V Require Import Model.Asn1 Model.Pkcs7 Flow.World_cms Proofs.C05 Proofs.C05Asn1 Proofs.Flow_cms_unpack.
Local Open Scope list_scope.

Lemma flow_EnvelopedData_unpack_bytes fuel cls data :
  wfb data = true -> (length data < fuel)%nat ->
  value_of (run_mut MW fuel k_flow_EnvelopedData_unpack [cls; VB data])
  = let* e := EnvelopedData_unpack data in Ok (VO (OEd e)).
Proof.
  intros Hw Hf. apply flow_EnvelopedData_unpack; [exact Hf|].
  pose proof (EnvelopedData_unpack_safe data Hw) as HS.
  destruct (EnvelopedData_unpack data) as [e|e]; [discriminate|].
  cbn in HS. intro Hc. injection Hc as ->. discriminate HS.
Qed.
