(* Part 1 of 3 (SyntaxId, ContextElement, ContextResult).  Tie theorems for _rpc/_bind.py (SyntaxId, ContextElement, ContextResult, Bind, BindAck, BindNak, AlterContext,
   AlterContextResponse, bind_time_feature_negotiation) against Model/Bind.v; conventions as in Proofs/Flow_rpc_pdu.v.
   unpack functions with a `for _ in range(count)` loop: the model runs Model/RpcLoop.for_range on explicit fuel and
   also returns the iteration count; the tie holds whenever the model does not run out of fuel (C12_total_*: fuel >
   length suffices) and forgets the count (lift_fst).  Bind._unpack calls ContextElement.unpack := the model function
   at the world's fuel, so its tie is stated for the same fuel. *)
From V Require Import Prelude.Base Prelude.PyInt Prelude.PySlice Prelude.PyStr Prelude.PyAst Prelude.PyWorld gen.F_rpc.
From V Require Import Model.Pdu Model.Request Model.RpcLoop Model.Bind Model.Verification Model.Epm Flow.World_rpc Proofs.Flow_rpc_lib.
From V Require Import Proofs.RpcTotalLib Proofs.RpcTotalPdu.
Local Open Scope string_scope.
Local Open Scope list_scope.
Local Open Scope Z_scope.

Lemma flow_syntaxid_pack mf fuel s :
  run (W mf) fuel k_flow_syntaxid_pack [VO (OSyntaxId s)] = chk (syntax_id_ranges s) (syntax_id_pack s).
Proof. unfold syntax_id_pack, syntax_id_ranges, chk. destruct s; tie. Qed.

Lemma flow_syntaxid_unpack mf fuel data :
  run (W mf) fuel k_flow_syntaxid_unpack [VO (OCls CSyntaxId); VB data] = (let* s := syntax_id_unpack data in Ok (VO (OSyntaxId s))).
Proof. unfold syntax_id_unpack. tie. Qed.

Lemma flow_contextresult_pack mf fuel r :
  run (W mf) fuel k_flow_contextresult_pack [VO (OContextResult r)] = chk (context_result_ranges r) (context_result_pack r).
Proof. unfold context_result_pack, context_result_ranges, chk. destruct r; tie. Qed.

Lemma flow_contextresult_unpack mf fuel data :
  run (W mf) fuel k_flow_contextresult_unpack [VO (OCls CContextResult); VB data] =
  (let* r := context_result_unpack data in Ok (VO (OContextResult r))).
Proof. unfold context_result_unpack. tie. Qed.

Lemma flow_contextelement_pack mf fuel c :
  run (W mf) fuel k_flow_contextelement_pack [VO (OContextElement c)] = chk (context_element_ranges c) (context_element_pack c).
Proof.
  unfold context_element_pack, context_element_ranges, chk, k_flow_contextelement_pack. destruct c as [ci a ts].
  hide_comps. tie. all: comp_step OSyntaxId syntax_id_ranges syntax_id_pack; tie.
Qed.

Lemma syntaxes_of_inj l : syntaxes_of (map (fun s => VO (OSyntaxId s)) l) = Some l.
Proof. induction l as [|a r IH]; [reflexivity|]. cbn. rewrite IH. reflexivity. Qed.

Lemma flow_contextelement_unpack mf mfuel fuel data :
  context_element_unpack mfuel data <> Raise OutOfFuel ->
  run (W mf) fuel k_flow_contextelement_unpack [VO (OCls CContextElement); VB data] =
  lift_fst OContextElement (context_element_unpack mfuel data).
Proof.
  unfold context_element_unpack, lift_fst, k_flow_contextelement_unpack. intros Hne.
  match goal with |- context [SFor ?a ?b ?c] => remember (SFor a b c) as loop end.
  tie. subst loop. rewrite exec_for. cbn.
  match goal with |- context [for_each _ _ _ ?body (zrange (Z.to_nat ?n) 0) ?env] =>
    match goal with |- context [for_range mfuel n ?mbody ?s0 0] =>
      pose proof (for_range_tie (W mf) fuel "_" body mbody
        (fun s e => lookup "view" e = Some (VB (fst s)) /\ lookup "transfer_syntaxes" e = Some (vsyntaxes (snd s))
                    /\ lookup "cls" e = Some (VO (OCls CContextElement))
                    /\ lookup "context_id" e = Some (VI (le_val (slice None (Some 2) data)))
                    /\ lookup "abstract_syntax" e = Some (VO (OSyntaxId a)))) as HL;
      specialize (fun Hb => HL Hb mfuel n s0 env 0 0)
    end
  end.
  match type of HL with ?A -> _ => assert (Hb : A) end.
  { intros [view acc] env v (Hv & Ht & Hc & Hi & Ha). cbn [fst snd] in *.
    tie.
    - eexists; split; [reflexivity|]. cbn. unfold vsyntaxes. rewrite map_app. cbn. auto.
  }
  specialize (HL Hb). cbn [fst snd] in HL. clear Hb.
  match type of HL with ?A -> _ => assert (HR : A) by (cbn; auto) end.
  specialize (HL HR). clear HR. cbn [bind] in Hne.
  destruct (for_range _ _ _ _ _) as [[[view' acc'] t]|e] eqn:EF.
  - destruct HL as [env' [He (Hv & Ht & Hc & Hi & Ha)]]; [congruence|]. cbn [fst snd] in *.
    rewrite He. unfold vsyntaxes in *. tie. rewrite syntaxes_of_inj. reflexivity.
  - rewrite HL by (cbn in Hne; congruence). reflexivity.
Qed.

Lemma flow_contextelement_unpack_total mf mfuel fuel data : len data < Z.of_nat mfuel ->
  run (W mf) fuel k_flow_contextelement_unpack [VO (OCls CContextElement); VB data] =
  lift_fst OContextElement (context_element_unpack mfuel data).
Proof. intros H. apply flow_contextelement_unpack. apply noof_spec. exact (proj1 (context_element_unpack_total mfuel data H)). Qed.
