(* C06, what the library itself emits (AES256-wrap without parameters, AES256-GCM with DER GCM parameters), BOTH layouts:
   strict read-back of the ContentInfo part, and the nonce: the GCM parameters of an _encrypt_blob output are exactly
   SEQUENCE { OCTET STRING <the os.urandom(12) draw>, INTEGER 16 }. *)
From V Require Import Prelude.Base Prelude.PyInt Prelude.PySlice Prelude.PyStr gen.K_asn1 gen.C_asn1 gen.K_e2e.
From V Require Import Model.Types Model.Crypto Model.KeyId Model.Asn1 Model.Pkcs7 Model.Blob Model.Kek Model.CryptoWrap Model.Client Spec.DerSpec Spec.CmsSpec.
From V Require Import Proofs.Asn1Lib Proofs.Asn1Hdr Proofs.Asn1Tlv Proofs.Asn1Int Proofs.Asn1Oid Proofs.Asn1Str Proofs.Asn1Tree Proofs.DerFacts Proofs.C07.
From V Require Import Proofs.BlobLib Proofs.BlobPkcs7 Proofs.GkdiLib Proofs.GkdiKeyId Proofs.BlobMain Proofs.BlobCms.

Lemma gcm_parameters_tree iv : gcm_parameters iv = encode (gcm_params_tree iv).
Proof. unfold gcm_parameters. destruct const_ints as (_ & _ & H16). rewrite H16. reflexivity. Qed.

(* the emitted shape, in-envelope (env = true) and trailing-ciphertext (env = false, the LAPS layout) *)
Theorem emitted_strict_parse kid sid iv cek content env : wf_emit kid sid iv cek content = true ->
  exists b kb sc ci, encrypt_blob_fields kid sid iv cek content = Ok b /\ wf_blob b = true /\
    KeyIdentifier_pack kid = Ok kb /\ utf8_encode sid = Ok sc /\
    blob_pack b env = Ok (ci ++ trailing b env) /\
    encode (emitted_tree kb sc cek iv (if env then content else [])) = Ok ci /\
    strict_parse ci = Some [emitted_tree kb sc cek iv (if env then content else [])].
Proof.
  intros Hwe. destruct (emitted_is_template kid sid iv cek content Hwe) as (b & kb & sc & _ & Eb & Hwfb & Ekb & Esc & _).
  unfold wf_emit in Hwe. rewrite !andb_true_iff in Hwe. destruct Hwe as [[[[[[[[[Hkid Hwr] Hwk] Hsid] Hwiv] Hliv] Hwcek] Hlcek] Hwc] Hlc].
  unfold encrypt_blob_fields in Eb. rewrite gcm_parameters_tree in Eb.
  destruct (encode (gcm_params_tree iv)) as [p|] eqn:Etp; [|discriminate]. cbn [bind] in Eb. apply Ok_inj in Eb.
  assert (Hpne : p <> []).
  { intros ->. subst b. unfold wf_blob in Hwfb. cbn in Hwfb. rewrite !andb_true_iff in Hwfb. destruct Hwfb as [_ H]. discriminate. }
  destruct const_der_oids as [Hd1 Hd2].
  assert (Ea1 : b_enc_cek_algorithm b = oid_aes256_wrap) by (subst b; reflexivity).
  assert (Ea2 : b_enc_content_algorithm b = oid_aes256_gcm) by (subst b; reflexivity).
  assert (Ekid : b_key_identifier b = kid) by (subst b; reflexivity).
  assert (Esid : b_sid b = sid) by (subst b; reflexivity).
  rewrite <- Ea1 in Hd1. rewrite <- Ea2 in Hd2. rewrite <- Ekid in Ekb. rewrite <- Esid in Esc.
  destruct (blob_is_cms b env kb sc _ _ Hwfb Ekb Esc Hd1 Hd2) as (ci & Ep & Ecms).
  destruct (blob_roundtrip b env Hwfb) as (ci' & Ep' & _ & _ & Hlci). rewrite Ep in Ep'. apply Ok_inj in Ep'.
  assert (ci' = ci) by (unfold trailing in Ep'; destruct env; [now rewrite !app_nil_r in Ep'|now apply app_inv_tail in Ep']). subst ci'.
  rewrite Ekid in Ekb. rewrite Esid in Esc.
  exists b, kb, sc, ci. split; [unfold encrypt_blob_fields; rewrite gcm_parameters_tree, Etp; cbn [bind]; now rewrite Eb|].
  split; [exact Hwfb|]. split; [exact Ekb|]. split; [exact Esc|]. split; [exact Ep|].
  assert (Eem : encode (emitted_tree kb sc cek iv (if env then content else [])) = Ok ci).
  { rewrite <- Ecms. subst b. unfold emitted_tree, cms_tree, enveloped_tree, alg_tree.
    cbn [b_enc_cek b_enc_cek_parameters b_enc_content b_enc_content_parameters].
    unfold SEQ, SET, CTX. apply enc_cons_congr, enc_list_tail, enc_list_head, enc_cons_congr, enc_list_head, enc_cons_congr, enc_list_tail, enc_list_tail, enc_list_head.
    apply enc_cons_congr, enc_list_tail, enc_list_head, enc_cons_congr, enc_list_tail.
    destruct p as [|x r]; [congruence|]. apply enc_list_head. symmetry. now apply enc_raw. }
  split; [exact Eem|].
  destruct (nested (emitted_tree kb sc cek iv (if env then content else []))) as (bs & Ebs & Hsp).
  - apply (wf_from_encode _ ci); [|exact Eem|apply BIG_lt_P126; exact Hlci].
    pose proof (KeyIdentifier_pack_wfb kid kb Hwr Hwk Ekb) as Hwkb. pose proof (utf8_encode_wfb _ _ Esc) as Hwsc.
    unfold emitted_tree, pd_tree, gcm_params_tree, SEQ, SET, CTX, INT, OCT, OID, UTF8, U, tag_wf. cbn [shape_ok t_class t_num t_cons].
    destruct env; [destruct content as [|x r]|]; cbn [shape_ok t_class t_num t_cons]; repeat split; cbn [t_class t_num t_cons]; try lia; try assumption; try reflexivity.
  - rewrite Eem in Ebs. apply Ok_inj in Ebs. subst bs. exact Hsp.
Qed.

(* the octets of the GCM parameters for a 12-octet nonce: 30 11 | 04 0C <nonce> | 02 01 10 *)
Lemma gcm_params_octets iv : len iv = 12 -> encode (gcm_params_tree iv) = Ok ([48; 17; 4; 12] ++ iv ++ [2; 1; 16]).
Proof.
  intros Hl. unfold gcm_params_tree, SEQ, OCT, INT, U. rewrite encode_cons. cbn [encode_list encode].
  unfold pack_tlv at 1, pack_asn1. cbn [t_class t_cons t_num]. rewrite Hl.
  replace (pack_ident 0 false 4) with (Ok (A:=bytes) [4]) by (vm_compute; reflexivity).
  replace (pack_length 12) with (Ok (A:=bytes) [12]) by (vm_compute; reflexivity). cbn [bind].
  replace (pack_tlv {| t_class := 0; t_num := 2; t_cons := false |} [16]) with (Ok (A:=bytes) [2; 1; 16]) by (vm_compute; reflexivity).
  cbn [bind]. unfold pack_tlv, pack_asn1. cbn [t_class t_cons t_num].
  replace (len (([4] ++ [12] ++ iv) ++ [2; 1; 16] ++ [])) with 17 by (rewrite !len_app, Hl; reflexivity).
  replace (pack_ident 0 true 16) with (Ok (A:=bytes) [48]) by (vm_compute; reflexivity).
  replace (pack_length 17) with (Ok (A:=bytes) [17]) by (vm_compute; reflexivity). cbn [bind].
  rewrite app_nil_r, <- !app_assoc. reflexivity.
Qed.

Section WithCrypto.
Context (c : Crypto).

(* every output of _encrypt_blob: the nonce in the GCM parameters is the second draw (os.urandom(k_gcm_nonce_len), the
   regenerated kernel), the parameters are exactly SEQUENCE { OCTET STRING draw, INTEGER 16 }, and -- when the outputs of the
   crypto primitives are bytes objects below 4 GiB (wf_emit) -- the strict DER reader shows that 12-octet OCTET STRING *)
Theorem emitted_nonce r1 r2 r3 data key sid bs :
  encrypt_blob c r1 r2 r3 data key sid = Ok bs -> len r2 = k_gcm_nonce_len ->
  exists kid enc_cek enc_content b,
    encrypt_blob_fields kid sid r2 enc_cek enc_content = Ok b /\ blob_pack b true = Ok bs /\
    b_enc_cek_algorithm b = oid_aes256_wrap /\ b_enc_cek_parameters b = None /\ b_enc_content_algorithm b = oid_aes256_gcm /\
    b_enc_content_parameters b = Some ([48; 17; 4; 12] ++ r2 ++ [2; 1; 16]) /\
    encode (gcm_params_tree r2) = Ok ([48; 17; 4; 12] ++ r2 ++ [2; 1; 16]) /\ len r2 = 12 /\
    (wf_emit kid sid r2 enc_cek enc_content = true ->
     exists kb sc, KeyIdentifier_pack kid = Ok kb /\ utf8_encode sid = Ok sc /\
                   strict_parse bs = Some [emitted_tree kb sc enc_cek r2 enc_content]).
Proof.
  intros H Hl. change k_gcm_nonce_len with 12 in Hl. unfold encrypt_blob, cek_generate in H.
  replace (oid_eqb oid_aes256_wrap oid_aes256_wrap) with true in H by (vm_compute; reflexivity). cbn [bind] in H.
  destruct (gcm_parameters r2) as [p|] eqn:Ep; [|discriminate]. cbn [bind] in H.
  destruct (content_encrypt c oid_aes256_gcm (Some p) r1 data) as [enc_content|]; [|discriminate]. cbn [bind] in H.
  destruct (new_kek_rnd c key r3) as [[kek kid]|]; [|discriminate]. cbn [bind] in H.
  destruct (cek_encrypt c oid_aes256_wrap None kek r1) as [enc_cek|]; [|discriminate]. cbn [bind] in H.
  destruct (encrypt_blob_fields kid sid r2 enc_cek enc_content) as [b|] eqn:Eb; [|discriminate]. cbn [bind] in H.
  pose proof (gcm_params_octets r2 Hl) as Eoct. rewrite gcm_parameters_tree, Eoct in Ep. apply Ok_inj in Ep. subst p.
  exists kid, enc_cek, enc_content, b. split; [exact Eb|]. split; [exact H|].
  pose proof Eb as Eb'. unfold encrypt_blob_fields in Eb'. rewrite gcm_parameters_tree, Eoct in Eb'. cbn [bind] in Eb'. apply Ok_inj in Eb'.
  do 4 (split; [subst b; reflexivity|]). split; [exact Eoct|]. split; [exact Hl|].
  intros Hwe. destruct (emitted_strict_parse kid sid r2 enc_cek enc_content true Hwe) as (b2 & kb & sc & ci & Eb2 & _ & Ekb & Esc & Ep2 & _ & Hsp).
  rewrite Eb in Eb2. apply Ok_inj in Eb2. subst b2. unfold trailing in Ep2. rewrite app_nil_r in Ep2. rewrite H in Ep2. apply Ok_inj in Ep2. subst ci.
  exists kb, sc. auto.
Qed.
End WithCrypto.

(* the only source of that nonce in the current source (regenerated kernels of _crypto.cek_generate and _client._encrypt_blob):
   cek_generate draws AESGCM.generate_key(256) then os.urandom(12) and returns both unmodified; in _encrypt_blob
   (cek, cek_iv) = cek_generate(..) and cek_iv goes (only) into parameters.write_octet_string, followed by write_integer(16) *)
Lemma nonce_source : k_cek_generate_draws = (256, k_gcm_nonce_len) /\ k_encrypt_blob_flow = true /\ k_gcm_nonce_len = 12 /\ k_gcm_icv_len = 16.
Proof. repeat split; reflexivity. Qed.
