(* C06: reader/writer facts about one TLV in the form used to walk along the CMS tree of a blob. *)
From V Require Import Prelude.Base Prelude.PyInt Prelude.PySlice Prelude.PyStr gen.K_asn1 gen.C_asn1 Model.Asn1 Spec.DerSpec.
From V Require Import Proofs.Asn1Lib Proofs.Asn1Hdr Proofs.Asn1Tlv Proofs.Asn1Int Proofs.Asn1Oid Proofs.Asn1Str Proofs.Asn1Tree Proofs.C07.

Definition BIG : Z := 4611686018427387904.   (* 2^62: every length met in a blob is far below it *)
Lemma BIG_lt_P126 n : n < BIG -> n < P 126.
Proof. intros H. apply small_lt_P126. unfold BIG in H. lia. Qed.

Definition low_tag (t : tag) : Prop := 0 <= t_class t <= 3 /\ 0 <= t_num t < 31 /\ tag_readable t.

(* enc is the TLV of content c under tag t, with a header the reader parses back *)
Definition tlv_enc (t : tag) (c enc : bytes) : Prop :=
  exists hdr, enc = hdr ++ c /\ 2 <= len hdr <= 128 /\
    forall rest, read_asn1_header (enc ++ rest) = Ok (mk_header t (len hdr) (len c)).

Lemma node_ok t c : low_tag t -> len c < BIG -> exists enc, pack_tlv t c = Ok enc /\ tlv_enc t c enc.
Proof.
  intros (Hc & Hn & Hr) Hl. destruct (pack_tlv_der t c (conj Hc (proj1 Hn)) (BIG_lt_P126 _ Hl)) as (ib & lb & E & Hi & Hlen).
  exists (ib ++ lb ++ c). split; [exact E|]. exists (ib ++ lb). split; [now rewrite <- app_assoc|]. split.
  - rewrite len_app. inversion Hi as [t' _ _ Ht|t' ds _ Hn' _ Ht]; subst; [|lia].
    destruct Hlen as [n Hn'|n ds Hn' Hw Hl' Hv Hh]; unfold len; cbn [length]; lia.
  - intros rest. rewrite <- !app_assoc. rewrite len_app. now apply (read_header_der t).
Qed.

Lemma tlv_len t c enc : tlv_enc t c enc -> len c + 2 <= len enc <= len c + 128.
Proof. intros (hdr & -> & Hh & _). rewrite len_app. lia. Qed.

Lemma tlv_peek t c enc : tlv_enc t c enc ->
  exists h, (forall rest, peek_header (enc ++ rest) = Ok h) /\ h_tag h = t /\ h_tlen h + h_len h = len enc /\ 0 <= h_tlen h /\ h_len h = len c.
Proof.
  intros (hdr & -> & Hh & Hr). eexists. split; [intros rest; apply Hr|]. cbn [h_tag h_tlen h_len]. rewrite len_app. repeat split; lia.
Qed.

(* _validate_tag with or without a previously peeked header *)
Lemma tlv_validate t c enc rest exp ty ho : tlv_enc t c enc ->
  match ho with Some h => peek_header (enc ++ rest) = Ok h | None => True end ->
  match exp, ho with Some e, _ => e = t | None, Some _ => True | None, None => ty = t end ->
  validate_tag (enc ++ rest) exp ty ho = Ok (c, len enc) /\ advance (enc ++ rest) (len enc) = rest.
Proof.
  intros (hdr & -> & Hh & Hr) Hho Hexp. split; [|unfold advance; apply slice_app_r].
  unfold validate_tag.
  assert (Hhd : match ho with Some h => Ok h | None => read_asn1_header ((hdr ++ c) ++ rest) end = Ok (mk_header t (len hdr) (len c))).
  { destruct ho as [h|]; [|apply Hr]. unfold peek_header in Hho. rewrite Hr in Hho. symmetry. exact Hho. }
  rewrite Hhd. cbn [bind h_tag h_tlen h_len].
  assert (Hexp' : match exp with Some e => e | None => match ho with Some h' => h_tag h' | None => ty end end = t).
  { destruct exp as [e|]; [exact Hexp|]. destruct ho as [h|]; [|exact Hexp].
    unfold peek_header in Hho. rewrite Hr in Hho. apply Ok_inj in Hho. subst h. reflexivity. }
  rewrite Hexp', tag_eqb_refl. cbn [negb].
  rewrite <- app_assoc. rewrite slice_app_r. unfold k_vt_short. rewrite len_app.
  pose proof (len_nonneg rest). destruct (len c + len rest <? len c) eqn:E; [lia|].
  rewrite slice_none_l, len_app. reflexivity.
Qed.

Lemma tlv_read_raw t c enc rest exp ty ho : tlv_enc t c enc ->
  match ho with Some h => peek_header (enc ++ rest) = Ok h | None => True end ->
  match exp, ho with Some e, _ => e = t | None, Some _ => True | None, None => ty = t end ->
  read_raw ty (enc ++ rest) exp ho = Ok (c, rest).
Proof.
  intros He Hho Hexp. destruct (tlv_validate t c enc rest exp ty ho He Hho Hexp) as [H1 H2].
  unfold read_raw. rewrite H1. cbn [bind]. rewrite H2. reflexivity.
Qed.
Lemma tlv_read_integer t c enc rest exp z : tlv_enc t c enc ->
  match exp with Some e => e = t | None => universal_tag c_tag_integer false = t end ->
  read_int_content c = Ok z -> read_integer (enc ++ rest) exp None = Ok (z, rest).
Proof.
  intros He Hexp Hz. destruct (tlv_validate t c enc rest exp (universal_tag c_tag_integer false) None He I) as [H1 H2].
  { destruct exp; exact Hexp. }
  unfold read_integer. rewrite H1. cbn [bind]. rewrite Hz. cbn [bind]. rewrite H2. reflexivity.
Qed.
Lemma tlv_read_oid t c enc rest arcs : tlv_enc t c enc -> universal_tag c_tag_oid false = t ->
  read_oid_content c = Ok arcs -> read_object_identifier (enc ++ rest) None None = Ok (arcs, rest).
Proof.
  intros He Hexp Hz. destruct (tlv_validate t c enc rest None (universal_tag c_tag_oid false) None He I Hexp) as [H1 H2].
  unfold read_object_identifier. rewrite H1. cbn [bind]. rewrite Hz. cbn [bind]. rewrite H2. reflexivity.
Qed.
Lemma tlv_read_utf8 t c enc rest s : tlv_enc t c enc -> universal_tag c_tag_utf8 false = t ->
  utf8_decode c = Ok s -> read_utf8_string (enc ++ rest) None None = Ok (s, rest).
Proof.
  intros He Hexp Hz. destruct (tlv_validate t c enc rest None (universal_tag c_tag_utf8 false) None He I Hexp) as [H1 H2].
  unfold read_utf8_string. rewrite H1. cbn [bind]. rewrite Hz. cbn [bind]. rewrite H2. reflexivity.
Qed.

(* tags used by the CMS structures *)
Lemma low_universal n k : universal_ok n = true -> n < 31 -> low_tag (universal_tag n k).
Proof. intros H Hn. destruct (universal_wf n k H) as [Hc Hnn]. repeat split; try (cbn in *; lia). now apply universal_readable. Qed.
Lemma low_seq : low_tag seq_tag. Proof. apply (low_universal c_tag_sequence true); [reflexivity|unfold c_tag_sequence; lia]. Qed.
Lemma low_set : low_tag set_tag. Proof. apply (low_universal c_tag_set true); [reflexivity|unfold c_tag_set; lia]. Qed.
Lemma low_ctx n k : 0 <= n < 31 -> low_tag (mk_tag 2 n k).
Proof. intros H. repeat split; cbn; try lia. intros C. cbn in C. discriminate C. Qed.

Lemma reader_bool_nonempty {x : Z} {r} : reader_bool (x :: r) = true. Proof. reflexivity. Qed.
Lemma reader_bool_nil : reader_bool [] = false. Proof. reflexivity. Qed.

(* OIDs: encoding, bound, read back *)
Definition oid_wf (arcs : list Z) : Prop :=
  match arcs with a :: b :: rest => 0 <= a <= 2 /\ 0 <= b <= 39 /\ Forall (fun x => 0 <= x) rest | _ => False end.
Lemma oid_leaf arcs : oid_wf arcs -> exists c, encode_oid arcs = Ok c /\ read_oid_content c = Ok arcs /\ wfb c = true.
Proof.
  destruct arcs as [|a [|b rest]]; try (intros []; fail). intros (Ha & Hb & Hr).
  destruct (encode_oid_der a b rest Ha Hb Hr) as (c & E & Hd). exists c. split; [exact E|]. split; [now apply read_oid_content_der|].
  destruct Hd as (_ & _ & _ & _ & ds & Hds & ->). apply wfb_concat. clear -Hds.
  induction Hds as [|x d l ds (Hs & _ & _) _ IH]; [reflexivity|]. cbn [forallb]. rewrite IH, andb_true_r.
  clear -Hs. induction Hs as [d Hd|d r Hd Hr IH]; [apply wfb_single; lia|apply wfb_cons; split; [lia|exact IH]].
Qed.
