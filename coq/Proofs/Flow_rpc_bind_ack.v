(* Part 3 of 3 of the _rpc/_bind.py ties (BindAck, AlterContextResponse, BindNak, bind_time_feature_negotiation); see
   Proofs/Flow_rpc_bind_ctx.v for the conventions. *)
From V Require Import Prelude.Base Prelude.PyInt Prelude.PySlice Prelude.PyStr Prelude.PyAst Prelude.PyWorld gen.F_rpc.
From V Require Import Model.Pdu Model.Request Model.RpcLoop Model.Bind Model.Verification Model.Epm Flow.World_rpc Proofs.Flow_rpc_lib Proofs.Flow_rpc_wf.
From V Require Import Proofs.RpcTotalLib Proofs.RpcTotalPdu.
Local Open Scope string_scope.
Local Open Scope list_scope.
Local Open Scope Z_scope.

Lemma results_of_inj l : results_of (map (fun s => VO (OContextResult s)) l) = Some l.
Proof. induction l as [|a r IH]; [reflexivity|]. cbn. rewrite IH. reflexivity. Qed.

Lemma versions_of_inj l : versions_of (map (fun v => VT [VI (fst v); VI (snd v)]) l) = Some l.
Proof. induction l as [|[a b] r IH]; [reflexivity|]. cbn. rewrite IH. reflexivity. Qed.

Lemma flow_bindack_unpack_as c mf mfuel fuel data h st : (c = CBindAck \/ c = CAlterContextResponse) ->
  bind_ack_unpack mfuel data h st <> Raise OutOfFuel ->
  run (W mf) fuel k_flow_bindack_unpack [VO (OCls c); VB data; VO (OHeader h); vst st] =
  lift_fst OBindAck (bind_ack_unpack mfuel data h st).
Proof.
  unfold bind_ack_unpack, lift_fst, k_flow_bindack_unpack, k_bindack_unpack_pad. intros Hc Hne.
  match goal with |- context [SFor ?a ?b ?c] => remember (SFor a b c) as loop end.
  tie. subst loop. rewrite exec_for. cbn.
  match goal with H : utf8_decode _ = Ok ?l |- _ => rename l into sa end.
  loop_setup (fun (s : bytes * list context_result) (e : @penv V) =>
     lookup "view" e = Some (VB (fst s)) /\ lookup "results" e = Some (vresults (snd s))
     /\ lookup "cls" e = Some (VO (OCls c)) /\ lookup "header" e = Some (VO (OHeader h)) /\ lookup "sec_trailer" e = Some (vst st)
     /\ lookup "max_xmit_frag" e = Some (VI (le_val (slice None (Some 2) data)))
     /\ lookup "max_recv_frag" e = Some (VI (le_val (slice (Some 2) (Some 4) data)))
     /\ lookup "assoc_group" e = Some (VI (le_val (slice (Some 4) (Some 8) data)))
     /\ lookup "sec_addr" e = Some (VS sa)).
  match type of HL with ?A -> _ => assert (Hb : A) end.
  { intros [view acc] env v (Hv & Ht & H1 & H2 & H3 & H4 & H5 & H6 & H7). cbn [fst snd] in *.
    tie.
    eexists; split; [reflexivity|]. cbn. unfold vresults. rewrite map_app. cbn. repeat split; auto. }
  specialize (HL Hb). cbn [fst snd] in HL. clear Hb.
  match type of HL with ?A -> _ => assert (HR : A) by (cbn; repeat split; auto) end.
  specialize (HL HR). clear HR. cbn [bind] in Hne.
  destruct (for_range _ _ _ _ _) as [[[view' acc'] t]|e] eqn:EF.
  - destruct HL as [env' [He (Hv & Ht & H1 & H2 & H3 & H4 & H5 & H6 & H7)]]; [congruence|]. cbn [fst snd] in *.
    rewrite He. unfold vresults in *. tie.
    destruct Hc; subst c; destruct st; cbn; rewrite results_of_inj; reflexivity.
  - rewrite HL by (cbn in Hne; congruence). reflexivity.
Qed.
(* BindNak._unpack passes sec_trailer=None whatever it was given *)
Lemma flow_bindnak_unpack mf mfuel fuel data h st :
  bind_nak_unpack mfuel data h st <> Raise OutOfFuel ->
  run (W mf) fuel k_flow_bindnak_unpack [VO (OCls CBindNak); VB data; VO (OHeader h); vst st] =
  lift_fst OBindNak (bind_nak_unpack mfuel data h st).
Proof.
  unfold bind_nak_unpack, lift_fst, k_flow_bindnak_unpack. intros Hne.
  match goal with |- context [SFor ?a ?b ?c] => remember (SFor a b c) as loop end.
  tie. subst loop. rewrite exec_for. cbn.
  loop_setup (fun (s : bytes * list (Z * Z)) (e : @penv V) =>
     lookup "view" e = Some (VB (fst s)) /\ lookup "versions" e = Some (vversions (snd s))
     /\ lookup "cls" e = Some (VO (OCls CBindNak)) /\ lookup "header" e = Some (VO (OHeader h))
     /\ lookup "reject_reason" e = Some (VI (le_val (slice None (Some 2) data)))).
  match type of HL with ?A -> _ => assert (Hb : A) end.
  { intros [view acc] env v (Hv & Ht & H1 & H2 & H3). cbn [fst snd] in *.
    tie.
    eexists; split; [reflexivity|]. cbn. unfold vversions. rewrite map_app. cbn. repeat split; auto. }
  specialize (HL Hb). cbn [fst snd] in HL. clear Hb.
  match type of HL with ?A -> _ => assert (HR : A) by (cbn; repeat split; auto) end.
  specialize (HL HR). clear HR. cbn [bind] in Hne.
  destruct (for_range _ _ _ _ _) as [[[view' acc'] t]|e] eqn:EF.
  - destruct HL as [env' [He (Hv & Ht & H1 & H2 & H3)]]; [congruence|]. cbn [fst snd] in *.
    rewrite He. unfold vversions in *. tie. rewrite versions_of_inj. reflexivity.
  - rewrite HL by (cbn in Hne; congruence). reflexivity.
Qed.

Lemma flow_bindack_unpack mf mfuel fuel data h st : bind_ack_unpack mfuel data h st <> Raise OutOfFuel ->
  run (W mf) fuel k_flow_bindack_unpack [VO (OCls CBindAck); VB data; VO (OHeader h); vst st] = lift_fst OBindAck (bind_ack_unpack mfuel data h st).
Proof. apply flow_bindack_unpack_as. auto. Qed.

Lemma flow_altercontextresponse_unpack mf fuel data h st :
  run (W mf) fuel k_flow_altercontextresponse_unpack [VO (OCls CAlterContextResponse); VB data; VO (OHeader h); vst st] =
  lift_fst OBindAck (bind_ack_unpack mf data h st).
Proof. unfold lift_fst. destruct st; tie. Qed.

Lemma flow_altercontextresponse_unpack_body mf mfuel fuel data h st : bind_ack_unpack mfuel data h st <> Raise OutOfFuel ->
  run (W mf) fuel k_flow_bindack_unpack [VO (OCls CAlterContextResponse); VB data; VO (OHeader h); vst st] = lift_fst OBindAck (bind_ack_unpack mfuel data h st).
Proof. apply flow_bindack_unpack_as. auto. Qed.
Local Arguments utf8_encode : simpl never.
Lemma flow_bindack_pack mf fuel m :
  run (W mf) fuel k_flow_bindack_pack [VO (OBindAck m)] =
  (let* bsa := sec_addr_bytes (ba_sec_addr m) in
   chk (bind_ack_ranges m bsa)
       (pdu_header_pack (ba_header m) ++ bind_ack_body_of m bsa ++ opt_sec_trailer_pack (ba_sec_trailer m))).
Proof.
  unfold sec_addr_bytes, bind_ack_body_of, opt_sec_trailer_pack, bind_ack_ranges, chk, k_flow_bindack_pack, k_bindack_pack_pad.
  destruct m as [h st mx mr ag sa rs].
  match goal with |- context [SAssign ["b_result"] ?e] => remember e as jc eqn:Hjc end.
  destruct sa as [|ch sa].
  - destruct st as [st|]; tie1. all: comp_step OContextResult context_result_ranges context_result_pack; tie.
  - assert (Hl : (len (ch :: sa) =? 0) = false) by (rewrite len_cons; pose proof (len_nonneg sa); lia).
    destruct st as [st|]; tie1; rewrite Hl; tie1; dbind; tie1.
    all: comp_step OContextResult context_result_ranges context_result_pack; tie.
Qed.

Definition nak_protocol (v : Z * Z) : bytes := le 1 (fst v) ++ le 1 (snd v).

Lemma comp_nak_protocols mf : forall l env,
  comp_each (W mf)
    (PBin "+" (PMeth "to_bytes/byteorder" (PSub (PName "v") (PInt 0)) [PInt 1; PStr [108; 105; 116; 116; 108; 101]])
              (PMeth "to_bytes/byteorder" (PSub (PName "v") (PInt 1)) [PInt 1; PStr [108; 105; 116; 116; 108; 101]]))
    ["v"] [] (map (fun v => VT [VI (fst v); VI (snd v)]) l) env
  = if forallb (fun v => in_range 1 (fst v) && in_range 1 (snd v)) l then Ok (map VB (map nak_protocol l)) else Raise OverflowError.
Proof.
  induction l as [|[a b] r IH]; intros env; [reflexivity|].
  cbn [map forallb fst snd]. rewrite comp_each_cons. tie. all: rewrite ?IH; tie. destruct (forallb _ r); reflexivity.
Qed.

Lemma flow_bindnak_pack mf fuel m :
  run (W mf) fuel k_flow_bindnak_pack [VO (OBindNak m)] = chk (bind_nak_ranges m) (bind_nak_pack m).
Proof.
  unfold bind_nak_pack, bind_nak_body, bind_nak_ranges, chk, k_flow_bindnak_pack, k_bindnak_pad. destruct m as [h st rr vs].
  match goal with |- context [SAssign ["protocols"] ?e] => remember e as pc eqn:Hpc end.
  tie1. rewrite Hpc, eval_comp. cbn. unfold vversions. cbn. rewrite comp_nak_protocols.
  destruct (forallb _ vs); [|reflexivity].
  tie.
  all: rewrite ?repeat_list_0, ?len_map; try reflexivity.
Qed.
(* bind_time_feature_negotiation(flags): flags is a BindTimeFeatureNegotiation IntFlag; uuid.UUID(fields=..) wants an octet *)
Lemma flow_btfn mf fuel flags :
  run (W mf) fuel k_flow_btfn [VI flags] =
  if in_range 1 flags then Ok (VO (OSyntaxId (bind_time_feature_negotiation flags))) else Raise ValueError.
Proof.
  unfold bind_time_feature_negotiation. cbn. unfold uuid_of_fields.
  replace (in_range 4 1823939628) with true by reflexivity.
  replace (in_range 2 38930) with true by reflexivity.
  replace (in_range 2 17728) with true by reflexivity.
  replace (in_range 1 0) with true by reflexivity.
  replace (in_range 6 0) with true by reflexivity.
  cbn [andb]. rewrite andb_true_r. destruct (in_range 1 flags); reflexivity.
Qed.

Lemma flow_bindack_unpack_total mf mfuel fuel data h st : len data < Z.of_nat mfuel ->
  run (W mf) fuel k_flow_bindack_unpack [VO (OCls CBindAck); VB data; VO (OHeader h); vst st] = lift_fst OBindAck (bind_ack_unpack mfuel data h st).
Proof. intros H. apply flow_bindack_unpack. exact (proj1 (total_le_spec _ _ (bind_ack_unpack_total mfuel data h st H))). Qed.

Lemma flow_bindnak_unpack_total mf mfuel fuel data h st : len data < Z.of_nat mfuel ->
  run (W mf) fuel k_flow_bindnak_unpack [VO (OCls CBindNak); VB data; VO (OHeader h); vst st] = lift_fst OBindNak (bind_nak_unpack mfuel data h st).
Proof. intros H. apply flow_bindnak_unpack. exact (proj1 (total_le_spec _ _ (bind_nak_unpack_total mfuel data h st H))). Qed.

Lemma flow_bindack_pack_wf mf fuel pt m packed bsa :
  sec_addr_bytes (ba_sec_addr m) = Ok bsa -> wf_bind_ack_as pt m packed bsa = true ->
  run (W mf) fuel k_flow_bindack_pack [VO (OBindAck m)] = (let* p := bind_ack_pack m in Ok (VB p)).
Proof.
  intros Hs H. rewrite flow_bindack_pack. unfold bind_ack_pack. rewrite Hs. cbn [bind].
  rewrite (wf_bind_ack_ranges pt m packed bsa H). reflexivity.
Qed.
